(* C15 -- A change to anything a served resource depends on reaches that resource.
   Only statements, each closed by [exact], each followed by Print Assumptions.

   The statement planned in DESIGN.md,
       C15_consulted_subset_findable :
         forall e cl r p k ky ns name, cluster_wf cl -> resource_wf r -> valid_name ns -> valid_name name ->
           In (p, (k, ky)) (consulted e cl r) -> ky = key ns name -> reaches e cl k ns name r = true,
   is FALSE of the faithful model ([C15_consulted_subset_findable_refuted]).  What is proved instead:
   the statement with exactly the positions of [refuted_pos] excluded (_partial), the full statement for
   Ingresses, mergeable Ingresses and TransportServers, the full statement for the Service kind once
   fixes/F19a.diff is applied, and a concrete counterexample for every excluded position. *)
From Coq Require Import List String Bool.
From NIC Require Import Refs.Model Refs.Proofs.
Import ListNotations.
Open Scope string_scope.
Open Scope list_scope.

(* Every dependency the create*Ex functions consult -- in any position of a resource with arbitrarily
   many TLS entries, rules, paths, minions, upstreams, routes, subroutes, VirtualServerRoutes and
   policy references, for any cluster content -- is mapped back to the resource by the reverse path
   of the object's kind (reference checker, plus the secret/AppProtect -> policy -> resource hop, plus
   the endpoints filter), for every existing object (ns, name) whose key the look-up used;
   except in the positions [refuted_pos] lists. *)
Theorem C15_consulted_subset_findable_partial :
  forall e cl r p k ky ns name,
    cluster_wf cl -> resource_wf r -> valid_name ns -> valid_name name ->
    In (p, (k, ky)) (consulted e cl r) -> refuted_pos e p k = false -> ky = key ns name ->
    reaches e cl k ns name r = true.
Proof. exact consulted_reachable_partial. Qed.
Print Assumptions C15_consulted_subset_findable_partial.

(* The exclusion cannot be dropped. *)
Theorem C15_consulted_subset_findable_refuted :
  ~ (forall e cl r p k ky ns name,
        cluster_wf cl -> resource_wf r -> valid_name ns -> valid_name name ->
        In (p, (k, ky)) (consulted e cl r) -> ky = key ns name -> reaches e cl k ns name r = true).
Proof. exact consulted_subset_findable_refuted. Qed.
Print Assumptions C15_consulted_subset_findable_refuted.

(* F19a: the backup Service of a VirtualServerRoute upstream is consulted, and no checker finds it. *)
Theorem C15_vsr_backup_service_refuted :
  exists e cl r p ky ns name,
    cluster_wf cl /\ resource_wf r /\ valid_name ns /\ valid_name name /\ ky = key ns name /\
    In (p, (KService, ky)) (consulted e cl r) /\ reaches e cl KService ns name r = false.
Proof. exact vsr_backup_service_refuted. Qed.
Print Assumptions C15_vsr_backup_service_refuted.

(* F19c: the endpoints of a backup Service with pods are consulted, the endpoints filter drops them. *)
Theorem C15_vs_backup_endpoints_refuted :
  exists e cl r p ky ns name,
    cluster_wf cl /\ resource_wf r /\ valid_name ns /\ valid_name name /\ ky = key ns name /\
    In (p, (KEndpoints, ky)) (consulted e cl r) /\ reaches e cl KEndpoints ns name r = false.
Proof. exact vs_backup_endpoints_refuted. Qed.
Print Assumptions C15_vs_backup_endpoints_refuted.

(* Full statement (no position excluded) for every resource that is not a VirtualServer. *)
Theorem C15_ingress_transportserver_full :
  forall e cl r p k ky ns name,
    not_vs r -> cluster_wf cl -> resource_wf r -> valid_name ns -> valid_name name ->
    In (p, (k, ky)) (consulted e cl r) -> ky = key ns name ->
    reaches e cl k ns name r = true.
Proof. exact consulted_reachable_ingress_ts. Qed.
Print Assumptions C15_ingress_transportserver_full.

(* With fixes/F19a.diff applied, every consulted Service of every resource is found. *)
Theorem C15_service_complete_with_fix :
  forall e cl r p ky ns name,
    vsr_backup_fix e = true ->
    cluster_wf cl -> resource_wf r -> valid_name ns -> valid_name name ->
    In (p, (KService, ky)) (consulted e cl r) -> ky = key ns name ->
    reaches e cl KService ns name r = true.
Proof. exact consulted_service_reachable_fixed. Qed.
Print Assumptions C15_service_complete_with_fix.

(* The App Protect DoS chain spelled out: an APDosPolicy / APDosLogConf that GetValidDosEx consults behind a
   DosProtectedResource (named by an Ingress annotation, VirtualServer spec.dos, a route or a subroute) is mapped back
   through GetDosProtectedThatReferencedDosPolicy / ...DosLogConf and FindResourcesForAppProtectDosProtected, and every
   add, delete and update the handler lets through -- to a valid or to an INVALID version -- reaches the resource. *)
Theorem C15_dos_chain_events :
  forall e cl r p k ky ns name o relevant,
    k = KDosPolicy \/ k = KDosLogConf ->
    cluster_wf cl -> resource_wf r -> valid_name ns -> valid_name name ->
    In (p, (k, ky)) (consulted e cl r) -> ky = key ns name ->
    (o = Update -> relevant = true) ->
    event_reaches e cl k o relevant ns name r = true.
Proof. exact dos_chain_events. Qed.
Print Assumptions C15_dos_chain_events.

(* Any number of served resources: whatever else the Configuration serves (other kinds with the same
   namespace and name, other hosts), each resource that consults the object is in the set the reverse
   path returns; and that set is the union over the parts of the served list. *)
Theorem C15_served_set_partial :
  forall e cl served r p k ky ns name,
    In r served ->
    cluster_wf cl -> resource_wf r -> valid_name ns -> valid_name name ->
    In (p, (k, ky)) (consulted e cl r) -> refuted_pos e p k = false -> ky = key ns name ->
    In r (reached_set e cl k ns name served).
Proof. exact served_set_reachable_partial. Qed.
Print Assumptions C15_served_set_partial.

Theorem C15_served_set_is_union :
  forall e cl k ns name a b,
    reached_set e cl k ns name (a ++ b) = reached_set e cl k ns name a ++ reached_set e cl k ns name b.
Proof. exact reached_set_app. Qed.
Print Assumptions C15_served_set_is_union.

(* Add, update and delete events of every dependency kind run a sync function that regenerates the
   resource -- except the deletion of an EndpointSlice (unless fixes/F19b.diff is applied), and an update that the handler's filter
   (hasServiceChanges for a Service, a spec comparison for the custom resources) does not let through. *)
Theorem C15_event_reaches_partial :
  forall e cl r p k ky ns name o relevant,
    cluster_wf cl -> resource_wf r -> valid_name ns -> valid_name name ->
    In (p, (k, ky)) (consulted e cl r) -> refuted_pos e p k = false -> ky = key ns name ->
    (k = KEndpoints -> o = Delete -> slice_delete_fix e = true) ->
    (o = Update -> relevant = true) ->
    event_reaches e cl k o relevant ns name r = true.
Proof. exact event_reaches_partial. Qed.
Print Assumptions C15_event_reaches_partial.

(* With fixes/F19a.diff and fixes/F19c.diff the planned statement holds in full: every consulted dependency, in
   every position of every resource, is mapped back. *)
Theorem C15_consulted_subset_findable_with_fixes :
  forall e cl r p k ky ns name,
    vsr_backup_fix e = true -> backup_ep_fix e = true ->
    cluster_wf cl -> resource_wf r -> valid_name ns -> valid_name name ->
    In (p, (k, ky)) (consulted e cl r) -> ky = key ns name ->
    reaches e cl k ns name r = true.
Proof. exact consulted_reachable_fixed. Qed.
Print Assumptions C15_consulted_subset_findable_with_fixes.

(* With fixes/F19b.diff as well, every add, delete and relevant update of every dependency reaches the resource
   (the deletion of an EndpointSlice through the Service it belonged to, which exists because its endpoints
   were consulted). *)
Theorem C15_event_reaches_with_fixes :
  forall e cl r p k ky ns name o relevant,
    vsr_backup_fix e = true -> backup_ep_fix e = true -> slice_delete_fix e = true ->
    cluster_wf cl -> resource_wf r -> valid_name ns -> valid_name name ->
    In (p, (k, ky)) (consulted e cl r) -> ky = key ns name ->
    (o = Update -> relevant = true) ->
    event_reaches e cl k o relevant ns name r = true.
Proof. exact event_reaches_fixed. Qed.
Print Assumptions C15_event_reaches_with_fixes.

(* F19b: without fixes/F19b.diff syncEndpointSlices drops the deletion of an EndpointSlice, for every resource ... *)
Theorem C15_endpointslice_delete_refuted :
  forall e cl relevant ns name r,
    slice_delete_fix e = false -> event_reaches e cl KEndpoints Delete relevant ns name r = false.
Proof. exact endpointslice_delete_refuted. Qed.
Print Assumptions C15_endpointslice_delete_refuted.

(* ... including one whose configuration depends on it and which an update of the same object reaches. *)
Theorem C15_endpointslice_delete_witness :
  exists e cl r p ky ns name,
    ky = key ns name /\ In (p, (KEndpoints, ky)) (consulted e cl r) /\ refuted_pos e p KEndpoints = false /\
    event_reaches e cl KEndpoints Update true ns name r = true /\
    event_reaches e cl KEndpoints Delete true ns name r = false.
Proof. exact endpointslice_delete_consulted. Qed.
Print Assumptions C15_endpointslice_delete_witness.

(* Non-vacuity: a VirtualServer in ns1 whose route names a policy of ns2 (cross-namespace) that names a
   JWT secret; a VirtualServerRoute in ns2 with a WAF policy on a subroute; DoS at spec and route level, the
   DosProtectedResource of the spec naming an APDosPolicy of its own namespace and an APDosLogConf of another one. *)
Definition ex_env : env := {| plus := true; ap_enabled := true; dos_enabled := true; vsr_backup_fix := false; backup_ep_fix := false; slice_delete_fix := false |}.
Definition ex_pol_jwt : policy :=
  {| p_ns := "ns2"; p_name := "jwt"; p_valid := true; p_class_ok := true; p_jwt := Some ("jwk", false); p_basic := None;
     p_ingress_mtls := None; p_egress_mtls := None; p_oidc := None; p_apikey := None; p_waf := None |}.
Definition ex_pol_waf : policy :=
  {| p_ns := "ns2"; p_name := "waf"; p_valid := true; p_class_ok := true; p_jwt := None; p_basic := None;
     p_ingress_mtls := None; p_egress_mtls := None; p_oidc := None; p_apikey := None;
     p_waf := Some {| w_ap_policy := "ns1/dataguard"; w_seclog := None; w_seclogs := Some ["logconf"] |} |}.
Definition ex_cl : cluster :=
  {| cl_policies := [ex_pol_jwt; ex_pol_waf]; cl_secrets_ok := ["ns2/jwk"];
     cl_ap_ok := [(KApPolicy, "ns1/dataguard"); (KApLogConf, "ns2/logconf"); (KDosPolicy, "ns1/dpol"); (KDosLogConf, "ns2/dlog")];
     cl_services := [("ns1/tea", SvcPods); ("ns2/coffee", SvcPods)];
     cl_dos := [{| d_ns := "ns1"; d_name := "dos"; d_valid := true; d_policy := "dpol"; d_logconf := Some "ns2/dlog" |}] |}.
Definition ex_vs : resource :=
  RVS {| vs_ns := "ns1"; vs_tls := Some "tls"; vs_policies := []; vs_dos := "dos";
         vs_upstreams := [{| u_service := "tea"; u_backup := ""; u_backup_port := false; u_subselector := false; u_use_cluster_ip := false |}];
         vs_routes := [{| rt_policies := [{| pr_name := "jwt"; pr_ns := "ns2" |}]; rt_dos := "ns2/dos" |}];
         vs_vsrs := [{| vsr_ns := "ns2";
                        vsr_subroutes := [{| rt_policies := [{| pr_name := "waf"; pr_ns := "" |}]; rt_dos := "" |}];
                        vsr_upstreams := [{| u_service := "coffee"; u_backup := ""; u_backup_port := false; u_subselector := true; u_use_cluster_ip := false |}] |}] |}.

Example C15_nonvacuous_consulted :
  map snd (consulted ex_env ex_cl ex_vs) =
  [(KSecret, "ns1/tls"); (KDos, "ns1/dos"); (KDosPolicy, "ns1/dpol"); (KDosLogConf, "ns2/dlog");
   (KService, "ns1/tea"); (KEndpoints, "ns1/tea");
   (KPolicy, "ns2/jwt"); (KSecret, "ns2/jwk"); (KDos, "ns2/dos");
   (KPolicy, "ns2/waf"); (KApPolicy, "ns1/dataguard"); (KApLogConf, "ns2/logconf");
   (KService, "ns2/coffee"); (KEndpoints, "ns2/coffee")].
Proof. vm_compute. reflexivity. Qed.

Example C15_nonvacuous_reached :
  forallb (fun d => match d with (k, ns, name) => reaches ex_env ex_cl k ns name ex_vs end)
    [(KSecret, "ns1", "tls"); (KDos, "ns1", "dos"); (KDosPolicy, "ns1", "dpol"); (KDosLogConf, "ns2", "dlog"); (KService, "ns1", "tea"); (KEndpoints, "ns1", "tea");
     (KPolicy, "ns2", "jwt"); (KSecret, "ns2", "jwk"); (KDos, "ns2", "dos"); (KPolicy, "ns2", "waf");
     (KApPolicy, "ns1", "dataguard"); (KApLogConf, "ns2", "logconf"); (KService, "ns2", "coffee"); (KEndpoints, "ns2", "coffee")] = true
  /\ reaches ex_env ex_cl KSecret "ns1" "jwk" ex_vs = false
  /\ reaches ex_env ex_cl KService "ns2" "tea" ex_vs = false
  /\ reaches ex_env ex_cl KDosPolicy "ns2" "dpol" ex_vs = false.
Proof. vm_compute. repeat split. Qed.
