(* C05 verdict 3 never occurs: the flag invariant over histories *)
From Coq Require Import List ZArith String Ascii Bool Lia.
From NIC Require Import Base.SMap Arb.Types Arb.Model Arb.Spec Arb.WinsProofs Arb.InvProofs Arb.OwnerProofs
     Arb.ListenerProofs Arb.ClassProofs Arb.ChangeProofs Arb.ReportProofs Arb.ComposeProofs Arb.Cases Arb.MinionProofs Arb.ShadowProofs Arb.ShadowAttrs.
From NIC Require Import Arb.Truth01 Arb.Truth02 Arb.Truth03 Arb.Truth04 Arb.Truth05 Arb.Truth06 Arb.Truth07 Arb.Truth08 Arb.Truth09 Arb.Truth10
     Arb.Truth11 Arb.Truth12 Arb.Truth13 Arb.Truth14 Arb.Truth15 Arb.Truth16 Arb.Truth17 Arb.Truth18 Arb.Truth19 Arb.Truth20 Arb.Truth21 Arb.Truth22 Arb.Truth23 Arb.Truth24.
From NIC Require Import Arb.MinionGen1 Arb.MinionGen2 Arb.Truth25.
Import ListNotations.
Open Scope string_scope.
Open Scope Z_scope.

(* a UID belongs to one name: what the API server guarantees *)
Definition uid_hist (E : list event) : Prop :=
  forall a b, In (EIng a true true) E -> In (EIng b true true) E -> m_uid (i_meta a) = m_uid (i_meta b) -> mkey (i_meta a) = mkey (i_meta b).

Lemma allowed_mono E E' o : (forall e, In e E -> In e E') -> allowed E o -> allowed E' o.
Proof. intros Hs (A1 & A2 & A3 & A4). repeat split; eauto. Qed.

Lemma allowed_after es : allowed es (objs_after es).
Proof.
  induction es as [|e r IH] using rev_ind; [repeat split; intros ? ? []|].
  rewrite objs_after_snoc. apply allowed_event; [|apply in_or_app; right; left; reflexivity].
  apply (allowed_mono r); [intros x Hx; apply in_or_app; left; exact Hx|exact IH].
Qed.

Lemma uids_ok_after es : uid_hist es -> uids_ok (objs_after es).
Proof.
  intros HU k1 k2 i j Hi Hj Hu. destruct (allowed_after es) as (A1 & _).
  pose proof (HU i j (A1 _ _ Hi) (A1 _ _ Hj) Hu) as Hk.
  destruct (objs_after_ok es) as (W1 & _ & _ & _ & K1 & _).
  exact (same_stored (fun i => mkey (i_meta i)) _ k1 k2 i j W1 K1 Hi Hj Hk).
Qed.

Lemma uid_hist_prefix es e : uid_hist (es ++ [e])%list -> uid_hist es.
Proof. intros H a b Ha Hb. apply H; apply in_or_app; left; assumption. Qed.

(* the origin of a success report, with its warning flag *)
Lemma ok_report_origin e inc cs k w :
  In (k, ROk w) (chg_reports e inc cs) -> exists ch, In ch cs /\ c_op ch = AddOrUpdate /\
    (k = ckey ch \/
     (exists ic m, c_res ch = RIng ic /\ In m (ic_minions ic) /\ k = "Ingress/" ++ key_of_ing (mc_ing m) /\
                   w = nonempty (get [] (key_of_ing (mc_ing m)) (ic_child_warnings ic))) \/
     (exists vc x, c_res ch = RVS vc /\ In x (vc_vsrs vc) /\ k = vsr_pkey x)).
Proof.
  unfold chg_reports. intros H.
  assert (G : exists ch, In ch cs /\ (In (k, ROk w) (reports_of_gc_change ch) \/ In (k, ROk w) (reports_of_change inc ch))).
  { destruct (is_gc_event e); apply in_flat_map in H; destruct H as (ch & Hch & Hin); exists ch; auto. }
  destruct G as (ch & Hch & Hin). exists ch. split; [exact Hch|].
  destruct Hin as [Hin|Hin].
  - unfold reports_of_gc_change in Hin. destruct (c_op ch) eqn:Hop; [destruct (c_res ch); destruct Hin|].
    split; [reflexivity|]. destruct (c_res ch) as [ic|vc|tc] eqn:Hr; [destruct Hin| |].
    + destruct Hin as [Heq|Hin]; [inversion Heq; left; unfold ckey; rewrite Hr; reflexivity|].
      apply in_map_iff in Hin. destruct Hin as (x & Heq & Hx). inversion Heq; subst. apply filter_In in Hx.
      right; right. exists vc, x. tauto.
    + destruct Hin as [Heq|[]]. inversion Heq. left. unfold ckey. rewrite Hr. reflexivity.
  - unfold reports_of_change in Hin. destruct (c_op ch) eqn:Hop.
    + destruct (inc (rkey (c_res ch)) && (c_err ch || nonempty (res_warnings (c_res ch)))); [|destruct Hin].
      destruct Hin as [Heq|[]]. discriminate Heq.
    + split; [reflexivity|]. destruct Hin as [Heq|Hin]; [inversion Heq; left; reflexivity|].
      destruct (c_res ch) as [ic|vc|tc] eqn:Hr.
      * apply in_map_iff in Hin. destruct Hin as (m & Heq & Hm). inversion Heq; subst. right; left. exists ic, m. auto.
      * apply in_map_iff in Hin. destruct Hin as (x & Heq & Hx). inversion Heq; subst. apply filter_In in Hx.
        right; right. exists vc, x. tauto.
      * destruct Hin.
Qed.

Section St.
  Variables (c : cfg) (es : list event).
  Hypothesis Hy : hyps c es.
  Let S := run c es.

  (* an applied minion is attached to an active master *)
  Lemma minion_applied_clause i : lookup (mkey (i_meta i)) (o_ings (objs_after es)) = Some i -> is_minion i = true -> Ap S (ing_rkey i) ->
    exists M ic m, lookup M (get_resources S) = Some (RIng ic) /\ In m (ic_minions ic) /\ mc_ing m = i.
  Proof.
    intros Li Hm HA.
    assert (Hst : In (mkey (i_meta i), i) (o_ings (objs_of_state S))) by (unfold S; rewrite (st_objs c es); apply lookup_In; exact Li).
    destruct HA as [HA|[(M & ic & m & LM & Hmm & E)|(V & vc & x & _ & _ & E)]].
    - exfalso. apply (Ap1_iff c es) in HA. destruct (run_fn_inv c es) as [Hh Hl]. destruct HA as [HA|HA].
      + rewrite Hh in HA. exact (minion_not_resource c _ (h_cm _ _ Hy) (st_ok c es) _ i Hst Hm HA).
      + rewrite Hl in HA. destruct (lkey_in _ _ HA) as (k1 & t & _ & _ & E). clash E.
    - exists M, ic, m. split; [exact LM|]. split; [exact Hmm|].
      destruct (GR_in_hosts c S M _ (run_fn_inv c es) (st_ok c es) (st_roles c es Hy) LM) as (h & Hh).
      exact (proj1 (attached_is_minion c _ (h_cm _ _ Hy) (st_ok c es) (st_wf c es Hy) _ i h ic m Hst Hh Hmm E)).
    - clash E.
  Qed.

  (* whether a minion serves a path depends only on the minions attached to its master *)
  Lemma serves_by_master M ic m : lookup M (get_resources S) = Some (RIng ic) -> In m (ic_minions ic) ->
    minion_serves (objs_after es) (mc_ing m) =
    existsb (fun p => match least (claimants (claims_of (map mc_ing (ic_minions ic))) p) with
                      | Some y => String.eqb (fst y) (key_of_ing (mc_ing m)) | None => false end) (i_paths (mc_ing m)).
  Proof.
    intros LM Hm. destruct (GR_in_hosts c S M _ (run_fn_inv c es) (st_ok c es) (st_roles c es Hy) LM) as (h & Hh).
    destruct (attached_minion_facts c _ (h_cm _ _ Hy) (st_ok c es) (st_wf c es Hy) h ic m Hh Hm) as (_ & _ & Hmas & Hhost & _ & _).
    pose proof (b_hosts_res _ _ _ _ _ _ _ _ Hh) as Hres.
    pose proof (res_shape c (h_cm _ _ Hy) _ _ _ Hres) as (_ & _ & Hmins). rewrite Hmas in Hmins.
    unfold minion_serves. rewrite <- (st_objs c es). fold S. rewrite Hhost.
    change (path_claims (o_ings (objs_of_state S)) (host0 (ic_ing ic))) with (claims_of (minions_of (o_ings (objs_of_state S)) (host0 (ic_ing ic)))).
    rewrite <- build_minions_list, <- Hmins. reflexivity.
  Qed.
End St.
