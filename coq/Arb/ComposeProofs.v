(* C04: composition of VirtualServers with their routes and of masters with their minions. *)
From Coq Require Import List ZArith String Ascii Bool Lia.
From NIC Require Import Base.SMap Arb.Types Arb.Model Arb.Spec Arb.WinsProofs Arb.InvProofs.
Import ListNotations.
Open Scope Z_scope.

(* the routes attached by buildVirtualServerRoutes are exactly the referenced, existing routes that
   pass the per-reference check; nothing else; in route order *)
Theorem vsrs_exact rs v : forall routes r,
  In r (fst (build_vsrs rs v routes)) <->
  exists path route, In (path, route) routes /\ route <> ""%string /\
                     lookup (route_key v route) rs = Some r /\ vsr_ok_for r (v_host v) path = true.
Proof.
  induction routes as [|[path route] rest IH]; intros r; cbn [build_vsrs].
  - cbn. split; [tauto|intros (p & q & [] & _)].
  - destruct (build_vsrs rs v rest) as [l w] eqn:Hb. cbn [fst] in IH.
    destruct (String.eqb route "") eqn:He.
    + apply String.eqb_eq in He. subst route. cbn [fst]. rewrite IH. split.
      * intros (p & q & Hin & H). exists p, q. split; [right; exact Hin|exact H].
      * intros (p & q & [Heq|Hin] & Hne & H); [inversion Heq; subst; congruence|]. exists p, q. auto.
    + apply String.eqb_neq in He.
      destruct (lookup (route_key v route) rs) as [r0|] eqn:Hl.
      * destruct (vsr_ok_for r0 (v_host v) path) eqn:Hok; cbn [fst].
        -- split.
           ++ intros [<-|Hin]; [exists path, route; repeat split; auto; left; reflexivity|].
              apply IH in Hin. destruct Hin as (p & q & Hin & H). exists p, q. split; [right; exact Hin|exact H].
           ++ intros (p & q & [Heq|Hin] & Hne & Hlk & Hv).
              ** inversion Heq; subst. left. congruence.
              ** right. apply IH. exists p, q. auto.
        -- rewrite IH. split.
           ++ intros (p & q & Hin & H). exists p, q. split; [right; exact Hin|exact H].
           ++ intros (p & q & [Heq|Hin] & Hne & Hlk & Hv); [inversion Heq; subst; congruence|]. exists p, q. auto.
      * cbn [fst]. rewrite IH. split.
        -- intros (p & q & Hin & H). exists p, q. split; [right; exact Hin|exact H].
        -- intros (p & q & [Heq|Hin] & Hne & Hlk & Hv); [inversion Heq; subst; congruence|]. exists p, q. auto.
Qed.

(* what the per-reference check means *)
Theorem vsr_ok_for_meaning r host path :
  host <> ""%string ->
  vsr_ok_for r host path = true ->
  r_host r = host /\
  (is_regex_or_exact path = true -> r_subpaths r = [path]) /\
  (is_regex_or_exact path = false -> path <> ""%string -> forall p, In p (r_subpaths r) -> String.prefix path p = true).
Proof.
  intros Hh. unfold vsr_ok_for. intros H. apply andb_true_iff in H. destruct H as [H1 H2].
  apply orb_true_iff in H1. destruct H1 as [H1|H1]; [apply String.eqb_eq in H1; contradiction|].
  apply String.eqb_eq in H1. split; [exact H1|]. split.
  - intros Hr. rewrite Hr in H2. destruct (r_subpaths r) as [|p [|q l]]; try discriminate.
    apply String.eqb_eq in H2. subst. reflexivity.
  - intros Hr Hne p Hin. rewrite Hr in H2. apply orb_true_iff in H2. destruct H2 as [H2|H2].
    + apply String.eqb_eq in H2. contradiction.
    + rewrite forallb_forall in H2. apply H2. exact Hin.
Qed.

(* the minions considered for a master are exactly the stored minion Ingresses of its host, in key order *)
Theorem minions_of_exact is_ host i :
  In i (minions_of is_ host) <-> exists k, In (k, i) is_ /\ is_minion i = true /\ host0 i = host.
Proof.
  unfold minions_of. rewrite in_filter_map. split.
  - intros ([k i0] & Hin & Hf). cbn [snd] in Hf.
    destruct (is_minion i0 && String.eqb host (host0 i0)) eqn:Hc; [|discriminate].
    inversion Hf; subst. apply andb_true_iff in Hc. destruct Hc as [Hm He]. apply String.eqb_eq in He.
    exists k. auto.
  - intros (k & Hin & Hm & He). exists (k, i). split; [exact Hin|]. cbn [snd]. rewrite Hm, <- He, String.eqb_refl. reflexivity.
Qed.

Theorem build_minions_list is_ host :
  map mc_ing (fst (build_minions is_ host)) = minions_of is_ host.
Proof. unfold build_minions. cbn [fst]. rewrite map_map. cbn. apply map_id. Qed.
