//go:build verif

package externaldns

import (
	clientset "github.com/nginx/kubernetes-ingress/pkg/client/clientset/versioned"
	extdnslisters "github.com/nginx/kubernetes-ingress/pkg/client/listers/externaldns/v1"
	"k8s.io/client-go/tools/record"
)

// VerifC17SyncFn is the production SyncFnFor of the external-dns sub-controller wired the way
// NewController wires it, with one informer group entry that watches every namespace.
func VerifC17SyncFn(rec record.EventRecorder, cl clientset.Interface, lister extdnslisters.DNSEndpointLister) SyncFn {
	return SyncFnFor(rec, cl, map[string]*namespacedInformer{"": {extdnslister: lister}})
}
