(* Determ/Proofs.v -- the order-(in)sensitivity lemmas of C09, for all lists and all orders. *)
From Coq Require Import List String Ascii Bool Arith Permutation Lia Sorted.
From NIC Require Import Base.SMap Determ.Model.
Import ListNotations.
Open Scope string_scope.

(* ------------------------------------------------------------------ the oracle reaches exactly the permutations *)

Lemma extract_perm {A} i (l : list A) x r : extract i l = Some (x, r) -> Permutation l (x :: r).
Proof.
  revert i x r. induction l as [|a l IH]; intros i x r H; cbn in H; [discriminate H|].
  destruct i.
  - inversion H; subst. reflexivity.
  - destruct (extract i l) as [[y r']|] eqn:E; [|discriminate H]. inversion H; subst.
    apply IH in E. rewrite E. apply perm_swap.
Qed.

Lemma extract_lt {A} i (l : list A) : i < List.length l -> exists x r, extract i l = Some (x, r).
Proof.
  revert i. induction l as [|a l IH]; intros i H; cbn in H; [lia|].
  destruct i; cbn; [eauto|].
  destruct (IH i) as (x & r & E); [lia|]. rewrite E. eauto.
Qed.

Lemma extract_in {A} (x : A) l : In x l -> exists i r, i < List.length l /\ extract i l = Some (x, r).
Proof.
  induction l as [|a l IH]; intros H; [destruct H|].
  destruct H as [->|H].
  - exists 0, l. cbn. split; [lia|reflexivity].
  - destruct (IH H) as (i & r & Hi & E). exists (S i), (a :: r). cbn. rewrite E. split; [lia|reflexivity].
Qed.

(* whatever the oracle says, the loop body sees every binding exactly once *)
Theorem range_order_perm {A} pi (l : list A) : Permutation (range_order pi l) l.
Proof.
  revert l. induction pi as [|i pi IH]; intros l; cbn; [reflexivity|].
  destruct (extract (i mod List.length l) l) as [[x r]|] eqn:E.
  - apply extract_perm in E. rewrite E. constructor. apply IH.
  - destruct l as [|a l]; [reflexivity|]. exfalso.
    destruct (extract_lt (i mod List.length (a :: l)) (a :: l)) as (x & r & E').
    + apply Nat.mod_upper_bound. cbn. lia.
    + rewrite E' in E. discriminate E.
Qed.

(* and every order is reachable: the oracle is fully adversarial *)
Theorem range_order_complete {A} (l l' : list A) : Permutation l' l -> exists pi, range_order pi l = l'.
Proof.
  revert l. induction l' as [|x t IH]; intros l P.
  - apply Permutation_nil in P. subst. exists []. reflexivity.
  - assert (Hin : In x l) by (eapply Permutation_in; [exact P | left; reflexivity]).
    destruct (extract_in x l Hin) as (i & r & Hi & E).
    assert (Pt : Permutation t r).
    { pose proof (extract_perm _ _ _ _ E) as P2. apply Permutation_cons_inv with x.
      rewrite P. exact P2. }
    destruct (IH r Pt) as [pi Hpi]. exists (i :: pi). cbn.
    rewrite Nat.mod_small by exact Hi. rewrite E. f_equal. exact Hpi.
Qed.

Corollary range_map_perm {A} pi (m : smap A) : Permutation (range_map pi m) m.
Proof. apply range_order_perm. Qed.

Lemma wf_NoDup_keys {A} (m : smap A) : wf m -> NoDup (map fst m).
Proof. apply wf_keys_NoDup. Qed.

Lemma range_map_NoDup_keys {A} pi (m : smap A) : wf m -> NoDup (map fst (range_map pi m)).
Proof.
  intros W. apply Permutation_NoDup with (l := map fst m).
  - apply Permutation_map. symmetry. apply range_map_perm.
  - apply wf_NoDup_keys. exact W.
Qed.

(* ------------------------------------------------------------------ folds that do not see the order *)

Section FoldPerm.
  Context {A B : Type} (f : B -> A -> B) (R : A -> A -> Prop) (P : B -> Prop).
  Hypothesis Pstep : forall b x, P b -> P (f b x).
  Hypothesis comm : forall b x y, P b -> R x y -> f (f b x) y = f (f b y) x.

  Lemma fold_left_inv l : forall b, P b -> P (fold_left f l b).
  Proof. induction l as [|x l IH]; cbn; auto. Qed.

  Theorem fold_left_perm_invariant l1 l2 :
    Permutation l1 l2 -> (forall x y, In x l1 -> In y l1 -> R x y) ->
    forall b, P b -> fold_left f l1 b = fold_left f l2 b.
  Proof.
    induction 1 as [|x l l' _ IH|x y l|l l' l'' P1 IH1 P2 IH2]; intros HR b Pb; cbn.
    - reflexivity.
    - apply IH; [intros; apply HR; right; assumption | apply Pstep; assumption].
    - rewrite (comm b y x); [reflexivity | assumption | apply HR; cbn; auto].
    - rewrite IH1; auto. apply IH2; auto.
      intros a c Ha Hc. apply HR; eapply Permutation_in; try (symmetry; exact P1); assumption.
  Qed.
End FoldPerm.

Lemma NoDup_map_pairwise {A B} (g : A -> B) (l : list A) :
  NoDup (map g l) -> forall x y, In x l -> In y l -> x = y \/ g x <> g y.
Proof.
  induction l as [|a l IH]; cbn; intros ND x y Hx Hy; [tauto|].
  inversion ND as [|? ? Hn ND']; subst.
  destruct Hx as [->|Hx], Hy as [->|Hy].
  - left; reflexivity.
  - right. intros E. apply Hn. rewrite E. apply in_map. exact Hy.
  - right. intros E. apply Hn. rewrite <- E. apply in_map. exact Hx.
  - apply IH; assumption.
Qed.

(* ------------------------------------------------------------------ sorting *)

Lemma sle_total a b : sle a b = false -> sle b a = true.
Proof.
  unfold sle. destruct (String.compare a b) eqn:E; intros H; try discriminate H.
  apply scompare_gt_lt in E. unfold slt in E. rewrite E. reflexivity.
Qed.

Lemma sle_antisym a b : sle a b = true -> sle b a = true -> a = b.
Proof.
  unfold sle. destruct (String.compare a b) eqn:E; intros H1 H2; try discriminate H1.
  - apply String.compare_eq_iff. exact E.
  - apply scompare_lt_gt in E. rewrite E in H2. discriminate H2.
Qed.

Lemma sle_refl a : sle a a = true.
Proof. unfold sle. rewrite scompare_refl. reflexivity. Qed.

Lemma sle_trans a b c : sle a b = true -> sle b c = true -> sle a c = true.
Proof.
  unfold sle. destruct (String.compare a b) eqn:E1; intros H1; try discriminate H1;
  destruct (String.compare b c) eqn:E2; intros H2; try discriminate H2.
  - apply String.compare_eq_iff in E1. subst. rewrite E2. reflexivity.
  - apply String.compare_eq_iff in E1. subst. rewrite E2. reflexivity.
  - apply String.compare_eq_iff in E2. subst. rewrite E1. reflexivity.
  - assert (H : slt a c) by (eapply slt_trans; eassumption). unfold slt in H. rewrite H. reflexivity.
Qed.

Section SortProofs.
  Context {A : Type} (key : A -> string).

  Lemma ins_comm x y acc : key x <> key y -> ins key x (ins key y acc) = ins key y (ins key x acc).
  Proof.
    intros Hn. induction acc as [|z r IH]; cbn.
    - destruct (sle (key x) (key y)) eqn:Exy, (sle (key y) (key x)) eqn:Eyx; cbn; try reflexivity.
      + exfalso. apply Hn. apply sle_antisym; assumption.
      + apply sle_total in Exy. congruence.
    - destruct (sle (key y) (key z)) eqn:Eyz, (sle (key x) (key z)) eqn:Exz; cbn;
        rewrite ?Eyz, ?Exz; cbn.
      + destruct (sle (key x) (key y)) eqn:Exy, (sle (key y) (key x)) eqn:Eyx; cbn; rewrite ?Eyz, ?Exz; try reflexivity.
        * exfalso. apply Hn. apply sle_antisym; assumption.
        * apply sle_total in Exy. congruence.
      + (* y <= z < x *)
        assert (Exy : sle (key x) (key y) = false).
        { destruct (sle (key x) (key y)) eqn:E; [|reflexivity].
          rewrite (sle_trans _ _ _ E Eyz) in Exz. discriminate Exz. }
        rewrite Exy. reflexivity.
      + assert (Eyx : sle (key y) (key x) = false).
        { destruct (sle (key y) (key x)) eqn:E; [|reflexivity].
          rewrite (sle_trans _ _ _ E Exz) in Eyz. discriminate Eyz. }
        rewrite Eyx. reflexivity.
      + rewrite IH. reflexivity.
  Qed.

  Lemma ins_perm x acc : Permutation (ins key x acc) (x :: acc).
  Proof.
    induction acc as [|z r IH]; cbn; [reflexivity|].
    destruct (sle (key x) (key z)); [reflexivity|].
    rewrite IH. apply perm_swap.
  Qed.

  Definition key_le (a b : A) : Prop := sle (key a) (key b) = true.

  Lemma ins_sorted x acc : Sorted key_le acc -> Sorted key_le (ins key x acc).
  Proof.
    induction 1 as [|z r Hs IH Hhd]; cbn.
    - repeat constructor.
    - destruct (sle (key x) (key z)) eqn:E.
      + constructor; [constructor; assumption|]. constructor. exact E.
      + constructor; [exact IH|].
        apply sle_total in E.
        destruct r as [|w r']; cbn.
        * constructor. exact E.
        * destruct (sle (key x) (key w)); constructor; [exact E|].
          inversion Hhd; assumption.
  Qed.

  Lemma fold_ins_perm l : forall acc, Permutation (fold_left (fun a x => ins key x a) l acc) (l ++ acc).
  Proof.
    induction l as [|x l IH]; intros acc; cbn; [reflexivity|].
    rewrite IH. rewrite ins_perm. symmetry. apply Permutation_middle.
  Qed.

  Lemma fold_ins_sorted l : forall acc, Sorted key_le acc -> Sorted key_le (fold_left (fun a x => ins key x a) l acc).
  Proof. induction l as [|x l IH]; intros acc H; cbn; [exact H|]. apply IH. apply ins_sorted. exact H. Qed.

  (* isort is a sort: same elements, ascending keys *)
  Theorem isort_perm l : Permutation (isort key l) l.
  Proof. unfold isort. rewrite fold_ins_perm. rewrite app_nil_r. reflexivity. Qed.

  Theorem isort_sorted l : Sorted key_le (isort key l).
  Proof. apply fold_ins_sorted. constructor. Qed.

  Theorem isort_is_a_sort l : Permutation (isort key l) l /\ Sorted key_le (isort key l).
  Proof. split; [apply isort_perm|apply isort_sorted]. Qed.

  (* sorting by a total order on distinct keys forgets the order of arrival *)
  Theorem sort_perm_invariant l1 l2 :
    Permutation l1 l2 -> (forall x y, In x l1 -> In y l1 -> x = y \/ key x <> key y) ->
    isort key l1 = isort key l2.
  Proof.
    intros P HR. unfold isort.
    apply (fold_left_perm_invariant (fun a x => ins key x a) (fun x y => x = y \/ key x <> key y) (fun _ => True)); auto.
    intros b x y _ [->|Hn]; [reflexivity|]. apply ins_comm. intros E. apply Hn. symmetry. exact E.
  Qed.

  Corollary sort_perm_invariant_NoDup l1 l2 :
    Permutation l1 l2 -> NoDup (map key l1) -> isort key l1 = isort key l2.
  Proof. intros P ND. apply sort_perm_invariant; [exact P|]. apply NoDup_map_pairwise. exact ND. Qed.
  (* ... and ONLY then: two different elements with one key come out in the order they went in
     (sort.Slice is an insertion sort below 12 elements and unstable above: ties keep or lose the
     arrival order, they never get an order of their own) *)
  Theorem sort_needs_distinct_keys x y : key x = key y -> x <> y -> isort key [x; y] <> isort key [y; x].
  Proof.
    intros E N. unfold isort. cbn. rewrite E. rewrite sle_refl.
    intros H. inversion H. apply N. symmetry. assumption.
  Qed.
End SortProofs.

(* ------------------------------------------------------------------ insertion into a canonical map *)

Section InsertProofs.
  Context {V : Type}.
  Implicit Types m : smap V.

  Lemma insert_comm k1 v1 k2 v2 m : wf m -> k1 <> k2 ->
    insert k1 v1 (insert k2 v2 m) = insert k2 v2 (insert k1 v1 m).
  Proof.
    intros W N. apply smap_ext; try (repeat apply wf_insert; assumption). intros k.
    destruct (String.string_dec k k1) as [->|N1].
    - rewrite lookup_insert_eq. rewrite (lookup_insert_neq k2 k1) by assumption.
      rewrite lookup_insert_eq. reflexivity.
    - rewrite (lookup_insert_neq k1 k) by assumption.
      destruct (String.string_dec k k2) as [->|N2].
      + rewrite !lookup_insert_eq. reflexivity.
      + rewrite !(lookup_insert_neq k2 k) by assumption.
        rewrite (lookup_insert_neq k1 k) by assumption. reflexivity.
  Qed.

  Lemma insert_idem k v m : wf m -> insert k v (insert k v m) = insert k v m.
  Proof.
    intros W. apply smap_ext; try (repeat apply wf_insert; assumption). intros k0.
    destruct (String.string_dec k0 k) as [->|N].
    - rewrite !lookup_insert_eq. reflexivity.
    - rewrite !(lookup_insert_neq k k0) by assumption. reflexivity.
  Qed.

  Lemma remove_comm k1 k2 m : wf m -> remove k1 (remove k2 m) = remove k2 (remove k1 m).
  Proof.
    intros W. apply smap_ext; try (repeat apply wf_remove; assumption). intros k.
    destruct (String.string_dec k k1) as [->|N1].
    - rewrite lookup_remove_eq by (apply wf_remove; assumption).
      destruct (String.string_dec k1 k2) as [->|N2].
      + rewrite lookup_remove_eq by (apply wf_remove; assumption). reflexivity.
      + rewrite (lookup_remove_neq k2 k1) by assumption. rewrite lookup_remove_eq by assumption. reflexivity.
    - rewrite (lookup_remove_neq k1 k) by assumption.
      destruct (String.string_dec k k2) as [->|N2].
      + rewrite !lookup_remove_eq; try assumption; try (apply wf_remove; assumption). reflexivity.
      + rewrite !(lookup_remove_neq k2 k) by assumption. rewrite (lookup_remove_neq k1 k) by assumption. reflexivity.
  Qed.

  Lemma mem_insert_neq k k' (v : V) m : k <> k' -> mem k (insert k' v m) = mem k m.
  Proof. intros N. unfold mem. rewrite lookup_insert_neq by assumption. reflexivity. Qed.

  (* a fold whose step is an insertion into a canonical map does not see the order, provided
     two entries that write the same key write the same value (idempotent + commutative) *)
  Theorem fold_set_insert_invariant (l1 l2 : list (string * V)) m :
    wf m -> Permutation l1 l2 ->
    (forall x y, In x l1 -> In y l1 -> fst x = fst y -> snd x = snd y) ->
    fold_left (fun acc kv => insert (fst kv) (snd kv) acc) l1 m =
    fold_left (fun acc kv => insert (fst kv) (snd kv) acc) l2 m.
  Proof.
    intros W P HR.
    apply (fold_left_perm_invariant (fun acc kv => insert (fst kv) (snd kv) acc)
             (fun x y => fst x = fst y -> snd x = snd y) wf); auto.
    - intros b x Wb. apply wf_insert. exact Wb.
    - intros b [k1 v1] [k2 v2] Wb Hxy. cbn in *.
      destruct (String.string_dec k1 k2) as [->|N].
      + rewrite (Hxy eq_refl). reflexivity.
      + apply insert_comm; [exact Wb|]. intros E. apply N. symmetry. exact E.
  Qed.

  Lemma fold_insert_wf (l : list (string * V)) m : wf m -> wf (fold_left (fun acc kv => insert (fst kv) (snd kv) acc) l m).
  Proof. revert m. induction l as [|x l IH]; intros m W; cbn; [exact W|]. apply IH. apply wf_insert. exact W. Qed.
End InsertProofs.

(* ------------------------------------------------------------------ appending is order sensitive *)

Theorem append_order_sensitive {A B} (render : A -> B) (l : list A) x y :
  In x l -> In y l -> render x <> render y ->
  exists l1 l2, Permutation l1 l /\ Permutation l2 l /\ map render l1 <> map render l2.
Proof.
  intros Hx Hy Hd.
  destruct (in_split x l Hx) as (a & b & ->).
  assert (Hy' : In y (a ++ b)).
  { apply in_app_or in Hy. apply in_or_app. destruct Hy as [H|[H|H]]; auto.
    exfalso. apply Hd. rewrite H. reflexivity. }
  destruct (in_split y (a ++ b) Hy') as (c & d & E).
  exists (x :: y :: c ++ d), (y :: x :: c ++ d). split; [|split].
  - rewrite <- Permutation_middle. constructor. rewrite E. apply Permutation_middle.
  - rewrite perm_swap. rewrite <- Permutation_middle. constructor. rewrite E. apply Permutation_middle.
  - cbn. intros H. inversion H. apply Hd. assumption.
Qed.

(* existsb / count do not see the order *)
Lemma existsb_perm {A} (p : A -> bool) l1 l2 : Permutation l1 l2 -> existsb p l1 = existsb p l2.
Proof.
  induction 1; cbn; auto.
  - rewrite IHPermutation. reflexivity.
  - destruct (p x), (p y); reflexivity.
  - congruence.
Qed.

(* ================================================================== the sites *)

(* ---- ingress.go upstreamMapToSlice #0 *)
Theorem site_upstreamMapToSlice_deterministic {V} (m : smap V) l1 l2 :
  Permutation l1 l2 -> NoDup (map fst l1) ->
  site_upstreamMapToSlice_out m l1 = site_upstreamMapToSlice_out m l2.
Proof.
  intros P ND. unfold site_upstreamMapToSlice_out. f_equal.
  apply sort_perm_invariant_NoDup; [apply Permutation_map; exact P|].
  rewrite map_id. exact ND.
Qed.

(* ---- endpoint sets: generateUpstream / createUpstream / generateStreamUpstream sort the server
   addresses (sort.Slice by Address); the addresses of a service are a set the controller collects
   through a map, so they arrive in any order, possibly with repetitions *)
Theorem site_endpoints_sorted_deterministic (l1 l2 : list string) :
  Permutation l1 l2 -> isort (fun a => a) l1 = isort (fun a => a) l2.
Proof.
  intros P. apply sort_perm_invariant; [exact P|].
  intros x y _ _. destruct (String.string_dec x y); [left|right]; assumption.
Qed.

(* ---- virtualserver.go generateAPIKeyClients #0 (F13) *)
Theorem site_generateAPIKeyClients_refuted hash (l : list (string * string)) x y :
  In x l -> In y l -> fst x <> fst y ->
  exists l1 l2, Permutation l1 l /\ Permutation l2 l /\
    site_generateAPIKeyClients_out hash l1 <> site_generateAPIKeyClients_out hash l2.
Proof.
  intros Hx Hy Hn. apply (append_order_sensitive (api_client hash) l x y Hx Hy).
  unfold api_client. intros E. inversion E. contradiction.
Qed.

Theorem site_generateAPIKeyClients_fixed_deterministic hash l1 l2 :
  Permutation l1 l2 -> NoDup (map fst l1) ->
  site_generateAPIKeyClients_fixed_out hash l1 = site_generateAPIKeyClients_fixed_out hash l2.
Proof.
  intros P ND. unfold site_generateAPIKeyClients_fixed_out.
  apply sort_perm_invariant_NoDup; [apply Permutation_map; exact P|].
  rewrite map_map. cbn. exact ND.
Qed.

(* a comparator on a normalised id (strings.ToLower ...) is no strict total order on the keys as soon
   as two keys normalise to the same string: the tie is decided by the iteration order *)
Theorem site_generateAPIKeyClients_normalised_refuted norm hash (x y : string * string) :
  norm (fst x) = norm (fst y) -> fst x <> fst y ->
  site_generateAPIKeyClients_normalised_out norm hash [x; y] <>
  site_generateAPIKeyClients_normalised_out norm hash [y; x].
Proof.
  intros E N. unfold site_generateAPIKeyClients_normalised_out. cbn [map].
  apply (sort_needs_distinct_keys (fun c : string * string => norm (fst c))).
  - cbn. exact E.
  - unfold api_client. intros H. inversion H. contradiction.
Qed.

(* with an injective normalisation nothing is lost *)
Theorem site_generateAPIKeyClients_normalised_deterministic norm hash l1 l2 :
  Permutation l1 l2 -> NoDup (map (fun kv => norm (fst kv)) l1) ->
  site_generateAPIKeyClients_normalised_out norm hash l1 = site_generateAPIKeyClients_normalised_out norm hash l2.
Proof.
  intros P ND. unfold site_generateAPIKeyClients_normalised_out.
  apply sort_perm_invariant_NoDup; [apply Permutation_map; exact P|].
  rewrite map_map. cbn. exact ND.
Qed.

(* ---- virtualserver.go GenerateVirtualServerConfig #0 (F13) *)
Section VSMapsProofs.
  Context {C M : Type} (gen : string -> C -> M) (mkey : M -> string).

  Lemma dedup_id seen (l : list M) :
    NoDup (map mkey l) -> (forall x, In x l -> ~ In (mkey x) seen) -> dedup mkey seen l = l.
  Proof.
    revert seen. induction l as [|x r IH]; intros seen ND Hs; cbn; [reflexivity|].
    inversion ND as [|? ? Hn ND']; subst.
    destruct (existsb (String.eqb (mkey x)) seen) eqn:E.
    - exfalso. apply existsb_exists in E. destruct E as (s & Hin & Heq).
      apply String.eqb_eq in Heq. subst s. exact (Hs x (or_introl eq_refl) Hin).
    - f_equal. apply IH; [exact ND'|].
      intros z Hz [Hk|Hk].
      + apply Hn. rewrite Hk. apply in_map. exact Hz.
      + exact (Hs z (or_intror Hz) Hk).
  Qed.

  (* map names are distinct per (vs, policy): different keys of ClientMap give maps with different
     variables.  Under that hypothesis, and with nothing else in front, the order shows. *)
  Theorem site_GenerateVirtualServerConfig_refuted (l : list (string * C)) x y :
    (forall k c k' c', mkey (gen k c) = mkey (gen k' c') -> k = k') ->
    NoDup (map fst l) -> In x l -> In y l -> fst x <> fst y ->
    exists l1 l2, Permutation l1 l /\ Permutation l2 l /\
      site_GenerateVirtualServerConfig_out gen mkey [] l1 <> site_GenerateVirtualServerConfig_out gen mkey [] l2.
  Proof.
    intros Hinj ND Hx Hy Hn.
    set (g := fun kv : string * C => gen (fst kv) (snd kv)).
    destruct (append_order_sensitive g l x y Hx Hy) as (l1 & l2 & P1 & P2 & Hd).
    { unfold g. intros E. apply Hn. eapply Hinj. rewrite E. reflexivity. }
    exists l1, l2. split; [exact P1|]. split; [exact P2|].
    unfold site_GenerateVirtualServerConfig_out. cbn [app].
    assert (Hid : forall l', Permutation l' l -> dedup mkey [] (map g l') = map g l').
    { intros l' P'. apply dedup_id; [|intros ? _ []].
      assert (ND' : NoDup (map fst l')).
      { eapply Permutation_NoDup; [|exact ND]. apply Permutation_map. symmetry. exact P'. }
      clear -ND' Hinj. induction l' as [|a r IH]; cbn; [constructor|].
      inversion ND' as [|? ? Hn ND'']; subst. constructor; [|apply IH; exact ND''].
      intros Hin. apply in_map_iff in Hin. destruct Hin as (b & Hb & Hbin). apply in_map_iff in Hbin.
      destruct Hbin as (b0 & <- & Hb0). unfold g in Hb. apply Hinj in Hb.
      apply Hn. rewrite <- Hb. apply in_map. exact Hb0. }
    fold g. rewrite (Hid l1 P1), (Hid l2 P2). exact Hd.
  Qed.

  Theorem site_GenerateVirtualServerConfig_fixed_deterministic pre (l1 l2 : list (string * C)) :
    Permutation l1 l2 -> NoDup (map fst l1) ->
    site_GenerateVirtualServerConfig_fixed_out gen mkey pre l1 = site_GenerateVirtualServerConfig_fixed_out gen mkey pre l2.
  Proof.
    intros P ND. unfold site_GenerateVirtualServerConfig_fixed_out.
    rewrite (sort_perm_invariant_NoDup fst l1 l2 P ND). reflexivity.
  Qed.
End VSMapsProofs.

(* ---- virtualserver.go generatePolicies #0 (F14) *)
Section LRZProofs.
  Context {M : Type} (dup : M -> bool).

  Theorem site_generatePolicies_refuted (l : list (string * M)) x y :
    In x l -> In y l -> snd x <> snd y -> existsb dup (map snd l) = false ->
    exists l1 l2, Permutation l1 l /\ Permutation l2 l /\
      site_generatePolicies_out dup l1 <> site_generatePolicies_out dup l2.
  Proof.
    intros Hx Hy Hn He.
    destruct (append_order_sensitive snd l x y Hx Hy Hn) as (l1 & l2 & P1 & P2 & Hd).
    exists l1, l2. split; [exact P1|]. split; [exact P2|].
    unfold site_generatePolicies_out.
    rewrite (existsb_perm dup (map snd l1) (map snd l)) by (apply Permutation_map; exact P1).
    rewrite (existsb_perm dup (map snd l2) (map snd l)) by (apply Permutation_map; exact P2).
    rewrite He. intros E. inversion E. contradiction.
  Qed.

  Theorem site_generatePolicies_fixed_deterministic (l1 l2 : list (string * M)) :
    Permutation l1 l2 -> NoDup (map fst l1) ->
    site_generatePolicies_fixed_out dup l1 = site_generatePolicies_fixed_out dup l2.
  Proof.
    intros P ND. unfold site_generatePolicies_fixed_out.
    rewrite (existsb_perm dup (map snd l1) (map snd l2)) by (apply Permutation_map; exact P).
    rewrite (sort_perm_invariant_NoDup fst l1 l2 P ND). reflexivity.
  Qed.
End LRZProofs.

(* ---- annotations.go filterMasterAnnotations / filterMinionAnnotations #0 *)
Theorem site_filterAnnotations_map_deterministic deny (m : smap string) l1 l2 :
  wf m -> Permutation l1 l2 ->
  site_filterAnnotations_map_out deny m l1 = site_filterAnnotations_map_out deny m l2.
Proof.
  intros W P. unfold site_filterAnnotations_map_out.
  apply (fold_left_perm_invariant _ (fun _ _ => True) wf); auto.
  - intros b x Wb. destruct (deny (fst x)); [apply wf_remove|]; exact Wb.
  - intros b x y Wb _. destruct (deny (fst x)), (deny (fst y)); try reflexivity.
    apply remove_comm. exact Wb.
Qed.

(* the removed keys are joined into a log line only; as a list they do depend on the order *)
Theorem site_filterAnnotations_removed_refuted :
  exists deny l1 l2, Permutation l1 l2 /\ NoDup (map fst l1) /\
    site_filterAnnotations_removed_out deny l1 <> site_filterAnnotations_removed_out deny l2.
Proof.
  exists (fun _ => true), [("a", "1"); ("b", "2")], [("b", "2"); ("a", "1")].
  split; [apply perm_swap|]. split.
  - cbn. repeat constructor; cbn; intuition discriminate.
  - cbn. discriminate.
Qed.

(* ---- annotations.go mergeMasterAnnotationsIntoMinion #0 *)
Lemma merge_step_wf allowed m kv : wf m -> wf (merge_step allowed m kv).
Proof.
  intros W. unfold merge_step. destruct (mem (fst kv) m); [exact W|].
  destruct (allowed (fst kv)); [apply wf_insert|]; exact W.
Qed.

Lemma merge_step_comm allowed (m : smap string) x y : wf m -> fst x <> fst y ->
  merge_step allowed (merge_step allowed m x) y = merge_step allowed (merge_step allowed m y) x.
Proof.
  intros W N. destruct x as [k1 v1], y as [k2 v2]. cbn in N. unfold merge_step. cbn [fst snd].
  assert (N' : k2 <> k1) by (intros E; apply N; symmetry; exact E).
  destruct (mem k1 m) eqn:M1, (mem k2 m) eqn:M2; rewrite ?M1, ?M2; try reflexivity.
  - destruct (allowed k2); [|rewrite M1; reflexivity].
    rewrite (mem_insert_neq k1 k2) by assumption. rewrite M1. reflexivity.
  - destruct (allowed k1); [|rewrite M2; reflexivity].
    rewrite (mem_insert_neq k2 k1) by assumption. rewrite M2. reflexivity.
  - destruct (allowed k1), (allowed k2); rewrite ?(mem_insert_neq k2 k1) by assumption;
      rewrite ?(mem_insert_neq k1 k2) by assumption; rewrite ?M1, ?M2; try reflexivity.
    apply insert_comm; assumption.
Qed.

Theorem site_mergeMasterAnnotationsIntoMinion_deterministic allowed (minion : smap string) l1 l2 :
  wf minion -> Permutation l1 l2 -> NoDup (map fst l1) ->
  site_mergeMasterAnnotationsIntoMinion_out allowed minion l1 =
  site_mergeMasterAnnotationsIntoMinion_out allowed minion l2.
Proof.
  intros W P ND. unfold site_mergeMasterAnnotationsIntoMinion_out.
  apply (fold_left_perm_invariant _ (fun x y => x = y \/ fst x <> fst y) wf); auto.
  - intros b x Wb. apply merge_step_wf. exact Wb.
  - intros b x y Wb [->|N]; [reflexivity|]. apply merge_step_comm; assumption.
  - apply NoDup_map_pairwise. exact ND.
Qed.

(* ---- map writes: dst[k'] = w for every entry *)
Section MapWriteProofs.
  Context {V W : Type} (kf : string * V -> option (string * W)).

  (* entries that write the same key write the same value *)
  Definition mw_consistent (l : list (string * V)) : Prop :=
    forall x y k w k' w', In x l -> In y l -> kf x = Some (k, w) -> kf y = Some (k', w') -> k = k' -> w = w'.

  Theorem site_mapwrite_deterministic (dst : smap W) l1 l2 :
    wf dst -> Permutation l1 l2 -> mw_consistent l1 ->
    site_mapwrite_out kf dst l1 = site_mapwrite_out kf dst l2.
  Proof.
    intros Wd P HC. unfold site_mapwrite_out.
    apply (fold_left_perm_invariant (mapwrite_step kf)
             (fun x y => forall k w k' w', kf x = Some (k, w) -> kf y = Some (k', w') -> k = k' -> w = w') wf); auto.
    - intros b x Wb. unfold mapwrite_step. destruct (kf x) as [[k w]|]; [apply wf_insert|]; exact Wb.
    - intros b x y Wb Hxy. unfold mapwrite_step.
      destruct (kf x) as [[k w]|] eqn:Ex, (kf y) as [[k' w']|] eqn:Ey; try reflexivity.
      destruct (String.string_dec k k') as [->|N].
      + rewrite (Hxy k' w k' w' eq_refl eq_refl eq_refl). reflexivity.
      + apply insert_comm; [exact Wb|]. intros E. apply N. symmetry. exact E.
    - intros x y Hx Hy k w k' w'. apply HC; assumption.
  Qed.

  (* and when two entries write different values under one key, the order decides *)
  Theorem site_mapwrite_conflict_refuted (dst : smap W) x y k w w' :
    kf x = Some (k, w) -> kf y = Some (k, w') -> w <> w' ->
    site_mapwrite_out kf dst [x; y] <> site_mapwrite_out kf dst [y; x].
  Proof.
    intros Ex Ey N E. unfold site_mapwrite_out, mapwrite_step in E. cbn in E. rewrite Ex, Ey in E.
    assert (H : lookup k (insert k w' (insert k w dst)) = lookup k (insert k w (insert k w' dst))) by (rewrite E; reflexivity).
    rewrite !lookup_insert_eq in H. inversion H. apply N. symmetry. assumption.
  Qed.
End MapWriteProofs.

(* the common special case dst[key] = g key value: the written key is the map's own key, so
   distinct entries never collide *)
Theorem site_mapwrite_samekey_deterministic {V W} (g : string * V -> option W) (dst : smap W) l1 l2 :
  wf dst -> Permutation l1 l2 -> NoDup (map fst l1) ->
  site_mapwrite_out (fun kv => option_map (fun w => (fst kv, w)) (g kv)) dst l1 =
  site_mapwrite_out (fun kv => option_map (fun w => (fst kv, w)) (g kv)) dst l2.
Proof.
  intros Wd P ND. apply site_mapwrite_deterministic; auto.
  intros x y k w k' w' Hx Hy Ex Ey Ek.
  destruct (g x) as [wx|] eqn:Gx; cbn in Ex; [|discriminate Ex].
  destruct (g y) as [wy|] eqn:Gy; cbn in Ey; [|discriminate Ey].
  inversion Ex; inversion Ey; subst.
  destruct (NoDup_map_pairwise fst l1 ND x y Hx Hy) as [->|N]; congruence.
Qed.

(* ---- file writes issued from inside a range *)
Section FileWriteProofs.
  Context {V : Type} (writes : string * V -> list (string * string)).

  Lemma fs_flat l : forall fs, site_filewrites_out writes fs l =
    fold_left (fun acc w => insert (fst w) (snd w) acc) (flat_map writes l) fs.
  Proof.
    unfold site_filewrites_out. induction l as [|x l IH]; intros fs; cbn; [reflexivity|].
    rewrite IH. unfold fs_step. rewrite fold_left_app. reflexivity.
  Qed.

  (* same name => same content, over everything the loop writes *)
  Theorem site_filewrites_deterministic (fs : smap string) l1 l2 :
    wf fs -> Permutation l1 l2 ->
    (forall a b, In a (flat_map writes l1) -> In b (flat_map writes l1) -> fst a = fst b -> snd a = snd b) ->
    site_filewrites_out writes fs l1 = site_filewrites_out writes fs l2.
  Proof.
    intros W P HC. rewrite !fs_flat. apply fold_set_insert_invariant; auto.
    apply Permutation_flat_map. exact P.
  Qed.
End FileWriteProofs.

(* ---- annotation-key sets *)
Section AnnSetProofs.
  Context (interesting : string -> bool).

  Lemma annset_step_wf (s : sset) (kv : string * string) : wf s -> wf (if interesting (fst kv) then sadd (fst kv) s else s).
  Proof. intros W. destruct (interesting (fst kv)); [apply wf_insert|]; exact W. Qed.

  Theorem site_annset_inner_deterministic (acc : sset) (l1 l2 : list (string * string)) :
    wf acc -> Permutation l1 l2 -> annset_inner interesting acc l1 = annset_inner interesting acc l2.
  Proof.
    intros W P. unfold annset_inner.
    apply (fold_left_perm_invariant _ (fun _ _ => True) wf); auto.
    - intros b x Wb. apply annset_step_wf. exact Wb.
    - intros b x y Wb _. destruct (interesting (fst x)), (interesting (fst y)); try reflexivity.
      unfold sadd. destruct (String.string_dec (fst x) (fst y)) as [->|N]; [reflexivity|].
      apply insert_comm; [exact Wb|]. intros E. apply N. symmetry. exact E.
  Qed.

  Lemma annset_outer_flat l : forall acc, annset_outer interesting acc l = annset_inner interesting acc (flat_map snd l).
  Proof.
    unfold annset_outer, annset_inner. induction l as [|x l IH]; intros acc; cbn; [reflexivity|].
    rewrite IH. rewrite fold_left_app. reflexivity.
  Qed.

  (* covers the outer order AND every inner order at once *)
  Theorem site_annset_outer_deterministic (acc : sset) l1 l2 :
    wf acc -> Permutation (flat_map snd l1) (flat_map snd l2) ->
    annset_outer interesting acc l1 = annset_outer interesting acc l2.
  Proof. intros W P. rewrite !annset_outer_flat. apply site_annset_inner_deterministic; assumption. Qed.

  Corollary site_annset_outer_perm (acc : sset) l1 l2 :
    wf acc -> Permutation l1 l2 -> annset_outer interesting acc l1 = annset_outer interesting acc l2.
  Proof. intros W P. apply site_annset_outer_deterministic; [exact W|]. apply Permutation_flat_map. exact P. Qed.
End AnnSetProofs.

(* ---- configurator.go GetIngressAnnotations #0 (telemetry) *)
Theorem site_GetIngressAnnotations_refuted (l : list (string * bool)) x y :
  In x l -> In y l -> fst x <> fst y ->
  exists l1 l2, Permutation l1 l /\ Permutation l2 l /\
    site_GetIngressAnnotations_out l1 <> site_GetIngressAnnotations_out l2.
Proof. intros Hx Hy N. exact (append_order_sensitive fst l x y Hx Hy N). Qed.

(* ---- counters *)
Theorem site_count_deterministic {V} (w : string * V -> nat) l1 l2 :
  Permutation l1 l2 -> site_count_out w l1 = site_count_out w l2.
Proof.
  intros P. unfold site_count_out.
  apply (fold_left_perm_invariant _ (fun _ _ => True) (fun _ => True)); auto.
  intros b x y _ _. lia.
Qed.

Theorem site_GetIngressCounts_deterministic {V} (is_master : string * V -> bool) l1 l2 :
  Permutation l1 l2 -> site_GetIngressCounts_out is_master l1 = site_GetIngressCounts_out is_master l2.
Proof.
  intros P. unfold site_GetIngressCounts_out.
  apply (fold_left_perm_invariant _ (fun _ _ => True) (fun _ => True)); auto.
  intros [a b] x y _ _. cbn. destruct (is_master x), (is_master y); reflexivity.
Qed.

(* ---- first match *)
Theorem site_firstmatch_deterministic {V} (p : string * V -> bool) l1 l2 :
  Permutation l1 l2 ->
  (forall x y, In x l1 -> In y l1 -> p x = true -> p y = true -> x = y) ->
  site_firstmatch_out p l1 = site_firstmatch_out p l2.
Proof.
  intros P U. unfold site_firstmatch_out.
  destruct (find p l1) as [x|] eqn:E1.
  - apply find_some in E1. destruct E1 as [Hin Hp].
    destruct (find p l2) as [y|] eqn:E2.
    + apply find_some in E2. destruct E2 as [Hin2 Hp2]. f_equal.
      apply U; auto. eapply Permutation_in; [symmetry; exact P|exact Hin2].
    + exfalso. pose proof (find_none _ _ E2 x (Permutation_in _ P Hin)) as H. congruence.
  - destruct (find p l2) as [y|] eqn:E2; [|reflexivity]. exfalso.
    apply find_some in E2. destruct E2 as [Hin2 Hp2].
    pose proof (find_none _ _ E1 y (Permutation_in _ (Permutation_sym P) Hin2)) as H. congruence.
Qed.

Theorem site_firstmatch_two_matches_refuted {V} (p : string * V -> bool) x y :
  p x = true -> p y = true -> x <> y -> site_firstmatch_out p [x; y] <> site_firstmatch_out p [y; x].
Proof. intros Hx Hy N. unfold site_firstmatch_out. cbn. rewrite Hx, Hy. intros E. inversion E. contradiction. Qed.

(* ------------------------------------------------------------------ bridge to the oracle form *)

(* a consumer that does not see the order of its argument gives the same result under every oracle *)
Theorem oracle_form {A O} (out : list (string * A) -> O) (m : smap A) :
  wf m ->
  (forall l1 l2, Permutation l1 l2 -> NoDup (map fst l1) -> out l1 = out l2) ->
  forall pi1 pi2, out (range_map pi1 m) = out (range_map pi2 m).
Proof.
  intros W H pi1 pi2. apply H.
  - rewrite (range_map_perm pi1 m). symmetry. apply range_map_perm.
  - apply range_map_NoDup_keys. exact W.
Qed.

(* a consumer for which two orders disagree is made to disagree by two oracles *)
Theorem oracle_form_refuted {A O} (out : list (string * A) -> O) (m : smap A) l1 l2 :
  Permutation l1 m -> Permutation l2 m -> out l1 <> out l2 ->
  exists pi1 pi2, out (range_map pi1 m) <> out (range_map pi2 m).
Proof.
  intros P1 P2 Hd.
  destruct (range_order_complete m l1 P1) as [pi1 E1].
  destruct (range_order_complete m l2 P2) as [pi2 E2].
  exists pi1, pi2. unfold range_map. rewrite E1, E2. exact Hd.
Qed.

(* ------------------------------------------------------------------ S: spec_ok says what it should *)

Lemma files_eqb_eq a b : files_eqb a b = true <-> a = b.
Proof.
  revert b. induction a as [|[f h] a IH]; intros [|[g k] b]; cbn; split; intros H; try discriminate; try reflexivity.
  - apply andb_true_iff in H. destruct H as [H H3]. apply andb_true_iff in H. destruct H as [H1 H2].
    apply String.eqb_eq in H1, H2. apply IH in H3. subst. reflexivity.
  - inversion H; subst. rewrite !String.eqb_refl. cbn. apply IH. reflexivity.
Qed.

Theorem spec_ok_sound (r0 : rendering) rest :
  spec_ok (r0 :: rest) = true <->
  (forall r, In r rest -> fst r = fst r0 /\ snd r = false).
Proof.
  destruct r0 as [f0 c0]. cbn. rewrite forallb_forall. split; intros H r Hin.
  - specialize (H r Hin). apply andb_true_iff in H. destruct H as [H1 H2].
    apply files_eqb_eq in H1. apply negb_true_iff in H2. split; [symmetry; exact H1|exact H2].
  - destruct (H r Hin) as [H1 H2]. apply andb_true_iff. split.
    + apply files_eqb_eq. symmetry. exact H1.
    + rewrite H2. reflexivity.
Qed.

(* ------------------------------------------------------------------ history *)

(* a generator that leaves the mutable part of its inputs alone renders every input as a fresh
   process would, whatever it rendered before *)
Theorem run_history_pure {S I O} (step : S -> I -> S * O) :
  (forall s i, fst (step s i) = s) -> forall h s, run_history step s h = s.
Proof. intros Hp h. induction h as [|i r IH]; intros s; cbn; [reflexivity|]. rewrite Hp. apply IH. Qed.

Theorem history_independent {S I O} (step : S -> I -> S * O) :
  (forall s i, fst (step s i) = s) ->
  forall h s i, snd (step (run_history step s h) i) = snd (step s i).
Proof. intros Hp h s i. rewrite run_history_pure by exact Hp. reflexivity. Qed.

(* the mergeable-Ingress generator as it stands (deep copy of the minion): the rendering of the last
   master does not depend on the masters rendered before *)
Theorem render_history_deepcopy allowed deny masters m minion last :
  render_history false allowed deny (masters ++ [m]) minion last = effective_minion allowed deny m minion.
Proof.
  revert last. induction masters as [|a r IH]; intros last; cbn; [reflexivity|]. apply IH.
Qed.

(* a generator that edits the stored minion: master 33s, then 44s, renders 33s for ever *)
Theorem render_history_inplace_refuted :
  exists allowed deny m1 m2 minion,
    render_history true allowed deny [m1; m2] minion [] <> render_history true allowed deny [m2] minion [].
Proof.
  exists (fun k => String.eqb k "nginx.org/proxy-read-timeout"), (fun _ => false),
         [("nginx.org/proxy-read-timeout", "33s")], [("nginx.org/proxy-read-timeout", "44s")], [].
  vm_compute. discriminate.
Qed.

Theorem history_ok_sound a b n : history_ok a b n = true <-> a = b /\ n = 0.
Proof.
  unfold history_ok. rewrite andb_true_iff, files_eqb_eq, Nat.eqb_eq. tauto.
Qed.

(* ---- the template executors: same settings, same template, whatever the ConfigMap said before *)
Theorem executor_history_independent (h : list (option string)) s cur :
  fold_left exec_step (h ++ [s]) cur = s.
Proof. rewrite fold_left_app. reflexivity. Qed.

(* a memo is harmless exactly when every revert clears it *)
Definition memo_inv (st : option string * string) : Prop :=
  match fst st with Some t => snd st = t | None => snd st = "" end.

Lemma memo_step_inv st s : memo_inv st -> memo_inv (memo_step true st s).
Proof.
  intros I. destruct s as [t|]; cbn; [|reflexivity].
  destruct (negb (String.eqb (snd st) "") && String.eqb (snd st) t); [exact I|reflexivity].
Qed.

Lemma memo_step_last st s : memo_inv st -> s <> Some "" -> fst (memo_step true st s) = s.
Proof.
  intros I Hne. destruct s as [t|]; cbn; [|reflexivity].
  destruct (negb (String.eqb (snd st) "") && String.eqb (snd st) t) eqn:E; [|reflexivity].
  apply andb_true_iff in E. destruct E as [E1 E2]. apply String.eqb_eq in E2.
  unfold memo_inv in I. destruct (fst st) as [t'|] eqn:F.
  - rewrite I in E2. subst. reflexivity.
  - rewrite I in E1. discriminate E1.
Qed.

Theorem memo_executor_clearing_history_independent h s :
  s <> Some "" ->
  fst (fold_left (memo_step true) (h ++ [s]) (None, "")) = s.
Proof.
  intros Hne. rewrite fold_left_app. cbn. apply memo_step_last; [|exact Hne].
  assert (G : forall l st, memo_inv st -> memo_inv (fold_left (memo_step true) l st)).
  { induction l as [|a l IH]; intros st I; cbn; [exact I|]. apply IH. apply memo_step_inv. exact I. }
  apply G. reflexivity.
Qed.

(* one revert that forgets to clear it: set T, remove, set T again => the stock template stays in use *)
Theorem memo_executor_refuted :
  exists t, fst (fold_left (memo_step false) [Some t; None; Some t] (None, "")) <> Some t.
Proof. exists "T". vm_compute. discriminate. Qed.

(* ---- rendering the same object again: a generator that compacts the caller's list in place *)
Theorem dedupe_pure_rerender l : fst (dedupe_pure (snd (dedupe_pure l))) = fst (dedupe_pure l).
Proof. reflexivity. Qed.

Theorem dedupe_inplace_refuted :
  exists l, fst (dedupe_inplace (snd (dedupe_inplace l))) <> fst (dedupe_inplace l).
Proof. exists ["X-A"; "X-B"; "X-A"]. vm_compute. discriminate. Qed.

(* ---- across processes: names may depend on the inputs only *)
Theorem namer_seed_free cap h :
  (forall s1 s2 x, h s1 x = h s2 x) -> forall s1 s2 x, namer cap h s1 x = namer cap h s2 x.
Proof. intros H s1 s2 x. unfold namer. rewrite (H s1 s2 x). reflexivity. Qed.

Theorem namer_short_names_unaffected cap h s1 s2 x :
  String.length x <= cap -> namer cap h s1 x = namer cap h s2 x.
Proof. intros L. unfold namer. apply Nat.leb_le in L. rewrite L. reflexivity. Qed.

Theorem namer_seeded_refuted :
  exists h s1 s2 x, namer 4 h s1 x <> namer 4 h s2 x.
Proof. exists (fun seed _ => seed), "1", "2", "abcdefgh". vm_compute. discriminate. Qed.

(* ---- each address once: Compact is a de-duplication only after a sort *)
Theorem compact_after_sort_deterministic (l1 l2 : list string) :
  Permutation l1 l2 -> compact (isort (fun a => a) l1) = compact (isort (fun a => a) l2).
Proof. intros P. rewrite (site_endpoints_sorted_deterministic l1 l2 P). reflexivity. Qed.

(* on a list in arrival order the result depends on the order, even after the generator sorts it *)
Theorem compact_unsorted_refuted :
  exists l1 l2, Permutation l1 l2 /\
    isort (fun a => a) (compact l1) <> isort (fun a => a) (compact l2).
Proof.
  exists ["10.0.0.1:80"; "10.0.0.1:80"; "10.0.0.2:80"], ["10.0.0.1:80"; "10.0.0.2:80"; "10.0.0.1:80"].
  split; [constructor; apply perm_swap|]. vm_compute. discriminate.
Qed.

(* ---- internal/k8s/configuration.go *)
Theorem site_sorted_keys_deterministic {V} (l1 l2 : list (string * V)) :
  Permutation l1 l2 -> site_sorted_keys_out l1 = site_sorted_keys_out l2.
Proof. intros P. apply site_endpoints_sorted_deterministic. apply Permutation_map. exact P. Qed.

Theorem site_sorted_keys_by_deterministic {V} (render : string -> string) (l1 l2 : list (string * V)) :
  Permutation l1 l2 -> NoDup (map render (map fst l1)) ->
  site_sorted_keys_by_out render l1 = site_sorted_keys_by_out render l2.
Proof.
  intros P ND. unfold site_sorted_keys_by_out.
  apply sort_perm_invariant_NoDup; [apply Permutation_map; exact P|exact ND].
Qed.

Theorem site_elect_deterministic {V} (rank : string * V -> string) (l1 l2 : list (string * V)) :
  Permutation l1 l2 -> NoDup (map rank l1) -> site_elect_out rank l1 = site_elect_out rank l2.
Proof. intros P ND. unfold site_elect_out. rewrite (sort_perm_invariant_NoDup rank l1 l2 P ND). reflexivity. Qed.

Theorem site_exists_deterministic {V} (p : string * V -> bool) (l1 l2 : list (string * V)) :
  Permutation l1 l2 -> site_exists_out p l1 = site_exists_out p l2.
Proof. apply existsb_perm. Qed.
