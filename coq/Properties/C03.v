(* C03 -- Emitted change batches keep applied configuration equal to arbitrated state.
   Only statements, each closed by [exact] and followed by Print Assumptions.

   FULL STATEMENT:
     forall c es, folding [apply_change] over every batch emitted along es from the empty shadow
     yields, after each event, exactly { rkey r |-> attrs r | r in get_resources (state) }.
   Proved below: the ordering half in full; the KEY half in full ([C03_applied_set_is_active_set]: for every
   history the set of resources that have a configuration applied is exactly the set of active resources --
   nothing active is missing, nothing removed lingers); and the FULL STATEMENT itself
   ([C03_applied_configuration_is_current]) for every history that obeys the API-server rule K3 (a spec change
   moves the generation; a UID is not reused) -- with the cert-manager conversion on or off ([cm_hist]).  The tie of
   the model to the code is decided on every run by evaluating Arb.Cases.shadow_run on the implementation's own
   batches. *)
From Coq Require Import List ZArith String Bool.
From NIC Require Import Base.SMap Arb.Types Arb.Model Arb.Spec Arb.InvProofs Arb.ListenerProofs Arb.ClassProofs Arb.Cases Arb.ChangeProofs Arb.ShadowProofs Arb.ShadowAttrs Arb.ListenerCurrent.
Import ListNotations.
Open Scope Z_scope.

(* Within one batch every removal is ordered before every addition or update: for EVERY event in
   EVERY state (reachable or not), including the batches of TransportServer and GlobalConfiguration
   events, which concatenate listener changes and host changes. *)
Theorem C03_removals_first : forall c s e, deletes_first (batch_of (step c s e)) false = true.
Proof. exact removals_first. Qed.
Print Assumptions C03_removals_first.

(* The applied set equals the active set, for every history.  [shadow_run c init [] es] applies the batch of
   every event of [es] in order (delete: the key goes; addOrUpdate: the key is (re)placed).  Its keys are
   the keys of GetResources() of the state reached.  Hypothesis: every TransportServer event carries a
   TransportServer that is either TLS passthrough or bound to a listener, not both -- the one fact of
   ValidateTransportServer the statement depends on (listener name tls-passthrough <-> protocol
   TLS_PASSTHROUGH); the harness passes only objects the real validator accepted as stored. *)
Theorem C03_applied_set_is_active_set :
  forall c es, Forall ev_role es ->
  forall k, In k (keys (shadow_run c init [] es)) <-> In k (keys (get_resources (run c es))).
Proof. exact applied_keys_are_active. Qed.
Print Assumptions C03_applied_set_is_active_set.

(* the host map and the listener map that buildHostsAndResources / buildListenerHosts return are coherent:
   one value per resource key, an Ingress is marked valid exactly for the hosts it holds, a VirtualServer or
   TransportServer sits under one key *)
Theorem C03_host_map_coherent : forall c o, objs_ok o -> coherent (hosts_of_objs c o).
Proof. exact coherent_hosts_of_objs. Qed.
Print Assumptions C03_host_map_coherent.

(* the state that the batches must reproduce is a function of the object set (rebuilt from scratch) *)
Theorem C03_state_function_of_objects :
  forall c es, hosts (run c es) = hosts_of_objs c (objs_after es) /\ lhosts (run c es) = lhosts_of_objs (objs_after es).
Proof. exact hosts_function_of_objs. Qed.
Print Assumptions C03_state_function_of_objects.

(* an event that changes nothing (re-sync of an unchanged object set) emits no change and no problem:
   rebuilding in a reachable state returns the state itself and empty lists *)
Theorem C03_C09_rebuild_is_idempotent :
  forall c s, full_inv c s -> rebuild_hosts c s = (s, [], []) /\ rebuild_listeners s = (s, [], []).
Proof. exact rebuild_idem_both. Qed.
Print Assumptions C03_C09_rebuild_is_idempotent.

(* the equality used by the diff never calls two different resources equal as far as identity goes:
   reflexive, and (see Arb.Model.is_equal) it compares kind, namespace, name, UID, generation and,
   after the repairs, every listener attribute *)
Theorem C03_is_equal_reflexive : forall r, is_equal r r = true.
Proof. exact is_equal_refl. Qed.
Print Assumptions C03_is_equal_reflexive.

(* "listener ports and addresses as they are in the current state": in every reachable state every resource of
   GetResources() carries exactly the ports and addresses that the CURRENT GlobalConfiguration (the listeners that
   passed validation, [o_gc (objs_after es)]) gives its listeners -- for the HTTP and the HTTPS listener of a
   VirtualServer and for the listener of a TransportServer.  [listener_attrs_stale] is the judge the harness
   evaluates on the implementation's own GetResources() after every event (Arb.Cases.listeners_current_run). *)
Theorem C03_listener_attributes_current :
  forall c es, Forall ev_role es ->
  forall k r, lookup k (get_resources (run c es)) = Some r -> listener_attrs_stale (o_gc (objs_after es)) r = 0.
Proof. exact listener_attributes_current. Qed.
Print Assumptions C03_listener_attributes_current.

(* non-vacuity: a VirtualServer bound to an HTTPS listener; the judge accepts the current port and rejects a stale one *)
Definition exLG := Some [mkL "https-8443" 8443 "HTTP" "" "" true].
Definition exLV := mkVS (mkMeta "ns" "v" "u1" 100 1 0) "h.example.com" [] (Some ("", "https-8443")).
Example C03_listener_judge_discriminates :
  (listener_attrs_stale exLG (RVS (mkVC exLV [] [] 0 8443 "" "" "" "")) = 0) /\
  (listener_attrs_stale exLG (RVS (mkVC exLV [] [] 0 9000 "" "" "" "")) = 9).
Proof. split; vm_compute; reflexivity. Qed.

(* Non-vacuity / regression witnesses of the three repaired defects, on the model of the repaired
   code: a listener address edit, a passthrough->TCP flip and a re-created object all emit changes. *)
Definition gc1 := [mkL "l3" 9000 "TCP" "" "" false].
Definition gc2 := [mkL "l3" 9000 "TCP" "10.0.0.1" "" false].
Definition tT := mkTS (mkMeta "ns" "t" "u1" 100 1 0) "l3" "TCP" "".
Example C03_address_edit_emits_change :
  map c_op (batch_of (step (mkCfg true true) (run (mkCfg true true) [EGC gc1 false; ETS tT true true]) (EGC gc2 false))) = [AddOrUpdate].
Proof. vm_compute. reflexivity. Qed.
Definition tP g := mkTS (mkMeta "ns" "t" "u1" 100 g 0) "tls-passthrough" "TLS_PASSTHROUGH" "h.example.com".
Definition tC g := mkTS (mkMeta "ns" "t" "u1" 100 g 0) "l3" "TCP" "".
Example C03_protocol_flip_ends_with_update :
  map c_op (batch_of (step (mkCfg true true) (run (mkCfg true true) [EGC gc1 false; ETS (tP 1) true true]) (ETS (tC 2) true true)))
  = [Delete; AddOrUpdate].
Proof. vm_compute. reflexivity. Qed.

(* Non-vacuity of the applied-set theorem: a history in which a host moves from an Ingress to an older
   VirtualServer and a TransportServer flips from TLS passthrough to a TCP listener satisfies the hypothesis
   and the shadow ends with exactly the two active resources. *)
Definition sI := mkIng (mkMeta "ns" "i" "u2" 200 1 0) IRegular ["h.example.com"%string] [] false.
Definition sV := mkVS (mkMeta "ns" "v" "u3" 100 1 0) "h.example.com" [] None.
Example C03_applied_set_nonvacuous :
  let es := [EGC gc1 false; ETS (tP 1) true true; EIng sI true true; EVS sV true true; ETS (tC 2) true true] in
  Forall ev_role es /\
  keys (shadow_run (mkCfg true true) init [] es) = ["TransportServer/ns/t"%string; "VirtualServer/ns/v"%string].
Proof. split; [repeat constructor|vm_compute; reflexivity]. Qed.

(* THE FULL STATEMENT.  Replaying every batch the controller emitted along [es] into an empty shadow gives,
   under every key, exactly the attributes (everything the NGINX configuration is rendered from: object,
   master/minions, routes, valid hosts, listener ports and addresses) of the resource GetResources() returns
   for the state reached -- and nothing under any other key.  [es] is arbitrary, so the same holds after every
   prefix.  Hypotheses: [ev_role] as above; [k3_hist]: among the objects the history ever stores, equal
   namespace/name, UID and generation (and, for an Ingress, annotations) mean equal objects -- what the API
   server guarantees and what IsEqual() relies on by design; [cm_hist]: the cert-manager conversion is off, or
   stored routes have UIDs and challenge Ingresses converted into routes with the same namespace, name and
   generation are converted into the same route (a converted route carries nothing else; before repair F94 it did
   not even carry the generation and the statement was false). *)
Theorem C03_applied_configuration_is_current :
  forall c es, cm_hist c es -> Forall ev_role es -> k3_hist es ->
  forall k, lookup k (shadow_run c init [] es) = option_map attrs (lookup k (get_resources (run c es))).
Proof. exact applied_configuration_is_current. Qed.
Print Assumptions C03_applied_configuration_is_current.

(* Non-vacuity: the history above (a TransportServer edited from passthrough to TCP, so two stored versions of
   one object with different generations) satisfies all three hypotheses with cert_manager off, and its shadow
   is not empty. *)
Example C03_applied_configuration_nonvacuous :
  let es := [EGC gc1 false; ETS (tP 1) true true; EIng sI true true; EVS sV true true; ETS (tC 2) true true] in
  Forall ev_role es /\ k3_hist es /\
  List.length (shadow_run (mkCfg true false) init [] es) = 2%nat.
Proof.
  split; [repeat constructor|]. split; [|vm_compute; reflexivity].
  repeat split; intros a b Ha Hb Hm; cbn [In] in Ha, Hb;
    destruct Ha as [Ha|[Ha|[Ha|[Ha|[Ha|[]]]]]]; try discriminate Ha; injection Ha as Ea; subst a;
    destruct Hb as [Hb|[Hb|[Hb|[Hb|[Hb|[]]]]]]; try discriminate Hb; injection Hb as Eb; subst b;
    first [reflexivity | vm_compute in Hm; discriminate Hm].
Qed.

(* Non-vacuity with the cert-manager conversion ON: a solver Ingress is converted into a route of the VirtualServer
   that owns its host, then edited in place (generation 1 -> 2, new token path); the hypotheses hold and the shadow
   ends with the VirtualServer carrying the NEW route (the F94 scenario). *)
Definition cV := mkVS (mkMeta "ns" "v" "u1" 100 1 0) "h.example.com" [] None.
Definition cI g p := mkIng (mkMeta "ns" "cm-acme" "u2" 200 g 0) IRegular ["h.example.com"%string] [p] true.
Example C03_cert_manager_nonvacuous :
  let es := [EVS cV true true; EIng (cI 1 "/.well-known/a") true true; EIng (cI 2 "/.well-known/b") true true] in
  cm_hist (mkCfg true true) es /\ Forall ev_role es /\ k3_hist es /\
  map (fun kv => match snd kv with RVS vc => map r_subpaths (vc_vsrs vc) | _ => [] end) (shadow_run (mkCfg true true) init [] es)
  = [[["/.well-known/b"%string]]].
Proof.
  split; [|split; [repeat constructor|split; [|vm_compute; reflexivity]]].
  - right. split; [intros r Hr; cbn [In] in Hr; destruct Hr as [Hr|[Hr|[Hr|[]]]]; discriminate Hr|].
    intros a b Ha Hb Hm; cbn [In] in Ha, Hb;
      destruct Ha as [Ha|[Ha|[Ha|[]]]]; try discriminate Ha; injection Ha as Ea; subst a;
      destruct Hb as [Hb|[Hb|[Hb|[]]]]; try discriminate Hb; injection Hb as Eb; subst b;
      first [reflexivity | vm_compute in Hm; discriminate Hm].
  - repeat split; intros a b Ha Hb Hm; cbn [In] in Ha, Hb;
      destruct Ha as [Ha|[Ha|[Ha|[]]]]; try discriminate Ha; injection Ha as Ea; subst a;
      destruct Hb as [Hb|[Hb|[Hb|[]]]]; try discriminate Hb; injection Hb as Eb; subst b;
      first [reflexivity | vm_compute in Hm; discriminate Hm].
Qed.
