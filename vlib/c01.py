"""C01 -- one owner per host, chosen identically in every event order."""
import json
from . import common as C, arb

# row layout of Arb.Cases.arb_case
ID, MASK, MFIN, FIRST, SP_H, SP_L, SPA_H, SPA_L, OI, NEV, VH, TR, CI = range(13)
# components of the model that C01's theorems talk about: hosts (4) and resources incl. ValidHosts (16)
RELEVANT = 4 | 16


def nontrivial(c):
    """a case is non-trivial when some host had at least two claimants at some point (a contest)"""
    claims = {}
    for e in c["histories"][0]["events"]:
        m = e["m"]
        if m["e"] == "ing" and m["cls"] and m["valid"] and m["ing"]["kind"] != "minion":
            for h in m["ing"]["hosts"]:
                claims.setdefault(h, set()).add("I" + m["ing"]["meta"]["ns"] + "/" + m["ing"]["meta"]["name"])
        if m["e"] == "vs" and m["cls"] and m["valid"]:
            claims.setdefault(m["vs"]["host"], set()).add("V" + m["vs"]["meta"]["ns"] + "/" + m["vs"]["meta"]["name"])
        if m["e"] == "ts" and m["cls"] and m["valid"] and m["ts"]["proto"] == "TLS_PASSTHROUGH":
            claims.setdefault(m["ts"]["host"], set()).add("T" + m["ts"]["meta"]["ns"] + "/" + m["ts"]["meta"]["name"])
    return any(len(v) >= 2 for v in claims.values())


def judge(run, cases, rows):
    for c in cases:
        if c.get("error"):
            run.failing({"kind": "harness-case-error"}, [c], "harness could not run case %d: %s" % (c["id"], c["error"][:300]),
                        theorem="correspondence harness arb", found_input="panic" in c["error"])
            continue
        r = rows[c["id"]]
        run.count_case(arb.canon(c), nontrivial(c))
        run.cov["traces_validated_against_impl"] += len(c["histories"])
        if r[SP_H] != 0 or r[SPA_H] == 0:
            run.failing({"kind": "owner-not-least"}, [c],
                        "C01: after step %d of case %d the owner of some host in Configuration.hosts is not the least claimant (or a claimed host has no owner)"
                        % (r[SP_H], c["id"]), theorem="Arb.Spec.hosts_spec_ok")
        elif r[CI] != 0:
            st = c["histories"][0]["steps"][r[CI] - 1] if c["histories"][0].get("steps") else {}
            run.failing({"kind": "one-hostname-two-owners", "how": "letter-case"}, [c],
                        "C01: after step %d of case %d Configuration.hosts has two entries for one hostname (they differ in letter case only; DNS names, NGINX server names and the "
                        "TLS passthrough map ignore case), each with an owner of its own: %s" % (r[CI], c["id"], json.dumps(st.get("hosts"))[:300]),
                        theorem="Arb.Cases.ci_hosts_run")
        elif r[VH] != 0:
            run.failing({"kind": "valid-hosts"}, [c],
                        "C01: after step %d of case %d an Ingress in GetResources() is rendered with a host the host map gives to another resource (or without a host it owns): "
                        "ValidHosts disagrees with Configuration.hosts" % (r[VH], c["id"]), theorem="Arb.Cases.valid_hosts_ok")
        elif r[OI] == 0:
            run.failing({"kind": "order-dependent"}, [c],
                        "C01: two histories of case %d that end in the same object set end with different hosts / resources on the implementation" % c["id"],
                        theorem="Arb.Cases.obs_final_eqb")
        elif (r[MASK] | r[MFIN]) & RELEVANT:
            run.failing({"kind": "correspondence", "components": (r[MASK] | r[MFIN]) & RELEVANT}, [c],
                        "model and implementation disagree on hosts/resources (mask %d, first step %d, case %d) while the C01 specification holds on what was observed"
                        % (r[MASK] | r[MFIN], r[FIRST], c["id"]),
                        theorem="correspondence Arb.Model ~ internal/k8s/configuration.go (hosts, GetResources)", found_input=False)


def judge_served(run, cases, rows):
    """what NGINX is given: the TLS passthrough host map must route every passthrough host to its owner and only those"""
    from . import arbfiles
    for c in cases:
        if c.get("error") or c["id"] not in rows:
            continue
        r = rows[c["id"]]
        run.cov["traces_validated_against_impl"] += 1
        if r[arbfiles.DPT] != 0:
            arbfiles.judge_pt(run, c, r, "C01")


def check(run):
    n = 200 if run.tier == "quick" else 4000
    run.proof_obligations()
    cases = arb.generate(run, n, ctl=True)
    rows = arb.evaluate(run, cases)
    judge(run, cases, rows)
    part = [c for c in cases if not c.get("error") and c["tls_passthrough"]][: (80 if run.tier == "quick" else 1500)]
    crow = arb.evaluate(run, part, fn="ctl_case", extra=arb.ctl_term, tag="arbctl")
    judge_served(run, part, crow)
    arb.judge_delivery(run, part, crow, "C01", "the owner is then chosen among objects that are not the current ones (a re-created object keeps the age of its predecessor)")
    run.cov["controller_level_histories"] = len(part)
    for c in cases[:2]:
        run.sample(arb.summarize_case(c))
    run.cov["events_total"] = sum(len(c["histories"][0]["events"]) for c in cases)
    run.cov["rule"] = ("random histories (1-40 events) over Ingress regular/master/minion/challenge, VirtualServer, VirtualServerRoute, TransportServer "
                       "(TCP/UDP/TLS passthrough) and GlobalConfiguration: create, update, resync, annotation-only change, class flip, invalidate, delete, "
                       "delete-absent, delete-and-recreate (new UID); 2 namespaces x 3 names x 5 hosts, creation times drawn from 3 values so ties are common; "
                       "each history is also replayed as a random interleaving that keeps per-key order and as `last event of every key in random order`. "
                       "Distinct = distinct event list; non-trivial = some host had at least two valid class-matching claimants at some point. After every step also: the ValidHosts of every "
                       "Ingress in GetResources() equal the hosts the host map assigns to it.")
    run.cov["trusted_base"] = arb.TRUSTED
    run.assumptions += ["K1: claimants of one host have distinct UIDs (hypothesis of C01_owner_is_least; the generator issues fresh UIDs)",
                        "validators / class predicate as oracles (verdicts of the real functions are fed to the model)"]


def replay(run, path):
    cases = arb.replay_cases(run, path, ctl=True)
    crow = arb.evaluate(run, cases, fn="ctl_case", extra=arb.ctl_term, tag="arbctl")
    for c in cases:
        if not c.get("error") and c["id"] in crow:
            print("replay case %d (controller level): first step at which tls-passthrough-hosts.conf is not exact = %d" % (c["id"], crow[c["id"]][10]))
    judge_served(run, cases, crow)
    rows = arb.evaluate(run, cases)
    for c in cases:
        if c.get("error"):
            print("replay case %d: harness error %s" % (c["id"], c["error"]))
            continue
        r = rows[c["id"]]
        print("replay case %d: disagreement mask main=%d final/alts=%d first step=%d; host-owner spec first failing step=%d (alts ok=%d); order-independent on impl=%d"
              % (c["id"], r[MASK], r[MFIN], r[FIRST], r[SP_H], r[SPA_H], r[OI]))
        print("   ValidHosts vs host map first failing step=%d; (informative, not part of C01: first batch that, applied one change at a time, "
              "configures one host for two resources for a moment: step %d)" % (r[VH], r[TR]))
        for h in c["histories"]:
            print("  %s: final hosts %s" % (h["label"], json.dumps(h["final"]["hosts"], sort_keys=True)))
    judge(run, cases, rows)
