(* C05: the accumulated reports are truthful after every event of every history.  Part 1: definitions and the
   algebra of "the last report about k". *)
From Coq Require Import List ZArith String Ascii Bool Lia.
From NIC Require Import Base.SMap Arb.Types Arb.Model Arb.Spec Arb.WinsProofs Arb.InvProofs Arb.OwnerProofs
     Arb.ListenerProofs Arb.ClassProofs Arb.ChangeProofs Arb.ReportProofs Arb.ComposeProofs Arb.Cases Arb.ShadowProofs Arb.ShadowAttrs.
Import ListNotations.
Open Scope string_scope.
Open Scope Z_scope.

Definition ins (m : smap report) (kr : string * report) : smap report := insert (fst kr) (snd kr) m.

(* the reports accumulated per object along a history, the way [c05_run] accumulates them: before the reports
   of an event are added, what was said about an object that the event deletes or replaces is forgotten *)
Definition acc_step (c : cfg) (st : list event * smap report) (e : event) : list event * smap report :=
  ((fst st ++ [e])%list, fold_left ins (step_reports c (fst st) e) (forget (cluster (fst st)) e (snd st))).

Definition last_reports (c : cfg) (es : list event) : smap report := snd (fold_left (acc_step c) es ([], [])).

Lemma acc_fst c : forall es st, fst (fold_left (acc_step c) es st) = (fst st ++ es)%list.
Proof.
  induction es as [|e r IH]; intros st; cbn [fold_left]; [rewrite app_nil_r; reflexivity|].
  rewrite IH. cbn [acc_step fst]. rewrite <- app_assoc. reflexivity.
Qed.

Lemma last_reports_snoc c es e :
  last_reports c (es ++ [e])%list = fold_left ins (step_reports c es e) (forget (cluster es) e (last_reports c es)).
Proof.
  unfold last_reports. rewrite fold_left_app. cbn [fold_left]. unfold acc_step at 1. cbn [snd]. rewrite acc_fst. reflexivity.
Qed.

(* what the specification looks at besides the reports: the state as GetResources()/the host maps show it *)
Definition view_ob (s : state) : obs := mkObs [] [] (hosts_view s) (lhosts_view s) (res_view s).

(* the last report about k in a list of reports *)
Fixpoint last_report (k : string) (rs : list (string * report)) (acc : option report) : option report :=
  match rs with
  | [] => acc
  | (k', r) :: rest => last_report k rest (if String.eqb k' k then Some r else acc)
  end.

Lemma last_report_acc k : forall rs acc,
  last_report k rs acc = match last_report k rs None with Some r => Some r | None => acc end.
Proof.
  induction rs as [|[k' r] rest IH]; intros acc; cbn [last_report]; [reflexivity|].
  destruct (String.eqb k' k).
  - rewrite (IH (Some r)). destruct (last_report k rest None); reflexivity.
  - apply IH.
Qed.

Lemma last_report_app k a b :
  last_report k (a ++ b)%list None = match last_report k b None with Some r => Some r | None => last_report k a None end.
Proof.
  induction a as [|[k' r] rest IH]; cbn [app last_report].
  - destruct (last_report k b None); reflexivity.
  - rewrite (last_report_acc k (rest ++ b)%list (if String.eqb k' k then Some r else None)), IH.
    rewrite (last_report_acc k rest (if String.eqb k' k then Some r else None)).
    destruct (last_report k b None); [reflexivity|]. destruct (last_report k rest None); reflexivity.
Qed.

Lemma fold_ins_lookup k : forall rs m,
  lookup k (fold_left ins rs m) = match last_report k rs None with Some r => Some r | None => lookup k m end.
Proof.
  induction rs as [|[k' r] rest IH]; intros m; cbn [fold_left last_report]; [reflexivity|].
  rewrite IH. unfold ins; cbn [fst snd]. rewrite (last_report_acc k rest (if String.eqb k' k then Some r else None)).
  destruct (last_report k rest None); [reflexivity|].
  destruct (String.eqb_spec k' k) as [->|Hne].
  - rewrite lookup_insert_eq. reflexivity.
  - rewrite lookup_insert_neq by congruence. reflexivity.
Qed.

Lemma last_report_in k : forall rs acc r, last_report k rs acc = Some r -> In (k, r) rs \/ acc = Some r.
Proof.
  induction rs as [|[k' r'] rest IH]; intros acc r H; cbn [last_report] in H; [auto|].
  apply IH in H. destruct H as [H|H]; [left; right; exact H|].
  destruct (String.eqb_spec k' k) as [->|Hne]; [|auto]. inversion H; subst. left; left; reflexivity.
Qed.

Lemma last_report_none k : forall rs, (forall r, ~ In (k, r) rs) -> last_report k rs None = None.
Proof.
  intros rs H. destruct (last_report k rs None) as [r|] eqn:E; [|reflexivity].
  apply last_report_in in E. destruct E as [E|E]; [exfalso; exact (H r E)|discriminate].
Qed.

Lemma last_report_some k : forall rs r0, In (k, r0) rs -> exists r, last_report k rs None = Some r.
Proof.
  induction rs as [|[k' r'] rest IH]; intros r0 Hin; [destruct Hin|]. cbn [last_report].
  rewrite last_report_acc. destruct Hin as [Heq|Hin].
  - inversion Heq; subst. rewrite String.eqb_refl. destruct (last_report k rest None); eauto.
  - destruct (IH _ Hin) as (r & ->). eauto.
Qed.

(* all reports about k in the list satisfy P: so does the last one *)
Lemma last_report_all k (P : report -> Prop) rs r :
  (forall r0, In (k, r0) rs -> P r0) -> last_report k rs None = Some r -> P r.
Proof. intros H E. apply last_report_in in E. destruct E as [E|E]; [auto|discriminate]. Qed.
