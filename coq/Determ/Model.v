(* Determ/Model.v -- C09: generation is a pure function.
   Executable definitions only (no proofs):
   - the inventory record the translator (harness/overlay/internal/verifh/c09t) fills in,
   - Go's range over a map as iteration over an adversarially ordered list of the bindings,
   - the consumer of every map-range site of internal/configs (what the loop body does with the
     entries it is handed), as a function of the ORDER in which the entries arrive. *)
From Coq Require Import List String Ascii Bool Arith.
From NIC Require Import Base.SMap.
Import ListNotations.
Open Scope string_scope.

(* ------------------------------------------------------------------ inventory (filled by T) *)

(* syntactic class of a loop body, as the translator sees it *)
Inductive rclass :=
| CNoEffect        (* nothing but loop-local computation *)
| CMapWrite        (* only m[k] = v / delete(m, k) on maps *)
| CAppendSorted    (* x = append(x, ...) and x is passed to sort.* / slices.Sort* later in the function *)
| CAppendUnsorted  (* x = append(x, ...) with no later sort in the function *)
| CBuilder         (* writes into a strings.Builder / bytes.Buffer / fmt.Fprint* *)
| COther.          (* early return, break, calls for effect, scalar accumulation, ... *)

Record site := mkSite {
  s_pkg : string; s_file : string; s_func : string;
  s_index : nat;              (* n-th map range inside the function, source order, from 0 *)
  s_line : nat;               (* informational only: never compared *)
  s_operand : string; s_keyT : string; s_valT : string;
  s_class : rclass;
  s_targets : list string;    (* maps written / slices appended to *)
  s_sorts : list string;      (* the sort.* calls that order the targets later in the function, verbatim
                                 (comparator included): the order a site theorem assumes is pinned in the table *)
  s_why : string }.

Record nduse := mkNd { n_kind : string; n_pkg : string; n_file : string; n_func : string; n_line : nat }.

Definition rclass_eqb (a b : rclass) : bool :=
  match a, b with
  | CNoEffect, CNoEffect | CMapWrite, CMapWrite | CAppendSorted, CAppendSorted
  | CAppendUnsorted, CAppendUnsorted | CBuilder, CBuilder | COther, COther => true
  | _, _ => false
  end.

(* ------------------------------------------------------------------ range over a map *)

(* A Go map is a canonical association list (Base.SMap).  [range m] hands the bindings to the
   loop body in an order the runtime chooses; the choice is an explicit oracle [pi]: at each step
   the oracle names which of the remaining bindings comes next. *)
Fixpoint extract {A} (i : nat) (l : list A) {struct l} : option (A * list A) :=
  match l with
  | [] => None
  | x :: r =>
      match i with
      | 0 => Some (x, r)
      | S j => match extract j r with
               | Some (y, r') => Some (y, x :: r')
               | None => None
               end
      end
  end.

Fixpoint range_order {A} (pi : list nat) (l : list A) : list A :=
  match pi with
  | [] => l
  | i :: pi' =>
      match extract (i mod (List.length l)) l with
      | Some (x, r) => x :: range_order pi' r
      | None => []
      end
  end.

Definition range_map {A} (pi : list nat) (m : smap A) : list (string * A) := range_order pi m.

(* ------------------------------------------------------------------ sorting (sort.Strings, sort.Slice on distinct keys) *)

Definition sle (a b : string) : bool :=
  match String.compare a b with Gt => false | _ => true end.

Section Sort.
  Context {A : Type} (key : A -> string).
  Fixpoint ins (x : A) (acc : list A) : list A :=
    match acc with
    | [] => [x]
    | z :: r => if sle (key x) (key z) then x :: z :: r else z :: ins x r
    end.
  Definition isort (l : list A) : list A := fold_left (fun acc x => ins x acc) l [].
End Sort.

(* ------------------------------------------------------------------ string sets / file systems as canonical maps *)

Definition sset := smap bool.
Definition sadd (k : string) (s : sset) : sset := insert k true s.

(* ------------------------------------------------------------------ consumers, one per site.
   Naming: site_<function>[_<index>]_out.  The argument [l] is always the list of bindings in the
   order the range produced them. *)

(* ingress.go upstreamMapToSlice #0 : keys appended, sort.Strings(keys), then looked up in the
   map itself (lookup does not depend on the iteration order). *)
Definition site_upstreamMapToSlice_out {V} (m : smap V) (l : list (string * V)) : list (option V) :=
  map (fun k => lookup k m) (isort (fun k => k) (map fst l)).

(* virtualserver.go generateAPIKeyClients #0.  [hash] stands for hex(sha256(.)).
   unfixed tree: clients appended in range order and returned. *)
Definition api_client (hash : string -> string) (kv : string * string) : string * string :=
  (fst kv, hash (snd kv)).
Definition site_generateAPIKeyClients_out (hash : string -> string) (l : list (string * string))
  : list (string * string) := map (api_client hash) l.
(* tree with fixes/F13.diff: sort.Slice(clients, ClientID <) after the loop *)
Definition site_generateAPIKeyClients_fixed_out (hash : string -> string) (l : list (string * string))
  : list (string * string) := isort fst (map (api_client hash) l).

(* a tree whose sort compares a NORMALISED client id (e.g. strings.ToLower): the comparator is then a
   strict total order on the keys only if [norm] is injective on them *)
Definition site_generateAPIKeyClients_normalised_out (norm : string -> string) (hash : string -> string)
  (l : list (string * string)) : list (string * string) :=
  isort (fun c => norm (fst c)) (map (api_client hash) l).

(* virtualserver.go GenerateVirtualServerConfig #0: for mapName, clients := range ClientMap
   { maps = append(maps, gen mapName clients) } ; later removeDuplicateMaps(maps) keeps the first
   map of every (source, variable). *)
Section VSMaps.
  Context {C M : Type} (gen : string -> C -> M) (mkey : M -> string).
  Fixpoint dedup (seen : list string) (l : list M) : list M :=
    match l with
    | [] => []
    | x :: r => if existsb (String.eqb (mkey x)) seen then dedup seen r
                else x :: dedup (mkey x :: seen) r
    end.
  Definition site_GenerateVirtualServerConfig_out (pre : list M) (l : list (string * C)) : list M :=
    dedup [] (pre ++ map (fun kv => gen (fst kv) (snd kv)) l).
  (* tree with fixes/F13.diff: keys collected, sort.Strings, then the loop over the sorted keys *)
  Definition site_GenerateVirtualServerConfig_fixed_out (pre : list M) (l : list (string * C)) : list M :=
    dedup [] (pre ++ map (fun kv => gen (fst kv) (snd kv)) (isort fst l)).
End VSMaps.

(* virtualserver.go generatePolicies #0: for _, v := range generateLRZGroupMaps(zones)
   { if hasDuplicateMapDefaults(v) { warn; return error500 } ; GroupMaps = append(GroupMaps, *v) } *)
Section LRZ.
  Context {M : Type} (dup : M -> bool).
  Inductive lrz_result := LrzError500 | LrzMaps (l : list M).
  Definition site_generatePolicies_out (l : list (string * M)) : lrz_result :=
    if existsb dup (map snd l) then LrzError500 else LrzMaps (map snd l).
  (* NB the unfixed loop returns at the FIRST duplicate it meets: which warning-free prefix was
     appended before is unobservable because the whole policiesCfg is discarded. *)
  Definition site_generatePolicies_fixed_out (l : list (string * M)) : lrz_result :=
    if existsb dup (map snd l) then LrzError500 else LrzMaps (map snd (isort fst l)).
End LRZ.

(* annotations.go filterMasterAnnotations / filterMinionAnnotations #0:
   for key := range annotations { if deny[key] { removed = append(removed, key); delete(annotations, key) } }
   Two outputs: the map after the deletions (goes on into generation) and the removed keys (only
   joined into a log line). *)
Section Filter.
  Context (deny : string -> bool).
  Definition site_filterAnnotations_map_out (m : smap string) (l : list (string * string)) : smap string :=
    fold_left (fun acc kv => if deny (fst kv) then remove (fst kv) acc else acc) l m.
  Definition site_filterAnnotations_removed_out (l : list (string * string)) : list string :=
    map fst (filter (fun kv => deny (fst kv)) l).
End Filter.

(* annotations.go mergeMasterAnnotationsIntoMinion #0 *)
Definition merge_step (allowed : string -> bool) (acc : smap string) (kv : string * string) : smap string :=
  if mem (fst kv) acc then acc else if allowed (fst kv) then insert (fst kv) (snd kv) acc else acc.
Definition site_mergeMasterAnnotationsIntoMinion_out (allowed : string -> bool) (minion : smap string)
  (l : list (string * string)) : smap string := fold_left (merge_step allowed) l minion.

(* generic: dst[f k v] = g k v for every entry  (Warnings.Add, HealthChecks merge, DosProtectedEx ->
   dosResources, TLS passthrough host map, ApPolRefs -> resources.Policies ...) *)
Section MapWrite.
  Context {V W : Type} (kf : string * V -> option (string * W)).
  Definition mapwrite_step (acc : smap W) (kv : string * V) : smap W :=
    match kf kv with Some (k, w) => insert k w acc | None => acc end.
  Definition site_mapwrite_out (dst : smap W) (l : list (string * V)) : smap W :=
    fold_left mapwrite_step l dst.
End MapWrite.

(* configurator.go: writes of files (CreateAppProtectResourceFile name content) issued from inside a
   map range: the file system after the loop.  Each entry yields a list of (name, content). *)
Section FileWrites.
  Context {V : Type} (writes : string * V -> list (string * string)).
  Definition fs_step (fs : smap string) (kv : string * V) : smap string :=
    fold_left (fun acc w => insert (fst w) (snd w) acc) (writes kv) fs.
  Definition site_filewrites_out (fs : smap string) (l : list (string * V)) : smap string :=
    fold_left fs_step l fs.
End FileWrites.

(* configurator.go getStandardIngressAnnotations / getMinionIngressAnnotations: a set of keys.
   inner loop (#1): for key := range annotations { if interesting key { set[key] = true } }
   outer loop (#0): for _, ing := range ingresses { inner } *)
Section AnnSet.
  Context (interesting : string -> bool).
  Definition annset_inner (acc : sset) (l : list (string * string)) : sset :=
    fold_left (fun s kv => if interesting (fst kv) then sadd (fst kv) s else s) l acc.
  (* the outer loop runs the inner loop on each ingress' annotations, each in its own order *)
  Definition annset_outer (acc : sset) (l : list (string * list (string * string))) : sset :=
    fold_left (fun s ing => annset_inner s (snd ing)) l acc.
End AnnSet.

(* configurator.go GetIngressAnnotations #0: keys of the set appended, NOT sorted (telemetry only) *)
Definition site_GetIngressAnnotations_out (l : list (string * bool)) : list string := map fst l.

(* configurator.go GetIngressCounts #0/#1, GetVirtualServerCounts #0: sums *)
Definition site_count_out {V} (w : string * V -> nat) (l : list (string * V)) : nat :=
  fold_left (fun n kv => n + w kv) l 0.
Definition site_GetIngressCounts_out {V} (is_master : string * V -> bool) (l : list (string * V)) : nat * nat :=
  fold_left (fun c kv => if is_master kv then (S (fst c), snd c) else (fst c, S (snd c))) l (0, 0).

(* configurator.go virtualServerForHost #0 / transportServerForActionName #0: first match wins *)
Definition site_firstmatch_out {V} (p : string * V -> bool) (l : list (string * V)) : option (string * V) :=
  find p l.

(* ------------------------------------------------------------------ S: the decidable specification on
   what the implementation produced.  One observation = the digests of the files of one rendering
   plus the [changed] answer of the content-comparing manager. *)
Definition rendering := (list (string * string) * bool)%type.   (* [(file, sha256 hex)], changed *)

Fixpoint files_eqb (a b : list (string * string)) : bool :=
  match a, b with
  | [], [] => true
  | (f, h) :: ra, (g, k) :: rb => String.eqb f g && String.eqb h k && files_eqb ra rb
  | _, _ => false
  end.

(* all renderings equal to the first one, and no rendering after the first reports a change *)
Definition spec_ok (obs : list rendering) : bool :=
  match obs with
  | [] => true
  | (f0, _) :: rest => forallb (fun r => files_eqb f0 (fst r) && negb (snd r)) rest
  end.

(* site-level observations: the outputs (as item lists) of repeated runs of one real function *)
Fixpoint list_eqb (a b : list string) : bool :=
  match a, b with
  | [], [] => true
  | x :: ra, y :: rb => String.eqb x y && list_eqb ra rb
  | _, _ => false
  end.
Definition all_equal (obs : list (list string)) : bool :=
  match obs with [] => true | o :: rest => forallb (list_eqb o) rest end.

(* ------------------------------------------------------------------ history: generation must not write
   into its inputs.  One rendering of a master/minion pair: the minion's effective annotations are
   its own plus the inheritable ones of the master, minus the denied ones.  [inplace = false] is the
   code as it stands (the minion Ingress is deep-copied first, the stored object is left alone);
   [inplace = true] is a generator that edits the stored minion. *)
Definition effective_minion (allowed deny : string -> bool) (master minion : smap string) : smap string :=
  site_filterAnnotations_map_out deny
    (site_mergeMasterAnnotationsIntoMinion_out allowed minion master)
    (site_mergeMasterAnnotationsIntoMinion_out allowed minion master).

(* (what is rendered, what the store holds afterwards) *)
Definition render_minion (inplace : bool) (allowed deny : string -> bool) (master minion : smap string)
  : smap string * smap string :=
  let eff := effective_minion allowed deny master minion in
  (eff, if inplace then eff else minion).

(* a history of master versions rendered one after the other against the same stored minion:
   the rendering of the last one *)
Fixpoint render_history (inplace : bool) (allowed deny : string -> bool) (masters : list (smap string))
  (minion : smap string) (last : smap string) : smap string :=
  match masters with
  | [] => last
  | m :: rest =>
      let r := render_minion inplace allowed deny m minion in
      render_history inplace allowed deny rest (snd r) (fst r)
  end.

(* generic form: a generator with a mutable part [S] of its inputs *)
Fixpoint run_history {S I O} (step : S -> I -> S * O) (s : S) (h : list I) : S :=
  match h with [] => s | i :: r => run_history step (fst (step s i)) r end.

(* S for the history family: the files for input B rendered after input A equal those of B rendered
   by a fresh configurator, and no input object was written to *)
Definition history_ok (b_after_a b_fresh : list (string * string)) (mutated : nat) : bool :=
  files_eqb b_after_a b_fresh && Nat.eqb mutated 0.

(* ------------------------------------------------------------------ settings history: the template executor.
   A setting is [Some text] (custom template in the ConfigMap) or [None] (key absent).  State: the
   text in use ([None] = the stock template).  As the code stands, UpdateXTemplate parses what it is
   handed and UseOriginalX reverts: the state is the last setting. *)
Definition exec_step (cur : option string) (s : option string) : option string := s.

(* an executor that remembers the text it parsed last and skips re-parsing it; [clear_on_revert]:
   does the revert forget the memo? *)
Definition memo_step (clear_on_revert : bool) (st : option string * string) (s : option string)
  : option string * string :=
  match s with
  | Some t => if negb (String.eqb (snd st) "") && String.eqb (snd st) t then st else (Some t, t)
  | None => (None, if clear_on_revert then "" else snd st)
  end.

(* ------------------------------------------------------------------ impurity: compaction of the caller's slice.
   (output, what the caller's slice holds afterwards).  slices.DeleteFunc moves the kept elements to
   the front of the SAME backing array and zeroes the tail; the caller's slice header keeps its length. *)
Fixpoint dedup_strs (seen l : list string) : list string :=
  match l with
  | [] => []
  | x :: r => if existsb (String.eqb x) seen then dedup_strs seen r else x :: dedup_strs (x :: seen) r
  end.
Definition dedupe_pure (l : list string) : list string * list string := (dedup_strs [] l, l).
Definition dedupe_inplace (l : list string) : list string * list string :=
  let d := dedup_strs [] l in (d, (d ++ repeat "" (List.length l - List.length d))%list).

(* ------------------------------------------------------------------ per-process values: a namer that shortens long
   names with a hash; [seed] is whatever the process drew at start-up *)
Definition namer (cap : nat) (h : string -> string -> string) (seed nsname : string) : string :=
  if Nat.leb (String.length nsname) cap then nsname
  else String.substring 0 cap nsname ++ "_" ++ h seed nsname.

(* ------------------------------------------------------------------ slices.Compact: only ADJACENT duplicates go *)
Fixpoint compact (l : list string) : list string :=
  match l with
  | x :: ((y :: _) as r) => if String.eqb x y then compact r else x :: compact r
  | _ => l
  end.

(* ------------------------------------------------------------------ internal/k8s/configuration.go *)
(* getSorted...Keys: the keys of a map, sorted *)
Definition site_sorted_keys_out {V} (l : list (string * V)) : list string := isort (fun k => k) (map fst l).
(* the same when the comparator looks at a rendering of the key (listenerHostKey.String()) *)
Definition site_sorted_keys_by_out {V} (render : string -> string) (l : list (string * V)) : list string :=
  isort render (map fst l).
(* holder election: among the claimants the one that is least in a total order wins, whatever the
   order of arrival (TransportServers on a listener/host: TransportServerConfiguration.Wins) *)
Definition site_elect_out {V} (rank : string * V -> string) (l : list (string * V)) : option (string * V) :=
  hd_error (isort rank l).
(* is there an entry with ... (loop with break) *)
Definition site_exists_out {V} (p : string * V -> bool) (l : list (string * V)) : bool := existsb p l.
