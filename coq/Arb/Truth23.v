(* C05 truth proof, part 23: the verdict of the judge, kind by kind *)
From Coq Require Import List ZArith String Ascii Bool Lia.
From NIC Require Import Base.SMap Arb.Types Arb.Model Arb.Spec Arb.WinsProofs Arb.InvProofs Arb.OwnerProofs
     Arb.ListenerProofs Arb.ClassProofs Arb.ChangeProofs Arb.ReportProofs Arb.ComposeProofs Arb.Cases Arb.ShadowProofs Arb.ShadowAttrs.
From NIC Require Import Arb.Truth01 Arb.Truth02 Arb.Truth03 Arb.Truth04 Arb.Truth05 Arb.Truth06 Arb.Truth07 Arb.Truth08 Arb.Truth09 Arb.Truth10 Arb.Truth11 Arb.Truth12 Arb.Truth13 Arb.Truth14 Arb.Truth15 Arb.Truth16 Arb.Truth17 Arb.Truth18 Arb.Truth19 Arb.Truth20 Arb.Truth21 Arb.Truth22.
Import ListNotations.
Open Scope string_scope.
Open Scope Z_scope.

Section Final.
  Variables (c : cfg) (es : list event).
  Hypothesis Hy : hyps c es.
  Let S := run c es.
  Let O := objs_after es.
  Let L := last_reports c es.
  Let I := inv_all c es Hy.
  Let Hcm := h_cm _ _ Hy.
  Let Hok := st_ok c es.
  Let Hr := st_roles c es Hy.
  Let Hwf := st_wf c es Hy.
  Let Hf := run_fn_inv c es.

  Lemma hosts_S : hosts S = hosts_of_objs c (objs_of_state S). Proof. exact (proj1 Hf). Qed.
  Lemma lhosts_S : lhosts S = lhosts_of_objs (objs_of_state S). Proof. exact (proj2 Hf). Qed.

  Lemma pst_h k : lookup k (hprobs_of_objs c (objs_of_state S)) <> None -> Pst S k.
  Proof. intros H. left. pose proof (st_hprobs c es) as E. fold S in E. rewrite E. exact H. Qed.
  Lemma pst_l k : lookup k (lprobs_of_objs (objs_of_state S)) <> None -> Pst S k.
  Proof. intros H. right. pose proof (st_lprobs c es) as E. fold S in E. rewrite E. exact H. Qed.

  (* --- VirtualServer --- *)
  Lemma verdict_vs v : lookup (mkey (v_meta v)) (o_vss O) = Some v ->
    truthful c O (view_ob S) L (vs_rkey v) (EVS v true true) = 0.
  Proof.
    intros Lv. unfold truthful. cbn [negb].
    destruct (owns_some_host (view_ob S) (vs_rkey v)) eqn:Eo.
    - apply (owns_host_iff c S _ Hf) in Eo.
      assert (HA : Ap S (vs_rkey v)) by (left; apply (Ap1_iff c es); left; exact Eo).
      destruct (inv_I3 _ _ I _ HA) as (w & Lw). fold L in Lw. rewrite Lw. reflexivity.
    - assert (HnA : ~ ApO c (objs_of_state S) (vs_rkey v)).
      { intros [HA|[HA|[(h & ic & m & _ & _ & E)|(h & vc & x & _ & _ & E)]]].
        - rewrite <- hosts_S in HA. apply (owns_host_iff c S _ Hf) in HA. congruence.
        - destruct (lkey_in _ _ HA) as (k1 & t & _ & _ & E). clash E.
        - clash E.
        - clash E. }
      assert (Hst : In (mkey (v_meta v), v) (o_vss (objs_of_state S))) by (unfold S; rewrite (objs_S c es); apply lookup_In; exact Lv).
      pose proof (vs_inactive_problem c _ Hcm Hok _ v Hst HnA) as HP. apply pst_h in HP.
      destruct (inv_J _ _ I _ HP) as (r & Lr & Hno). fold L in Lr. rewrite Lr, Hno. reflexivity.
  Qed.

  (* --- invalid objects --- *)
  Lemma verdict_invalid k e0 : lookup k (cluster es) = Some e0 -> own_invalid e0 = true ->
    truthful c O (view_ob S) L k e0 = 0.
  Proof.
    intros Lc Hi. destruct (inv_I2 _ _ I k e0 Lc Hi) as (r & Lr & Hno). fold L in Lr.
    destruct e0 as [i cls v| |x cls v| |x cls v| |x cls v| | |]; cbn [own_invalid] in Hi; try discriminate;
      apply andb_true_iff in Hi; destruct Hi as [-> Hv]; apply negb_true_iff in Hv; subst v; unfold truthful; rewrite ?Hcm; cbn [andb negb];
      rewrite Lr, Hno; reflexivity.
  Qed.

  (* --- TransportServer --- *)
  Lemma verdict_ts t : lookup (mkey (t_meta t)) (o_tss O) = Some t ->
    truthful c O (view_ob S) L (ts_rkey t) (ETS t true true) = 0.
  Proof.
    intros Lt. unfold truthful. cbn [negb].
    assert (Hst : In (mkey (t_meta t), t) (o_tss (objs_of_state S))) by (unfold S; rewrite (objs_S c es); apply lookup_In; exact Lt).
    destruct (owns_some_host (view_ob S) (ts_rkey t) || owns_some_listener (view_ob S) (ts_rkey t)) eqn:Eo.
    - assert (HA : Ap S (ts_rkey t)).
      { left. apply (Ap1_iff c es). apply orb_true_iff in Eo. destruct Eo as [Eo|Eo]; [left; apply (owns_host_iff c S _ Hf)|right; apply (owns_listener_iff c S _ Hf)]; exact Eo. }
      destruct (inv_I3 _ _ I _ HA) as (w & Lw). fold L in Lw. rewrite Lw. reflexivity.
    - apply orb_false_iff in Eo. destruct Eo as [Eo1 Eo2].
      assert (HnA : ~ ApO c (objs_of_state S) (ts_rkey t)).
      { intros [HA|[HA|[(h & ic & m & _ & _ & E)|(h & vc & x & _ & _ & E)]]].
        - rewrite <- hosts_S in HA. apply (owns_host_iff c S _ Hf) in HA. congruence.
        - rewrite <- lhosts_S in HA. apply (owns_listener_iff c S _ Hf) in HA. congruence.
        - clash E.
        - clash E. }
      assert (HP : Pst S (ts_rkey t)).
      { pose proof (Hr _ _ Hst) as Hrole. unfold role_ok in Hrole. destruct (is_listener_ts t) eqn:El.
        - apply pst_l. exact (lts_inactive_problem c _ Hok _ t Hst El HnA).
        - apply pst_h. exact (ts_inactive_problem c _ Hcm Hok Hwf _ t Hst Hrole HnA). }
      destruct (inv_J _ _ I _ HP) as (r & Lr & Hno). fold L in Lr. rewrite Lr, Hno. reflexivity.
  Qed.

  (* --- VirtualServerRoute --- *)
  Lemma verdict_vsr r : lookup (mkey (r_meta r)) (o_vsrs O) = Some r ->
    truthful c O (view_ob S) L (vsr_pkey r) (EVSR r true true) = 0.
  Proof.
    intros Lr0. unfold truthful. cbn [negb].
    assert (Hst : In (mkey (r_meta r), r) (o_vsrs (objs_of_state S))) by (unfold S; rewrite (objs_S c es); apply lookup_In; exact Lr0).
    destruct (attached_vsr (view_ob S) r) eqn:Ea.
    - apply attached_vsr_iff in Ea. destruct Ea as (V & vc & LV & Hx).
      assert (HA : Ap S (vsr_pkey r)) by (right; right; exists V, vc, r; auto).
      destruct (inv_I3 _ _ I _ HA) as (w & Lw). fold L in Lw. rewrite Lw. reflexivity.
    - assert (HnA : ~ ApO c (objs_of_state S) (vsr_pkey r)).
      { intros HA. apply (st_ApO c es Hy) in HA. destruct HA as [HA|[(M & ic & m & _ & _ & E)|(V & vc & x & LV & Hx & E)]].
        - destruct (lookup (vsr_pkey r) (get_resources (run c es))) as [r2|] eqn:L2; [|congruence].
          destruct (get_resources_key_val c (run c es) _ r2 Hf Hok Hr L2) as [(h & _ & Hk)|(h & _ & Hk)]; destruct r2; clash Hk.
        - clash E.
        - destruct (st_vsr c es Hy V vc x LV Hx) as (Hw & _). 
          destruct (who_vsr_inv _ _ _ (objs_after_ok es) Hw (mkey (r_meta r)) (eq_sym E)) as (r1 & L1 & _ & _).
          assert (r1 = r) by (fold O in L1; congruence). subst r1.
          destruct (who_vsr_inv _ _ _ (objs_after_ok es) Hw (mkey (r_meta x)) eq_refl) as (r2 & L2 & _ & _).
          unfold vsr_pkey in E. apply append_inj_l in E. rewrite E in L1. fold O in L1, L2.
          (* x is the stored route of that name: x = r *)
          assert (Hxs : lookup (mkey (r_meta x)) (o_vsrs O) = Some x).
          { destruct (GR_in_hosts c S V _ Hf Hok Hr LV) as (h & Hh).
            destruct (attached_vsr_facts c _ Hcm Hok Hwf h vc x Hh Hx) as ((k0 & Hsx) & _).
            destruct Hok as (_ & _ & W3 & _ & _ & _ & K3 & _). pose proof (K3 _ _ Hsx) as Ek. subst k0.
            unfold O. rewrite <- (objs_S c es). apply In_lookup; assumption. }
          assert (x = r) by congruence. subst x.
          assert (Ht : attached_vsr (view_ob S) r = true) by (apply attached_vsr_iff; eauto). congruence. }
      pose proof (vsr_unattached_problem c _ Hcm Hok Hwf _ r Hst HnA) as HP. apply pst_h in HP.
      destruct (inv_J _ _ I _ HP) as (rp & Lr & Hno). fold L in Lr. rewrite Lr, Hno. reflexivity.
  Qed.

  (* --- Ingress (regular or master) --- *)
  Lemma verdict_ing i : lookup (mkey (i_meta i)) (o_ings O) = Some i -> is_minion i = false ->
    truthful c O (view_ob S) L (ing_rkey i) (EIng i true true) = 0.
  Proof.
    intros Li Hm. unfold truthful. rewrite Hcm, Hm. cbn [andb negb].
    assert (Hst : In (mkey (i_meta i), i) (o_ings (objs_of_state S))) by (unfold S; rewrite (objs_S c es); apply lookup_In; exact Li).
    destruct (owns_some_host (view_ob S) (ing_rkey i)) eqn:Eo.
    - apply (owns_host_iff c S _ Hf) in Eo.
      assert (HA : Ap S (ing_rkey i)) by (left; apply (Ap1_iff c es); left; exact Eo).
      destruct (inv_I3 _ _ I _ HA) as (w & Lw). fold L in Lw. rewrite Lw. reflexivity.
    - assert (HnA : ~ ApO c (objs_of_state S) (ing_rkey i)).
      { intros [HA|[HA|[(h & ic & m & Hh & Hmm & E)|(h & vc & x & _ & _ & E)]]].
        - rewrite <- hosts_S in HA. apply (owns_host_iff c S _ Hf) in HA. congruence.
        - destruct (lkey_in _ _ HA) as (k1 & t & _ & _ & E). clash E.
        - destruct (attached_is_minion c _ Hcm Hok Hwf _ i h ic m Hst Hh Hmm E) as [_ Hx]. congruence.
        - clash E. }
      pose proof (ing_inactive_problem c _ Hcm Hok _ i Hst Hm HnA) as HP. apply pst_h in HP.
      destruct (inv_J _ _ I _ HP) as (r & Lr & Hno). fold L in Lr. rewrite Lr, Hno. reflexivity.
  Qed.

  (* --- minion: truthful, or (code 3) attached, serving no path, and told so without a warning --- *)
  Lemma verdict_minion i : lookup (mkey (i_meta i)) (o_ings O) = Some i -> is_minion i = true ->
    truthful c O (view_ob S) L (ing_rkey i) (EIng i true true) = 0 \/ truthful c O (view_ob S) L (ing_rkey i) (EIng i true true) = 3.
  Proof.
    intros Li Hm. unfold truthful. rewrite Hcm, Hm. cbn [andb negb].
    assert (Hst : In (mkey (i_meta i), i) (o_ings (objs_of_state S))) by (unfold S; rewrite (objs_S c es); apply lookup_In; exact Li).
    destruct (attached_minion (view_ob S) (key_of_ing i)) as [b|] eqn:Ea.
    - assert (Hne : attached_minion (view_ob S) (key_of_ing i) <> None) by congruence.
      apply attached_minion_iff in Hne. destruct Hne as (M & ic & m & LM & Hmm & Ek).
      assert (HA : Ap S (ing_rkey i)) by (right; left; exists M, ic, m; split; [exact LM|]; split; [exact Hmm|]; unfold ing_rkey, key_of_ing in *; congruence).
      destruct (inv_I3 _ _ I _ HA) as (w & Lw). fold L in Lw. rewrite Lw.
      destruct (minion_serves O i); [left; reflexivity|]. destruct w; [left|right]; reflexivity.
    - left.
      assert (HnA : ~ ApO c (objs_of_state S) (ing_rkey i)).
      { intros [HA|[HA|[(h & ic & m & Hh & Hmm & E)|(h & vc & x & _ & _ & E)]]].
        - exact (minion_not_resource c _ Hcm Hok _ i Hst Hm HA).
        - destruct (lkey_in _ _ HA) as (k1 & t & _ & _ & E). clash E.
        - assert (Hne : attached_minion (view_ob S) (key_of_ing i) <> None).
          { apply attached_minion_iff. exists (rkey (RIng ic)), ic, m. split; [|split; [exact Hmm|]].
            - apply (key_val_get_resources c S _ _ Hf Hok Hr). left. exists h. auto.
            - unfold ing_rkey, key_of_ing in *. apply append_inj_l in E. congruence. }
          congruence.
        - clash E. }
      pose proof (minion_unattached_problem c _ Hcm Hok Hwf _ i Hst Hm HnA) as HP. apply pst_h in HP.
      destruct (inv_J _ _ I _ HP) as (r & Lr & Hno). fold L in Lr. rewrite Lr, Hno. reflexivity.
  Qed.
End Final.
