"""C07 -- generated configuration always loads: well-formed, no duplicate identifiers."""
import os, re, json, concurrent.futures
from . import common as C

SHARD = 24          # cases per coqc call (files are packed as 63-bit ints: ~10 us/byte to parse)
WORKERS = 8


# ------------------------------------------------------------------ rendering

def cq_packed(b):
    """bytes -> Coq string through NIC.Lex.Pack.unpack (7 bytes per primitive int, little endian)"""
    if len(b) == 0:
        return '""'
    ints = [int.from_bytes(b[i:i + 7], "little") for i in range(0, len(b), 7)]
    last = len(b) - 7 * (len(ints) - 1)
    return "(unpack %d [%s]%%uint63)" % (last, ";".join(str(x) for x in ints))


def file_bytes(f):
    if f.get("bytes"):
        return bytes(f["bytes"])
    return (f.get("text") or "").encode("utf-8")


MODEL = {
    "vs_upstream": lambda a: "vs_upstream_name %s %s %s" % tuple(map(C.cq_str, a)),
    "vsr_upstream": lambda a: "vsr_upstream_name %s %s %s %s %s" % tuple(map(C.cq_str, a)),
    "ts_upstream": lambda a: "ts_upstream_name %s %s %s" % tuple(map(C.cq_str, a)),
    "ingress_upstream": lambda a: "ingress_upstream_name %s %s %s %s %s" % tuple(map(C.cq_str, a)),
    "keyval_zone": lambda a: "keyval_zone_name %s %s %d%%nat" % (C.cq_str(a[0]), C.cq_str(a[1]), int(a[2])),
    "matches_map": lambda a: "matches_map_name %s %s %d%%nat" % (C.cq_str(a[0]), C.cq_str(a[1]), int(a[2])),
    "login_location": lambda a: "login_location_name %s %s" % tuple(map(C.cq_str, a)),
}


def case_to_coq(c):
    if c["class"] == "paths":
        path = file_bytes(c["obs"]["files"][0])
        return None, "path_case %d %s %s" % (c["id"], C.cq_bytes(list(path)), C.cq_bool(bool(c["obs"].get("accepted"))))
    if c["class"] == "names":
        real = file_bytes(c["obs"]["files"][0])
        return None, "name_case %d (%s) %s" % (c["id"], MODEL[c["scheme"]](c.get("args") or []), C.cq_bytes(list(real)))
    fs = c["obs"].get("files") or []
    old = c["obs"].get("old") or []
    snaps = c["obs"].get("snaps") or []
    if not old and not snaps:
        return "file_set_case %d [%s]" % (c["id"], "; ".join("(%s, %s)" % (C.cq_str(f["name"]), cq_packed(file_bytes(f))) for f in fs)), None
    return "snap_case %d [%s] %d%%nat [%s]" % (
        c["id"], "; ".join("(%s, %s)" % (C.cq_str(f["name"]), cq_packed(file_bytes(f))) for f in fs + old), len(fs),
        "; ".join("[%s]%%nat" % "; ".join(str(i) for i in (sn or [])) for sn in snaps)), None


# ------------------------------------------------------------------ parsing what Coq printed

TOK = re.compile(r'"(?:[^"]|"")*"|-?\d+|[\[\]();,]')


def parse_coq_value(text):
    toks = TOK.findall(text)
    pos = [0]

    def val():
        t = toks[pos[0]]
        pos[0] += 1
        if t == "[":
            out = []
            if toks[pos[0]] == "]":
                pos[0] += 1
                return out
            while True:
                out.append(val())
                t2 = toks[pos[0]]
                pos[0] += 1
                if t2 == "]":
                    return out
        if t == "(":
            out = []
            while True:
                out.append(val())
                t2 = toks[pos[0]]
                pos[0] += 1
                if t2 == ")":
                    return tuple(out) if len(out) > 1 else out[0]
        if t.startswith('"'):
            return t[1:-1].replace('""', '"')
        return int(t)
    return val()


def printed(out, name):
    m = re.search(r'^' + re.escape(name) + r'\s*=\s*(.*?)\n\s*:\s', out, re.S | re.M)
    return m.group(1) if m else None


def evaluate_shard(cases, tag):
    """-> (rows {id: row}, details {id: verdict}) for one shard"""
    sets, names = [], []
    for c in cases:
        a, b = case_to_coq(c)
        if b is None:
            sets.append(a)
        else:
            names.append(b)
    n_sets = len(sets)
    body = "From Coq Require Import Uint63.\n"
    body += "From NIC Require Import Lex.Pack Lex.Lexer Lex.Parser Lex.Check Lex.IngressPath Lex.C07Cases Names.Idents.\n"
    body += "Definition full : list verdict := Eval vm_compute in\n [" + ";\n ".join(sets) + "].\n"
    body += "Definition results : list (list Z) := Eval vm_compute in (map row full ++ [" + ";\n ".join(names) + "])%list.\nPrint results.\n"
    body += "Definition details := Eval vm_compute in filter failing full.\nPrint details.\n"
    path = os.path.join(C.WORK, "cases", "C07_%s.v" % tag)
    C.write_cases_v(path, body)
    rc, out = C.coqc(path, timeout=1500)
    rows = C.parse_z_lists(out, "results")
    det = printed(out, "details")
    if rc != 0 or rows is None or det is None or len(rows) != len(cases):
        raise C.TieBroken("coqc could not evaluate the C07 cases file (%s): %s" % (path, out[-1500:]))
    details = {}
    for v in parse_coq_value(det):
        details[v[0]] = v
    return {r[0]: r for r in rows}, details


def skipped(c):
    """payload cases whose value the real validator rejected: nothing was rendered"""
    return c["class"] == "payload" and not (c.get("payload") or {}).get("accepted")


def evaluate(cases, tag):
    cases = [c for c in cases if not c["obs"].get("error") and not c["obs"].get("panic") and not skipped(c)]
    shards = [cases[k:k + SHARD] for k in range(0, len(cases), SHARD)]
    rows, details = {}, {}
    with concurrent.futures.ThreadPoolExecutor(max_workers=WORKERS) as ex:
        futs = [ex.submit(evaluate_shard, sh, "%s_%d" % (tag, i)) for i, sh in enumerate(shards)]
        for f in futs:
            r, d = f.result()
            rows.update(r)
            details.update(d)
    return rows, details


# ------------------------------------------------------------------ classification

def res_for_file(c, fname):
    """resources of the case whose configuration file is fname"""
    out = []
    for r in c.get("res") or []:
        k = r["kind"]
        if k in ("ing", "master"):
            fn = "conf.d/%s-%s.conf" % (r["ns"], r["name"])
        elif k == "minion":
            fn = None       # rendered inside its master's file
        elif k == "vs":
            fn = "conf.d/vs_%s_%s.conf" % (r["ns"], r["name"])
        elif k == "vsr":
            fn = None
        elif k == "ts":
            fn = "stream-conf.d/ts_%s_%s.conf" % (r["ns"], r["name"])
        else:
            fn = None
        if fn == fname or (fn is None and k == "minion" and fname.startswith("conf.d/") and not fname.startswith("conf.d/vs_")) \
                or (fn is None and k == "vsr" and fname.startswith("conf.d/vs_")):
            out.append(r)
    return out


def malformed_cause(c, fname):
    for r in res_for_file(c, fname):
        ann = r.get("ann") or {}
        if r["kind"] in ("ing", "minion") and "nginx.org/path-regex" not in ann and any("{" in p for p in r.get("paths") or []):
            return "ingress-path-brace"
        if ann.get("nginx.org/rewrites", "").endswith("\\"):
            return "rewrite-trailing-backslash"
        if "{" in ann.get("nginx.com/sticky-cookie-services", ""):
            return "sticky-cookie-brace"
        if re.search(r'[\s;{}#]', ann.get("nginx.org/limit-req-key", "")):
            return "limit-req-key-unvalidated"
        if r["kind"] == "ts" and "{" in (r.get("note") or ""):
            return "ts-lb-hash-key-brace"
    return "unknown"


def dup_vsr_refs(c):
    """(vs, ref) pairs where the VirtualServer vs references the VirtualServerRoute ref in two routes"""
    out = []
    for r in c.get("res") or []:
        if r["kind"] == "vs":
            refs = [x.split("->", 1)[1] for x in r.get("routes") or []]
            refs = [x if "/" in x else r["ns"] + "/" + x for x in refs]     # a reference without namespace = own namespace
            for ref in sorted(set(refs)):
                if refs.count(ref) > 1:
                    out.append((r, ref))
    return out


def safe(ns, name):
    return (ns + "_" + name).replace("-", "_")


def dup_scheme(c, kind, scope, ident):
    """Which KNOWN collision mechanism explains this duplicate?  Each answer is verified against the
    resources of the case; anything that is not positively explained is `unexplained:<kind>` and
    therefore never matches a known finding."""
    res = c.get("res") or []
    if kind == "zone" and "keyval_zone_split_clients" in ident:
        vss = [r for r in res if r["kind"] == "vs" and ident.startswith("vs_" + safe(r["ns"], r["name"]) + "_keyval_zone_split_clients_")]
        if len({(r["ns"], r["name"]) for r in vss}) > 1:
            return "variable_namer"
    if kind == "zone" and ident.startswith("jwks_uri_"):
        vss = {(r["ns"], r["name"]) for r in res if r["kind"] == "vs" and ident == "jwks_uri_" + r["name"]}
        if len(vss) > 1:
            return "jwks_cache_zone"
    if kind in ("upstream", "zone") and scope in ("http", "shm"):
        for vs, ref in dup_vsr_refs(c):
            if ident.startswith("vs_%s_%s_vsr_%s_" % (vs["ns"], vs["name"], ref.replace("/", "_"))):
                return "vsr-referenced-twice"
        # Ingress upstream names <ns>-<ing>-<host>-<svc>-<port>: a collision needs two different
        # (Ingress, host) pairs that both produce a prefix of the identifier
        owners = {(r["ns"], r["name"], h) for r in res if r["kind"] in ("ing", "minion") for h in r.get("hosts") or []
                  if ident.startswith("%s-%s-%s-" % (r["ns"], r["name"], h))}
        if "/" not in ident and len(owners) > 1:
            return "ingress_upstream_name"
    if kind == "location":
        for vs, ref in dup_vsr_refs(c):
            vsr = [r for r in res if r["kind"] == "vsr" and r["ns"] + "/" + r["name"] == ref]
            if scope == "conf.d/vs_%s_%s.conf" % (vs["ns"], vs["name"]) and \
                    any(ident in ("prefix " + p, "exact " + p[1:] if p.startswith("=") else "", "prefix " + p.split(" ", 1)[-1]) for v in vsr for p in v.get("paths") or []):
                return "vsr-referenced-twice"
        minions = {(r["ns"], r["name"]) for r in res if r["kind"] == "minion" and ident == "named @login_url_%s-%s" % (r["ns"], r["name"])}
        if len(minions) > 1:
            return "ingress_login_location"
        one = [r for r in res if r["kind"] == "minion" and ident == "named @login_url_%s-%s" % (r["ns"], r["name"])
               and len(r.get("paths") or []) > 1 and "nginx.com/jwt-login-url" in (r.get("ann") or {})]
        if one:
            return "minion_login_location_per_path"
    return "unexplained:" + kind


def slim(c):
    """the case without the file contents (replays regenerate them from seed/id/class)"""
    d = dict(c)
    o = dict(c["obs"])
    o["files"] = [{"name": f["name"], "size": len(file_bytes(f))} for f in (c["obs"].get("files") or [])]
    o["old"] = [{"name": f["name"], "size": len(file_bytes(f))} for f in (c["obs"].get("old") or [])]
    d["obs"] = o
    return d


def judge(run, cases, rows, details, verbose=False):
    # payload class: the unmutated fixture (empty payload) of each leaf is the baseline; a failure that
    # the baseline shows too is not attributed to the payload
    base_ok = {}
    for c in cases:
        if c["class"] == "payload" and (c.get("payload") or {}).get("accepted") and not c["payload"]["add"] and c["id"] in rows:
            base_ok[(c["payload"]["field"], c["flags"]["plus"])] = bool(rows[c["id"]][2])
    for c in cases:
        o = c["obs"]
        if o.get("error"):
            run.failing({"kind": "harness-case-error", "class": c["class"]}, [slim(c)],
                        "the harness could not run case %d on the implementation: %s" % (c["id"], o["error"][:300]),
                        theorem="correspondence harness c07", found_input=False)
            continue
        if o.get("panic"):
            run.failing({"kind": "panic", "class": c["class"]}, [slim(c)],
                        "the code under test panicked on case %d: %s" % (c["id"], o["panic"][:300]), theorem="harness c07")
            continue
        if skipped(c):
            run.count_case({"payload": c["payload"]["field"], "add": c["payload"]["add"], "plus": c["flags"]["plus"]}, False)
            run.cov["payload_rejected_by_validator"] = run.cov.get("payload_rejected_by_validator", 0) + 1
            continue
        row = rows[c["id"]]
        cid, agree, spec, nontrivial, tag = row
        if c["class"] == "payload":
            pl = c["payload"]
            run.count_case({"payload": pl["field"], "add": pl["add"], "plus": c["flags"]["plus"]}, True)
            run.cov["traces_validated_against_impl"] += 1
            run.cov["payload_accepted_and_rendered"] = run.cov.get("payload_accepted_and_rendered", 0) + 1
            run.cov.setdefault("payload_fields", set()).add(pl["field"])
            for e in o.get("errors") or []:
                run.failing({"kind": "payload-configurator-error", "field": pl["field"]}, [slim(c)],
                            "the Configurator returned an error for an accepted value of %s + %r (case %d): %s" % (pl["field"], bytes(pl["add"]).decode("latin1"), c["id"], e[:200]),
                            theorem="Configurator AddOrUpdate*")
            if not spec and not pl["add"]:
                _, bad, ar, du, _n = details[cid]
                for fname in bad:
                    run.failing({"kind": "malformed", "cause": "fixture"}, [slim(c)],
                                "generated file %s is not well-formed (payload fixture for %s, unmutated, case %d)" % (fname, pl["field"], cid),
                                theorem="Lex.Check.wf_conf")
                for fname, problem, what in ar:
                    run.failing({"kind": problem, "directive": what.split("=")[0]}, [slim(c)],
                                "generated file %s: %s problem at directive %r (payload fixture for %s, unmutated, case %d)" % (fname, problem, what, pl["field"], cid),
                                theorem="Lex.Check.arity_errors")
                for kind, scope, ident in du:
                    run.failing({"kind": "duplicate", "ident": kind, "scheme": dup_scheme(c, kind, scope, ident)}, [slim(c)],
                                "identifier defined twice: %s %r in scope %s (payload fixture for %s, unmutated, case %d)" % (kind, ident, scope, pl["field"], cid),
                                theorem="Lex.Check.dup_idents")
            elif not spec and base_ok.get((pl["field"], c["flags"]["plus"]), True):
                _, bad, ar, du, _n = details[cid]
                run.failing({"kind": "payload-breaks-file", "field": pl["field"]}, [slim(c)],
                            "value accepted by the real validator breaks the generated configuration: %s + %r on %s (case %d): malformed=%s problems=%s duplicates=%s"
                            % (pl["field"], bytes(pl["add"]).decode("latin1"), pl["target"], cid, bad, [(b, x) for _, b, x in ar][:3], du[:2]),
                            theorem="Lex.Check.wf_conf / arity_errors")
            continue
        if c["class"] == "paths":
            path = file_bytes(o["files"][0]).decode("latin1")
            run.count_case({"path": path}, True)
            run.cov["traces_validated_against_impl"] += 1
            k = "paths:" + ("accepted" if o.get("accepted") else "rejected")
            run.cov.setdefault("by_family", {})[k] = run.cov.setdefault("by_family", {}).get(k, 0) + 1
            if not agree:
                run.failing({"kind": "correspondence", "scheme": "ingress_path"}, [slim(c)],
                            "the real Ingress path validator accepts %r but the model Lex.IngressPath.ingress_path_ok rejects it" % path,
                            theorem="correspondence Lex.IngressPath ~ internal/k8s/validation.go validatePath", found_input=False)
            continue
        if c["class"] == "names":
            run.count_case({"scheme": c["scheme"], "args": c.get("args")}, True)
            run.cov["traces_validated_against_impl"] += 1
            run.cov.setdefault("by_family", {}).setdefault("names:" + c["scheme"], 0)
            run.cov["by_family"]["names:" + c["scheme"]] += 1
            if not agree:
                run.failing({"kind": "correspondence", "scheme": c["scheme"]}, [slim(c)],
                            "model of identifier scheme %s disagrees with the real function on %s: real=%r"
                            % (c["scheme"], c.get("args"), file_bytes(o["files"][0]).decode("latin1")),
                            theorem="correspondence Names.Idents ~ internal/configs namers", found_input=False)
            continue
        run.count_case({"flags": c["flags"], "res": c["res"], "deps": c["deps"]}, bool(nontrivial))
        run.cov["traces_validated_against_impl"] += 1
        fam = run.cov.setdefault("by_family", {})
        fam["sets:" + ("plus" if c["flags"]["plus"] else "oss")] = fam.get("sets:" + ("plus" if c["flags"]["plus"] else "oss"), 0) + 1
        run.cov["files_checked"] = run.cov.get("files_checked", 0) + len(o.get("files") or []) + len(o.get("old") or [])
        run.cov["reload_snapshots_checked"] = run.cov.get("reload_snapshots_checked", 0) + len(o.get("snaps") or []) + 1
        run.cov["bytes_checked"] = run.cov.get("bytes_checked", 0) + sum(len(file_bytes(f)) for f in o.get("files") or [])
        for a in o.get("accepted") or []:
            k = a.split(":")[0]
            run.cov.setdefault("accepted_resources", {})[k] = run.cov.setdefault("accepted_resources", {}).get(k, 0) + 1
        for e in o.get("errors") or []:
            run.failing({"kind": "configurator-error", "what": re.sub(r'[^a-z ]', '', e.split(":")[0])[:40]}, [slim(c)],
                        "the Configurator returned an error on an accepted resource (case %d): %s" % (c["id"], e[:300]),
                        theorem="Configurator AddOrUpdate*", found_input=True)
        if spec:
            continue
        _, bad, ar, du, _n = details[cid]
        if verbose:
            print("  case %d: malformed=%s problems=%s duplicates=%s" % (cid, bad, ar, du))
        for fname in bad:
            cause = malformed_cause(c, fname)
            run.failing({"kind": "malformed", "cause": cause}, [slim(c)],
                        "generated file %s is not well-formed NGINX configuration (case %d, class %s, cause %s)" % (fname, cid, c["class"], cause),
                        theorem="Lex.Check.wf_conf (sound: Lex.CheckProofs.wf_conf_sound)")
        for fname, problem, what in ar:
            sig = {"kind": problem, "directive": what.split("=")[0]}
            run.failing(sig, [slim(c)], "generated file %s: %s problem at directive %r (case %d, class %s)" % (fname, problem, what, cid, c["class"]),
                        theorem="Lex.Check.arity_errors")
        for kind, scope, ident in du:
            if kind.startswith("reload-"):
                # Defined twice in the file set of an EARLIER reload of the history, not in the end state.
                # NOT part of the verdict: the unchanged Configuration itself emits gainer-before-loser orders
                # inside one batch (upsert of the host's new holder before the upsert of the resource that
                # loses it; 6 of 5000 sets on HEAD fcb6195, e.g. a master Ingress taking c.com from a
                # multi-host Ingress), and the file sets in the middle of a batch belong to no set of accepted
                # resources (C07 quantifies over sets; cf. C01-4).  Counted as coverage information only.
                run.cov["transient_duplicates_inside_a_batch"] = run.cov.get("transient_duplicates_inside_a_batch", 0) + 1
                tk = "%s@%s" % (kind[len("reload-"):], scope)
                td = run.cov.setdefault("transient_duplicate_kinds", {})
                td[tk] = td.get(tk, 0) + 1
                continue
            sch = dup_scheme(c, kind, scope, ident)
            run.failing({"kind": "duplicate", "ident": kind, "scheme": sch}, [slim(c)],
                        "identifier defined twice across the generated files: %s %r in scope %s (case %d, class %s, scheme %s)" % (kind, ident, scope, cid, c["class"], sch),
                        theorem="Lex.Check.dup_idents")


TRUSTED = [
    "Rocq 8.16.1 kernel incl. vm_compute (no native_compute); primitive 63-bit integers only to transport file bytes into the cases files (Lex/Pack.v), never in a theorem",
    "the NGINX tokenizer model coq/Lex/Lexer.v, written by hand from ngx_conf_read_token; no nginx binary or source in the sandbox, so it cannot be differentially tested",
    "the arity table coq/Lex/Check.v (NGINX's NGX_CONF_TAKEn flags from memory; permissive where unsure: app_protect_*, mgmt block, Plus-only directives)",
    "the correspondence harness harness/overlay/internal/verifh/c07 and the hooks internal/k8s/zz_verif_c07.go (controller assembled as in the unit tests; dispatch of processChanges without status writes), internal/configs/zz_verif_c07.go",
    "Go text/template, regexp, crypto/tls (called, not modelled)",
]


def check(run):
    n = 300 if run.tier == "quick" else 6000
    run.proof_obligations()
    binary = C.go_build("c07")
    out = os.path.join(C.WORK, "cases", "c07_%s.jsonl" % run.tier)
    rc, log = C.run_harness(binary, ["-seed", str(run.seed), "-n", str(n), "-out", out, "-tier", run.tier], timeout=3000)
    if rc != 0:
        raise C.TieBroken("c07 harness failed rc=%d: %s" % (rc, log[-1500:]))
    cases = C.read_jsonl(out)
    rows, details = evaluate(cases, run.tier)
    judge(run, cases, rows, details)
    if isinstance(run.cov.get("payload_fields"), set):
        run.cov["payload_fields"] = len(run.cov["payload_fields"])
    for c in [x for x in cases if x["class"] == "set"][:2] + [x for x in cases if x["class"] == "names"][:1]:
        run.sample(slim(c))
    run.cov["rule"] = ("sets: 2-5 resources (regular Ingress, master+minions, VirtualServer with 0-2 VirtualServerRoutes, TransportServer TCP/UDP/TLS passthrough) over "
                       "4 namespaces x 7 names chosen so that ns-name / ns_name concatenations of different pairs coincide, 7 hosts; every Service missing / without endpoints / ready / "
                       "ExternalName, every Secret missing / invalid / wrong type / ok, every Policy missing / invalid / ok; OSS and Plus; 16 feature switches; random application order, "
                       "optional delete+re-add, optional full regeneration incl. nginx.conf.  A set is distinct by flags + resources + dependency states and non-trivial when at least "
                       "one directive was generated.  names: each identifier scheme on random components (incl. non-DNS ones) against the real Go function.  9 witness classes replay the "
                       "known findings first.")
    run.cov["trusted_base"] = TRUSTED
    run.assumptions += ["semantic nginx -t checks beyond lexing, arity, numeric server parameters and identifier uniqueness (e.g. host not found in upstream) are not modelled: no nginx binary",
                        "the file sets at reloads INSIDE one change batch are lexed and arity-checked, but duplicates that exist only there (not after the operation) are counted, not judged: the unchanged Configuration orders gainer before loser itself",
                        "snippets are disabled in every generated set (their content is arbitrary configuration by design)",
                        "App Protect WAF/DoS and OIDC policies are not generated"]


def replay(run, path):
    binary = C.go_build("c07")
    out = os.path.join(C.WORK, "cases", "c07_replay.jsonl")
    rc, log = C.run_harness(binary, ["-replay", path, "-out", out], timeout=600)
    if rc != 0:
        raise C.TieBroken("c07 harness failed on replay: %s" % log[-1500:])
    cases = C.read_jsonl(out)
    rows, details = evaluate(cases, "replay")
    for c in cases:
        o = c["obs"]
        print("replay case %d (%s): accepted=%s files=%s errors=%s row=%s" % (
            c["id"], c["class"], o.get("accepted"), [(f["name"], len(file_bytes(f))) for f in o.get("files") or []],
            o.get("errors"), rows.get(c["id"])))
    judge(run, cases, rows, details, verbose=True)
    if isinstance(run.cov.get("payload_fields"), set):
        run.cov["payload_fields"] = len(run.cov["payload_fields"])
