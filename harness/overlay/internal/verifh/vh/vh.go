//go:build verif

// Package vh holds what every correspondence harness shares: one PRNG from which every
// random choice is derived (so a disagreement replays exactly), and a JSON-lines case writer.
package vh

import (
	"bufio"
	"encoding/json"
	"flag"
	"fmt"
	"os"
	"strconv"
)

// Rng is splitmix64; deterministic across platforms and Go versions.
type Rng struct{ s uint64 }

func NewRng(seed uint64) *Rng { return &Rng{s: seed} }

func (r *Rng) U64() uint64 {
	r.s += 0x9e3779b97f4a7c15
	z := r.s
	z = (z ^ (z >> 30)) * 0xbf58476d1ce4e5b9
	z = (z ^ (z >> 27)) * 0x94d049bb133111eb
	return z ^ (z >> 31)
}

// Intn returns a value in [0,n).
func (r *Rng) Intn(n int) int {
	if n <= 0 {
		return 0
	}
	return int(r.U64() % uint64(n))
}

func (r *Rng) Bool() bool { return r.U64()&1 == 1 }

// Chance returns true with probability num/den.
func (r *Rng) Chance(num, den int) bool { return r.Intn(den) < num }

// Fork derives an independent stream (per case), so cases can be regenerated one by one.
func (r *Rng) Fork(i uint64) *Rng { return NewRng(r.s ^ (i+1)*0xd1342543de82ef95) }

func Pick[T any](r *Rng, xs []T) T { return xs[r.Intn(len(xs))] }

// Args are the flags every harness binary takes.
type Args struct {
	Seed   uint64
	N      int
	Out    string
	Replay string
	Tier   string
}

func ParseArgs() Args {
	var a Args
	seed := flag.String("seed", "", "PRNG seed (default: VERIF_SEED or 1)")
	flag.IntVar(&a.N, "n", 100, "number of generated cases")
	flag.StringVar(&a.Out, "out", "", "output file (JSON lines); default stdout")
	flag.StringVar(&a.Replay, "replay", "", "replay file: run exactly the cases in it")
	flag.StringVar(&a.Tier, "tier", "quick", "quick|thorough")
	flag.Parse()
	s := *seed
	if s == "" {
		s = os.Getenv("VERIF_SEED")
	}
	if s == "" {
		s = "1"
	}
	v, err := strconv.ParseUint(s, 10, 64)
	if err != nil {
		v = 1
	}
	a.Seed = v
	return a
}

// Writer emits one JSON document per line.
type Writer struct {
	f *os.File
	w *bufio.Writer
}

func NewWriter(path string) (*Writer, error) {
	f := os.Stdout
	if path != "" {
		var err error
		f, err = os.Create(path)
		if err != nil {
			return nil, err
		}
	}
	return &Writer{f: f, w: bufio.NewWriterSize(f, 1<<20)}, nil
}

func (w *Writer) Emit(v any) {
	b, err := json.Marshal(v)
	if err != nil {
		fmt.Fprintf(os.Stderr, "vh: marshal: %v\n", err)
		os.Exit(3)
	}
	w.w.Write(b)
	w.w.WriteByte('\n')
}

func (w *Writer) Close() {
	w.w.Flush()
	if w.f != os.Stdout {
		w.f.Close()
	}
}

// Bytes renders a byte string as a list of ints so that any byte survives JSON.
func Bytes(s string) []int {
	out := make([]int, len(s))
	for i := 0; i < len(s); i++ {
		out[i] = int(s[i])
	}
	return out
}

// ReadReplay reads the "cases" array of a replay file into dst (a pointer to a slice).
func ReadReplay(path string, dst any) error {
	b, err := os.ReadFile(path)
	if err != nil {
		return err
	}
	var wrap struct {
		Cases json.RawMessage `json:"cases"`
	}
	if err := json.Unmarshal(b, &wrap); err != nil {
		return err
	}
	return json.Unmarshal(wrap.Cases, dst)
}
