(* C17 -- functions the generated cases files call.  No proofs here.
   For every shape the harness reports a string of digits (0 ok, 1 rejected, 2 panic), one
   group per (flag setting, prior state) in the order of the enumerations of Model.v; the
   functions below compute the same string from the model and compare. *)
From Coq Require Import List ZArith String Ascii Bool Arith.
From NIC Require Import Shapes.Model.
Import ListNotations.
Open Scope string_scope.

Definition digit (n : nat) : string :=
  match n with
  | 0 => "0" | 1 => "1" | 2 => "2" | 3 => "3" | 4 => "4" | 5 => "5" | 6 => "6" | 7 => "7" | 8 => "8"
  | _ => "9"
  end.

Definition odigit (o : outcome) : string :=
  match o with OOk => "0" | ORejected => "1" | OPanic => "2" end.

Definition bdigit (b : bool) : string := if b then "1" else "0".

Fixpoint has_char (c : ascii) (s : string) : bool :=
  match s with
  | EmptyString => false
  | String a t => Ascii.eqb a c || has_char c t
  end.

(* ------------------------------------------------------------------ Ingress descriptors *)

Definition bk_digit (k : bk) : string := match k with KSvc => "1" | KRes => "2" | KNeither => "3" end.
Definition ps_digit (s : pspec) : string := match s with PNil => "0" | PImplEmpty => "1" | PPrefix => "2" end.

Definition paths_descr (p : paths_sh) : string :=
  match p with
  | Ps0 => "p0"
  | Ps1 s k => "p1" ++ ps_digit s ++ bk_digit k
  | Ps2 s k k2 => "p2" ++ ps_digit s ++ bk_digit k ++ bk_digit k2
  end.
Definition http_descr (h : http_sh) : string :=
  match h with HNil => "n" | HPaths p => paths_descr p end.
Definition rules_descr (r : rules_sh) : string :=
  match r with
  | Rs0 => "0"
  | Rs1 h => "1" ++ http_descr h
  | Rs2 h x => "2" ++ http_descr h ++ match x with R2Nil => "n" | R2Path k => bk_digit k end
  end.

Definition ing_descr (s : ing_shape) : string :=
  "d" ++ match sh_default s with None => "0" | Some k => bk_digit k end ++
  "t" ++ bdigit (sh_tls s) ++
  "m" ++ match sh_merge s with MNone => "0" | MMaster => "1" | MMinion => "2" | MGarbage => "3" end ++
  "c" ++ bdigit (sh_chal s) ++
  "a" ++ match sh_ann s with ANone => "0" | AClusterIP => "1" | AHealth => "2" end ++
  "|" ++ rules_descr (sh_rules s).

(* --- the parser of descriptors (inverse of ing_descr; Proofs.v checks the round trip) *)

Definition parse_bk (c : ascii) : option bk :=
  if Ascii.eqb c "1" then Some KSvc else if Ascii.eqb c "2" then Some KRes
  else if Ascii.eqb c "3" then Some KNeither else None.
Definition parse_ps (c : ascii) : option pspec :=
  if Ascii.eqb c "0" then Some PNil else if Ascii.eqb c "1" then Some PImplEmpty
  else if Ascii.eqb c "2" then Some PPrefix else None.
Definition parse_bool (c : ascii) : option bool :=
  if Ascii.eqb c "0" then Some false else if Ascii.eqb c "1" then Some true else None.

Definition parse_http (s : string) : option (http_sh * string) :=
  match s with
  | String "n" t => Some (HNil, t)
  | String "p" (String "0" t) => Some (HPaths Ps0, t)
  | String "p" (String "1" (String a (String b t))) =>
      match parse_ps a, parse_bk b with
      | Some x, Some k => Some (HPaths (Ps1 x k), t) | _, _ => None end
  | String "p" (String "2" (String a (String b (String c t)))) =>
      match parse_ps a, parse_bk b, parse_bk c with
      | Some x, Some k, Some k2 => Some (HPaths (Ps2 x k k2), t) | _, _, _ => None end
  | _ => None
  end.

Definition parse_rules (s : string) : option rules_sh :=
  match s with
  | String "0" EmptyString => Some Rs0
  | String "1" t => match parse_http t with Some (h, EmptyString) => Some (Rs1 h) | _ => None end
  | String "2" t =>
      match parse_http t with
      | Some (h, String "n" EmptyString) => Some (Rs2 h R2Nil)
      | Some (h, String c EmptyString) => option_map (fun k => Rs2 h (R2Path k)) (parse_bk c)
      | _ => None
      end
  | _ => None
  end.

Definition parse_ing (s : string) : option ing_shape :=
  match s with
  | String "d" (String d (String "t" (String t (String "m" (String m (String "c" (String c
      (String "a" (String a (String "|" r)))))))))) =>
      let od := if Ascii.eqb d "0" then Some None else option_map Some (parse_bk d) in
      let om := if Ascii.eqb m "0" then Some MNone else if Ascii.eqb m "1" then Some MMaster
                else if Ascii.eqb m "2" then Some MMinion else if Ascii.eqb m "3" then Some MGarbage else None in
      let oa := if Ascii.eqb a "0" then Some ANone else if Ascii.eqb a "1" then Some AClusterIP
                else if Ascii.eqb a "2" then Some AHealth else None in
      match od, parse_bool t, om, parse_bool c, oa, parse_rules r with
      | Some d', Some t', Some m', Some c', Some a', Some r' =>
          Some {| sh_default := d'; sh_tls := t'; sh_rules := r'; sh_merge := m'; sh_chal := c'; sh_ann := a' |}
      | _, _, _, _, _, _ => None
      end
  | _ => None
  end.

(* --- the model's digits for one Ingress shape: for every flag setting of all_iflags, for
   every prior state of all_ctx: validate, store, extend, delete *)

Definition obs_digits (o : option ing_obs) : string :=
  match o with
  | None => "9999"
  | Some o => odigit (o_validate o) ++ odigit (o_config o) ++ odigit (o_extend o) ++ odigit (o_delete o)
  end.

Definition ing_model_digits_with chal (s : ing_shape) : string :=
  String.concat "" (flat_map (fun fl => map (fun c =>
    obs_digits (scenario_observe_with chal {| sc_flags := fl; sc_ctx := c; sc_shape := s |})) all_ctx) all_iflags).

Definition ing_model_digits := ing_model_digits_with validate_challenge.

(* the harness reports 5 digits per group: the model's four plus the worker's sync function
   (S only).  [strip5] drops every fifth digit. *)
Fixpoint strip5 (s : string) : string :=
  match s with
  | String a (String b (String c (String d (String _ t)))) =>
      String a (String b (String c (String d (strip5 t))))
  | _ => s
  end.

Definition worst_digit (s : string) : Z :=
  if has_char "2" s then 2%Z else if has_char "1" s then 1%Z else 0%Z.

(* row: [id; model agrees; spec holds; nontrivial; branch tag]
   spec (S): an admissible shape shows no panic digit anywhere (including the sync digit).
   nontrivial: the shape is admissible.  tag: 10 * admissible + worst digit of the model. *)
Definition ing_case (id : Z) (descr obs : string) : list Z :=
  match parse_ing descr with
  | None => [id; 0; 0; 0; (-1)]%Z
  | Some s =>
      let m := ing_model_digits s in
      let adm := shape_admissible s in
      [id;
       if String.eqb m (strip5 obs) then 1 else 0;
       if adm && has_char "2" obs then 0 else 1;
       if adm then 1 else 0;
       (if adm then 10 else 0) + worst_digit m]%Z
  end.

(* the descriptor list handed to the harness *)
Definition ing_descrs : list string := map ing_descr all_ing_shapes.
