(* Tmpl/C06Regex.v -- correspondence check of the hand-transcribed validator regular expressions
   (Tmpl/Validators.v) against Go's regexp, called from the generated cases files of vlib/c06.py.
   NO PROOFS in this file.

   The harness takes, for each real regular expression, a few strings it accepts and perturbs them
   by ONE byte in every position with EVERY byte value (insertion and replacement): 256 verdicts of
   Go's MatchString per (sample, position, mode), sent as a string of 256 characters 0 / 1.
     sweep_row name sample pos mode bits   number of byte values on which
                                           validator_matches name (perturbed sample) disagrees with
                                           the Go verdict; -1 if the name is unknown to Validators
     mode 0 = insert the byte before position pos, 1 = replace the byte at position pos *)
From Coq Require Import List String Ascii Bool ZArith Arith.
From NIC Require Import Lex.Lexer Tmpl.LexAux Tmpl.Regex Tmpl.Validators.
Import ListNotations.
Open Scope Z_scope.

Fixpoint skipn_str (n : nat) (s : string) : string :=
  match n, s with
  | O, _ => s
  | S n', String _ r => skipn_str n' r
  | S _, EmptyString => EmptyString
  end.

Fixpoint firstn_then (n : nat) (s : string) (rest : string) : string :=
  match n, s with
  | O, _ => rest
  | S n', String c r => String c (firstn_then n' r rest)
  | S _, EmptyString => rest
  end.

Definition perturb (mode : Z) (pos : nat) (c : ascii) (s : string) : string :=
  if Z.eqb mode 0 then firstn_then pos s (String c (skipn_str pos s))
  else firstn_then pos s (String c (skipn_str (S pos) s)).

Fixpoint sweep_go (name : string) (mode : Z) (pos : nat) (sample : string) (cs : list ascii) (bits : string) : Z :=
  match cs, bits with
  | c :: cs', String b bits' =>
      let want := Ascii.eqb b "1"%char in
      let d := match validator_matches name (perturb mode pos c sample) with
               | Some got => if Bool.eqb got want then 0 else 1
               | None => 1
               end in
      d + sweep_go name mode pos sample cs' bits'
  | [], EmptyString => 0
  | _, _ => 1000
  end.

Definition sweep_row (name sample : string) (pos : Z) (mode : Z) (bits : string) : Z :=
  match validator_matches name sample with
  | None => -1
  | Some _ => sweep_go name mode (Z.to_nat pos) sample all_bytes bits
  end.

(* ---- the selector table of action.proxy.rewritePath (Validators.rewrite_path_lang / rewrite_path_site) against the
   real validator and generator: the same one-byte sweep, the real verdict being ValidateVirtualServer on a
   VirtualServer whose only route has the given path kind and location kind *)
Fixpoint sel_go (k : path_kind) (l : loc_kind) (mode : Z) (pos : nat) (sample : string) (cs : list ascii) (bits : string) : Z :=
  match cs, bits with
  | c :: cs', String b bits' =>
      let want := Ascii.eqb b "1"%char in
      (if Bool.eqb (rewrite_path_accepts k l (perturb mode pos c sample)) want then 0 else 1)
      + sel_go k l mode pos sample cs' bits'
  | [], EmptyString => 0
  | _, _ => 1000
  end.

Definition selector_sweep_row (k : path_kind) (l : loc_kind) (sample : string) (pos mode : Z) (bits : string) : Z :=
  sel_go k l mode (Z.to_nat pos) sample all_bytes bits.

(* 1 if the tokenizer state observed at the place where the real generator printed the value is the state of the
   site kind the table gives *)
Definition selector_site_row (k : path_kind) (l : loc_kind) (observed : Lex.Lexer.lstate) : Z :=
  if Lex.Lexer.lstate_eqb (site_state (rewrite_path_site k l)) observed then 1 else 0.

(* ---- upper bounds (parsers): the real validator may accept LESS than the model, never more.
   upper_row: 0 if every perturbed string the real validator accepts matches the upper bound, else 1 + the first
   byte value (0..255) for which it does not *)
Fixpoint upper_go (name : string) (mode : Z) (pos : nat) (sample : string) (cs : list ascii) (bits : string) : Z :=
  match cs, bits with
  | c :: cs', String b bits' =>
      if Ascii.eqb b "1"%char then
        match validator_matches name (perturb mode pos c sample) with
        | Some true => upper_go name mode pos sample cs' bits'
        | _ => 1 + Z.of_nat (nat_of_ascii c)
        end
      else upper_go name mode pos sample cs' bits'
  | _, _ => 0
  end.

Definition upper_row (name sample : string) (pos mode : Z) (bits : string) : Z :=
  upper_go name mode (Z.to_nat pos) sample all_bytes bits.

(* the model of generatePath against the real function: 1 if equal *)
Fixpoint str_eqb2 (a b : string) : bool :=
  match a, b with
  | EmptyString, EmptyString => true
  | String x a', String y b' => Ascii.eqb x y && str_eqb2 a' b'
  | _, _ => false
  end.

Definition gen_path_row (input output : string) : Z := if str_eqb2 (gen_path input) output then 1 else 0.
