(* Determ/Cases.v -- what the generated cases files call.  Every function returns a row
   [id; model_agrees; spec_holds; nontrivial; tag]. *)
From Coq Require Import List String Ascii Bool Arith ZArith.
From NIC Require Import Base.SMap Determ.Model.
Import ListNotations.
Open Scope string_scope.

Definition b2z (b : bool) : Z := if b then 1%Z else 0%Z.

(* ---- render family: S on the digests of R renderings.  [attributed]: the harness attributed the
   first difference to a site the coverage table refutes (then the model predicts a difference). *)
Definition render_case (id : Z) (obs : list rendering) (maxmap : Z) (attributed : bool) (mutated : nat) : list Z :=
  let ok := spec_ok obs && Nat.eqb mutated 0 in
  [id; b2z (ok || attributed); b2z ok; b2z (Z.leb 2 maxmap && Nat.leb 2 (List.length obs)); Z.of_nat (List.length obs)].

(* ---- unit family *)
Definition item (kv : string * string) : string := fst kv ++ "=" ++ snd kv.
Definition in_list (l : list string) (k : string) : bool := existsb (String.eqb k) l.
Definition smap_items (m : smap string) : list string := map item m.

(* multiset equality of string lists *)
Definition same_items (a b : list string) : bool :=
  list_eqb (isort (fun k => k) a) (isort (fun k => k) b).

Fixpoint strip {A} (l : list (option A)) : list A :=
  match l with [] => [] | Some x :: r => x :: strip r | None :: r => strip r end.

(* what the model produces when the range hands over the bindings in canonical (key) order.
   kinds: 0 generateAPIKeyClients  1 upstreamMapToSlice  2 filter*Annotations (removed keys)
          3 filter*Annotations (remaining map)  4 mergeMasterAnnotationsIntoMinion
          5 generateTLSPassthroughHostsConfig  6 GenerateVirtualServerConfig (API-key maps)
          7 generatePolicies (rate-limit group maps)
          8 GenerateEndpointsKey (the key of an endpoint set: labels in sorted order, labels.Set.String)
          9 the Endpoints map of the *Ex the controller builds: a SET of addresses per key, given in [aux]
            (every address of the selected pods once), whatever the slices / podEndpoints looked like.
   [fixed] selects the model of the tree with the proposed fix applied (kinds 0, 6, 7). *)
Definition model_items (kind : nat) (fixed : bool) (l : list (string * string))
  (aux : list string) (aux2 : list (string * string)) : list string :=
  match kind with
  | 0 => map item (if fixed then site_generateAPIKeyClients_fixed_out (fun v => v) l
                   else site_generateAPIKeyClients_out (fun v => v) l)
  | 1 => strip (site_upstreamMapToSlice_out (of_list l) l)
  | 2 => site_filterAnnotations_removed_out (in_list aux) l
  | 3 => smap_items (site_filterAnnotations_map_out (in_list aux) (of_list l) l)
  | 4 => smap_items (site_mergeMasterAnnotationsIntoMinion_out (in_list aux) (of_list aux2) l)
  | 5 => map fst (site_mapwrite_out (fun kv : string * string => Some (snd kv, true)) [] l)
  | 6 => if fixed then site_GenerateVirtualServerConfig_fixed_out (fun _ v => v) (fun v : string => v) [] l
         else site_GenerateVirtualServerConfig_out (fun _ v => v) (fun v : string => v) [] l
  | 7 => match (if fixed then site_generatePolicies_fixed_out (fun _ : string => false) l
                else site_generatePolicies_out (fun _ : string => false) l) with
         | LrzMaps m => m | LrzError500 => [] end
  | 9 => aux
  | 8 => ["default/tea-svc_" ++ String.concat "," (map item (isort fst l)) ++ ":80"]
  | _ => []
  end.

(* [det]: the coverage table says the site's result does not depend on the order.
   agreement: a deterministic site always returns the model's value; an order-sensitive one returns
   the model's value for SOME order, i.e. a permutation of the canonical items. *)
Definition unit_case (id : Z) (kind : nat) (det fixed : bool) (l : list (string * string))
  (aux : list string) (aux2 : list (string * string)) (outs : list (list string)) : list Z :=
  let m := model_items kind fixed l aux aux2 in
  let agree := if det then forallb (list_eqb m) outs else forallb (same_items m) outs in
  [id; b2z agree; b2z (all_equal outs); b2z (Nat.leb 2 (List.length l)); Z.of_nat (List.length outs)].

(* the same with the renderings given as indices into the table of distinct renderings (most of
   the 180 renderings of a case are equal; this only keeps the generated file small) *)
Definition render_case_ix (id : Z) (table : list (list (string * string))) (seq : list (nat * bool))
  (maxmap : Z) (attributed : bool) (mutated : nat) : list Z :=
  render_case id (map (fun ib => (nth (fst ib) table [("<bad index>", "")], snd ib)) seq) maxmap attributed mutated.

(* ---- history family: [fresh] are the files a fresh configurator renders for input B from pristine
   objects; [others] are the files rendered for B by configurators that rendered input A before (and B
   again), in every process, and the fresh renderings of the other processes.  [mutated]: number of
   input objects found modified after a call of the generator.  The model (render_history_deepcopy,
   history_independent) predicts equality, so agreement and specification coincide. *)
Definition history_case (id : Z) (fresh : list (string * string)) (others : list (list (string * string)))
  (mutated : nat) (nontrivial : bool) : list Z :=
  let ok := forallb (fun o => history_ok o fresh mutated) others in
  [id; b2z ok; b2z ok; b2z nontrivial; Z.of_nat (List.length others)].
