(* Policies/Model.v -- executable model of the fail-closed decision logic (C08).  NO PROOFS here.

   Transcribed from
     internal/configs/virtualserver.go   generatePolicies (the loop, ErrorReturn), addAccessControlConfig,
                                         addRateLimitConfig, addJWTAuthConfig, addBasicAuthConfig,
                                         addIngressMTLSConfig, addEgressMTLSConfig, addOIDCConfig,
                                         addAPIKeyConfig, addWAFConfig (each reduced to WHEN it reports
                                         isError, when it ignores a duplicate with a warning, and which
                                         field of policiesCfg it sets), the policy flow of
                                         GenerateVirtualServerConfig (spec / route / subroute / policies a
                                         VirtualServerRoute inherits from the VirtualServer route),
                                         generateSSLConfig
     internal/configs/ingress.go         addSSLConfig, generateJWTConfig, generateBasicAuthConfig
     internal/k8s/controller.go          getPolicies + createPolicyMap (missing / foreign class /
                                         invalid => absent from the map), the secret informer's type
                                         filter + LocalSecretStore.GetSecret
   External verdicts are data: whether the real validator accepts a Policy ([cp_valid]) or a Secret
   ([sec_valid]), which App Protect resources are usable, which bundle files exist. *)
From Coq Require Import List String Ascii Bool Arith.
Import ListNotations.
Open Scope string_scope.
Open Scope list_scope.

(* ---------------------------------------------------------------- vocabulary *)

Inductive kind := KAccess | KRate | KJwt | KBasic | KIngressMTLS | KEgressMTLS | KOidc | KApiKey | KWaf
                | KNone (* a Policy object with no spec field set: the [default:] branch *).

Definition kind_eqb (a b : kind) : bool :=
  match a, b with
  | KAccess, KAccess | KRate, KRate | KJwt, KJwt | KBasic, KBasic | KIngressMTLS, KIngressMTLS
  | KEgressMTLS, KEgressMTLS | KOidc, KOidc | KApiKey, KApiKey | KWaf, KWaf | KNone, KNone => true
  | _, _ => false
  end.

Inductive stype := TyTLS | TyCA | TyJWK | TyHtpasswd | TyOIDC | TyAPIKey
                 | TyOther (* any type secrets.IsSupportedSecretType rejects *).

Definition stype_eqb (a b : stype) : bool :=
  match a, b with
  | TyTLS, TyTLS | TyCA, TyCA | TyJWK, TyJWK | TyHtpasswd, TyHtpasswd | TyOIDC, TyOIDC
  | TyAPIKey, TyAPIKey | TyOther, TyOther => true
  | _, _ => false
  end.

(* the four states a dependency on a Secret can be in, relative to the type the user expects *)
Inductive sstate := SMissing | SWrongType | SInvalid | SOk.

Inductive context := CSpec | CRoute | CSubroute.

Definition is_spec (c : context) : bool := match c with CSpec => true | _ => false end.

(* what generatePolicies and the add*Config functions look at in a Policy object *)
Record policy := mkPolicy {
  pkind : kind;
  psecret : string;           (* jwt.secret, basicAuth.secret, ingressMTLS.clientCertSecret,
                                 egressMTLS.tlsSecret, oidc.clientSecret, apiKey.clientSecret *)
  psecret2 : string;          (* egressMTLS.trustedCertSecret *)
  pjwks : bool;               (* jwt.jwksURI set *)
  pappol : string;            (* waf.apPolicy *)
  pbundle : string;           (* waf.apBundle *)
  plogconfs : list string;    (* waf.securityLogs[].apLogConf *)
  plogbundles : list string;  (* waf.securityLogs[].apLogBundle *)
  prl_group : string;         (* rateLimit.condition.jwt.claim ("" = no condition) *)
  prl_default : bool          (* rateLimit.condition.default *)
}.

Record secret := mkSecret { sec_type : stype; sec_valid : bool (* secrets.ValidateSecret = nil *) }.

(* the dependency state one generation sees *)
Record deps := mkDeps {
  d_secrets : list (string * secret);   (* Secrets of the cluster, key ns/name *)
  d_appols : list string;               (* usable APPolicy keys (GetAppResource succeeds) *)
  d_logconfs : list string;             (* usable APLogConf keys *)
  d_bundles : list string;              (* bundle files that exist *)
  d_tls : bool                          (* sslConfig != nil for the VirtualServer *)
}.

Definition polref := (string * string)%type.        (* (namespace or "", name) *)
Definition policy_map := list (string * policy).     (* key ns/name; first binding wins *)

(* scope of one generatePolicies call; [sc_oidc] is the VirtualServer-wide OIDC slot
   (vsc.oidcPolCfg.key) as the call finds it *)
Record scope := mkScope { sc_ctx : context; sc_owner_ns : string; sc_oidc : option string }.

(* ---------------------------------------------------------------- small helpers *)

Fixpoint assoc {A} (k : string) (l : list (string * A)) : option A :=
  match l with
  | [] => None
  | (k', v) :: r => if String.eqb k k' then Some v else assoc k r
  end.

Fixpoint mem (k : string) (l : list string) : bool :=
  match l with [] => false | x :: r => String.eqb k x || mem k r end.

Definition is_empty (s : string) : bool := match s with EmptyString => true | _ => false end.

Fixpoint has_slash (s : string) : bool :=
  match s with
  | EmptyString => false
  | String c r => Ascii.eqb c "/"%char || has_slash r
  end.

Definition nskey (ns name : string) : string := String.append ns (String.append "/" name).

(* fmt.Sprintf("%s/%s", polNamespace, p.Name) with polNamespace defaulting to the owner's *)
Definition ref_ns (owner_ns : string) (r : polref) : string :=
  if is_empty (fst r) then owner_ns else fst r.
Definition ref_key (owner_ns : string) (r : polref) : string := nskey (ref_ns owner_ns r) (snd r).

(* waf.apPolicy / apLogConf: namespaced by the policy's namespace unless it contains a slash *)
Definition qualify (polns name : string) : string := if has_slash name then name else nskey polns name.

(* ---------------------------------------------------------------- secrets *)

(* the secret informer ignores unsupported types, so they never reach the store; GetSecret on an
   absent key returns a reference with Secret = nil and an error *)
Definition store_lookup (d : deps) (key : string) : option secret :=
  match assoc key (d_secrets d) with
  | Some s => if stype_eqb (sec_type s) TyOther then None else Some s
  | None => None
  end.

(* the if / else-if every consumer of a SecretReference uses:
     secretType != "" && secretType != expected  -> wrong type
     else secretRef.Error != nil                 -> invalid (or missing: Secret = nil, type "") *)
Definition classify (expected : stype) (r : option secret) : sstate :=
  match r with
  | None => SMissing
  | Some s => if negb (stype_eqb (sec_type s) expected) then SWrongType
              else if sec_valid s then SOk else SInvalid
  end.

Definition secret_state (d : deps) (expected : stype) (key : string) : sstate :=
  classify expected (store_lookup d key).

Definition usable (st : sstate) : bool := match st with SOk => true | _ => false end.

(* ---------------------------------------------------------------- policiesCfg *)

Record acc := mkAcc {
  a_access : bool; a_rate : bool; a_jwt : bool; a_basic : bool; a_imtls : bool; a_emtls : bool;
  a_oidc : bool; a_apikey : bool; a_waf : bool;
  a_rl : list (string * bool)      (* tiered rate limits seen so far: (claim, default) *)
}.

Definition empty_acc : acc := mkAcc false false false false false false false false false [].

Definition set_access a := mkAcc true (a_rate a) (a_jwt a) (a_basic a) (a_imtls a) (a_emtls a) (a_oidc a) (a_apikey a) (a_waf a) (a_rl a).
Definition set_rate a rl := mkAcc (a_access a) true (a_jwt a) (a_basic a) (a_imtls a) (a_emtls a) (a_oidc a) (a_apikey a) (a_waf a) rl.
Definition set_jwt a := mkAcc (a_access a) (a_rate a) true (a_basic a) (a_imtls a) (a_emtls a) (a_oidc a) (a_apikey a) (a_waf a) (a_rl a).
Definition set_basic a := mkAcc (a_access a) (a_rate a) (a_jwt a) true (a_imtls a) (a_emtls a) (a_oidc a) (a_apikey a) (a_waf a) (a_rl a).
Definition set_imtls a := mkAcc (a_access a) (a_rate a) (a_jwt a) (a_basic a) true (a_emtls a) (a_oidc a) (a_apikey a) (a_waf a) (a_rl a).
Definition set_emtls a := mkAcc (a_access a) (a_rate a) (a_jwt a) (a_basic a) (a_imtls a) true (a_oidc a) (a_apikey a) (a_waf a) (a_rl a).
Definition set_oidc a := mkAcc (a_access a) (a_rate a) (a_jwt a) (a_basic a) (a_imtls a) (a_emtls a) true (a_apikey a) (a_waf a) (a_rl a).
Definition set_apikey a := mkAcc (a_access a) (a_rate a) (a_jwt a) (a_basic a) (a_imtls a) (a_emtls a) (a_oidc a) true (a_waf a) (a_rl a).
Definition set_waf a := mkAcc (a_access a) (a_rate a) (a_jwt a) (a_basic a) (a_imtls a) (a_emtls a) (a_oidc a) (a_apikey a) true (a_rl a).

(* has a policy of this kind already been configured in this scope (the p.X != nil tests) *)
Definition configured (k : kind) (a : acc) : bool :=
  match k with
  | KJwt => a_jwt a | KBasic => a_basic a | KIngressMTLS => a_imtls a | KEgressMTLS => a_emtls a
  | KOidc => a_oidc a | KApiKey => a_apikey a | KWaf => a_waf a
  | KAccess | KRate | KNone => false
  end.

(* what one add*Config call does *)
Inductive verdict :=
  | VAdded      (* configured *)
  | VIgnored    (* duplicate of its kind: warning only, nothing configured, NOT an error *)
  | VSkipped    (* nothing to do (default branch; jwt with neither secret nor jwksURI) *)
  | VError.     (* res.isError: the scope fails *)

(* addWAFConfig's checks after the duplicate test *)
Definition waf_ok (p : policy) (polns : string) (d : deps) : bool :=
  (is_empty (pappol p) || mem (qualify polns (pappol p)) (d_appols d)) &&
  (is_empty (pbundle p) || mem (pbundle p) (d_bundles d)) &&
  forallb (fun lc => is_empty lc || mem (qualify polns lc) (d_logconfs d)) (plogconfs p) &&
  forallb (fun lb => is_empty lb || mem lb (d_bundles d)) (plogbundles p).

(* one iteration of the switch in generatePolicies: (verdict, policiesCfg afterwards, OIDC slot afterwards) *)
Definition add_policy (p : policy) (key polns : string) (d : deps) (ctx : context)
           (oidc : option string) (a : acc) : verdict * acc * option string :=
  let sec := fun ty name => usable (secret_state d ty (nskey polns name)) in
  match pkind p with
  | KAccess => (VAdded, set_access a, oidc)
  | KRate =>
      (VAdded, set_rate a (if is_empty (prl_group p) then a_rl a else a_rl a ++ [(prl_group p, prl_default p)]), oidc)
  | KJwt =>
      if a_jwt a then (VIgnored, a, oidc)
      else if negb (is_empty (psecret p)) then
             if sec TyJWK (psecret p) then (VAdded, set_jwt a, oidc) else (VError, a, oidc)
           else if pjwks p then (VAdded, set_jwt a, oidc)
           else (VSkipped, a, oidc)
  | KBasic =>
      if a_basic a then (VIgnored, a, oidc)
      else if sec TyHtpasswd (psecret p) then (VAdded, set_basic a, oidc) else (VError, a, oidc)
  | KIngressMTLS =>
      if negb (d_tls d) then (VError, a, oidc)
      else if negb (is_spec ctx) then (VError, a, oidc)
      else if a_imtls a then (VIgnored, a, oidc)
      else if sec TyCA (psecret p) then (VAdded, set_imtls a, oidc) else (VError, a, oidc)
  | KEgressMTLS =>
      if a_emtls a then (VIgnored, a, oidc)
      else if negb (is_empty (psecret p)) && negb (sec TyTLS (psecret p)) then (VError, a, oidc)
      else if negb (is_empty (psecret2 p)) && negb (sec TyCA (psecret2 p)) then (VError, a, oidc)
      else (VAdded, set_emtls a, oidc)
  | KOidc =>
      if a_oidc a then (VIgnored, a, oidc)
      else match oidc with
           | Some k => if String.eqb k key then (VAdded, set_oidc a, oidc) else (VError, a, oidc)
           | None => if sec TyOIDC (psecret p) then (VAdded, set_oidc a, Some key) else (VError, a, oidc)
           end
  | KApiKey =>
      if a_apikey a then (VError, a, oidc)          (* the only duplicate that is an error *)
      else if sec TyAPIKey (psecret p) then (VAdded, set_apikey a, oidc) else (VError, a, oidc)
  | KWaf =>
      if a_waf a then (VIgnored, a, oidc)
      else if waf_ok p polns d then (VAdded, set_waf a, oidc) else (VError, a, oidc)
  | KNone => (VSkipped, a, oidc)
  end.

(* the for loop of generatePolicies: None = return policiesCfg{ErrorReturn: 500}.  The OIDC slot
   survives an error (it lives in the virtualServerConfigurator, not in the discarded config). *)
Fixpoint gen_loop (refs : list polref) (pm : policy_map) (d : deps) (ctx : context) (owner_ns : string)
         (oidc : option string) (a : acc) : option acc * option string :=
  match refs with
  | [] => (Some a, oidc)
  | r :: rest =>
      let key := ref_key owner_ns r in
      match assoc key pm with
      | None => (None, oidc)                                  (* "Policy %s is missing or invalid" *)
      | Some p =>
          match add_policy p key (ref_ns owner_ns r) d ctx oidc a with
          | (VError, _, oidc') => (None, oidc')
          | (_, a', oidc') => gen_loop rest pm d ctx owner_ns oidc' a'
          end
      end
  end.

(* hasDuplicateMapDefaults over generateLRZGroupMaps: one map per claim; two entries with
   default = true for the same claim conflict *)
Fixpoint count_default (g : string) (l : list (string * bool)) : nat :=
  match l with
  | [] => 0
  | (g', dflt) :: r => (if String.eqb g g' && dflt then 1 else 0) + count_default g r
  end.

Definition rl_conflict (l : list (string * bool)) : bool :=
  existsb (fun e => Nat.ltb 1 (count_default (fst e) l)) l.

Inductive outcome := ErrorReturn | Applied (a : acc).

Definition is_error (o : outcome) : bool := match o with ErrorReturn => true | Applied _ => false end.

Definition finish (r : option acc) : outcome :=
  match r with
  | None => ErrorReturn
  | Some a => if rl_conflict (a_rl a) then ErrorReturn else Applied a
  end.

Definition generate_policies (refs : list polref) (pm : policy_map) (d : deps) (sc : scope) : outcome :=
  finish (fst (gen_loop refs pm d (sc_ctx sc) (sc_owner_ns sc) (sc_oidc sc) empty_acc)).

Definition oidc_after (refs : list polref) (pm : policy_map) (d : deps) (sc : scope) : option string :=
  snd (gen_loop refs pm d (sc_ctx sc) (sc_owner_ns sc) (sc_oidc sc) empty_acc).

(* ---------------------------------------------------------------- getPolicies / createPolicyMap *)

Record cpolicy := mkCPolicy {
  cp_pol : policy;
  cp_class : string;      (* spec.ingressClassName *)
  cp_valid : bool         (* validation.ValidatePolicy = nil (oracle: the real validator's verdict) *)
}.

(* HasCorrectIngressClass on a Policy *)
Definition class_ok (controller_class : string) (cp : cpolicy) : bool :=
  String.eqb (cp_class cp) controller_class || is_empty (cp_class cp).

(* getPolicies: a reference contributes a map entry only if the object exists, has the right class
   and is valid; everything else is dropped (and logged) *)
Definition get_policies (controller_class : string) (cluster : list (string * cpolicy))
           (refs : list polref) (owner_ns : string) : policy_map :=
  flat_map (fun r =>
              let k := ref_key owner_ns r in
              match assoc k cluster with
              | Some cp => if class_ok controller_class cp && cp_valid cp then [(k, cp_pol cp)] else []
              | None => []
              end) refs.

(* ---------------------------------------------------------------- VirtualServer level *)

Record route := mkRoute { r_path : string; r_vsr : string (* route: ns/name, or "" *); r_pols : list polref }.
Record subroute := mkSub { s_path : string; s_pols : list polref }.
Record vsroute := mkVsr { v_ns : string; v_name : string; v_subs : list subroute }.
Record vserver := mkVs { vs_ns : string; vs_pols : list polref; vs_routes : list route; vs_vsrs : list vsroute }.

(* createVirtualServerEx: the union of getPolicies over spec, every route, every subroute of the
   attached VirtualServerRoutes *)
Definition vs_policy_map (cls : string) (cluster : list (string * cpolicy)) (v : vserver) : policy_map :=
  get_policies cls cluster (vs_pols v) (vs_ns v) ++
  flat_map (fun r => get_policies cls cluster (r_pols r) (vs_ns v)) (vs_routes v) ++
  flat_map (fun x => flat_map (fun s => get_policies cls cluster (s_pols s) (v_ns x)) (v_subs x)) (vs_vsrs v).

(* what a server / location ends up with: PoliciesErrorReturn set?  which additions? *)
Record view := mkView { lv_err : bool; lv_acc : acc }.

(* if policiesCfg.OIDC { routePoliciesCfg.OIDC = policiesCfg.OIDC } *)
Definition view_of (o : outcome) (server_oidc : bool) : view :=
  match o with
  | ErrorReturn => mkView true (if server_oidc then set_oidc empty_acc else empty_acc)
  | Applied a => mkView false (if server_oidc then set_oidc a else a)
  end.

(* vsrPoliciesFromVs: a Go map written in route order, so the last writer of a key wins *)
Fixpoint inherited_refs (vs_namespace : string) (routes : list route) (vsr_key : string) (cur : list polref) : list polref :=
  match routes with
  | [] => cur
  | r :: rest =>
      let cur' :=
        if negb (is_empty (r_vsr r)) &&
           String.eqb (if has_slash (r_vsr r) then r_vsr r else nskey vs_namespace (r_vsr r)) vsr_key &&
           negb (match r_pols r with [] => true | _ => false end)
        then r_pols r else cur in
      inherited_refs vs_namespace rest vsr_key cur'
  end.

Fixpoint routes_views (rs : list route) (pm : policy_map) (d : deps) (owner_ns : string) (server_oidc : bool)
         (oidc : option string) : list (string * view) * option string :=
  match rs with
  | [] => ([], oidc)
  | r :: rest =>
      if negb (is_empty (r_vsr r)) then routes_views rest pm d owner_ns server_oidc oidc
      else
        let sc := mkScope CRoute owner_ns oidc in
        let o := generate_policies (r_pols r) pm d sc in
        let '(vs', oidc') := routes_views rest pm d owner_ns server_oidc (oidc_after (r_pols r) pm d sc) in
        ((String.append "route:" (r_path r), view_of o server_oidc) :: vs', oidc')
  end.

Fixpoint subs_views (subs : list subroute) (x : vsroute) (v : vserver) (pm : policy_map) (d : deps)
         (server_oidc : bool) (oidc : option string) : list (string * view) * option string :=
  match subs with
  | [] => ([], oidc)
  | s :: rest =>
      let key := nskey (v_ns x) (v_name x) in
      let '(refs, sc) :=
        match s_pols s with
        | [] => (inherited_refs (vs_ns v) (vs_routes v) key [], mkScope CRoute (vs_ns v) oidc)
        | _ => (s_pols s, mkScope CSubroute (v_ns x) oidc)
        end in
      let o := generate_policies refs pm d sc in
      let '(vs', oidc') := subs_views rest x v pm d server_oidc (oidc_after refs pm d sc) in
      ((String.append "sub:" (String.append key (String.append ":" (s_path s))), view_of o server_oidc) :: vs', oidc')
  end.

Fixpoint vsrs_views (xs : list vsroute) (v : vserver) (pm : policy_map) (d : deps)
         (server_oidc : bool) (oidc : option string) : list (string * view) :=
  match xs with
  | [] => []
  | x :: rest =>
      let '(here, oidc') := subs_views (v_subs x) x v pm d server_oidc oidc in
      here ++ vsrs_views rest v pm d server_oidc oidc'
  end.

(* GenerateVirtualServerConfig, policies only: the views of spec, every own route, every subroute,
   in the order the locations are generated *)
Definition vs_views (v : vserver) (pm : policy_map) (d : deps) : list (string * view) :=
  let sc0 := mkScope CSpec (vs_ns v) None in
  let o0 := generate_policies (vs_pols v) pm d sc0 in
  let server_oidc := match o0 with Applied a => a_oidc a | ErrorReturn => false end in
  let oidc1 := oidc_after (vs_pols v) pm d sc0 in
  let '(rv, oidc2) := routes_views (vs_routes v) pm d (vs_ns v) server_oidc oidc1 in
  (* Server.OIDC is vsc.oidcPolCfg.oidc at the very end: set as soon as ANY scope configured one *)
  ("spec", mkView (is_error o0) (match o0 with Applied a => a | ErrorReturn => empty_acc end)) ::
  rv ++ vsrs_views (vs_vsrs v) v pm d server_oidc oidc2.

(* the OIDC slot at the end of the whole generation (Server.OIDC != nil) *)
Definition vs_final_oidc (v : vserver) (pm : policy_map) (d : deps) : option string :=
  let sc0 := mkScope CSpec (vs_ns v) None in
  let o0 := generate_policies (vs_pols v) pm d sc0 in
  let server_oidc := match o0 with Applied a => a_oidc a | ErrorReturn => false end in
  let oidc1 := oidc_after (vs_pols v) pm d sc0 in
  let '(_, oidc2) := routes_views (vs_routes v) pm d (vs_ns v) server_oidc oidc1 in
  (fix go (xs : list vsroute) (oidc : option string) : option string :=
     match xs with
     | [] => oidc
     | x :: rest => go rest (snd (subs_views (v_subs x) x v pm d server_oidc oidc))
     end) (vs_vsrs v) oidc2.

(* ---------------------------------------------------------------- TLS *)

Record ssl := mkSsl { ssl_reject : bool; ssl_cert : string }.

Definition wildcard_pem : string := "/etc/nginx/secrets/wildcard".

(* generateSSLConfig.  tls = None: spec.tls absent; Some name: spec.tls.secret = name.
   [path_of key] is the file the secret store reports for a usable secret. *)
Definition vs_ssl_config (tls : option string) (ns : string) (d : deps) (wildcard : bool)
           (path_of : string -> string) : option ssl :=
  match tls with
  | None => None
  | Some name =>
      if is_empty name then (if wildcard then Some (mkSsl false wildcard_pem) else None)
      else match secret_state d TyTLS (nskey ns name) with
           | SOk => Some (mkSsl false (path_of (nskey ns name)))
           | _ => Some (mkSsl true "")
           end
  end.

(* addSSLConfig for one host of an Ingress.  tls = None: no spec.tls entry lists the host *)
Definition ingress_ssl_config (tls : option string) (ns : string) (d : deps) (wildcard : bool)
           (path_of : string -> string) : option ssl :=
  match tls with
  | None => None
  | Some name =>
      if is_empty name then (if wildcard then Some (mkSsl false wildcard_pem) else Some (mkSsl true ""))
      else match secret_state d TyTLS (nskey ns name) with
           | SOk => Some (mkSsl false (path_of (nskey ns name)))
           | _ => Some (mkSsl true "")
           end
  end.

(* the TLS block of the server templates.  [spiffe] = the resource is an internal route of NGINX
   Service Mesh (spec.internalRoute / nsm.nginx.com/internal-route with -enable-internal-routes): the
   server then terminates TLS with the mesh certificate instead of the Secret's -- but a handshake
   that must be rejected stays rejected (version2 templates: if RejectHandshake ... else if SpiffeCerts;
   the version1 templates test SpiffeCerts first: finding F81, repaired by fixes/F81.diff).
   None = ssl_reject_handshake on, no certificate. *)
Definition spiffe_pem : string := "/etc/nginx/secrets/spiffe_cert.pem".

Definition served_certificate (spiffe : bool) (s : ssl) : option string :=
  if ssl_reject s then None else Some (if spiffe then spiffe_pem else ssl_cert s).

(* ---------------------------------------------------------------- Ingress authentication *)

(* generateJWTConfig / generateBasicAuthConfig: the directive is configured in every secret state;
   the state only decides whether a warning is attached.  The key file is the path the
   Configurator forces onto the reference (GetFilenameForSecret ns-name). *)
Record auth := mkAuth { au_file : string; au_warn : bool }.

Definition ingress_auth (expected : stype) (annotation : option string) (ns : string) (d : deps)
           (file_of : string -> string) : option auth :=
  match annotation with
  | None => None
  | Some name => Some (mkAuth (file_of (nskey ns name)) (negb (usable (secret_state d expected (nskey ns name)))))
  end.

Definition ingress_jwt := ingress_auth TyJWK.
Definition ingress_basic := ingress_auth TyHtpasswd.

(* ---------------------------------------------------------------- Secrets over time *)

(* What the generation sees is the CURRENT set of Secrets ([d_secrets]).  The history that led to it
   (informer events handled by syncSecret: AddOrUpdateSecret / DeleteSecret on the store) matters
   only through that set: a Secret that existed -- valid or not, referenced or not -- and was
   deleted before the resource is generated does not exist. *)
Inductive sevent := SecUpsert (key : string) (s : secret) | SecDelete (key : string).

Definition sec_step (l : list (string * secret)) (e : sevent) : list (string * secret) :=
  match e with
  | SecUpsert k s => (k, s) :: l
  | SecDelete k => filter (fun x => negb (String.eqb k (fst x))) l
  end.

Definition secrets_of_history (h : list sevent) : list (string * secret) := fold_left sec_step h [].
