#!/bin/sh
# run every claimed quick check once and summarise (developer convenience; not part of the interface)
cd /verif
for p in $(python3 -c "import json;print(' '.join(c['property_id'] for c in json.load(open('MANIFEST.json'))['checks']))"); do
  s=$(date +%s)
  ./check $p --tier ${1:-quick} > .work/log/runall_$p.log 2>&1
  rc=$?
  e=$(date +%s)
  echo "$p rc=$rc $((e-s))s $(grep -c '^KNOWN-FINDING' .work/log/runall_$p.log) known $(grep -c '^VIOLATION' .work/log/runall_$p.log) violations :: $(tail -1 .work/log/runall_$p.log | cut -c1-160)"
done
