(* C11 -- file names of secrets: when ns-name (and the -ca.crt / -ca.crl variants) is injective,
   for all strings. *)
From Coq Require Import List String Ascii Bool Arith Lia.
From NIC Require Import Base.SMap Secrets.Model Secrets.Spec.
Import ListNotations.
Open Scope string_scope.

(* ---- strings ---- *)

Lemma sapp_assoc (a b c : string) : (a ++ b) ++ c = a ++ (b ++ c).
Proof. induction a as [|x a IH]; cbn; [reflexivity|]. rewrite IH. reflexivity. Qed.

Lemma sapp_inj_l (a b c : string) : a ++ b = a ++ c -> b = c.
Proof. induction a as [|x a IH]; cbn; intros H; [exact H|]. injection H as H. auto. Qed.

Lemma slength_app (a b : string) : String.length (a ++ b) = String.length a + String.length b.
Proof. induction a as [|x a IH]; cbn; [reflexivity|]. rewrite IH. reflexivity. Qed.

Lemma sapp_inj_len (a : string) : forall b c d,
  a ++ b = c ++ d -> String.length b = String.length d -> a = c /\ b = d.
Proof.
  induction a as [|x a IH]; intros b c d H L.
  - destruct c as [|y c]; cbn in *; [auto|].
    subst b. cbn in L. rewrite slength_app in L. lia.
  - destruct c as [|y c]; cbn in *.
    + subst d. cbn in L. rewrite slength_app in L. lia.
    + injection H as -> H. destruct (IH _ _ _ H L) as [-> ->]. auto.
Qed.

Lemma sapp_nonempty_l (a b : string) : is_empty a = false -> is_empty (a ++ b) = false.
Proof. destruct a; cbn; [discriminate|reflexivity]. Qed.

(* ---- characters that must not occur ---- *)

Fixpoint lacks (c : ascii) (s : string) : bool :=
  match s with
  | EmptyString => true
  | String x r => negb (Ascii.eqb x c) && lacks c r
  end.

Definition no_slash (s : string) : Prop := lacks "/" s = true.
Definition no_dash (s : string) : Prop := lacks "-" s = true.

Lemma key_to_fname_app (a b : string) : key_to_fname (a ++ b) = key_to_fname a ++ key_to_fname b.
Proof. induction a as [|x a IH]; cbn; [reflexivity|]. rewrite IH. reflexivity. Qed.

Lemma key_to_fname_id (s : string) : no_slash s -> key_to_fname s = s.
Proof.
  unfold no_slash. induction s as [|x s IH]; cbn; [reflexivity|].
  intros H. apply andb_true_iff in H. destruct H as [H1 H2].
  apply negb_true_iff in H1. rewrite H1. rewrite IH by assumption. reflexivity.
Qed.

(* keyToFileName(ns/name) = objectMetaToFileName(meta) for Kubernetes names *)
Lemma key_to_fname_key_of ns name :
  no_slash ns -> no_slash name -> key_to_fname (key_of ns name) = fname ns name.
Proof.
  intros H1 H2. unfold key_of, fname. rewrite !key_to_fname_app.
  rewrite (key_to_fname_id ns H1), (key_to_fname_id name H2). reflexivity.
Qed.

Lemma key_of_inj ns1 : forall name1 ns2 name2,
  no_slash ns1 -> no_slash ns2 ->
  key_of ns1 name1 = key_of ns2 name2 -> ns1 = ns2 /\ name1 = name2.
Proof.
  unfold key_of, no_slash.
  induction ns1 as [|x a IH]; intros n1 ns2 n2 H1 H2 E.
  - destruct ns2 as [|y b]; cbn in *.
    + injection E as E. auto.
    + injection E as <- E. cbn in H2. discriminate.
  - destruct ns2 as [|y b]; cbn in *.
    + injection E as -> E. cbn in H1. discriminate.
    + injection E as -> E.
      apply andb_true_iff in H1. destruct H1 as [_ H1].
      apply andb_true_iff in H2. destruct H2 as [_ H2].
      destruct (IH _ _ _ H1 H2 E) as [-> ->]. auto.
Qed.

(* ns-name is injective on namespaces without a dash (names may contain anything) *)
Lemma fname_inj ns1 : forall name1 ns2 name2,
  no_dash ns1 -> no_dash ns2 ->
  fname ns1 name1 = fname ns2 name2 -> ns1 = ns2 /\ name1 = name2.
Proof.
  unfold fname, no_dash.
  induction ns1 as [|x a IH]; intros n1 ns2 n2 H1 H2 E.
  - destruct ns2 as [|y b]; cbn in *.
    + injection E as E. auto.
    + injection E as <- E. cbn in H2. discriminate.
  - destruct ns2 as [|y b]; cbn in *.
    + injection E as -> E. cbn in H1. discriminate.
    + injection E as -> E.
      apply andb_true_iff in H1. destruct H1 as [_ H1].
      apply andb_true_iff in H2. destruct H2 as [_ H2].
      destruct (IH _ _ _ H1 H2 E) as [-> ->]. auto.
Qed.

(* within one namespace ns-name is injective, whatever the strings are *)
Lemma fname_inj_same_ns ns name1 name2 : fname ns name1 = fname ns name2 -> name1 = name2.
Proof. unfold fname. intros H. apply sapp_inj_l in H. apply sapp_inj_l in H. exact H. Qed.

(* ---- the three names of a key ---- *)

Definition no_ca_suffix (name : string) : Prop :=
  forall p, name <> p ++ ca_crt_suffix /\ name <> p ++ ca_crl_suffix.

(* the keys of a cluster whose namespaces contain no dash and whose Secret names do not end in
   -ca.crt / -ca.crl *)
Definition dashfree_key (k : string) : Prop :=
  exists ns name, k = key_of ns name /\ no_dash ns /\ no_slash ns /\ no_slash name /\ no_ca_suffix name.

Lemma fname_suffix ns name suf : fname ns name ++ suf = fname ns (name ++ suf).
Proof. unfold fname. rewrite !sapp_assoc. reflexivity. Qed.

Lemma suffix_neq p q : p ++ ca_crt_suffix <> q ++ ca_crl_suffix.
Proof.
  intros H. apply sapp_inj_len in H; [|reflexivity]. destruct H as [_ H]. discriminate.
Qed.

Theorem names_disjoint_dashfree k1 k2 :
  dashfree_key k1 -> dashfree_key k2 -> k1 <> k2 -> names_disjoint k1 k2.
Proof.
  intros (ns1 & n1 & -> & D1 & S1 & T1 & C1) (ns2 & n2 & -> & D2 & S2 & T2 & C2) Hne f I1 I2.
  unfold names_of_key in *.
  rewrite key_to_fname_key_of in I1 by assumption.
  rewrite key_to_fname_key_of in I2 by assumption.
  assert (Same : fname ns1 n1 = fname ns2 n2 -> False).
  { intros E. destruct (fname_inj _ _ _ _ D1 D2 E) as [-> ->]. apply Hne. reflexivity. }
  unfold names_of in *. cbn in I1, I2.
  destruct I1 as [<-|[<-|[<-|[]]]]; destruct I2 as [E|[E|[E|[]]]].
  - apply Same. symmetry. exact E.
  - rewrite fname_suffix in E. destruct (fname_inj _ _ _ _ D2 D1 E) as [_ E']. destruct (C1 n2) as [A _]. apply A. symmetry. exact E'.
  - rewrite fname_suffix in E. destruct (fname_inj _ _ _ _ D2 D1 E) as [_ E']. destruct (C1 n2) as [_ A]. apply A. symmetry. exact E'.
  - rewrite fname_suffix in E. destruct (fname_inj _ _ _ _ D2 D1 E) as [_ E']. destruct (C2 n1) as [A _]. apply A. exact E'.
  - apply sapp_inj_len in E; [|reflexivity]. destruct E as [E _]. apply Same. symmetry. exact E.
  - symmetry in E. exact (suffix_neq _ _ E).
  - rewrite fname_suffix in E. destruct (fname_inj _ _ _ _ D2 D1 E) as [_ E']. destruct (C2 n1) as [_ A]. apply A. exact E'.
  - exact (suffix_neq _ _ E).
  - apply sapp_inj_len in E; [|reflexivity]. destruct E as [E _]. apply Same. symmetry. exact E.
Qed.

(* the scheme is not injective in general: DNS labels may contain dashes *)
Lemma fname_not_injective :
  exists ns1 name1 ns2 name2,
    no_slash ns1 /\ no_slash name1 /\ no_slash ns2 /\ no_slash name2 /\
    key_of ns1 name1 <> key_of ns2 name2 /\ fname ns1 name1 = fname ns2 name2.
Proof.
  exists "a-b", "c", "a", "b-c". repeat split; try reflexivity. discriminate.
Qed.
