(* C19 -- where the faithful model violates the property text: concrete witnesses, by computation.
   Both are replayed on the real code by the harness corpus (cases 0 and 1). *)
From Coq Require Import List ZArith String Ascii Bool.
From NIC Require Import Base.SMap AppProtect.Model AppProtect.Spec.
Import ListNotations.
Open Scope string_scope.
Open Scope list_scope.
Open Scope Z_scope.

Definition w_sig : sigobj :=
  {| so_uid := "aa-1"; so_ts := 1700000000; so_valid := true; so_tag := "t1"; so_rev := TAt 1700001000 |}.
Definition w_pol : polobj :=
  {| po_valid := true; po_reqs := Some [ {| rq_tag := Some "t1"; rq_min := TAbsent; rq_max := TAbsent |} ] |}.

(* F21: the policy is well-formed, the only signature set it requires is in force and no bound on
   its revision time is asked for, yet the policy is not usable -- in either order of arrival. *)
Lemma revtime_refuted :
  exists (evs : list event) (k ks : string),
    pol_class w_pol = ENone /\
    lookup k (ob_pol (final_objects evs)) = Some w_pol /\
    spec_sig_answer (ob_sig (final_objects evs)) ks = AOk /\
    spec_pol_answer acceptable (final_objects evs) k = AOk /\
    get_app_resource (waf (run false true evs)) KPolicy k = AErr EMissing /\
    get_app_resource (waf (run false true (rev evs))) KPolicy k = AErr EMissing.
Proof.
  exists [EvUserSig "n1/a" w_sig; EvPolicy "n1/a" w_pol], "n1/a", "n1/a".
  vm_compute. repeat split; reflexivity.
Qed.

(* DeleteUserSig of a key that is not stored returns the zero UserSigChange: the list that is
   meant to hold every signature in force is empty although a signature is in force. *)
Lemma usersig_report_refuted : forall fx : bool,
  exists (evs : list event) (ev : event) (k : string),
    let st := run fx true evs in
    get_app_resource (waf (fst (step fx st ev))) KUserSig k = AOk /\
    fst (step fx st ev) = st /\
    o_usersigs (snd (step fx st ev)) = Some [].
Proof.
  intros fx. exists [EvUserSig "n1/a" w_sig], (EvDelUserSig "n2/c"), "n1/a".
  destruct fx; vm_compute; repeat split; reflexivity.
Qed.

(* the same witness on the repaired variant (fixes/F21.diff): the policy is usable, in either order *)
Lemma revtime_repaired :
  let evs := [EvUserSig "n1/a" w_sig; EvPolicy "n1/a" w_pol] in
  get_app_resource (waf (run true true evs)) KPolicy "n1/a" = AOk /\
  get_app_resource (waf (run true true (rev evs))) KPolicy "n1/a" = AOk.
Proof. vm_compute. split; reflexivity. Qed.
