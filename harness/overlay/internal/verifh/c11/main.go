//go:build verif

// Correspondence harness for C11: drives the real secrets.LocalSecretStore over the real
// configs.Configurator (as its SecretFileManager) over the real nginx.LocalManager on a
// temporary root, through histories of AddOrUpdateSecret / DeleteSecret / GetSecret and of
// Configurator.AddOrUpdateIngress for Ingresses carrying the JWT / basic-auth annotations
// (the place where the Configurator overwrites SecretReference.Path).  After every operation
// it lists the secrets directory (name, mode, content hash).  The validity oracle of every
// version is the real secrets.ValidateSecret; the expected derived bytes are computed here,
// independently of the Configurator.
package main

import (
	"context"
	"crypto/ed25519"
	"crypto/sha256"
	"crypto/x509"
	"crypto/x509/pkix"
	"encoding/hex"
	"encoding/pem"
	"fmt"
	"io"
	"log/slog"
	"math/big"
	"os"
	"path/filepath"
	"sort"
	"strings"
	"time"

	api_v1 "k8s.io/api/core/v1"
	networking "k8s.io/api/networking/v1"
	meta_v1 "k8s.io/apimachinery/pkg/apis/meta/v1"
	"k8s.io/apimachinery/pkg/types"

	"github.com/nginx/kubernetes-ingress/internal/configs"
	"github.com/nginx/kubernetes-ingress/internal/configs/version1"
	"github.com/nginx/kubernetes-ingress/internal/k8s"
	"github.com/nginx/kubernetes-ingress/internal/k8s/secrets"
	nl "github.com/nginx/kubernetes-ingress/internal/logger"
	"github.com/nginx/kubernetes-ingress/internal/metrics/collectors"
	"github.com/nginx/kubernetes-ingress/internal/nginx"
	"github.com/nginx/kubernetes-ingress/internal/verifh/vh"
)

// Op is one operation of a history.  Op/NS/Name/Key/Type/Payload/Salt/Ann are the input; Valid,
// Main, Crt, Crl are the oracles attached to an upsert (recomputed on every run, also on replay).
type Op struct {
	Op      string `json:"op"` // upsert | delete | get | force ; controller family: cput | cdel | drain | get
	NS      string `json:"ns,omitempty"`
	Name    string `json:"name,omitempty"`
	Key     string `json:"key,omitempty"`
	Type    string `json:"type,omitempty"`
	Payload string `json:"payload,omitempty"`
	Salt    int    `json:"salt,omitempty"`
	UID     int    `json:"uid,omitempty"` // generation of the API object under this key: a re-created Secret has a new UID
	Ann     string `json:"ann,omitempty"` // force: jwt | basic | both | master | minion | xminion-basic | xminion-jwt
	MNS     string `json:"mns,omitempty"` // force xminion-*: the namespace of the master (the minion lives in NS)
	Valid   bool   `json:"valid"`
	Want    bool   `json:"want"` // the verdict the payload was built to get (catalogue below)
	Main    string `json:"main,omitempty"`
	Crt     string `json:"crt,omitempty"`
	Crl     string `json:"crl,omitempty"`
}

type File struct {
	Name string `json:"name"`
	Mode int    `json:"mode"`
	Hash string `json:"hash"`
}

type StepObs struct {
	LS      []File   `json:"ls"`
	Path    string   `json:"path"` // get/force: SecretReference.Path with the directory stripped
	Err     bool     `json:"err"`  // get/force: SecretReference.Error != nil
	Panic   string   `json:"panic,omitempty"`
	Special []File   `json:"special,omitempty"` // the files of the special Secrets (default, wildcard), kept apart
	Synced  []string `json:"synced,omitempty"`  // drain: keys of the tasks the worker processed, in order
}

type Case struct {
	ID    int    `json:"id"`
	Class string `json:"class"`
	// controller family: keys (ns/name) configured as -wildcard-tls-secret / -default-server-tls-secret
	Wildcard string `json:"wildcard,omitempty"`
	Default  string `json:"default,omitempty"`
	Ops      []Op   `json:"ops"`
	Obs      any    `json:"obs"`
}

type Consts struct {
	Types []string `json:"types"` // tls ca jwk oidc htpasswd apikey license
	Modes []int    `json:"modes"` // ReadWriteOnly JWK Htpasswd
	Keys  []string `json:"keys"`  // CACrtKey CACrlKey JWTKeyKey HtpasswdFileKey
}

// ---------- key material (deterministic: ed25519 from fixed seeds) ----------

type pair struct{ crt, key []byte }

var pairs = map[string]pair{}

func mkPair(tag string, serial int64) pair {
	seed := sha256.Sum256([]byte("verif-c11-" + tag))
	priv := ed25519.NewKeyFromSeed(seed[:])
	tmpl := &x509.Certificate{
		SerialNumber:          big.NewInt(serial),
		Subject:               pkix.Name{CommonName: tag + ".example.com"},
		NotBefore:             time.Date(2020, 1, 1, 0, 0, 0, 0, time.UTC),
		NotAfter:              time.Date(2090, 1, 1, 0, 0, 0, 0, time.UTC),
		KeyUsage:              x509.KeyUsageDigitalSignature | x509.KeyUsageCertSign,
		BasicConstraintsValid: true,
		IsCA:                  true,
		DNSNames:              []string{tag + ".example.com"},
	}
	der, err := x509.CreateCertificate(nil, tmpl, tmpl, priv.Public(), priv)
	if err != nil {
		panic(err)
	}
	kder, err := x509.MarshalPKCS8PrivateKey(priv)
	if err != nil {
		panic(err)
	}
	return pair{
		crt: pem.EncodeToMemory(&pem.Block{Type: "CERTIFICATE", Bytes: der}),
		key: pem.EncodeToMemory(&pem.Block{Type: "PRIVATE KEY", Bytes: kder}),
	}
}

func init() {
	pairs["A"] = mkPair("A", 1)
	pairs["B"] = mkPair("B", 2)
	pairs["C"] = mkPair("C", 3)
}

func salted(b []byte, salt int) []byte {
	if salt == 0 {
		return b
	}
	return append(append([]byte{}, b...), []byte(fmt.Sprintf("# rev %d\n", salt))...)
}

// payloadsByType: symbolic payload names per secret type; the first group is meant to be valid,
// the second invalid -- the verdict that counts is the real ValidateSecret's.
var validPayloads = map[string][]string{
	"kubernetes.io/tls":  {"pairA", "pairB", "pairC"},
	"nginx.org/ca":       {"caA", "caB", "caA+crl", "caB+crl"},
	"nginx.org/jwk":      {"jwk", "jwk-empty"},
	"nginx.org/oidc":     {"ok", "escaped"},
	"nginx.org/htpasswd": {"ok", "empty-file"},
	"nginx.org/apikey":   {"ok", "none"},
	"nginx.com/license":  {"ok"},
}

var invalidPayloads = map[string][]string{
	"kubernetes.io/tls":  {"mismatch", "nonpem-crt", "nonpem-key", "nokey", "nocrt", "empty", "badder", "swapped"},
	"nginx.org/ca":       {"nocrt", "nonpem", "wrongblock", "wrongblock-der", "badder", "empty", "crl-only"},
	"nginx.org/jwk":      {"nokey", "wrongkey"},
	"nginx.org/oidc":     {"nokey", "space", "dollar", "newline", "quote", "backslash-end"},
	"nginx.org/htpasswd": {"nokey", "wrongkey"},
	"nginx.org/apikey":   {"dup", "dup3"},
	"nginx.com/license":  {"nokey", "wrongkey"},
}

var supportedTypes = []string{"kubernetes.io/tls", "nginx.org/ca", "nginx.org/jwk", "nginx.org/oidc",
	"nginx.org/htpasswd", "nginx.org/apikey", "nginx.com/license"}
var fileTypes = []string{"kubernetes.io/tls", "nginx.org/jwk", "nginx.org/htpasswd"}
var unsupportedTypes = []string{"Opaque", "kubernetes.io/dockercfg", "", "nginx.org/unknown", "kubernetes.io/service-account-token", "Kubernetes.io/tls"}
var unsupportedPayloads = []string{"pairA", "jwk", "junk", "empty"}

func buildData(typ, payload string, salt int) map[string][]byte {
	d := map[string][]byte{}
	A, B, C := pairs["A"], pairs["B"], pairs["C"]
	s := func(b []byte) []byte { return salted(b, salt) }
	txt := func(x string) []byte { return []byte(fmt.Sprintf("%s-%d", x, salt)) }
	switch payload {
	case "pairA":
		d["tls.crt"], d["tls.key"] = s(A.crt), A.key
	case "pairB":
		d["tls.crt"], d["tls.key"] = s(B.crt), B.key
	case "pairC":
		d["tls.crt"], d["tls.key"] = s(C.crt), C.key
	case "mismatch":
		d["tls.crt"], d["tls.key"] = s(A.crt), B.key
	case "swapped":
		d["tls.crt"], d["tls.key"] = A.key, s(A.crt)
	case "nonpem-crt":
		d["tls.crt"], d["tls.key"] = txt("this is not PEM"), A.key
	case "nonpem-key":
		d["tls.crt"], d["tls.key"] = s(A.crt), txt("this is not PEM")
	case "nokey":
		if typ == "kubernetes.io/tls" {
			d["tls.crt"] = s(A.crt)
		} else {
			d["unrelated"] = txt("x")
		}
	case "nocrt":
		if typ == "kubernetes.io/tls" {
			d["tls.key"] = A.key
		} else {
			d["ca.key"] = txt("x")
		}
	case "empty":
	case "badder":
		bad := pem.EncodeToMemory(&pem.Block{Type: "CERTIFICATE", Bytes: txt("not DER")})
		if typ == "nginx.org/ca" {
			d["ca.crt"] = bad
		} else {
			d["tls.crt"], d["tls.key"] = bad, A.key
		}
	case "caA":
		d["ca.crt"] = s(A.crt)
	case "caB":
		d["ca.crt"] = s(B.crt)
	case "caA+crl":
		d["ca.crt"], d["ca.crl"] = A.crt, txt("-----BEGIN X509 CRL-----\nAAAA\n-----END X509 CRL-----")
	case "caB+crl":
		d["ca.crt"], d["ca.crl"] = B.crt, txt("-----BEGIN X509 CRL-----\nBBBB\n-----END X509 CRL-----")
	case "crl-only":
		d["ca.crl"] = txt("crl")
	case "nonpem":
		d["ca.crt"] = txt("not a PEM block")
	case "wrongblock":
		d["ca.crt"] = s(A.key)
	case "wrongblock-der":
		blk, _ := pem.Decode(A.crt)
		d["ca.crt"] = s(pem.EncodeToMemory(&pem.Block{Type: "TRUSTED CERTIFICATE", Bytes: blk.Bytes}))
	case "jwk":
		d["jwk"] = txt(`{"keys":[{"k":"ZmFudGFzdGljand0","kty":"oct","kid":"0001"}]}`)
	case "jwk-empty":
		d["jwk"] = []byte{}
	case "wrongkey":
		d["JWK"], d["Htpasswd"], d["license"] = txt("x"), txt("y"), txt("z")
	case "ok":
		switch typ {
		case "nginx.org/oidc":
			d["client-secret"] = txt("c2VjcmV0")
		case "nginx.org/htpasswd":
			d["htpasswd"] = txt("user:$apr1$abcdefgh$ijklmnopqrstuv")
		case "nginx.org/apikey":
			d["client1"], d["client2"] = txt("key-one"), txt("key-two")
		case "nginx.com/license":
			d["license.jwt"] = txt("eyJhbGciOiJSUzI1NiJ9.e30.c2ln")
		}
	case "escaped":
		d["client-secret"] = txt(`a\"b`)
	case "space":
		d["client-secret"] = txt("has space")
	case "dollar":
		d["client-secret"] = txt("has$dollar")
	case "newline":
		d["client-secret"] = []byte("line\n")
	case "quote":
		d["client-secret"] = txt(`has"quote`)
	case "backslash-end":
		d["client-secret"] = []byte(`ends\`)
	case "empty-file":
		d["htpasswd"] = []byte{}
	case "none":
	case "dup":
		d["client1"], d["client2"] = txt("same"), txt("same")
	case "dup3":
		d["client1"], d["client2"], d["client3"] = txt("k1"), txt("k2"), txt("k1")
	case "junk":
		d["tls.crt"], d["tls.key"], d["jwk"] = txt("junk"), txt("junk"), txt("junk")
	}
	return d
}

func mkSecret(o Op) *api_v1.Secret {
	return &api_v1.Secret{
		ObjectMeta: meta_v1.ObjectMeta{Namespace: o.NS, Name: o.Name, UID: types.UID(fmt.Sprintf("uid-%d", o.UID))},
		Type:       api_v1.SecretType(o.Type),
		Data:       buildData(o.Type, o.Payload, o.Salt),
	}
}

func h16(b []byte) string {
	s := sha256.Sum256(b)
	return hex.EncodeToString(s[:8])
}

// expected derived bytes, written here from the documentation of the file formats, not by
// calling the Configurator: single file = JWK: data[jwk]; htpasswd: data[htpasswd];
// anything else: tls.crt, newline, tls.key.  CA: data[ca.crt] and data[ca.crl].
func oracle(o *Op) {
	sec := mkSecret(*o)
	o.Valid = secrets.ValidateSecret(sec) == nil
	o.Want = false
	for _, p := range validPayloads[o.Type] {
		if p == o.Payload {
			o.Want = true
		}
	}
	if _, supported := validPayloads[o.Type]; supported && !o.Want {
		// a payload of another type's catalogue (same-data retype): it was not built for a verdict under this type
		built := false
		for _, p := range invalidPayloads[o.Type] {
			built = built || p == o.Payload
		}
		if !built {
			o.Want = o.Valid
		}
	}
	var main []byte
	switch o.Type {
	case "nginx.org/jwk":
		main = sec.Data["jwk"]
	case "nginx.org/htpasswd":
		main = sec.Data["htpasswd"]
	default:
		main = append(append(append([]byte{}, sec.Data["tls.crt"]...), '\n'), sec.Data["tls.key"]...)
	}
	o.Main, o.Crt, o.Crl = h16(main), h16(sec.Data["ca.crt"]), h16(sec.Data["ca.crl"])
}

// ---------- the system under test ----------

type sut struct {
	ctx   context.Context
	root  string
	sdir  string
	lm    *nginx.LocalManager
	cnf   *configs.Configurator
	store *secrets.LocalSecretStore
}

var tmplExec *version1.TemplateExecutor

func newSUT(root string) (*sut, error) {
	for _, d := range []string{"secrets", "conf.d", "stream-conf.d", "state_files"} {
		if err := os.MkdirAll(filepath.Join(root, d), 0o755); err != nil {
			return nil, err
		}
	}
	ctx := nl.ContextWithLogger(context.Background(), slog.New(slog.NewTextHandler(io.Discard, nil)))
	lm := nginx.NewLocalManager(ctx, root, false, collectors.NewManagerFakeCollector(), nil, time.Second, true)
	cnf := configs.NewConfigurator(configs.ConfiguratorParams{
		NginxManager:     lm,
		StaticCfgParams:  &configs.StaticConfigParams{HealthStatus: true, HealthStatusURI: "/nginx-health", NginxStatus: true, NginxStatusAllowCIDRs: []string{"127.0.0.1"}, NginxStatusPort: 8080},
		Config:           configs.NewDefaultConfigParams(ctx, true),
		MGMTCfgParams:    configs.NewDefaultMGMTConfigParams(ctx),
		TemplateExecutor: tmplExec,
		IsPlus:           true,
		NginxVersion:     nginx.NewVersion("nginx version: nginx/1.25.3 (nginx-plus-r31)"),
	})
	return &sut{ctx: ctx, root: root, sdir: filepath.Join(root, "secrets"), lm: lm, cnf: cnf, store: secrets.NewLocalSecretStore(cnf)}, nil
}

func (s *sut) ls() []File {
	out := []File{}
	ents, err := os.ReadDir(s.sdir)
	if err != nil {
		return []File{{Name: "!readdir-error", Hash: err.Error()}}
	}
	for _, e := range ents {
		p := filepath.Join(s.sdir, e.Name())
		st, err := os.Lstat(p)
		if err != nil {
			out = append(out, File{Name: e.Name(), Mode: -1})
			continue
		}
		if !st.Mode().IsRegular() {
			out = append(out, File{Name: e.Name() + "/", Mode: int(st.Mode().Perm()), Hash: "dir"})
			continue
		}
		b, _ := os.ReadFile(p)
		out = append(out, File{Name: e.Name(), Mode: int(st.Mode().Perm()), Hash: h16(b)})
	}
	sort.Slice(out, func(i, j int) bool { return out[i].Name < out[j].Name })
	return out
}

// lsSplit separates the files of the special Secrets from the rest when such Secrets are configured.
func (s *sut) lsSplit(special bool) (regular, spec []File) {
	all := s.ls()
	if !special {
		return all, nil
	}
	regular = []File{}
	for _, f := range all {
		if f.Name == configs.DefaultServerSecretFileName || f.Name == configs.WildcardSecretFileName {
			spec = append(spec, f)
		} else {
			regular = append(regular, f)
		}
	}
	return regular, spec
}

func (s *sut) rel(p string) string { return strings.ReplaceAll(p, s.sdir+"/", "") }

func ingressFor(ns, name, ann string) *networking.Ingress {
	an := map[string]string{"kubernetes.io/ingress.class": "nginx"}
	if ann == "jwt" || ann == "both" {
		an[configs.JWTKeyAnnotation] = name
	}
	if ann == "basic" || ann == "both" {
		an[configs.BasicAuthSecretAnnotation] = name
	}
	return &networking.Ingress{
		ObjectMeta: meta_v1.ObjectMeta{Name: "ing-" + ann, Namespace: ns, Annotations: an},
		Spec: networking.IngressSpec{Rules: []networking.IngressRule{{
			Host: "cafe.example.com",
			IngressRuleValue: networking.IngressRuleValue{HTTP: &networking.HTTPIngressRuleValue{Paths: []networking.HTTPIngressPath{{
				Path:    "/tea",
				Backend: networking.IngressBackend{Service: &networking.IngressServiceBackend{Name: "tea-svc", Port: networking.ServiceBackendPort{Number: 80}}},
			}}}},
		}}},
	}
}

// force: what createIngressEx + Configurator.AddOrUpdateIngress do with a secret named by the
// jwt-key / basic-auth-secret annotation: the reference returned by the real store goes into
// IngressEx.SecretRefs and the real Configurator configures the Ingress.
func (s *sut) force(o Op) *secrets.SecretReference {
	ref := s.store.GetSecret(o.NS + "/" + o.Name)
	mk := func(ing *networking.Ingress, refs map[string]*secrets.SecretReference) *configs.IngressEx {
		return &configs.IngressEx{
			Ingress:          ing,
			Endpoints:        map[string][]string{"tea-svc80": {"10.0.0.2:80"}},
			ExternalNameSvcs: map[string]bool{},
			ValidHosts:       map[string]bool{"cafe.example.com": true},
			SecretRefs:       refs,
		}
	}
	with := map[string]*secrets.SecretReference{o.Name: ref}
	none := map[string]*secrets.SecretReference{}
	switch o.Ann {
	case "xminion-basic", "xminion-jwt":
		// a minion in namespace NS, carrying the annotation, under a master in ANOTHER namespace MNS
		// (masters and minions are matched by host only)
		master := ingressFor(o.MNS, o.Name, "")
		master.Name = "ing-master"
		master.Annotations["nginx.org/mergeable-ingress-type"] = "master"
		master.Spec.Rules[0].HTTP = nil
		minion := ingressFor(o.NS, o.Name, strings.TrimPrefix(o.Ann, "xminion-"))
		minion.Name = "ing-minion"
		minion.Annotations["nginx.org/mergeable-ingress-type"] = "minion"
		_, _ = s.cnf.AddOrUpdateMergeableIngress(&configs.MergeableIngresses{Master: mk(master, none), Minions: []*configs.IngressEx{mk(minion, with)}})
	case "master", "minion":
		// mergeable Ingresses: the annotation sits on the master or on the minion
		master := ingressFor(o.NS, o.Name, map[string]string{"master": "jwt", "minion": ""}[o.Ann])
		master.Name = "ing-master"
		master.Annotations["nginx.org/mergeable-ingress-type"] = "master"
		master.Spec.Rules[0].HTTP = nil
		minion := ingressFor(o.NS, o.Name, map[string]string{"master": "", "minion": "basic"}[o.Ann])
		minion.Name = "ing-minion"
		minion.Annotations["nginx.org/mergeable-ingress-type"] = "minion"
		mrefs, nrefs := with, none
		if o.Ann == "minion" {
			mrefs, nrefs = none, with
		}
		_, _ = s.cnf.AddOrUpdateMergeableIngress(&configs.MergeableIngresses{Master: mk(master, mrefs), Minions: []*configs.IngressEx{mk(minion, nrefs)}})
	default:
		_, _ = s.cnf.AddOrUpdateIngress(mk(ingressFor(o.NS, o.Name, o.Ann), with))
	}
	return ref
}

func runCase(work string, c *Case) {
	root, err := os.MkdirTemp(work, "case-")
	if err != nil {
		c.Obs = map[string]any{"error": err.Error()}
		return
	}
	defer os.RemoveAll(root)
	s, err := newSUT(root)
	if err != nil {
		c.Obs = map[string]any{"error": err.Error()}
		return
	}
	if strings.Contains(c.Class, "ctl") {
		runCtl(s, c)
		return
	}
	steps := make([]StepObs, 0, len(c.Ops))
	for i := range c.Ops {
		o := &c.Ops[i]
		if o.Op == "upsert" {
			oracle(o)
		}
		var so StepObs
		func() {
			defer func() {
				if r := recover(); r != nil {
					so.Panic = fmt.Sprint(r)
				}
			}()
			switch o.Op {
			case "upsert":
				s.store.AddOrUpdateSecret(mkSecret(*o))
			case "delete":
				s.store.DeleteSecret(o.Key)
			case "get":
				ref := s.store.GetSecret(o.Key)
				so.Path, so.Err = s.rel(ref.Path), ref.Error != nil
			case "force":
				ref := s.force(*o)
				so.Path, so.Err = s.rel(ref.Path), ref.Error != nil
			}
		}()
		so.LS = s.ls()
		steps = append(steps, so)
	}
	c.Obs = map[string]any{"steps": steps}
}

// runCtl: the controller family.  The real controller (production constructor, real Secret
// handlers, real queue, real lbc.sync, real LocalSecretStore) over the same Configurator and
// LocalManager; the harness plays the API server + informer.
func runCtl(s *sut, c *Case) {
	// the API server: every Secret object that exists, in the order in which the keys first appeared
	api := map[string]*api_v1.Secret{}
	var order []string
	unwatched := map[string]bool{}
	watchedList := func() []string {
		var w []string
		for _, n := range cleanNS {
			if !unwatched[n] {
				w = append(w, n)
			}
		}
		return w
	}
	ctl := k8s.VerifC11New(s.ctx, s.cnf, watchedList(), cleanNS, c.Wildcard, c.Default)
	hasSpecial := c.Wildcard != "" || c.Default != ""
	steps := make([]StepObs, 0, len(c.Ops))
	rv := 0
	must := func(so *StepObs, what string, err error) {
		if err != nil {
			so.Panic = what + ": " + err.Error()
		}
	}
	for i := range c.Ops {
		o := &c.Ops[i]
		if o.Op == "cput" {
			oracle(o)
		}
		var so StepObs
		func() {
			defer func() {
				if r := recover(); r != nil {
					so.Panic = fmt.Sprint(r)
				}
			}()
			switch o.Op {
			case "cput":
				rv++
				sec := mkSecret(*o)
				sec.ResourceVersion = fmt.Sprint(rv)
				key := o.NS + "/" + o.Name
				if _, ok := api[key]; !ok {
					seen := false
					for _, k := range order {
						seen = seen || k == key
					}
					if !seen {
						order = append(order, key)
					}
				}
				api[key] = sec
				_, err := ctl.Put(sec)
				must(&so, "put", err)
			case "cdel":
				delete(api, o.NS+"/"+o.Name)
				_, err := ctl.Del(o.NS, o.Name)
				must(&so, "del", err)
			case "drain":
				so.Synced = ctl.Drain()
				if n := ctl.QueueLen(); n != 0 {
					so.Panic = fmt.Sprintf("queue not empty after drain: %d (requeue)", n)
				}
			case "get":
				ref := ctl.Get(o.Key)
				so.Path, so.Err = s.rel(ref.Path), ref.Error != nil
			case "start":
				// Run(): caches are synced (the Add events above are queued), then preSyncSecrets
				ctl.PreSync()
			case "unwatch":
				if !unwatched[o.NS] {
					unwatched[o.NS] = true
					ctl.Unwatch(o.NS)
				}
			case "watch":
				if unwatched[o.NS] {
					delete(unwatched, o.NS)
					ctl.Watch(o.NS)
					for _, k := range order { // the new informers list the namespace: Add events
						if sec, ok := api[k]; ok && sec.Namespace == o.NS {
							_, err := ctl.Put(sec)
							must(&so, "put", err)
						}
					}
				}
			case "restart":
				// the process dies and a new one starts over the same /etc/nginx: new LocalManager,
				// Configurator, store and controller; the informers list the cluster (Add events)
				ns, err := newSUT(s.root)
				if err != nil {
					so.Panic = "restart: " + err.Error()
					return
				}
				*s = *ns
				ctl = k8s.VerifC11New(s.ctx, s.cnf, watchedList(), cleanNS, c.Wildcard, c.Default)
				for _, k := range order {
					if sec, ok := api[k]; ok && !unwatched[sec.Namespace] {
						_, err := ctl.Put(sec)
						must(&so, "put", err)
					}
				}
			}
		}()
		so.LS, so.Special = s.lsSplit(hasSpecial)
		steps = append(steps, so)
	}
	c.Obs = map[string]any{"steps": steps}
}

func cput(k keyT, typ, payload string, salt int) Op {
	return Op{Op: "cput", NS: k.ns, Name: k.name, Type: typ, Payload: payload, Salt: salt}
}
func cputU(k keyT, typ, payload string, salt, uid int) Op {
	o := cput(k, typ, payload, salt)
	o.UID = uid
	return o
}
func cdel(k keyT) Op { return Op{Op: "cdel", NS: k.ns, Name: k.name} }

var drain = Op{Op: "drain"}
var start = Op{Op: "start"}
var restart = Op{Op: "restart"}

func unwatch(ns string) Op { return Op{Op: "unwatch", NS: ns} }
func watch(ns string) Op   { return Op{Op: "watch", NS: ns} }

// controller-level histories: create / update (type kept) / delete / delete-and-recreate with
// another type or payload, with the worker running at arbitrary points in between.
func genCtl(r *vh.Rng, id int) Case {
	var keys []keyT
	seen := map[keyT]bool{}
	for len(keys) < 2+r.Intn(2) {
		k := keyT{vh.Pick(r, cleanNS), vh.Pick(r, cleanNames)}
		if !seen[k] {
			seen[k] = true
			keys = append(keys, k)
		}
	}
	newType := func() string {
		if r.Chance(1, 4) {
			return vh.Pick(r, unsupportedTypes)
		}
		t := vh.Pick(r, supportedTypes)
		for t == "nginx.org/ca" {
			t = vh.Pick(r, supportedTypes)
		}
		if r.Chance(1, 2) {
			t = vh.Pick(r, fileTypes)
		}
		return t
	}
	special := map[int]bool{}
	newType0 := newType
	curKey := 0
	newType = func() string {
		if special[curKey] {
			return "kubernetes.io/tls"
		}
		return newType0()
	}
	uid := make([]int, len(keys))    // generation of the API object: a new one after every delete
	cur := make([]string, len(keys)) // type of the object that exists now
	exists := make([]bool, len(keys))
	n := 8 + r.Intn(24)
	ops := make([]Op, 0, n+2)
	salt := 0
	// mode 0: the controller is running; 1: start-up over an existing cluster, namespaces lose and
	// get the watch label; 2: start-up, and the process restarts over the surviving directory
	mode := r.Intn(4)
	class := []string{"ctl", "ctl-life", "ctl-restart", "ctl-special"}[mode]
	// mode 3: as mode 1, and the first key is the -wildcard-tls-secret (often also the second one the
	// -default-server-tls-secret): special Secrets that resources use as ordinary Secrets too
	wildcard, deflt := "", ""
	if mode == 3 {
		wildcard = keys[0].ns + "/" + keys[0].name
		special[0] = true
		if r.Chance(1, 2) {
			deflt = keys[1].ns + "/" + keys[1].name
			special[1] = true
		}
		mode = 1
	}
	unw := map[string]bool{}
	if mode > 0 {
		for i, k := range keys {
			if r.Chance(4, 5) {
				curKey = i
				cur[i], exists[i] = newType(), true
				salt++
				ops = append(ops, cput(k, cur[i], pickPayload(r, cur[i], r.Chance(3, 4)), salt))
			}
		}
		ops = append(ops, start)
		n += len(ops)
	}
	for len(ops) < n {
		i := r.Intn(len(keys))
		k := keys[i]
		x := r.Intn(100)
		curKey = i
		put := func() {
			if !exists[i] {
				cur[i], exists[i] = newType(), true
			}
			salt++
			u := cput(k, cur[i], pickPayload(r, cur[i], r.Chance(3, 4)), salt)
			u.UID = uid[i]
			ops = append(ops, u)
		}
		switch {
		case mode == 1 && x >= 90:
			if unw[k.ns] {
				delete(unw, k.ns)
				ops = append(ops, watch(k.ns))
			} else {
				unw[k.ns] = true
				// the queue is drained first: a Secret task of a namespace that is no longer watched
				// crashes the worker (finding F38, kept as one fixed witness)
				ops = append(ops, drain, unwatch(k.ns))
			}
		case mode == 2 && x >= 94:
			ops = append(ops, restart, start)
		case x < 26:
			put()
		case x < 36:
			if exists[i] {
				exists[i] = false
				uid[i]++
				ops = append(ops, cdel(k))
			}
		case x < 48: // replaced: delete and re-create, possibly with another type, no worker run in between
			if exists[i] {
				exists[i] = false
				uid[i]++
				ops = append(ops, cdel(k))
			}
			put()
		case x < 70:
			ops = append(ops, drain)
		case x < 74:
			ops = append(ops, drain, get(k))
		default:
			ops = append(ops, get(k))
		}
	}
	ops = append(ops, drain, get(keys[0]))
	return Case{ID: id, Class: class, Ops: ops, Wildcard: wildcard, Default: deflt}
}

// ---------- generators ----------

type keyT struct{ ns, name string }

func up(k keyT, typ, payload string, salt int) Op {
	return Op{Op: "upsert", NS: k.ns, Name: k.name, Type: typ, Payload: payload, Salt: salt}
}
func upU(k keyT, typ, payload string, salt, uid int) Op {
	o := up(k, typ, payload, salt)
	o.UID = uid
	return o
}
func get(k keyT) Op { return Op{Op: "get", Key: k.ns + "/" + k.name} }
func del(k keyT) Op { return Op{Op: "delete", Key: k.ns + "/" + k.name} }
func force(k keyT, ann string) Op {
	return Op{Op: "force", NS: k.ns, Name: k.name, Ann: ann}
}

// the witnesses of the refutation theorems in coq/Secrets/Proofs.v, replayed on the real code
func witnesses() []Case {
	ab_c, a_bc := keyT{"a-b", "c"}, keyT{"a", "b-c"}
	x, xs := keyT{"default", "x"}, keyT{"default", "x-ca.crt"}
	return []Case{
		{Class: "witness-collision-ns-name", Ops: []Op{
			up(ab_c, "kubernetes.io/tls", "pairA", 0), up(a_bc, "kubernetes.io/tls", "pairB", 0),
			get(a_bc), get(ab_c), get(a_bc), del(ab_c), get(a_bc)}},
		{Class: "witness-ca-leak", Ops: []Op{
			up(x, "nginx.org/ca", "caA+crl", 0), get(x), del(x), get(x)}},
		{Class: "witness-ca-leak", Ops: []Op{
			up(x, "nginx.org/ca", "caA", 0), get(x), up(x, "nginx.org/ca", "nonpem", 0), get(x)}},
		{Class: "witness-collision-ca-suffix", Ops: []Op{
			up(x, "nginx.org/ca", "caA", 0), up(xs, "kubernetes.io/tls", "pairB", 0),
			get(xs), get(x), get(xs)}},
		{Class: "witness-retype", Ops: []Op{
			up(x, "nginx.org/jwk", "jwk", 0), get(x), up(x, "nginx.org/oidc", "ok", 0), get(x)}},
		{Class: "witness-retype", Ops: []Op{
			up(x, "kubernetes.io/tls", "pairA", 0), get(x), up(x, "nginx.org/ca", "caB", 0), get(x)}},
		// the type changes while the Data stays byte-identical (a delete + re-create observed as one update,
		// or a manifest applied with the wrong type and then corrected): the verdict must follow the type
		{Class: "witness-retype-same-data", Ops: []Op{
			up(x, "kubernetes.io/tls", "pairA", 0), get(x), up(x, "nginx.org/ca", "pairA", 0), get(x),
			up(x, "kubernetes.io/tls", "pairA", 0), get(x), up(x, "Opaque", "pairA", 0), get(x)}},
		{Class: "witness-retype-same-data", Ops: []Op{
			up(x, "Opaque", "pairA", 0), get(x), up(x, "kubernetes.io/tls", "pairA", 0), get(x),
			up(x, "nginx.org/htpasswd", "jwk", 0), get(x), up(x, "nginx.org/jwk", "jwk", 0), get(x),
			up(x, "nginx.org/htpasswd", "jwk", 0), get(x)}},
		{Class: "witness-ctl-retype-same-data", Ops: []Op{
			cput(x, "Opaque", "pairA", 0), start, drain, get(x), cput(x, "kubernetes.io/tls", "pairA", 0), drain, get(x),
			cput(x, "nginx.org/ca", "pairA", 0), drain, get(x)}},
		{Class: "witness-ctl-recreated-unsupported", Ops: []Op{
			cput(x, "kubernetes.io/tls", "pairA", 0), drain, get(x),
			cdel(x), cputU(x, "Opaque", "pairA", 1, 1), drain, get(x),
			cdel(x), drain, cputU(x, "Opaque", "junk", 2, 2), drain, get(x),
			cput(keyT{"team", "s1"}, "kubernetes.io/tls", "pairB", 3), cputU(x, "nginx.org/jwk", "jwk", 4, 2), get(x), drain, get(x),
			cputU(x, "nginx.org/jwk", "nokey", 5, 2), cdel(keyT{"team", "s1"}), drain, get(x)}},
		{Class: "witness-ctl-startup", Ops: []Op{
			cput(keyT{"team", "s1"}, "kubernetes.io/tls", "pairB", 0), cput(x, "kubernetes.io/tls", "pairA", 0),
			cput(keyT{"default", "s2"}, "kubernetes.io/tls", "mismatch", 0), cput(keyT{"a", "c"}, "nginx.org/htpasswd", "ok", 0),
			cput(keyT{"default", "web.tls"}, "Opaque", "pairA", 0), cput(keyT{"kube.sys", "s1"}, "nginx.org/jwk", "jwk", 0),
			start, get(x), get(keyT{"default", "s2"}), get(keyT{"default", "web.tls"}), drain, get(x),
			cput(x, "kubernetes.io/tls", "pairC", 1), drain, cput(keyT{"team", "s1"}, "kubernetes.io/tls", "pairA", 2), drain, get(keyT{"team", "s1"})}},
		{Class: "witness-ctl-unwatch", Ops: []Op{
			cput(keyT{"team", "s1"}, "kubernetes.io/tls", "pairB", 0), cput(x, "kubernetes.io/tls", "pairA", 0), start, drain,
			get(keyT{"team", "s1"}), get(x), unwatch("team"), get(keyT{"team", "s1"}),
			cput(keyT{"team", "s1"}, "kubernetes.io/tls", "pairC", 1), drain, get(keyT{"team", "s1"}),
			watch("team"), drain, get(keyT{"team", "s1"}), unwatch("kube.sys"), watch("kube.sys")}},
		{Class: "witness-ctl-restart", Ops: []Op{
			cput(x, "kubernetes.io/tls", "pairA", 0), cput(keyT{"team", "s1"}, "nginx.org/jwk", "jwk", 0), start, drain,
			get(x), get(keyT{"team", "s1"}), cdel(x), cput(keyT{"team", "s1"}, "nginx.org/jwk", "jwk", 1),
			restart, start, drain, get(keyT{"team", "s1"}), get(x)}},
		{Class: "witness-ctl-unwatch-pending", Ops: []Op{
			cput(keyT{"team", "s1"}, "kubernetes.io/tls", "pairB", 0), unwatch("team"), drain, get(keyT{"team", "s1"})}},
		{Class: "witness-xns-minion", Ops: []Op{
			up(keyT{"team", "users"}, "nginx.org/htpasswd", "ok", 1), up(keyT{"a", "users"}, "nginx.org/htpasswd", "ok", 2),
			get(keyT{"a", "users"}), get(keyT{"team", "users"}),
			{Op: "force", NS: "team", Name: "users", Ann: "xminion-basic", MNS: "a"}, get(keyT{"team", "users"}),
			up(keyT{"team", "users"}, "nginx.org/htpasswd", "ok", 3), get(keyT{"team", "users"}), get(keyT{"a", "users"}),
			up(keyT{"default", "jk"}, "nginx.org/jwk", "nokey", 4),
			{Op: "force", NS: "default", Name: "jk", Ann: "xminion-jwt", MNS: "team"}, up(keyT{"default", "jk"}, "nginx.org/jwk", "jwk", 5),
			get(keyT{"default", "jk"})}},
		{Class: "witness-ctl-special-unwatch", Wildcard: "team/s1", Default: "default/x", Ops: []Op{
			cput(keyT{"team", "s1"}, "kubernetes.io/tls", "pairB", 0), cput(x, "kubernetes.io/tls", "pairA", 0),
			cput(keyT{"team", "s2"}, "kubernetes.io/tls", "pairC", 0), start, drain,
			get(keyT{"team", "s1"}), get(keyT{"team", "s2"}), get(x), unwatch("team"), get(keyT{"team", "s1"}),
			cdel(keyT{"team", "s1"}), watch("team"), drain, get(keyT{"team", "s1"}), get(keyT{"team", "s2"}),
			cput(x, "kubernetes.io/tls", "mismatch", 1), drain, get(x), cdel(x), drain, get(x)}},
		{Class: "witness-recreated", Ops: []Op{ // delete-less re-creation: an update that carries a new UID
			upU(x, "kubernetes.io/tls", "pairA", 0, 0), get(x), upU(x, "kubernetes.io/tls", "mismatch", 1, 1), get(x),
			upU(x, "kubernetes.io/tls", "pairB", 2, 2), get(x), upU(x, "kubernetes.io/tls", "pairC", 3, 3), upU(x, "kubernetes.io/tls", "pairA", 4, 4), del(x),
			upU(x, "nginx.org/jwk", "jwk", 5, 5), upU(x, "nginx.org/jwk", "jwk", 6, 6), get(x), upU(x, "nginx.org/jwk", "nokey", 7, 7), upU(x, "nginx.org/jwk", "jwk", 8, 8)}},
		{Class: "witness-suffix-tmp", Ops: []Op{
			up(x, "kubernetes.io/tls", "pairA", 0), up(keyT{"default", "x.tmp"}, "kubernetes.io/tls", "pairB", 0),
			up(keyT{"default", "x.conf"}, "nginx.org/htpasswd", "ok", 1), up(keyT{"default", "x-"}, "nginx.org/jwk", "jwk", 2),
			up(keyT{"default", "x~"}, "nginx.org/jwk", "jwk", 3),
			get(keyT{"default", "x.tmp"}), get(keyT{"default", "x.conf"}), get(keyT{"default", "x-"}), get(keyT{"default", "x~"}), get(x),
			up(x, "kubernetes.io/tls", "pairC", 4), get(keyT{"default", "x.tmp"}), up(x, "kubernetes.io/tls", "mismatch", 5),
			up(keyT{"default", "x.tmp"}, "kubernetes.io/tls", "pairA", 6), del(keyT{"default", "x-"}), get(x)}},
		{Class: "witness-force", Ops: []Op{
			up(x, "nginx.org/jwk", "nokey", 0), force(x, "jwt"), get(x), up(x, "nginx.org/jwk", "jwk", 1), get(x),
			up(x, "nginx.org/jwk", "nokey", 2), get(x), up(x, "nginx.org/jwk", "jwk", 3), del(x), force(x, "basic"),
			up(x, "nginx.org/htpasswd", "nokey", 4), force(x, "minion"), up(x, "nginx.org/htpasswd", "ok", 5),
			up(x, "nginx.org/htpasswd", "nokey", 6), force(x, "master"), up(x, "nginx.org/htpasswd", "ok", 7)}},
	}
}

var cleanNS = []string{"default", "team", "a", "kube.sys"}
var cleanNames = []string{"s1", "s2", "b-c", "web.tls", "tls-secret", "c"}
var dashNS = []string{"a-b", "a", "a-b-c", "team-1"}
var dashNames = []string{"c", "b-c", "c-d", "b-c-d", "1-s", "s"}

func pickPayload(r *vh.Rng, typ string, wantValid bool) string {
	if v, ok := validPayloads[typ]; ok {
		if wantValid {
			return vh.Pick(r, v)
		}
		return vh.Pick(r, invalidPayloads[typ])
	}
	return vh.Pick(r, unsupportedPayloads)
}

func genHistory(r *vh.Rng, id int) Case {
	classes := []string{"clean", "clean", "clean", "force", "force", "ca", "collide", "casuffix", "retype", "mixed", "xns", "suffix"}
	class := classes[r.Intn(len(classes))]
	// the keys of this history and the type each starts with
	var keys []keyT
	nk := 2 + r.Intn(3)
	switch class {
	case "collide", "mixed":
		for len(keys) < nk {
			keys = append(keys, keyT{vh.Pick(r, dashNS), vh.Pick(r, dashNames)})
		}
		if r.Chance(3, 4) {
			keys[0], keys[1] = keyT{"a-b", "c"}, keyT{"a", "b-c"}
		}
	case "suffix": // names that are each other's prefix: x, x.tmp, x.conf, x-, x~ ... in one namespace
		nsx := vh.Pick(r, cleanNS)
		base := vh.Pick(r, []string{"x", "s1", "web.tls"})
		sfx := []string{"", ".tmp", ".conf", "-", "~", ".tmp.tmp", ".bak", ".lock", ".new", "0"}
		keys = append(keys, keyT{nsx, base})
		seenS := map[string]bool{"": true}
		for len(keys) < nk+1 {
			x := vh.Pick(r, sfx)
			if !seenS[x] {
				seenS[x] = true
				keys = append(keys, keyT{nsx, base + x})
			}
		}
		if r.Chance(2, 3) {
			keys[1] = keyT{nsx, base + ".tmp"}
		}
	case "xns": // Secrets of the same name in several namespaces
		nm := vh.Pick(r, cleanNames)
		for _, n := range cleanNS[:2+r.Intn(3)] {
			keys = append(keys, keyT{n, nm})
		}
	case "casuffix":
		keys = []keyT{{"default", "x"}, {"default", "x-ca.crt"}, {"default", "x-ca.crl"}, {"team", "x"}}[:2+r.Intn(3)]
	default:
		seen := map[keyT]bool{}
		for len(keys) < nk {
			k := keyT{vh.Pick(r, cleanNS), vh.Pick(r, cleanNames)}
			if !seen[k] {
				seen[k] = true
				keys = append(keys, k)
			}
		}
	}
	types := make([]string, len(keys))
	for i := range keys {
		switch {
		case class == "casuffix" && i == 0:
			types[i] = "nginx.org/ca"
		case class == "casuffix":
			types[i] = vh.Pick(r, fileTypes)
		case class == "ca" || class == "mixed":
			if r.Chance(1, 2) {
				types[i] = "nginx.org/ca"
			} else {
				types[i] = vh.Pick(r, supportedTypes)
			}
		case class == "collide":
			types[i] = vh.Pick(r, fileTypes)
		case class == "xns":
			types[i] = vh.Pick(r, []string{"nginx.org/htpasswd", "nginx.org/jwk"})
		case class == "suffix":
			types[i] = vh.Pick(r, fileTypes)
		default:
			t := supportedTypes[r.Intn(len(supportedTypes))]
			for t == "nginx.org/ca" {
				t = supportedTypes[r.Intn(len(supportedTypes))]
			}
			if r.Chance(1, 8) {
				t = vh.Pick(r, unsupportedTypes)
			}
			types[i] = t
		}
	}
	n := 6 + r.Intn(22)
	ops := make([]Op, 0, n)
	salt := 0
	uids := make([]int, len(keys)) // bumped by a delete and by a delete-less re-creation
	lastPayload := make([]string, len(keys))
	lastSalt := make([]int, len(keys))
	for len(ops) < n {
		i := r.Intn(len(keys))
		k := keys[i]
		x := r.Intn(100)
		forceOK := class == "force" || class == "mixed" || class == "xns"
		switch {
		case x < 38:
			if (class == "retype" || class == "mixed") && r.Chance(1, 3) {
				types[i] = vh.Pick(r, supportedTypes)
			}
			salt++
			s := salt
			if r.Chance(1, 5) {
				s = 0 // same bytes as an earlier version
			}
			if r.Chance(1, 4) {
				uids[i]++ // deleted and created again; the store only sees an update carrying a new UID
			}
			u := up(k, types[i], pickPayload(r, types[i], r.Chance(2, 3)), s)
			if (class == "retype" || class == "mixed") && lastPayload[i] != "" && r.Chance(1, 3) {
				// only the type changes: the same payload with the same salt gives byte-identical Data
				nt := vh.Pick(r, append(append([]string{}, supportedTypes...), "Opaque"))
				types[i] = nt
				u = up(k, nt, lastPayload[i], lastSalt[i])
			}
			lastPayload[i], lastSalt[i] = u.Payload, u.Salt
			u.UID = uids[i]
			ops = append(ops, u)
			if r.Chance(2, 5) {
				ops = append(ops, get(k)) // a resource references it right away
			}
		case x < 72:
			ops = append(ops, get(k))
		case x < 86:
			uids[i]++
			ops = append(ops, del(k))
		case x < 96 && forceOK:
			if class == "xns" || r.Chance(1, 4) {
				// a minion in k's namespace under a master in another namespace
				mns := vh.Pick(r, cleanNS)
				for mns == k.ns {
					mns = vh.Pick(r, cleanNS)
				}
				ops = append(ops, Op{Op: "force", NS: k.ns, Name: k.name, Ann: vh.Pick(r, []string{"xminion-basic", "xminion-jwt"}), MNS: mns})
			} else {
				ops = append(ops, force(k, vh.Pick(r, []string{"jwt", "basic", "both", "master", "minion"})))
			}
		case x < 98:
			ops = append(ops, Op{Op: "get", Key: vh.Pick(r, []string{"nosuch/secret", k.ns + "-" + k.name, k.name, ""})})
		default:
			ops = append(ops, Op{Op: "delete", Key: vh.Pick(r, []string{"nosuch/secret", k.ns + "-" + k.name, ""})})
		}
	}
	return Case{ID: id, Class: class, Ops: ops}
}

func main() {
	a := vh.ParseArgs()
	work := os.Getenv("VERIF_WORK")
	if work == "" {
		work = "/verif/.work"
	}
	repo := os.Getenv("VERIF_REPO")
	if repo == "" {
		repo = "/repo"
	}
	dir, err := os.MkdirTemp(work, "t11-")
	if err != nil {
		fmt.Fprintln(os.Stderr, err)
		os.Exit(3)
	}
	defer os.RemoveAll(dir)
	tmplExec, err = version1.NewTemplateExecutor(filepath.Join(repo, "internal/configs/version1/nginx-plus.tmpl"),
		filepath.Join(repo, "internal/configs/version1/nginx-plus.ingress.tmpl"))
	if err != nil {
		fmt.Fprintln(os.Stderr, "templates:", err)
		os.RemoveAll(dir)
		os.Exit(3)
	}

	var cases []Case
	if a.Replay != "" {
		if err := vh.ReadReplay(a.Replay, &cases); err != nil {
			fmt.Fprintln(os.Stderr, err)
			os.RemoveAll(dir)
			os.Exit(3)
		}
	} else {
		cases = witnesses()
		for i := range cases {
			cases[i].ID = i
		}
		root := vh.NewRng(a.Seed)
		for i := 0; i < a.N; i++ {
			id := len(cases)
			if i%4 == 3 {
				cases = append(cases, genCtl(root.Fork(uint64(id)), id))
			} else {
				cases = append(cases, genHistory(root.Fork(uint64(id)), id))
			}
		}
	}
	w, err := vh.NewWriter(a.Out)
	if err != nil {
		fmt.Fprintln(os.Stderr, err)
		os.RemoveAll(dir)
		os.Exit(3)
	}
	// the constants the model copies, so that a renamed type or a changed mode is noticed
	w.Emit(map[string]any{"id": -1, "class": "consts", "obs": Consts{
		Types: []string{string(api_v1.SecretTypeTLS), string(secrets.SecretTypeCA), string(secrets.SecretTypeJWK), string(secrets.SecretTypeOIDC),
			string(secrets.SecretTypeHtpasswd), string(secrets.SecretTypeAPIKey), string(secrets.SecretTypeLicense)},
		Modes: []int{nginx.ReadWriteOnlyFileMode, nginx.JWKSecretFileMode, nginx.HtpasswdSecretFileMode},
		Keys:  []string{configs.CACrtKey, configs.CACrlKey, configs.JWTKeyKey, configs.HtpasswdFileKey},
	}})
	for i := range cases {
		runCase(dir, &cases[i])
		w.Emit(cases[i])
	}
	w.Close()
}
