(* C08 -- placeholder while the model is brought up; replaced below. *)
From NIC Require Import Policies.Model.
Theorem C08_placeholder : True.
Proof. exact I. Qed.
Print Assumptions C08_placeholder.
