(* C05 truth proof, part 22: the invariant holds after every history; the judge's verdict *)
From Coq Require Import List ZArith String Ascii Bool Lia.
From NIC Require Import Base.SMap Arb.Types Arb.Model Arb.Spec Arb.WinsProofs Arb.InvProofs Arb.OwnerProofs
     Arb.ListenerProofs Arb.ClassProofs Arb.ChangeProofs Arb.ReportProofs Arb.ComposeProofs Arb.Cases Arb.ShadowProofs Arb.ShadowAttrs.
From NIC Require Import Arb.Truth01 Arb.Truth02 Arb.Truth03 Arb.Truth04 Arb.Truth05 Arb.Truth06 Arb.Truth07 Arb.Truth08 Arb.Truth09 Arb.Truth10 Arb.Truth11 Arb.Truth12 Arb.Truth13 Arb.Truth14 Arb.Truth15 Arb.Truth16 Arb.Truth17 Arb.Truth18 Arb.Truth19 Arb.Truth20 Arb.Truth21.
Import ListNotations.
Open Scope string_scope.
Open Scope Z_scope.

Lemma inv_step c es e : hyps c (es ++ [e])%list -> inv c es -> inv c (es ++ [e])%list.
Proof.
  intros Hy' IH. constructor.
  - rewrite last_reports_snoc. apply wf_fold_ins. apply wf_forget. exact (inv_wf _ _ IH).
  - exact (step_J c es e Hy' IH).
  - exact (step_I2 c es e Hy' IH).
  - exact (step_I3 c es e Hy' IH).
Qed.

Theorem inv_all c es : hyps c es -> inv c es.
Proof.
  induction es as [|e r IH] using rev_ind; intros Hy; [apply inv_nil|].
  apply inv_step; [exact Hy|]. apply IH. exact (hyps_prefix c r e Hy).
Qed.

Section Final.
  Variables (c : cfg) (es : list event).
  Hypothesis Hy : hyps c es.
  Let S := run c es.
  Let O := objs_after es.
  Let L := last_reports c es.
  Let I := inv_all c es Hy.

  Lemma Ap1_iff k : lookup k (get_resources S) <> None <-> key_in (hosts S) k \/ key_in (smap_map RTS (lhosts S)) k.
  Proof.
    rewrite <- in_keys_lookup. rewrite (keys_get_resources c S k (run_fn_inv c es)).
    destruct (run_fn_inv c es) as [Hh Hl]. unfold KH, KL. fold S in Hh, Hl. rewrite <- Hh, <- Hl. tauto.
  Qed.

  Lemma stored_in {A} (m : smap A) k v : lookup k m = Some v -> In (k, v) m.
  Proof. apply lookup_In. Qed.

  Lemma not_applied_said_no k : ~ Ap S k -> Pst S k -> said_no L k.
  Proof. intros _ HP. exact (inv_J _ _ I k HP). Qed.

  Lemma objs_S : objs_of_state S = O. Proof. apply run_objs. Qed.
End Final.
