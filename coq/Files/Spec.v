(* C10 -- the declarative side: which resources are being served after a history (independent of
   any file), which listing that demands, and the decidable one-to-one check [spec_ok] that is
   evaluated on the implementation's own directory listings. *)
From Coq Require Import List ZArith String Ascii Bool.
From NIC Require Import Base.SMap Files.Model.
Import ListNotations.
Open Scope string_scope.

Record rid := { rk : kind; rns : string; rname : string }.

Record sinfo := { s_stamp : Z; s_pt : option string }.   (* Some host: TLS-passthrough TransportServer for that host *)

Definition rid_eqb (a b : rid) : bool :=
  kind_eqb (rk a) (rk b) && String.eqb (rns a) (rns b) && String.eqb (rname a) (rname b).

(* the served set: association list, first binding wins *)
Definition served := list (rid * sinfo).

Fixpoint aget (r : rid) (s : served) : option sinfo :=
  match s with
  | [] => None
  | (r', i) :: t => if rid_eqb r r' then Some i else aget r t
  end.

Definition aunset (r : rid) (s : served) : served := filter (fun p => negb (rid_eqb r (fst p))) s.
Definition aset (r : rid) (i : sinfo) (s : served) : served := (r, i) :: aunset r s.

Definition rid_of (a : addop) : rid :=
  match a with
  | AddIng ns name _ | AddMIng ns name _ _ => {| rk := KIng; rns := ns; rname := name |}
  | AddVS ns name _ => {| rk := KVS; rns := ns; rname := name |}
  | AddTS ns name _ _ _ => {| rk := KTS; rns := ns; rname := name |}
  end.

Definition info_of (a : addop) : sinfo :=
  match a with
  | AddIng _ _ st | AddMIng _ _ st _ | AddVS _ _ st => {| s_stamp := st; s_pt := None |}
  | AddTS _ _ st pt host => {| s_stamp := st; s_pt := if is_passthrough pt host then Some host else None |}
  end.

Definition spec_estep (e : estep) (s : served) : served :=
  match e with
  | EAdd a => aset (rid_of a) (info_of a) s
  | EDel k ns name => aunset {| rk := k; rns := ns; rname := name |} s
  end.

Definition target (e : estep) : rid :=
  match e with EAdd a => rid_of a | EDel k ns name => {| rk := k; rns := ns; rname := name |} end.

Definition esteps_of (e : event) : list estep :=
  match e with Op o => expand o | Restart c => restart_esteps c end.

(* every resource an event touches *)
Definition targets_event (e : event) : list rid := map target (esteps_of e).

Definition spec_esteps (es : list estep) (s : served) : served := fold_left (fun s e => spec_estep e s) es s.

Definition spec_event (e : event) (s : served) : served :=
  match e with
  | Op o => spec_esteps (expand o) s
  | Restart cluster => spec_esteps (restart_esteps cluster) []     (* served after a restart = what the cluster holds *)
  end.

Definition spec_events (evs : list event) (s : served) : served := fold_left (fun s e => spec_event e s) evs s.

(* ---------- what the served set demands of the disk ---------- *)

Definition file_of (r : rid) : string :=
  match rk r with
  | KIng => ingress_file (rns r) (rname r)
  | KVS => vs_file (rns r) (rname r)
  | KTS => ts_file (rns r) (rname r)
  end.
Definition path_of (r : rid) : string := conf_path (file_of r).
Definition is_stream (r : rid) : bool := kind_eqb (rk r) KTS.

Definition expected_http (s : served) : list (string * Z) :=
  map (fun p => (path_of (fst p), s_stamp (snd p))) (filter (fun p => negb (is_stream (fst p))) s).
Definition expected_stream (s : served) : list (string * Z) :=
  map (fun p => (path_of (fst p), s_stamp (snd p))) (filter (fun p => is_stream (fst p)) s).
Definition expected_hosts (s : served) : list (string * string) :=
  flat_map (fun p => match s_pt (snd p) with
                     | Some h => if is_stream (fst p) then [(h, pt_socket (rns (fst p)) (rname (fst p)))] else []
                     | None => [] end) s.

(* ---------- the decidable check ---------- *)

Fixpoint nodupb (l : list string) : bool :=
  match l with
  | [] => true
  | x :: r => negb (existsb (String.eqb x) r) && nodupb r
  end.

Definition pair_mem {V} (veqb : V -> V -> bool) (p : string * V) (l : list (string * V)) : bool :=
  existsb (fun q => String.eqb (fst p) (fst q) && veqb (snd p) (snd q)) l.

(* one-to-one: no name twice on either side, and the same (name, content) pairs *)
Definition listing_ok {V} (veqb : V -> V -> bool) (obs exp : list (string * V)) : bool :=
  nodupb (map fst exp) && nodupb (map fst obs) &&
  forallb (fun e => pair_mem veqb e obs) exp && forallb (fun o => pair_mem veqb o exp) obs.

Definition spec_ok (obs_confd obs_stream : list (string * Z)) (obs_hosts : list (string * string)) (s : served) : bool :=
  listing_ok Z.eqb obs_confd (expected_http s) &&
  listing_ok Z.eqb obs_stream (expected_stream s) &&
  listing_ok String.eqb obs_hosts (expected_hosts s).

(* ---------- the same as propositions (used by the theorems) ---------- *)

(* the files of directory [dir] are exactly the images of the served resources of that directory *)
Definition dir_matches (stream : bool) (dir : smap Z) (s : served) : Prop :=
  (forall r i, aget r s = Some i -> is_stream r = stream -> lookup (path_of r) dir = Some (s_stamp i)) /\
  (forall f v, lookup f dir = Some v ->
     exists r i, is_stream r = stream /\ aget r s = Some i /\ path_of r = f /\ s_stamp i = v).

Definition disk_matches (d : disk) (s : served) : Prop :=
  dir_matches false (confd d) s /\ dir_matches true (streamd d) s.

(* the passthrough map lists exactly the served passthrough TransportServers *)
Definition hosts_exact (h : smap string) (s : served) : Prop :=
  forall host sock, lookup host h = Some sock <->
    exists r i, rk r = KTS /\ aget r s = Some i /\ s_pt i = Some host /\ sock = pt_socket (rns r) (rname r).

(* file naming is injective on a set of resources (per directory) *)
Definition inj_on (R : list rid) : Prop :=
  forall r1 r2, In r1 R -> In r2 R -> is_stream r1 = is_stream r2 -> path_of r1 = path_of r2 -> r1 = r2.
