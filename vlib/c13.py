"""C13 -- a reload is acknowledged only after NGINX serves the new configuration version."""
import os, json
from . import common as C


def cq_resp(r, timeout=None):
    if r["kind"] == "err":
        return "(ConnErr %d)" % r["lat"]
    if r["kind"] == "stall":
        # headers in time, body never complete: the request ends with an error when its own deadline (= the wait timeout) expires
        return "(ConnErr %d)" % (timeout or 1000)
    return "(Http %s %s %d)" % (C.cq_z(r["status"]), C.cq_bytes(r.get("body") or []), r["lat"])


def case_to_coq(c):
    fam, o = c["fam"], c["obs"]
    if fam == "wait":
        t = c["timeout_ms"]
        return "wait_case %d %s %s %s %d %s %s" % (
            c["id"], C.cq_list([cq_resp(r, t) for r in c.get("script") or []]), cq_resp(c["tail"], t),
            C.cq_z(c.get("expected", 0)), c["timeout_ms"], C.cq_bool(o["result"] == "ok"), C.cq_z(o["idx"]))
    if fam == "reload":
        steps = C.cq_list(["(%s, %s, %s)" % (C.cq_bool(s["shell_ok"]), C.cq_list([cq_resp(r) for r in s.get("script") or []]),
                                             cq_resp(s["tail"])) for s in c["reloads"]])
        code = {"ok": 0, "shellfail": 1, "notconfirmed": 2}
        obs = C.cq_list(["(%d, %s, %s)" % (code.get(x["result"], 9), C.cq_z(x["version"]), C.cq_bytes(x.get("file") or []))
                         for x in o])
        return "reload_case %d %d %s %s %s" % (c["id"], c["timeout_ms"], C.cq_bool(c.get("open_tracing", False)), steps, obs)
    if fam == "api":
        return "api_case %d %s %s %s %s" % (c["id"], C.cq_z(c.get("version", 0)), cq_resp(c["check"]),
                                            C.cq_bool(o["called"]), C.cq_str(o["header"]))
    if fam == "plusconn":
        # every write reached a worker that has the version NGINX is at AND the version the manager is at
        ws = [p for st in c.get("steps") or [] for w in st["writes"]
              for p in ("(%d, %d)" % (w["worker"], w["current"]), "(%d, %d)" % (w["worker"], w.get("expected", w["current"])))]
        return "plusconn_case %d %s" % (c["id"], C.cq_list(ws))
    if fam == "conf":
        return "conf_case %d %s %s %s" % (c["id"], C.cq_z(c.get("version", 0)), C.cq_bool(c.get("open_tracing", False)),
                                          C.cq_bytes(o["file"]))
    raise ValueError(fam)


def evaluate(run, cases, tag):
    cases = [c for c in cases if not (isinstance(c.get("obs"), dict) and "error" in c["obs"])]
    if not cases:
        return []
    body = "From NIC Require Import Verify.Model Verify.Cases.\n"
    body += "Definition results : list (list Z) := Eval vm_compute in\n  [" + ";\n   ".join(case_to_coq(c) for c in cases) + "].\n"
    body += "Print results.\n"
    path = os.path.join(C.WORK, "cases", "C13_%s.v" % tag)
    C.write_cases_v(path, body)
    rc, out = C.coqc(path)
    res = C.parse_z_lists(out, "results")
    if rc != 0 or res is None or len(res) != len(cases):
        if rc == 0 and res is None and len(cases) == 0:
            return []
        raise C.TieBroken("coqc could not evaluate the C13 cases file (%s): %s" % (path, out[-1500:]))
    return res


def judge(run, cases, res):
    byid = {c["id"]: c for c in cases}
    skipped = 0
    for c in cases:
        if isinstance(c.get("obs"), dict) and "error" in c["obs"]:
            run.failing({"kind": "harness-case-error", "fam": c["fam"]}, [c],
                        "the harness could not run case %d (%s) on the implementation: %s" % (c["id"], c["fam"], c["obs"]["error"][:300]),
                        theorem="correspondence harness c13", found_input=False)
    for c in cases:
        if c["fam"] == "wait" and isinstance(c.get("obs"), dict) and c["obs"].get("result") == "hang":
            run.failing({"kind": "spec", "fam": "wait", "class": c["class"], "how": "hang"}, [c],
                        "C13: the wait neither acknowledged nor failed the reload within three times the configured timeout (%d ms) -- it is stuck on an answer that never "
                        "completes (family wait, class %s, case %d)" % (c["timeout_ms"], c["class"], c["id"]), theorem="Verify.Cases.spec_ok (timeout clause)")
    for row in res:
        cid, agree, spec, robust, tag = row
        c = byid[cid]
        if isinstance(c.get("obs"), dict) and c["obs"].get("result") == "hang":
            continue
        canon = {k: c.get(k) for k in ("fam", "expected", "timeout_ms", "script", "tail", "reloads", "started", "plus", "version", "check", "stream", "open_tracing")}
        if c["fam"] == "wait" and not robust:
            skipped += 1          # outcome depends on sub-30ms timing: not compared
            continue
        nontrivial = not (c["fam"] == "wait" and not c.get("script"))
        run.count_case(canon, nontrivial)
        run.cov["traces_validated_against_impl"] += 1
        run.cov.setdefault("by_family", {}).setdefault(c["fam"] + ":" + c["class"].rstrip("0123456789") + ":model=%d" % tag, 0)
        run.cov["by_family"][c["fam"] + ":" + c["class"].rstrip("0123456789") + ":model=%d" % tag] += 1
        if not spec:
            run.failing({"kind": "spec", "fam": c["fam"], "class": c["class"]}, [c],
                        "C13 specification fails on the implementation's own outcome (family %s, class %s, case %d): obs=%s"
                        % (c["fam"], c["class"], cid, json.dumps(c["obs"])[:300]), theorem="Verify.Cases.spec_ok")
        elif not agree:
            run.failing({"kind": "correspondence", "fam": c["fam"]}, [c],
                        "model and implementation disagree (family %s, class %s, case %d) but the specification still holds on it: obs=%s"
                        % (c["fam"], c["class"], cid, json.dumps(c["obs"])[:300]),
                        theorem="correspondence Verify.Model ~ internal/nginx/verify.go, manager.go", found_input=False)
    run.cov["skipped_timing_sensitive"] = skipped


TRUSTED = [
    "Rocq 8.16.1 kernel incl. vm_compute (no native_compute); no axioms (Print Assumptions: closed)",
    "hand-written model coq/Verify/Model.v of internal/nginx/verify.go + LocalManager.Reload + verifyConfigVersion guard, tied by the correspondence harness harness/overlay/internal/verifh/c13 (real WaitForCorrectVersion, Reload, Update(Stream)ServersInPlus, GenerateVersionConfig against scripted unix-socket endpoints)",
    "build-time rewrite of the nginxBinaryPath constant to a stand-in script (no nginx binary in the sandbox); Go net/http, strconv.Atoi are called, Atoi is also modelled",
    "that NGINX answers 200 on /configVersionCheck only from a worker whose map matches (config-version.conf is compared byte-for-byte with the model; NGINX itself is not run)",
]


def check(run):
    n = 140 if run.tier == "quick" else 1500
    run.proof_obligations()
    binary = C.go_build("c13")
    out = os.path.join(C.WORK, "cases", "c13_%s.jsonl" % run.tier)
    rc, log = C.run_harness(binary, ["-seed", str(run.seed), "-n", str(n), "-out", out, "-tier", run.tier], timeout=3000)
    if rc != 0:
        raise C.TieBroken("c13 harness failed rc=%d: %s" % (rc, log[-1500:]))
    cases = C.read_jsonl(out)
    # connection affinity of the Plus API client pair, through the real createPlusClient of cmd/nginx-ingress
    pbin = C.go_build("c02", pkg="./cmd/nginx-ingress")
    pout = os.path.join(C.WORK, "cases", "c13plus_%s.jsonl" % run.tier)
    rc, log = C.run_harness(pbin, ["-seed", str(run.seed), "-n", "12" if run.tier == "quick" else "60", "-out", pout], timeout=600, env={"VERIF_C13PLUS": "1"})
    if rc != 0:
        raise C.TieBroken("c13 plus-connection harness failed rc=%d: %s" % (rc, log[-1500:]))
    for pc in C.read_jsonl(pout):
        pc["id"] = 100000 + pc["id"]
        pc["class"] = "affinity"
        if pc.get("error"):
            pc["obs"] = {"error": pc["error"]}
        else:
            pc["obs"] = {"steps": pc["steps"]}
        cases.append(pc)
    shard = 400
    for k in range(0, len(cases), shard):
        part = cases[k:k + shard]
        judge(run, part, evaluate(run, part, "%s_%d" % (run.tier, k // shard)))
    for c in cases[:1] + [x for x in cases if x["fam"] == "reload"][:1] + [x for x in cases if x["fam"] == "api"][:1]:
        s = dict(c)
        if s["fam"] == "reload":
            s["obs"] = [{"result": o["result"], "version": o["version"], "file_bytes": len(o.get("file") or [])} for o in s["obs"]]
        run.sample(s)
    run.cov["rule"] = ("wait: response scripts of classes early/never/late/inflight (stale versions, transport errors, non-200 carrying "
                       "the right body, 17 garbage bodies, signed/zero-padded matches) + infinite tail, timeouts 150-220 ms; reload: sequences of 1-5 real "
                       "Reload calls with shell failures, unconfirmed versions and versions that appear only after the configured timeout, half of them on a manager that went through the real "
                       "Start first (stand-in binary), a third on an NGINX Plus manager with its API clients set, a third of the steps as endpoints reloads; a Reload that neither returns within three timeouts is a failure; api: version guard in front of the Plus API (HTTP and stream); conf: "
                       "config-version.conf bytes.  A case is distinct by its full input; wait cases with an empty script are trivial; wait cases whose model "
                       "outcome changes when the deadline moves by +-30 ms are not compared (counted in skipped_timing_sensitive).")
    run.cov["trusted_base"] = TRUSTED
    run.assumptions += ["timing exactly at the deadline (within 30 ms) is in the theorems but not exercised against the real clock",
                        "NGINX's own handling of config-version.conf is not executed"]


def replay(run, path):
    binary = C.go_build("c13")
    out = os.path.join(C.WORK, "cases", "c13_replay.jsonl")
    rc, log = C.run_harness(binary, ["-replay", path, "-out", out], timeout=600)
    if rc != 0:
        raise C.TieBroken("c13 harness failed on replay: %s" % log[-1500:])
    cases = C.read_jsonl(out)
    res = evaluate(run, cases, "replay")
    for c, r in zip(cases, res):
        print("replay case %d: impl obs=%s  model-agrees=%d spec=%d robust=%d" % (c["id"], json.dumps(c["obs"])[:400], r[1], r[2], r[3]))
    judge(run, cases, res)
