(* C11 -- the controller in front of the store: what the store believes to be the current
   version of a Secret is the object the cluster holds (or neither is valid), whenever no task
   for that Secret is outstanding; so the theorems about store histories speak about the cluster. *)
From Coq Require Import List String Ascii Bool ZArith Lia.
From NIC Require Import Base.SMap Secrets.Model Secrets.Spec Secrets.ProofsNames Secrets.Proofs Secrets.ProofsMore.
Import ListNotations.
Open Scope string_scope.
Open Scope list_scope.

Definition deadb (x : option ver) : bool := match x with None => true | Some v => negb (vvalid v) end.
Definition dead (x : option ver) : Prop := deadb x = true.
(* the store's view and the cluster's object agree: the same version, or no valid version on either side *)
Definition agree1 (cl gv : option ver) : Prop := cl = gv \/ (dead cl /\ dead gv).

(* ValidateSecret rejects every unsupported type (its final return) *)
Definition oracle_ok (v : ver) : Prop := supported_type (vtype v) = false -> vvalid v = false.

(* admissible cluster event: the oracle fact, and an update keeps the type (Secret.type is
   immutable; a type change is a delete followed by a create) *)
Definition cev_ok (o : objects) (e : cev) : Prop :=
  match e with
  | CPut ns name v =>
      oracle_ok v /\
      match o (key_of ns name) with
      | Some v0 => supported_type (vtype v0) = supported_type (vtype v)
      | None => True
      end
  | _ => True
  end.

Fixpoint chist_ok (c : cstate) (h : list cev) : Prop :=
  match h with
  | [] => True
  | e :: r => cev_ok (c_objs c) e /\ chist_ok (fst (cstep c e)) r
  end.

Definition in_pendb (k : string) (q : list qtask) : bool := existsb (fun t => String.eqb (task_key t) k) q.

Lemma in_pendb_enq_self t q : in_pendb (task_key t) (enq t q) = true.
Proof.
  unfold in_pendb. induction q as [|t' r IH]; cbn.
  - rewrite String.eqb_refl. reflexivity.
  - destruct (String.eqb (task_key t) (task_key t')) eqn:E; cbn.
    + rewrite String.eqb_sym, E. reflexivity.
    + rewrite IH. apply orb_true_r.
Qed.

Lemma in_pendb_enq_mono k t q : in_pendb k q = true -> in_pendb k (enq t q) = true.
Proof.
  unfold in_pendb. induction q as [|t' r IH]; cbn; [discriminate|].
  destruct (String.eqb (task_key t) (task_key t')); cbn; [auto|].
  intros H. apply orb_true_iff in H. destruct H as [H|H]; [rewrite H; reflexivity|rewrite (IH H); apply orb_true_r].
Qed.

Lemma oset_eq o k x : oset o k x k = x.
Proof. unfold oset. rewrite String.eqb_refl. reflexivity. Qed.
Lemma oset_neq o k x k' : k' <> k -> oset o k x k' = o k'.
Proof. unfold oset. intros H. apply String.eqb_neq in H. rewrite H. reflexivity. Qed.

Lemma gver_sync_op objs t g k :
  gver (gstep g (sync_op objs t)) k = if String.eqb k (task_key t) then objs (task_key t) else gver g k.
Proof.
  unfold sync_op. destruct t as [ns name]. unfold task_key. cbn [fst snd].
  destruct (objs (key_of ns name)) as [v|] eqn:O; cbn [gstep].
  - destruct (String.eqb_spec k (key_of ns name)) as [->|N].
    + rewrite gver_gset_eq. reflexivity.
    + apply gver_gset_neq. exact N.
  - destruct (String.eqb_spec k (key_of ns name)) as [->|N].
    + rewrite gver_gset_eq. reflexivity.
    + apply gver_gset_neq. exact N.
Qed.

Lemma gver_sync_other objs q : forall g k,
  in_pendb k q = false -> gver (fold_left gstep (map (sync_op objs) q) g) k = gver g k.
Proof.
  induction q as [|t r IH]; intros g k H; cbn in *; [reflexivity|].
  apply orb_false_iff in H. destruct H as [H1 H2].
  rewrite IH by exact H2. rewrite gver_sync_op. rewrite String.eqb_sym, H1. reflexivity.
Qed.

Lemma gver_sync_pend objs q : forall g k,
  in_pendb k q = true -> gver (fold_left gstep (map (sync_op objs) q) g) k = objs k.
Proof.
  induction q as [|t r IH]; intros g k H; [discriminate|].
  cbn [map fold_left]. unfold in_pendb in H. cbn [existsb] in H. fold (in_pendb k r) in H.
  destruct (in_pendb k r) eqn:R.
  - apply IH. exact R.
  - rewrite orb_false_r in H. rewrite gver_sync_other by exact R.
    rewrite gver_sync_op. rewrite String.eqb_sym, H. apply String.eqb_eq in H. rewrite H. reflexivity.
Qed.

Definition Kinv (c : cstate) (g : ghost) : Prop :=
  (forall k v, c_objs c k = Some v -> oracle_ok v) /\
  (forall k, in_pendb k (c_pend c) = true \/ agree1 (c_objs c k) (gver g k)).

Lemma agree1_dead_l cl gv v :
  agree1 cl gv -> cl = Some v -> vvalid v = false -> dead gv.
Proof.
  intros [E|[_ D]] C V; [|exact D]. subst. unfold dead. cbn. rewrite V. reflexivity.
Qed.

Lemma kinv_step c g e :
  Kinv c g -> cev_ok (c_objs c) e ->
  Kinv (fst (cstep c e)) (fold_left gstep (snd (cstep c e)) g).
Proof.
  intros [KO KA] OK. destruct e as [ns name v|ns name| |k0]; cbn [cstep].
  - (* CPut *)
    destruct OK as [OV OT]. unfold Kinv. cbn [fst snd fold_left c_objs c_pend]. split.
    + intros k v' H. destruct (string_dec k (key_of ns name)) as [->|N].
      * rewrite oset_eq in H. injection H as <-. exact OV.
      * rewrite oset_neq in H by exact N. eapply KO; eauto.
    + intros k. destruct (string_dec k (key_of ns name)) as [->|N].
      * destruct (supported_type (vtype v)) eqn:S.
        -- left. apply (in_pendb_enq_self (ns, name)).
        -- destruct (KA (key_of ns name)) as [P|A]; [left; exact P|]. right.
           rewrite oset_eq. right. split; [unfold dead; cbn; rewrite (OV S); reflexivity|].
           destruct (c_objs c (key_of ns name)) as [v0|] eqn:O.
           ++ eapply agree1_dead_l; [exact A|reflexivity|]. apply (KO _ _ O). exact OT.
           ++ destruct A as [<-|[_ D]]; [reflexivity|exact D].
      * rewrite oset_neq by exact N. destruct (KA k) as [P|A]; [left|right; exact A].
        destruct (supported_type (vtype v)); [apply in_pendb_enq_mono|]; exact P.
  - (* CDel *)
    destruct (c_objs c (key_of ns name)) as [v0|] eqn:O; unfold Kinv; cbn [fst snd fold_left c_objs c_pend]; [|split; assumption].
    split.
    + intros k v' H. destruct (string_dec k (key_of ns name)) as [->|N].
      * rewrite oset_eq in H. discriminate.
      * rewrite oset_neq in H by exact N. eapply KO; eauto.
    + intros k. destruct (string_dec k (key_of ns name)) as [->|N].
      * destruct (supported_type (vtype v0)) eqn:S.
        -- left. apply (in_pendb_enq_self (ns, name)).
        -- destruct (KA (key_of ns name)) as [P|A]; [left; exact P|]. right.
           rewrite oset_eq. right. split; [reflexivity|].
           eapply agree1_dead_l; [exact A|exact O|]. apply (KO _ _ O). exact S.
      * rewrite oset_neq by exact N. destruct (KA k) as [P|A]; [left|right; exact A].
        destruct (supported_type (vtype v0)); [apply in_pendb_enq_mono|]; exact P.
  - (* CDrain *)
    unfold Kinv. cbn [fst snd c_objs c_pend]. split; [exact KO|]. intros k. right.
    destruct (in_pendb k (c_pend c)) eqn:P.
    + left. symmetry. apply gver_sync_pend. exact P.
    + rewrite gver_sync_other by exact P. destruct (KA k) as [P'|A]; [congruence|exact A].
  - (* CGet *)
    unfold Kinv. cbn [fst snd fold_left]. split; [exact KO|]. intros k. rewrite gver_get. apply KA.
Qed.

Lemma kinv_run h : forall c g,
  Kinv c g -> chist_ok c h -> Kinv (fst (crun c h)) (fold_left gstep (snd (crun c h)) g).
Proof.
  induction h as [|e r IH]; intros c g K OK; cbn [crun]; [exact K|].
  destruct OK as [O1 O2].
  pose proof (kinv_step c g e K O1) as K1.
  destruct (cstep c e) as [c1 ops]. cbn [fst snd] in *.
  specialize (IH c1 _ K1 O2). destruct (crun c1 r) as [c2 ops']. cbn [fst snd] in *.
  rewrite fold_left_app. exact IH.
Qed.

Lemma kinv_init : Kinv cinit gempty.
Proof. split; [intros k v H; discriminate|]. intros k. right. left. reflexivity. Qed.

(* After every admissible cluster-level history, for every Secret without an outstanding task:
   the store's current version is the cluster's object, or neither side has a valid version. *)
Theorem controller_agrees h k :
  chist_ok cinit h -> in_pendb k (c_pend (fst (crun cinit h))) = false ->
  agree1 (c_objs (fst (crun cinit h)) k) (cur (compile h) k).
Proof.
  intros OK P. destruct (kinv_run h cinit gempty kinv_init OK) as [_ KA].
  destruct (KA k) as [P'|A]; [congruence|]. exact A.
Qed.

Section CtlClauses.
  Variable cadel : bool.
  Variable U : string -> Prop.
  Hypothesis U_disj : forall k1 k2, U k1 -> U k2 -> k1 <> k2 -> names_disjoint k1 k2.

  (* a file under one of k's names is the derivation of the object the CLUSTER holds now, which is valid *)
  Theorem controller_file_is_current h k f c :
    chist_ok cinit h -> hist_ok cadel U gempty (compile h) -> U k ->
    in_pendb k (c_pend (fst (crun cinit h))) = false ->
    In f (names_of_key k) -> lookup f (files (run cadel (compile h))) = Some c ->
    exists v, c_objs (fst (crun cinit h)) k = Some v /\ vvalid v = true /\
              assoc f (derived (key_to_fname k) v) = Some c.
  Proof.
    intros CO HO Uk P Hf L.
    destruct (file_only_if_valid_and_asked cadel U U_disj _ k f c HO Uk Hf L) as (v & C & V & _ & D).
    exists v. split; [|auto].
    destruct (controller_agrees h k CO P) as [E|[_ D2]]; [congruence|].
    rewrite C in D2. unfold dead in D2. cbn in D2. rewrite V in D2. discriminate.
  Qed.

  (* the cluster holds no valid object under k (deleted, invalid, replaced by an unsupported
     type ...) and the worker has caught up: none of k's files exists *)
  Theorem controller_gone_means_removed h k :
    chist_ok cinit h -> hist_ok cadel U gempty (compile h) -> U k ->
    in_pendb k (c_pend (fst (crun cinit h))) = false ->
    dead (c_objs (fst (crun cinit h)) k) ->
    forall f, In f (names_of_key k) -> lookup f (files (run cadel (compile h))) = None.
  Proof.
    intros CO HO Uk P D. apply (no_valid_no_files cadel U U_disj); auto.
    intros v C. destruct (controller_agrees h k CO P) as [E|[_ D2]].
    - rewrite E, C in D. unfold dead in D. cbn in D. apply negb_true_iff in D. exact D.
    - rewrite C in D2. unfold dead in D2. cbn in D2. apply negb_true_iff in D2. exact D2.
  Qed.
End CtlClauses.

(* and a reference then reports an error exactly when the cluster holds no valid object *)
Theorem controller_get_reports_error cadel h k st' p e :
  chist_ok cinit h -> in_pendb k (c_pend (fst (crun cinit h))) = false ->
  step cadel (run cadel (compile h)) (Get k) = (st', Some (p, e)) ->
  e = deadb (c_objs (fst (crun cinit h)) k).
Proof.
  intros CO P S. rewrite (get_reports_error cadel _ k st' p e S).
  unfold get_err_expected.
  pose proof (controller_agrees h k CO P) as A. unfold cur in A.
  destruct A as [E|[D1 D2]].
  - rewrite E. destruct (grun (compile h) k) as [[v a]|]; reflexivity.
  - unfold dead in *. rewrite D1. destruct (grun (compile h) k) as [[v a]|]; [exact D2|reflexivity].
Qed.

(* the seeded scenario, in the model of the unchanged code: TLS secret in use, deleted and
   re-created as Opaque before the worker runs -- the file goes and the reference reports the error *)
Definition vOpaque : ver := mkver "Opaque" false "A" "" "".
Definition ch_recreated : list cev :=
  [CPut "default" "x" vA; CDrain; CGet "default/x"; CDel "default" "x"; CPut "default" "x" vOpaque; CDrain].

Lemma ch_recreated_ok :
  chist_ok cinit ch_recreated /\
  compile ch_recreated = [Upsert "default" "x" vA; Get "default/x"; Upsert "default" "x" vOpaque] /\
  files (run false (compile (firstn 3 ch_recreated))) = [("default-x", (mode_rw_only, "A"))] /\
  files (run false (compile ch_recreated)) = [] /\
  snd (step false (run false (compile ch_recreated)) (Get "default/x")) = Some ("", true).
Proof.
  split; [cbn; repeat split; auto; try discriminate|].
  repeat split; vm_compute; reflexivity.
Qed.
