//go:build verif

// Correspondence harness for the arbitration family (C01 C02 C03 C04 C05 C16): random event
// histories over Ingresses (regular/master/minion/challenge), VirtualServers,
// VirtualServerRoutes, TransportServers and GlobalConfigurations are driven through the real
// k8s.Configuration; every step's returned changes/problems and the resulting hosts,
// listener hosts and GetResources() are projected to the attributes the Rocq model carries.
package main

import (
	"encoding/json"
	"flag"
	"fmt"
	"os"
	"runtime/debug"
	"sort"
	"strings"

	"github.com/nginx/kubernetes-ingress/internal/configs"
	"github.com/nginx/kubernetes-ingress/internal/k8s"
	"github.com/nginx/kubernetes-ingress/internal/nginx"
	"github.com/nginx/kubernetes-ingress/internal/verifh/vh"
	conf_v1 "github.com/nginx/kubernetes-ingress/pkg/apis/configuration/v1"
	networking "k8s.io/api/networking/v1"
	metav1 "k8s.io/apimachinery/pkg/apis/meta/v1"
	"k8s.io/apimachinery/pkg/types"
)

// ---------- serialisable description of an event (enough to rebuild the real object) ----------

type Spec struct {
	Kind string `json:"kind"` // ing | vs | vsr | ts | gc
	NS   string `json:"ns"`
	Name string `json:"name"`
	UID  string `json:"uid"`
	TS   int64  `json:"ts"`
	Gen  int64  `json:"gen"`
	// class inputs
	ClassAnn   *string `json:"class_ann"`   // Ingress: kubernetes.io/ingress.class annotation (nil = absent)
	ClassField *string `json:"class_field"` // Ingress: spec.ingressClassName ; CRDs: spec.ingressClass ("" allowed)
	// ingress
	IngKind    string   `json:"ing_kind,omitempty"` // regular|master|minion
	Hosts      []string `json:"hosts,omitempty"`
	Paths      []string `json:"paths,omitempty"`
	Challenge  bool     `json:"challenge,omitempty"`
	DefBackend bool     `json:"def_backend,omitempty"` // spec.defaultBackend is set (a minion's must never be rendered)
	AuthSecret string   `json:"auth_secret,omitempty"` // Ingress: nginx.org/basic-auth-secret (the Secret never exists: a Configurator warning)
	ExtraAnn   string   `json:"extra_ann,omitempty"`   // value of an innocuous annotation (changes without bumping generation)
	// vs / vsr / ts
	Host     string      `json:"host,omitempty"`
	Routes   [][2]string `json:"routes,omitempty"`   // vs: (path, route ref or "")
	Listener *[2]string  `json:"listener,omitempty"` // vs
	Subpaths []string    `json:"subpaths,omitempty"` // vsr
	LName    string      `json:"lname,omitempty"`    // ts
	Proto    string      `json:"proto,omitempty"`    // ts
	Broken   bool        `json:"broken,omitempty"`   // make the spec fail validation
	// gc
	Listeners []k8s.VListener `json:"listeners,omitempty"`
}

type Event struct {
	Op   string `json:"op"` // upsert | delete
	Spec Spec   `json:"spec"`
	Note string `json:"note,omitempty"` // generator's intent (create/update/recreate/classflip/invalidate/...)
	// filled while running: the model-level event
	M map[string]any `json:"m,omitempty"`
}

type StepObs struct {
	Changes  []k8s.VChange     `json:"changes"`
	Problems []k8s.VProblem    `json:"problems"`
	GCErr    bool              `json:"gc_err"`
	Hosts    map[string]string `json:"hosts"`
	LHosts   map[string]string `json:"lhosts"`
	Res      []k8s.VRes        `json:"res"`
	Panic    string            `json:"panic,omitempty"`
}

type History struct {
	Label  string    `json:"label"`
	Events []Event   `json:"events"`
	Steps  []StepObs `json:"steps,omitempty"` // per step (main history only)
	Final  *StepObs  `json:"final,omitempty"`
}

// CtlStep is what the cluster sees when the same event goes through the real controller sync
type CtlStep struct {
	Events  []k8s.VEvent       `json:"events"`
	Writes  []k8s.VStatusWrite `json:"writes"`
	VErr    k8s.VErr           `json:"verr"`
	Probe   k8s.VProbe         `json:"probe"`
	Render  []k8s.VMaster      `json:"render"`
	Files   []string           `json:"files"`              // per-resource configuration files that exist after the step
	Served  []string           `json:"served"`             // the files that existed at the last reload: what NGINX runs
	PTStale bool               `json:"pt_stale,omitempty"` // tls-passthrough-hosts.conf changed since the last reload
	PT      [][2]string        `json:"pt"`                 // tls-passthrough-hosts.conf: host -> unix socket
	Hosts   map[string]string  `json:"hosts"`
	LHosts  map[string]string  `json:"lhosts"`
	Res     []k8s.VRes         `json:"res"`
}

// recMgr is the fake NGINX manager that remembers which configuration files exist.
type recMgr struct {
	*nginx.FakeManager
	conf, stream map[string]string
	passthrough  string
	// what NGINX runs: the files and the passthrough map as they were at the last reload
	served   []string
	servedPT string
	reloads  int
}

// Reload: NGINX reads the files that exist now
func (m *recMgr) Reload(isEndpointsUpdate bool) error {
	m.served, m.servedPT = m.files(), m.passthrough
	m.reloads++
	return m.FakeManager.Reload(isEndpointsUpdate)
}

func newRecMgr() *recMgr {
	return &recMgr{FakeManager: nginx.NewFakeManager("/etc/nginx"), conf: map[string]string{}, stream: map[string]string{}}
}

// like LocalManager, the Create* methods answer whether the content of the file changed
func (m *recMgr) CreateConfig(name string, content []byte) bool {
	old, had := m.conf[name]
	m.conf[name] = string(content)
	m.FakeManager.CreateConfig(name, content)
	return !had || old != string(content)
}
func (m *recMgr) DeleteConfig(name string) { delete(m.conf, name); m.FakeManager.DeleteConfig(name) }
func (m *recMgr) CreateStreamConfig(name string, content []byte) bool {
	old, had := m.stream[name]
	m.stream[name] = string(content)
	m.FakeManager.CreateStreamConfig(name, content)
	return !had || old != string(content)
}
func (m *recMgr) DeleteStreamConfig(name string) {
	delete(m.stream, name)
	m.FakeManager.DeleteStreamConfig(name)
}
func (m *recMgr) CreateTLSPassthroughHostsConfig(content []byte) bool {
	old := m.passthrough
	m.passthrough = string(content)
	m.FakeManager.CreateTLSPassthroughHostsConfig(content)
	return old != string(content)
}

// passthroughHosts parses tls-passthrough-hosts.conf: host -> unix socket
func (m *recMgr) passthroughHosts() [][2]string {
	out := [][2]string{}
	for _, line := range strings.Split(m.passthrough, "\n") {
		f := strings.Fields(strings.TrimSuffix(strings.TrimSpace(line), ";"))
		if len(f) == 2 && !strings.HasPrefix(f[0], "#") {
			out = append(out, [2]string{f[0], f[1]})
		}
	}
	sort.Slice(out, func(i, j int) bool { return out[i][0] < out[j][0] })
	return out
}
func (m *recMgr) files() []string {
	out := []string{}
	for n := range m.conf {
		out = append(out, "conf.d/"+n)
	}
	for n := range m.stream {
		out = append(out, "stream-conf.d/"+n)
	}
	sort.Strings(out)
	return out
}

// PolicyProbeObs: does the VirtualServer file contain the rule of the Policy before / after the Policy moved to another class
type PolicyProbeObs struct {
	Ran    bool `json:"ran"`
	Before bool `json:"before"`
	After  bool `json:"after"`
}

// LeaderObs is what the controller writes when it acquires leadership at the end of the history
type LeaderObs struct {
	Writes   []k8s.VStatusWrite `json:"writes"`
	Policies []k8s.VPolicy      `json:"policies"`
}

type Case struct {
	ID          int                `json:"id"`
	TLS         bool               `json:"tls_passthrough"`
	CertMgr     bool               `json:"cert_manager"`
	Histories   []History          `json:"histories"`
	Ctl         []CtlStep          `json:"ctl,omitempty"` // main history through LoadBalancerController.sync (with -ctl)
	Leader      *LeaderObs         `json:"leader,omitempty"`
	WeightProbe *k8s.VWeightProbe  `json:"weight_probe,omitempty"`
	WeightPend  *k8s.VWeightProbe  `json:"weight_probe_pending,omitempty"`
	WeightInv   []k8s.VWeightProbe `json:"weight_probe_invalid,omitempty"` // 2-way and 3-way split, weights edited to an invalid sum
	PolicyProbe *PolicyProbeObs    `json:"policy_probe,omitempty"`
	Error       string             `json:"error,omitempty"`
}

// ---------- building real objects ----------

func sp(s string) *string { return &s }

func buildIngress(s Spec) *networking.Ingress {
	ann := map[string]string{}
	if s.ClassAnn != nil {
		ann["kubernetes.io/ingress.class"] = *s.ClassAnn
	}
	if s.IngKind == "master" || s.IngKind == "minion" {
		ann["nginx.org/mergeable-ingress-type"] = s.IngKind
	}
	if s.AuthSecret != "" {
		ann["nginx.org/basic-auth-secret"] = s.AuthSecret
	}
	if strings.HasPrefix(s.ExtraAnn, "@") {
		// an annotation with an empty value under a key that varies: maps of the same size that differ in a key only
		ann["example.com/note-"+s.ExtraAnn[1:]] = ""
	} else if s.ExtraAnn != "" {
		ann["nginx.org/proxy-connect-timeout"] = s.ExtraAnn
	}
	labels := map[string]string{}
	if s.Challenge {
		labels["acme.cert-manager.io/http01-solver"] = "true"
	}
	var rules []networking.IngressRule
	pt := networking.PathTypePrefix
	for i, h := range s.Hosts {
		r := networking.IngressRule{Host: h}
		if i == 0 && len(s.Paths) > 0 {
			hv := &networking.HTTPIngressRuleValue{}
			for _, p := range s.Paths {
				hv.Paths = append(hv.Paths, networking.HTTPIngressPath{Path: p, PathType: &pt,
					Backend: networking.IngressBackend{Service: &networking.IngressServiceBackend{Name: "svc", Port: networking.ServiceBackendPort{Number: 80}}}})
			}
			r.HTTP = hv
		}
		rules = append(rules, r)
	}
	if s.Broken {
		rules = append(rules, networking.IngressRule{Host: ""})
	}
	ing := &networking.Ingress{
		ObjectMeta: metav1.ObjectMeta{Namespace: s.NS, Name: s.Name, UID: types.UID(s.UID), Generation: s.Gen,
			CreationTimestamp: metav1.Unix(s.TS, 0), Annotations: ann, Labels: labels},
		Spec: networking.IngressSpec{Rules: rules, IngressClassName: s.ClassField},
	}
	if s.DefBackend {
		ing.Spec.DefaultBackend = &networking.IngressBackend{Service: &networking.IngressServiceBackend{Name: "svc", Port: networking.ServiceBackendPort{Number: 80}}}
	}
	return ing
}

func retAction() *conf_v1.Action { return &conf_v1.Action{Return: &conf_v1.ActionReturn{Body: "ok"}} }

func buildVS(s Spec) *conf_v1.VirtualServer {
	vs := &conf_v1.VirtualServer{
		ObjectMeta: metav1.ObjectMeta{Namespace: s.NS, Name: s.Name, UID: types.UID(s.UID), Generation: s.Gen, CreationTimestamp: metav1.Unix(s.TS, 0)},
		Spec:       conf_v1.VirtualServerSpec{Host: s.Host},
	}
	if s.ClassField != nil {
		vs.Spec.IngressClass = *s.ClassField
	}
	for _, r := range s.Routes {
		rt := conf_v1.Route{Path: r[0]}
		if r[1] != "" {
			rt.Route = r[1]
		} else {
			rt.Action = retAction()
		}
		vs.Spec.Routes = append(vs.Spec.Routes, rt)
	}
	if s.Listener != nil {
		vs.Spec.Listener = &conf_v1.VirtualServerListener{HTTP: s.Listener[0], HTTPS: s.Listener[1]}
	}
	if s.Broken {
		vs.Spec.Routes = append(vs.Spec.Routes, conf_v1.Route{Path: "no-slash", Action: retAction()})
	}
	return vs
}

func buildVSR(s Spec) *conf_v1.VirtualServerRoute {
	vsr := &conf_v1.VirtualServerRoute{
		ObjectMeta: metav1.ObjectMeta{Namespace: s.NS, Name: s.Name, UID: types.UID(s.UID), Generation: s.Gen, CreationTimestamp: metav1.Unix(s.TS, 0)},
		Spec:       conf_v1.VirtualServerRouteSpec{Host: s.Host},
	}
	if s.ClassField != nil {
		vsr.Spec.IngressClass = *s.ClassField
	}
	for _, p := range s.Subpaths {
		vsr.Spec.Subroutes = append(vsr.Spec.Subroutes, conf_v1.Route{Path: p, Action: retAction()})
	}
	if s.Broken {
		vsr.Spec.Subroutes = append(vsr.Spec.Subroutes, conf_v1.Route{Path: "no-slash", Action: retAction()})
	}
	return vsr
}

func buildTS(s Spec) *conf_v1.TransportServer {
	ts := &conf_v1.TransportServer{
		ObjectMeta: metav1.ObjectMeta{Namespace: s.NS, Name: s.Name, UID: types.UID(s.UID), Generation: s.Gen, CreationTimestamp: metav1.Unix(s.TS, 0)},
		Spec: conf_v1.TransportServerSpec{
			Listener:  conf_v1.TransportServerListener{Name: s.LName, Protocol: s.Proto},
			Host:      s.Host,
			Upstreams: []conf_v1.TransportServerUpstream{{Name: "app", Service: "app-svc", Port: 1234}},
			Action:    &conf_v1.TransportServerAction{Pass: "app"},
		},
	}
	if s.ClassField != nil {
		ts.Spec.IngressClass = *s.ClassField
	}
	if s.Host != "" && s.Proto == "TCP" {
		ts.Spec.TLS = &conf_v1.TransportServerTLS{Secret: "tls-secret"}
	}
	if s.Broken {
		ts.Spec.Action = &conf_v1.TransportServerAction{Pass: "missing"}
	}
	return ts
}

func buildGC(s Spec) *conf_v1.GlobalConfiguration {
	gc := &conf_v1.GlobalConfiguration{ObjectMeta: metav1.ObjectMeta{Namespace: "nginx-ingress", Name: "globalconfiguration"}}
	for _, l := range s.Listeners {
		gc.Spec.Listeners = append(gc.Spec.Listeners, conf_v1.Listener{Name: l.Name, Port: l.Port, Protocol: l.Proto, IPv4: l.IPv4, IPv6: l.IPv6, Ssl: l.Ssl})
	}
	return gc
}

// ---------- running a history on the real Configuration ----------

func snapshot(a *k8s.VerifArb, withRes bool) StepObs {
	o := StepObs{Hosts: a.Hosts(), LHosts: a.LHosts()}
	if withRes {
		o.Res = a.Resources()
	}
	return o
}

func runHistory(a *k8s.VerifArb, h *History, perStep bool) (err error) {
	defer func() {
		if r := recover(); r != nil {
			err = fmt.Errorf("panic: %v", r)
		}
	}()
	for i := range h.Events {
		ev := &h.Events[i]
		s := ev.Spec
		var cs []k8s.ResourceChange
		var ps []k8s.ConfigurationProblem
		gcErr := false
		key := s.NS + "/" + s.Name
		switch {
		case s.Kind == "ing" && ev.Op == "upsert":
			o := buildIngress(s)
			ev.M = map[string]any{"e": "ing", "ing": a.Ing(o), "cls": a.ClassOK(o), "valid": a.ValidIngress(o)}
			cs, ps = a.C.AddOrUpdateIngress(o)
		case s.Kind == "ing":
			ev.M = map[string]any{"e": "del_ing", "key": key}
			cs, ps = a.C.DeleteIngress(key)
		case s.Kind == "vs" && ev.Op == "upsert":
			o := buildVS(s)
			ev.M = map[string]any{"e": "vs", "vs": a.VS(o), "cls": a.ClassOK(o), "valid": a.ValidVS(o)}
			cs, ps = a.C.AddOrUpdateVirtualServer(o)
		case s.Kind == "vs":
			ev.M = map[string]any{"e": "del_vs", "key": key}
			cs, ps = a.C.DeleteVirtualServer(key)
		case s.Kind == "vsr" && ev.Op == "upsert":
			o := buildVSR(s)
			ev.M = map[string]any{"e": "vsr", "vsr": a.VSR(o), "cls": a.ClassOK(o), "valid": a.ValidVSR(o)}
			cs, ps = a.C.AddOrUpdateVirtualServerRoute(o)
		case s.Kind == "vsr":
			ev.M = map[string]any{"e": "del_vsr", "key": key}
			cs, ps = a.C.DeleteVirtualServerRoute(key)
		case s.Kind == "ts" && ev.Op == "upsert":
			o := buildTS(s)
			ev.M = map[string]any{"e": "ts", "ts": a.TS(o), "cls": a.ClassOK(o), "valid": a.ValidTS(o)}
			cs, ps = a.C.AddOrUpdateTransportServer(o)
		case s.Kind == "ts":
			ev.M = map[string]any{"e": "del_ts", "key": key}
			cs, ps = a.C.DeleteTransportServer(key)
		case s.Kind == "gc" && ev.Op == "upsert":
			o := buildGC(s)
			var e error
			cs, ps, e = a.C.AddOrUpdateGlobalConfiguration(o)
			gcErr = e != nil
			// the validator rewrote o.Spec.Listeners in place: that list is what arbitration sees
			ev.M = map[string]any{"e": "gc", "listeners": k8s.VerifListeners(o.Spec.Listeners), "err": gcErr}
		case s.Kind == "gc":
			ev.M = map[string]any{"e": "del_gc"}
			cs, ps = a.C.DeleteGlobalConfiguration()
		}
		if perStep {
			o := snapshot(a, true)
			o.Changes, o.Problems, o.GCErr = a.Changes(cs), a.Problems(ps), gcErr
			h.Steps = append(h.Steps, o)
		}
	}
	f := snapshot(a, true)
	h.Final = &f
	return nil
}

// ---------- generator ----------

var (
	namespaces = []string{"ns1", "a-b"}
	names      = []string{"a", "b", "c"}
	hosts      = []string{"h1.example.com", "h2.example.com", "h3.example.com", "h4.example.com", "h5.example.com"}
	paths      = []string{"/a", "/b", "/a/b", "/c"}
	lnames     = []string{"l1", "l2", "l3", "dns-udp"}
	stamps     = []int64{1000, 1000, 2000, 3000}
)

type gen struct {
	r      *vh.Rng
	live   map[string]Spec // kind|ns/name -> current spec
	uidSeq int
	gcLive bool
	gcSpec Spec
	tls    bool
	cm     bool
}

func (g *gen) newUID() string { g.uidSeq++; return fmt.Sprintf("u%03d", g.uidSeq) }

func (g *gen) classFor(kind string) (ann *string, field *string) {
	r := g.r
	if kind == "ing" {
		switch r.Intn(12) {
		case 0:
			return sp("other"), nil
		case 1:
			return nil, sp("other")
		case 2:
			return nil, nil // no class at all: not ours
		case 3:
			return sp("nginx"), sp("other") // annotation wins
		case 4:
			return sp("other"), sp("nginx") // annotation wins: foreign
		case 5, 6, 7:
			return nil, sp("nginx")
		default:
			return sp("nginx"), nil
		}
	}
	switch r.Intn(8) {
	case 0:
		return nil, sp("other")
	case 1, 2:
		return nil, sp("")
	default:
		return nil, sp("nginx")
	}
}

func (g *gen) pickHosts(n int) []string {
	perm := append([]string{}, hosts...)
	for i := len(perm) - 1; i > 0; i-- {
		j := g.r.Intn(i + 1)
		perm[i], perm[j] = perm[j], perm[i]
	}
	return perm[:n]
}

func (g *gen) fresh(kind, ns, name string) Spec {
	r := g.r
	s := Spec{Kind: kind, NS: ns, Name: name, UID: g.newUID(), TS: vh.Pick(r, stamps), Gen: 1}
	s.ClassAnn, s.ClassField = g.classFor(kind)
	g.fill(&s)
	return s
}

// fill chooses the spec part (everything that bumps the generation)
func (g *gen) fill(s *Spec) {
	r := g.r
	s.Broken = r.Chance(1, 12)
	switch s.Kind {
	case "ing":
		switch r.Intn(10) {
		case 0, 1:
			s.IngKind = "master"
			s.Hosts = g.pickHosts(1)
			s.Paths = nil
		case 2, 3, 4:
			s.IngKind = "minion"
			s.Hosts = g.pickHosts(1)
			n := 1 + r.Intn(2)
			s.Paths = nil
			for _, p := range paths {
				if len(s.Paths) < n && r.Bool() {
					s.Paths = append(s.Paths, p)
				}
			}
			if len(s.Paths) == 0 {
				s.Paths = []string{vh.Pick(r, paths)}
			}
		default:
			s.IngKind = "regular"
			s.Hosts = g.pickHosts(1 + r.Intn(3))
			s.Paths = nil
			if r.Bool() {
				s.Paths = []string{vh.Pick(r, paths)}
			}
		}
		// only Ingress ns1/c may be a cert-manager challenge, and no VirtualServerRoute is ever called ns1/c:
		// the route synthesised from a challenge Ingress carries the Ingress's namespace/name, and a real
		// route of the same name would be confused with it by the code under test (out of scope here)
		s.Challenge = g.cm && s.IngKind == "regular" && s.NS == "ns1" && s.Name == "c" && r.Chance(1, 2)
		if s.Challenge {
			s.Hosts = s.Hosts[:1]
			// the token (and with it the route the Ingress is converted into) changes with every edit: an update in
			// place must reach the VirtualServer that serves the challenge.  An object of generation g always has the
			// same token, so that a delete-and-recreate (generation 1 again) does not change it: the converted route
			// carries namespace, name and generation only (finding F94b).
			s.Paths = []string{fmt.Sprintf("/.well-known/acme-challenge/tok%d", s.Gen%3)}
		}
	case "vs":
		s.Host = vh.Pick(r, hosts[:4])
		s.Routes = nil
		n := r.Intn(4)
		used := map[string]bool{}
		for i := 0; i < n; i++ {
			p := vh.Pick(r, []string{"/a", "/b", "/a/b", "=/a", "~ ^/a", "/"})
			if used[p] {
				continue
			}
			used[p] = true
			ref := ""
			if r.Chance(2, 3) {
				ref = vh.Pick(r, names)
				if r.Chance(1, 3) {
					ref = vh.Pick(r, namespaces) + "/" + ref
				}
			}
			s.Routes = append(s.Routes, [2]string{p, ref})
		}
		s.Listener = nil
		if r.Chance(1, 3) {
			s.Listener = &[2]string{vh.Pick(r, []string{"", "l1", "l2", "l3", "nope"}), vh.Pick(r, []string{"", "l1", "l2", "l3", "nope"})}
		}
	case "vsr":
		s.Host = vh.Pick(r, hosts[:4])
		n := 1 + r.Intn(2)
		s.Subpaths = nil
		used := map[string]bool{}
		for i := 0; i < n; i++ {
			// incl. exact / regex paths that merely START like the paths VirtualServer routes use
			p := vh.Pick(r, []string{"/a", "/a/x", "/a/b", "/a/b/c", "/b", "=/a", "~ ^/a", "/", "=/a-x", "~ ^/a/b", "=/a", "~ ^/a"})
			if used[p] {
				continue
			}
			used[p] = true
			s.Subpaths = append(s.Subpaths, p)
		}
	case "ts":
		wasPT := s.Proto == "TLS_PASSTHROUGH"
		if g.tls && (r.Chance(1, 3) || (s.Proto != "" && !wasPT && r.Chance(1, 3))) && !(wasPT && r.Chance(1, 2)) {
			s.LName, s.Proto = "tls-passthrough", "TLS_PASSTHROUGH"
			s.Host = vh.Pick(r, hosts[:4])
		} else {
			s.LName = vh.Pick(r, lnames)
			s.Proto = vh.Pick(r, []string{"TCP", "TCP", "UDP"})
			s.Host = ""
			if s.Proto == "TCP" && r.Chance(1, 3) {
				s.Host = vh.Pick(r, hosts[:3])
			}
		}
	}
}

func (g *gen) genListeners() []k8s.VListener {
	r := g.r
	n := r.Intn(6)
	var ls []k8s.VListener
	for i := 0; i < n; i++ {
		l := k8s.VListener{
			Name:  vh.Pick(r, []string{"l1", "l2", "l3", "dns-udp", "l1", "tls-passthrough", "Bad_Name"}),
			Port:  vh.Pick(r, []int{8080, 8443, 5353, 9000, 9000, 80, 443, 0, 70000}),
			Proto: vh.Pick(r, []string{"TCP", "UDP", "HTTP", "HTTP", "BOGUS"}),
			IPv4:  vh.Pick(r, []string{"", "", "127.0.0.1", "10.0.0.1", "999.1.1.1"}),
			IPv6:  vh.Pick(r, []string{"", "", "::1", "zz::1"}),
		}
		if l.Proto == "HTTP" {
			l.Ssl = r.Bool()
		}
		ls = append(ls, l)
	}
	return ls
}

// mutateListeners changes exactly one attribute of one listener (port / ipv4 / ipv6 / ssl / protocol / name)
func (g *gen) mutateListeners(ls []k8s.VListener) []k8s.VListener {
	r := g.r
	out := append([]k8s.VListener{}, ls...)
	if len(out) == 0 {
		return g.genListeners()
	}
	i := r.Intn(len(out))
	switch r.Intn(7) {
	case 0:
		out[i].Port = vh.Pick(r, []int{8080, 8443, 5353, 9000, 9001})
	case 1:
		out[i].IPv4 = vh.Pick(r, []string{"", "127.0.0.1", "10.0.0.1"})
	case 2:
		out[i].IPv6 = vh.Pick(r, []string{"", "::1", "fe80::1"})
	case 3:
		out[i].Ssl = !out[i].Ssl
	case 4:
		out[i].Proto = vh.Pick(r, []string{"TCP", "UDP", "HTTP"})
	case 5:
		out[i].Name = vh.Pick(r, lnames)
	default:
		out = append(out[:i], out[i+1:]...)
	}
	return out
}

func (g *gen) next() Event {
	r := g.r
	// GlobalConfiguration events
	if r.Chance(1, 7) {
		if g.gcLive && r.Chance(1, 5) {
			g.gcLive = false
			return Event{Op: "delete", Spec: Spec{Kind: "gc"}, Note: "delete"}
		}
		s := Spec{Kind: "gc"}
		note := "create"
		if g.gcLive && r.Chance(3, 4) {
			s.Listeners = g.mutateListeners(g.gcSpec.Listeners)
			note = "edit-one-attribute"
		} else {
			s.Listeners = g.genListeners()
		}
		g.gcLive, g.gcSpec = true, s
		return Event{Op: "upsert", Spec: s, Note: note}
	}
	kind := vh.Pick(r, []string{"ing", "ing", "ing", "vs", "vs", "vsr", "ts", "ts"})
	ns, name := vh.Pick(r, namespaces), vh.Pick(r, names)
	if kind == "vsr" && ns == "ns1" && name == "c" {
		name = "b"
	}
	if len(g.live) > 0 && r.Chance(2, 5) {
		// revisit an object that exists
		var ids []string
		for k := range g.live {
			ids = append(ids, k)
		}
		sort.Strings(ids)
		sp := g.live[vh.Pick(r, ids)]
		kind, ns, name = sp.Kind, sp.NS, sp.Name
	}
	id := kind + "|" + ns + "/" + name
	cur, exists := g.live[id]
	if !exists {
		if r.Chance(1, 10) {
			return Event{Op: "delete", Spec: Spec{Kind: kind, NS: ns, Name: name}, Note: "delete-absent"}
		}
		s := g.fresh(kind, ns, name)
		g.live[id] = s
		return Event{Op: "upsert", Spec: s, Note: "create"}
	}
	switch r.Intn(10) {
	case 0, 1:
		delete(g.live, id)
		return Event{Op: "delete", Spec: Spec{Kind: kind, NS: ns, Name: name}, Note: "delete"}
	case 2:
		// deleted and recreated before the worker ran: new UID, generation starts again
		if r.Bool() {
			// from the same manifest: everything but the identity of the object is equal
			s := cur
			s.UID, s.TS, s.Gen = g.newUID(), vh.Pick(r, stamps), 1
			g.live[id] = s
			return Event{Op: "upsert", Spec: s, Note: "recreate-same-spec"}
		}
		s := g.fresh(kind, ns, name)
		g.live[id] = s
		return Event{Op: "upsert", Spec: s, Note: "recreate"}
	case 3:
		// class flip only
		s := cur
		s.ClassAnn, s.ClassField = g.classFor(kind)
		if (s.ClassField == nil) != (cur.ClassField == nil) || (s.ClassField != nil && *s.ClassField != *cur.ClassField) {
			s.Gen++ // the field is part of the spec: the generation moves exactly when it changes
		}
		g.live[id] = s
		return Event{Op: "upsert", Spec: s, Note: "classflip"}
	case 4:
		if kind == "ing" {
			// annotation-only change: generation does not move
			s := cur
			s.ExtraAnn = vh.Pick(r, []string{"", "10s", "20s", "@a", "@b", "@c"})
			g.live[id] = s
			return Event{Op: "upsert", Spec: s, Note: "annotation"}
		}
		fallthrough
	case 5:
		// resync: identical object again
		return Event{Op: "upsert", Spec: cur, Note: "resync"}
	default:
		s := cur
		g.fill(&s)
		if sameSpec(s, cur) {
			// the random refill produced the same object: the generation does not move without a spec change
			return Event{Op: "upsert", Spec: cur, Note: "resync"}
		}
		s.Gen++
		g.live[id] = s
		return Event{Op: "upsert", Spec: s, Note: "update"}
	}
}

func sameSpec(a, b Spec) bool {
	a.Gen, b.Gen = 0, 0
	x, _ := json.Marshal(a)
	y, _ := json.Marshal(b)
	return string(x) == string(y)
}

// compositionSeed creates a master with minions that share paths and a VirtualServer with routes that
// reference VirtualServerRoutes by bare name and by namespace/name (sometimes the same route twice),
// so that the random events that follow act on composed resources.
func (g *gen) compositionSeed() []Event {
	r := g.r
	var out []Event
	put := func(s Spec) {
		s.UID, s.TS, s.Gen = g.newUID(), vh.Pick(r, stamps), 1
		g.live[s.Kind+"|"+s.NS+"/"+s.Name] = s
		out = append(out, Event{Op: "upsert", Spec: s, Note: "seed"})
	}
	nginx := sp("nginx")
	if r.Chance(2, 3) {
		h := vh.Pick(r, hosts[:3])
		put(Spec{Kind: "ing", NS: "ns1", Name: "a", ClassAnn: nginx, IngKind: "master", Hosts: []string{h}})
		put(Spec{Kind: "ing", NS: "ns1", Name: "b", ClassAnn: nginx, IngKind: "minion", Hosts: []string{h}, Paths: []string{"/a", vh.Pick(r, paths)}})
		put(Spec{Kind: "ing", NS: "a-b", Name: "c", ClassAnn: nginx, IngKind: "minion", Hosts: []string{h}, Paths: []string{vh.Pick(r, paths), "/c"}})
		if r.Bool() {
			put(Spec{Kind: "ing", NS: "a-b", Name: "a", ClassAnn: nginx, IngKind: "minion", Hosts: []string{vh.Pick(r, hosts[:3])}, Paths: []string{"/a"}})
		}
	}
	if r.Chance(2, 3) {
		h := vh.Pick(r, hosts[1:4])
		routes := [][2]string{{"/a", "b"}, {vh.Pick(r, []string{"/b", "/a/b", "=/a", "~ ^/a"}), "a-b/c"}}
		sub := vh.Pick(r, []string{"/a/x", "/a/b/c", "/a"})
		if r.Chance(1, 3) {
			// the same route referenced twice, by the same or by the other spelling of its name
			routes = append(routes, [2]string{"/a/b", vh.Pick(r, []string{"b", "ns1/b"})})
			if r.Bool() {
				sub = "/a/b/c" // lies under both referencing routes
			}
		}
		put(Spec{Kind: "vs", NS: "ns1", Name: "a", ClassField: nginx, Host: h, Routes: routes})
		put(Spec{Kind: "vsr", NS: "ns1", Name: "b", ClassField: nginx, Host: h, Subpaths: []string{sub}})
		sub2 := routes[1][0]
		if r.Chance(1, 4) {
			sub2 += "-x" // "=/a-x" under "=/a", "~ ^/a-x" under "~ ^/a", "/b-x" under "/b": only a prefix route admits it
		}
		put(Spec{Kind: "vsr", NS: "a-b", Name: "c", ClassField: nginx, Host: vh.Pick(r, []string{h, h, hosts[0]}), Subpaths: []string{sub2}})
	}
	// random order of the seed events: the composition must not depend on it
	for i := len(out) - 1; i > 0; i-- {
		j := r.Intn(i + 1)
		out[i], out[j] = out[j], out[i]
	}
	return out
}

// listenerSeed deploys a GlobalConfiguration with one listener of every kind and resources bound to each
// (a VirtualServer on the HTTP and HTTPS listeners, TransportServers on the TCP and UDP listeners), so that
// the single-attribute GlobalConfiguration edits that follow hit listeners that are in use.
func (g *gen) listenerSeed() []Event {
	r := g.r
	var out []Event
	put := func(s Spec) {
		s.UID, s.TS, s.Gen = g.newUID(), vh.Pick(r, stamps), 1
		g.live[s.Kind+"|"+s.NS+"/"+s.Name] = s
		out = append(out, Event{Op: "upsert", Spec: s, Note: "seed"})
	}
	nginx := sp("nginx")
	gc := Spec{Kind: "gc", Listeners: []k8s.VListener{
		{Name: "l1", Port: 8080, Proto: "HTTP", IPv4: vh.Pick(r, []string{"", "127.0.0.1"}), IPv6: vh.Pick(r, []string{"", "::1"})},
		{Name: "l2", Port: 8443, Proto: "HTTP", Ssl: true, IPv4: vh.Pick(r, []string{"", "127.0.0.1"}), IPv6: vh.Pick(r, []string{"", "::1"})},
		{Name: "l3", Port: 9000, Proto: "TCP", IPv4: vh.Pick(r, []string{"", "10.0.0.1"}), IPv6: vh.Pick(r, []string{"", "fe80::1"})},
		{Name: "dns-udp", Port: 5353, Proto: "UDP"},
	}}
	g.gcLive, g.gcSpec = true, gc
	out = append(out, Event{Op: "upsert", Spec: gc, Note: "seed"})
	put(Spec{Kind: "vs", NS: "a-b", Name: "b", ClassField: nginx, Host: hosts[4], Listener: &[2]string{"l1", "l2"}})
	put(Spec{Kind: "ts", NS: "ns1", Name: "b", ClassField: nginx, LName: "l3", Proto: "TCP"})
	put(Spec{Kind: "ts", NS: "a-b", Name: "b", ClassField: nginx, LName: "dns-udp", Proto: "UDP"})
	if r.Bool() {
		put(Spec{Kind: "ts", NS: "a-b", Name: "a", ClassField: nginx, LName: "l3", Proto: "TCP"})
	}
	for i := len(out) - 1; i > 0; i-- {
		j := r.Intn(i + 1)
		out[i], out[j] = out[j], out[i]
	}
	// a few edits right away, each changing exactly one of port / IPv4 / IPv6 of one listener that is in use
	for i := 0; i < 1+r.Intn(3); i++ {
		ls := append([]k8s.VListener{}, g.gcSpec.Listeners...)
		k := r.Intn(len(ls))
		switch r.Intn(3) {
		case 0:
			ls[k].Port = ls[k].Port + 1 + r.Intn(3)
		case 1:
			ls[k].IPv4 = vh.Pick(r, []string{"", "127.0.0.1", "10.0.0.1"})
		default:
			ls[k].IPv6 = vh.Pick(r, []string{"", "::1", "fe80::1"})
		}
		s := Spec{Kind: "gc", Listeners: ls}
		g.gcSpec = s
		out = append(out, Event{Op: "upsert", Spec: s, Note: "edit-one-attribute"})
	}
	return out
}

// episode is a short scripted run of consecutive events on the live state, of the kind that only matters when
// nothing else happens in between: a resource that loses a contest is deleted and created again at once (state
// cached per key must not survive the object); three minions contend for one path with key order different
// from age order; an orphan route or minion is deleted and re-created.
const nEpisodes = 16

// episode: which < 0 picks one at random
func (g *gen) episode(which int) []Event {
	r := g.r
	var out []Event
	nginx := sp("nginx")
	up := func(s Spec, note string) Spec {
		g.live[s.Kind+"|"+s.NS+"/"+s.Name] = s
		out = append(out, Event{Op: "upsert", Spec: s, Note: note})
		return s
	}
	del := func(s Spec) {
		delete(g.live, s.Kind+"|"+s.NS+"/"+s.Name)
		out = append(out, Event{Op: "delete", Spec: Spec{Kind: s.Kind, NS: s.NS, Name: s.Name}, Note: "delete"})
	}
	mk := func(kind, ns, name string, ts int64) Spec {
		s := Spec{Kind: kind, NS: ns, Name: name, UID: g.newUID(), TS: ts, Gen: 1}
		if kind == "ing" {
			s.ClassAnn = nginx
		} else {
			s.ClassField = nginx
		}
		return s
	}
	if which < 0 {
		which = r.Intn(nEpisodes)
	}
	switch which {
	case 10:
		// annotation-only edits (the generation does not move) of an Ingress that is being served, or of a minion that is
		// attached: keys with empty values come and go, the number of annotations stays the same
		h := vh.Pick(r, hosts[:3])
		var x Spec
		if r.Bool() {
			x = mk("ing", "ns1", "b", stamps[1])
			x.IngKind, x.Hosts = "regular", []string{h}
		} else {
			m := mk("ing", "ns1", "a", stamps[1])
			m.IngKind, m.Hosts = "master", []string{h}
			up(m, "episode-master")
			x = mk("ing", "a-b", "b", stamps[1])
			x.IngKind, x.Hosts, x.Paths = "minion", []string{h}, []string{"/a"}
		}
		x.ExtraAnn = "@a"
		x = up(x, "episode-annotated")
		for _, a := range []string{"@b", "@c", "10s", "@a"}[:2+r.Intn(3)] {
			x.ExtraAnn = a
			x = up(x, "annotation")
		}
	case 9:
		// objects of different kinds sharing namespace and name: a master (with a minion) and a VirtualServer or TLS
		// passthrough TransportServer called the same; the host passes from one to the other and back
		h := vh.Pick(r, hosts[:3])
		m := mk("ing", "ns1", "a", stamps[1])
		m.IngKind, m.Hosts = "master", []string{h}
		up(m, "episode-master")
		mi := mk("ing", "a-b", "a", stamps[1])
		mi.IngKind, mi.Hosts, mi.Paths = "minion", []string{h}, []string{"/a"}
		up(mi, "episode-minion")
		ok := vh.Pick(r, []string{"vs", "ts"})
		o := mk(ok, "ns1", "a", stamps[0]) // older: takes the host over
		if ok == "vs" {
			o.Host = h
		} else {
			o.Host, o.LName, o.Proto = h, "tls-passthrough", "TLS_PASSTHROUGH"
		}
		up(o, "episode-same-name-older")
		if r.Bool() {
			del(o) // and the master gets it back
		} else {
			del(m)
		}
	case 7:
		// one TransportServer takes a (listener, host) pair over and hands another one over in the same event:
		// b holds l1, a (older) holds l2 with c waiting behind it; a moves from l2 to l1 (or the mirror image)
		la, lb := "l3", "dns-tcp"
		if r.Bool() {
			la, lb = lb, la
		}
		gc := Spec{Kind: "gc", Listeners: []k8s.VListener{{Name: "l3", Port: 9000, Proto: "TCP"}, {Name: "dns-tcp", Port: 5353, Proto: "TCP"}}}
		g.gcLive, g.gcSpec = true, gc
		out = append(out, Event{Op: "upsert", Spec: gc, Note: "episode-gc"})
		tb := mk("ts", "a-b", "b", 2000)
		tb.LName, tb.Proto = la, "TCP"
		up(tb, "episode-ts-holder")
		ta := mk("ts", "ns1", "a", 1000)
		ta.LName, ta.Proto = lb, "TCP"
		ta = up(ta, "episode-ts-older")
		tc := mk("ts", "ns1", "c", 3000)
		tc.LName, tc.Proto = lb, "TCP"
		up(tc, "episode-ts-waiting")
		ta.Gen++
		ta.LName = la
		up(ta, "episode-ts-moves")
	case 8:
		// a cert-manager challenge Ingress is edited in place: the VirtualServer serving the challenge follows
		if g.cm {
			h := vh.Pick(r, hosts[:3])
			v := mk("vs", "ns1", "a", stamps[0])
			v.Host = h
			up(v, "episode-vs")
			ci := mk("ing", "ns1", "c", stamps[1])
			ci.IngKind, ci.Hosts, ci.Challenge = "regular", []string{h}, true
			ci.Paths = []string{"/.well-known/acme-challenge/tok1"}
			ci = up(ci, "episode-challenge")
			for i := 0; i < 1+r.Intn(2); i++ {
				ci.Gen++
				ci.Paths = []string{fmt.Sprintf("/.well-known/acme-challenge/tok%d", ci.Gen%3)}
				ci = up(ci, "episode-challenge-edit")
			}
		}
	case 4:
		// three TransportServers of different age on one listener (the controller walks them in map order)
		gc := Spec{Kind: "gc", Listeners: []k8s.VListener{{Name: "l3", Port: 9000, Proto: "TCP"}, {Name: "dns-udp", Port: 5353, Proto: "UDP"}}}
		g.gcLive, g.gcSpec = true, gc
		out = append(out, Event{Op: "upsert", Spec: gc, Note: "episode-gc"})
		ages := []int64{1000, 2000, 3000}
		for i := len(ages) - 1; i > 0; i-- {
			j := r.Intn(i + 1)
			ages[i], ages[j] = ages[j], ages[i]
		}
		for i, nn := range [][2]string{{"ns1", "a"}, {"a-b", "b"}, {"ns1", "c"}} {
			t := mk("ts", nn[0], nn[1], ages[i])
			t.LName, t.Proto = "l3", "TCP"
			up(t, "episode-ts-same-listener")
		}
		// touch one of them a few times: every event rebuilds the listener hosts
		for i := 0; i < 2+r.Intn(3); i++ {
			// the same object again (a re-sync): a handler may drop it, the arbitration rebuilds anyway
			t := g.live["ts|ns1/c"]
			up(t, "episode-ts-touch")
		}
	case 5, 6:
		// a route is attached, edited, orphaned and attached again: its status must follow
		h := vh.Pick(r, hosts[:3])
		v := mk("vs", "ns1", "a", stamps[0])
		v.Host, v.Routes = h, [][2]string{{"/a", "b"}}
		up(v, "episode-vs")
		rt := mk("vsr", "ns1", "b", stamps[1])
		rt.Host, rt.Subpaths = h, []string{"/a/x"}
		rt = up(rt, "episode-vsr")
		rt.Gen++
		rt.Subpaths = []string{"/a/y"}
		rt = up(rt, "episode-vsr-edit")
		del(v)
		v2 := mk("vs", "ns1", "a", stamps[0])
		v2.Host, v2.Routes = h, [][2]string{{"/a", "b"}}
		up(v2, "episode-vs-again")
		if r.Bool() {
			rt.Gen++
			rt.Subpaths = []string{"/a/z"}
			up(rt, "episode-vsr-edit")
			del(v2)
		}
	case 0, 1:
		// winner and loser of one host; the loser goes away and comes back
		h := vh.Pick(r, hosts)
		kinds := []string{"vs", "ing", "ts"}
		wk, lk := vh.Pick(r, kinds), vh.Pick(r, kinds)
		fillHost := func(s *Spec) {
			switch s.Kind {
			case "vs":
				s.Host = h
			case "ing":
				s.IngKind, s.Hosts = "regular", []string{h}
			case "ts":
				s.Host, s.LName, s.Proto = h, "tls-passthrough", "TLS_PASSTHROUGH"
			}
		}
		w := mk(wk, "ns1", "a", stamps[0])
		fillHost(&w)
		up(w, "episode-winner")
		l := mk(lk, "a-b", "b", stamps[len(stamps)-1])
		fillHost(&l)
		up(l, "episode-loser")
		del(l)
		l2 := mk(lk, "a-b", "b", stamps[len(stamps)-1])
		fillHost(&l2)
		up(l2, "episode-loser-again")
		if r.Bool() {
			del(w) // and the loser finally wins
		}
	case 11:
		// a minion loses one of its paths to an older minion, keeps another one, and the Configurator has a warning of its
		// own about it (its basic-auth Secret does not exist): the report must name both
		h := vh.Pick(r, hosts[:3])
		m := mk("ing", "ns1", "a", stamps[1])
		m.IngKind, m.Hosts = "master", []string{h}
		up(m, "episode-master")
		a := mk("ing", "a-b", "a", stamps[0])
		a.IngKind, a.Hosts, a.Paths = "minion", []string{h}, []string{"/a"}
		up(a, "episode-minion-older")
		b := mk("ing", "a-b", "b", stamps[len(stamps)-1])
		b.IngKind, b.Hosts, b.Paths, b.AuthSecret = "minion", []string{h}, []string{"/a", "/b"}, "no-such-secret"
		b = up(b, "episode-minion-loses-a-path")
		if r.Bool() {
			b.Gen++
			b.Paths = []string{"/a", "/c"}
			up(b, "episode-minion-edit")
		}
	case 12:
		// the referencing route is written with a trailing slash: "/a/" delegates "/a/..." and nothing else, a route
		// whose subroute merely starts with "/a" ("/ab", "/a-x") is not under it
		h := vh.Pick(r, hosts[:3])
		v := mk("vs", "ns1", "a", stamps[0])
		v.Host, v.Routes = h, [][2]string{{"/a/", "b"}}
		up(v, "episode-vs-trailing-slash")
		rt := mk("vsr", "ns1", "b", stamps[1])
		rt.Host, rt.Subpaths = h, []string{"/a/x"}
		rt = up(rt, "episode-vsr")
		rt.Gen++
		rt.Subpaths = []string{vh.Pick(r, []string{"/ab", "/a-x", "/ab/x"})}
		rt = up(rt, "episode-vsr-sibling-of-the-prefix")
		if r.Bool() {
			rt.Gen++
			rt.Subpaths = []string{"/a/", "/a/y"}
			up(rt, "episode-vsr-edit")
		}
	case 13:
		// one hostname in two spellings: the custom resources' validators accept lower case only, so the older
		// VirtualServer / TransportServer that writes the host with capitals is rejected and never owns anything
		h := vh.Pick(r, hosts[:3])
		H := strings.ToUpper(h[:1]) + h[1:3] + strings.ToUpper(h[3:4]) + h[4:]
		ok := vh.Pick(r, []string{"vs", "vs", "ts"})
		o := mk(ok, "ns1", "a", stamps[0])
		if ok == "vs" {
			o.Host = H
		} else {
			o.Host, o.LName, o.Proto = H, "tls-passthrough", "TLS_PASSTHROUGH"
		}
		up(o, "episode-capitals-older")
		yk := vh.Pick(r, []string{"vs", "ing", "ts"})
		y := mk(yk, "a-b", "b", stamps[len(stamps)-1])
		switch yk {
		case "vs":
			y.Host = h
		case "ing":
			y.IngKind, y.Hosts = "regular", []string{h}
		case "ts":
			y.Host, y.LName, y.Proto = h, "tls-passthrough", "TLS_PASSTHROUGH"
		}
		up(y, "episode-lower-case-younger")
		if r.Bool() {
			o.Gen++
			o.Host = h
			up(o, "episode-capitals-corrected")
		}
	case 14:
		// two cert-manager solver Ingresses for one host at once (two certificates being issued for the same name): the
		// VirtualServer that owns the host serves both challenges; when one goes the other stays
		if g.cm {
			h := vh.Pick(r, hosts[:3])
			v := mk("vs", "ns1", "a", stamps[0])
			v.Host = h
			up(v, "episode-vs")
			c1 := mk("ing", "ns1", "c", stamps[1])
			c1.IngKind, c1.Hosts, c1.Challenge, c1.Paths = "regular", []string{h}, true, []string{"/.well-known/acme-challenge/tok1"}
			up(c1, "episode-challenge")
			c2 := mk("ing", "a-b", "d", stamps[2])
			c2.IngKind, c2.Hosts, c2.Challenge, c2.Paths = "regular", []string{h}, true, []string{"/.well-known/acme-challenge/tokB"}
			up(c2, "episode-second-challenge-same-host")
			if r.Bool() {
				del(c1)
			} else {
				del(c2)
			}
		}
	case 15:
		// a minion that carries spec.defaultBackend (legal; "/" must never be generated for it) beside a minion that owns a path
		h := vh.Pick(r, hosts[:3])
		m := mk("ing", "ns1", "a", stamps[1])
		m.IngKind, m.Hosts = "master", []string{h}
		up(m, "episode-master")
		a := mk("ing", "a-b", "a", stamps[0])
		a.IngKind, a.Hosts, a.Paths, a.DefBackend = "minion", []string{h}, []string{"/a"}, true
		a = up(a, "episode-minion-with-default-backend")
		b := mk("ing", "a-b", "b", stamps[2])
		b.IngKind, b.Hosts, b.Paths = "minion", []string{h}, []string{"/b"}
		up(b, "episode-minion")
		// render again: the same objects must give the same composition
		up(a, "episode-minion-resync")
	case 2:
		// three minions on one path; the first in key order is the youngest
		h := vh.Pick(r, hosts[:3])
		m := mk("ing", "ns1", "a", stamps[1])
		m.IngKind, m.Hosts = "master", []string{h}
		up(m, "episode-master")
		ages := []int64{stamps[len(stamps)-1], stamps[0], stamps[1]}
		if r.Bool() {
			ages = []int64{stamps[1], stamps[len(stamps)-1], stamps[0]}
		}
		for i, nn := range [][2]string{{"a-b", "a"}, {"a-b", "b"}, {"ns1", "b"}} {
			mi := mk("ing", nn[0], nn[1], ages[i])
			mi.IngKind, mi.Hosts, mi.Paths = "minion", []string{h}, []string{"/a"}
			up(mi, "episode-minion")
		}
	default:
		// an orphan route / minion is told why, goes away and comes back
		if r.Bool() {
			o := mk("vsr", "a-b", "a", stamps[1])
			o.Host, o.Subpaths = "orphan.example.com", []string{"/x"}
			up(o, "episode-orphan")
			del(o)
			o2 := mk("vsr", "a-b", "a", stamps[1])
			o2.Host, o2.Subpaths = "orphan.example.com", []string{"/x"}
			up(o2, "episode-orphan-again")
		} else {
			o := mk("ing", "a-b", "a", stamps[1])
			o.IngKind, o.Hosts, o.Paths = "minion", []string{"orphan.example.com"}, []string{"/x"}
			up(o, "episode-orphan")
			del(o)
			o2 := mk("ing", "a-b", "a", stamps[1])
			o2.IngKind, o2.Hosts, o2.Paths = "minion", []string{"orphan.example.com"}, []string{"/x"}
			up(o2, "episode-orphan-again")
		}
	}
	return out
}

func keyOf(e Event) string {
	if e.Spec.Kind == "gc" {
		return "gc"
	}
	return e.Spec.Kind + "|" + e.Spec.NS + "/" + e.Spec.Name
}

// interleave returns a random re-ordering of evs that preserves the order of events on the same key
func interleave(r *vh.Rng, evs []Event) []Event {
	byKey := map[string][]Event{}
	var keys []string
	for _, e := range evs {
		k := keyOf(e)
		if _, ok := byKey[k]; !ok {
			keys = append(keys, k)
		}
		byKey[k] = append(byKey[k], e)
	}
	sort.Strings(keys)
	var out []Event
	for len(keys) > 0 {
		i := r.Intn(len(keys))
		k := keys[i]
		out = append(out, byKey[k][0])
		byKey[k] = byKey[k][1:]
		if len(byKey[k]) == 0 {
			keys = append(keys[:i], keys[i+1:]...)
		}
	}
	return out
}

// lastOnly keeps the last event of every key, in random order
func lastOnly(r *vh.Rng, evs []Event) []Event {
	last := map[string]Event{}
	var keys []string
	for _, e := range evs {
		k := keyOf(e)
		if _, ok := last[k]; !ok {
			keys = append(keys, k)
		}
		last[k] = e
	}
	sort.Strings(keys)
	for i := len(keys) - 1; i > 0; i-- {
		j := r.Intn(i + 1)
		keys[i], keys[j] = keys[j], keys[i]
	}
	var out []Event
	for _, k := range keys {
		out = append(out, last[k])
	}
	return out
}

func clearM(evs []Event) []Event {
	out := make([]Event, len(evs))
	for i, e := range evs {
		e.M = nil
		out[i] = e
	}
	return out
}

func genCase(r *vh.Rng, id int, tier string) Case {
	c := Case{ID: id, TLS: !r.Chance(1, 5), CertMgr: !r.Chance(1, 4)}
	g := &gen{r: r, live: map[string]Spec{}, tls: c.TLS, cm: c.CertMgr}
	n := 1 + r.Intn(24)
	if r.Chance(1, 6) {
		n = 25 + r.Intn(16)
	}
	var evs []Event
	if r.Chance(2, 5) {
		evs = append(evs, g.compositionSeed()...)
	}
	if r.Chance(2, 5) {
		evs = append(evs, g.listenerSeed()...)
	}
	at, which := -1, -1
	if r.Chance(1, 3) {
		at = r.Intn(n)
	}
	if id >= 20 && id < 20+2*nEpisodes {
		// every scripted episode occurs in two early cases whatever the seed; the passthrough / cert-manager ones with the flag on
		at, which = r.Intn(n), (id-20)%nEpisodes
		g.tls, g.cm, c.TLS, c.CertMgr = true, true, true, true
	}
	for i := 0; i < n; i++ {
		if i == at {
			evs = append(evs, g.episode(which)...)
		}
		evs = append(evs, g.next())
	}
	c.Histories = []History{{Label: "main", Events: evs}}
	c.Histories = append(c.Histories, History{Label: "interleaved", Events: interleave(r, clearM(evs))})
	c.Histories = append(c.Histories, History{Label: "last-only", Events: lastOnly(r, clearM(evs))})
	if tier == "thorough" {
		c.Histories = append(c.Histories, History{Label: "interleaved2", Events: interleave(r, clearM(evs))})
	}
	return c
}

// erased is the history with every event on an object whose class designates another controller
// replaced by the deletion of that object (C16: the two must be indistinguishable)
func erased(evs []Event) []Event {
	out := make([]Event, len(evs))
	for i, e := range evs {
		cls, has := e.M["cls"].(bool)
		if e.Op == "upsert" && has && !cls {
			out[i] = Event{Op: "delete", Spec: Spec{Kind: e.Spec.Kind, NS: e.Spec.NS, Name: e.Spec.Name}, Note: "erased-foreign-class"}
		} else {
			e.M = nil
			out[i] = e
		}
	}
	return out
}

func runCase(c *Case) {
	anns := map[string]int{}
	// drop an "erased" history of a replayed case: it is recomputed
	if n := len(c.Histories); n > 0 && c.Histories[n-1].Label == "erased" {
		c.Histories = c.Histories[:n-1]
	}
	for i := range c.Histories {
		h := &c.Histories[i]
		h.Steps, h.Final = nil, nil
		a := k8s.VerifNewArb("nginx", c.TLS, c.CertMgr, anns)
		if err := runHistory(a, h, i == 0); err != nil {
			c.Error = fmt.Sprintf("history %s: %v", h.Label, err)
			return
		}
	}
	er := History{Label: "erased", Events: erased(c.Histories[0].Events)}
	a := k8s.VerifNewArb("nginx", c.TLS, c.CertMgr, anns)
	if err := runHistory(a, &er, true); err != nil {
		c.Error = fmt.Sprintf("history erased: %v", err)
		return
	}
	c.Histories = append(c.Histories, er)
	if *ctlMode {
		if err := runCtl(c, anns); err != nil {
			c.Error = fmt.Sprintf("controller run: %v", err)
		}
	}
}

func repoDir() string {
	if d := os.Getenv("VERIF_REPO"); d != "" {
		return d
	}
	return "/repo"
}

// runCtl sends the main history through the real controller: informer store mutation, then lbc.sync.
func runCtl(c *Case, anns map[string]int) (err error) {
	defer func() {
		if r := recover(); r != nil {
			err = fmt.Errorf("panic: %v\n%s", r, debug.Stack())
		}
	}()
	mgr := newRecMgr()
	cnf, err := configs.VerifC12NewConfigurator(repoDir(), mgr, false, false)
	if err != nil {
		return err
	}
	// every fourth case runs the controller with -watch-namespace (all the namespaces in use, not the controller's own)
	v := k8s.VerifCtlNew(cnf, "nginx", c.TLS, c.CertMgr, anns, c.ID%4 == 1)
	c.Ctl = nil
	for _, ev := range c.Histories[0].Events {
		s := ev.Spec
		key := s.NS + "/" + s.Name
		var obj interface{}
		if ev.Op == "upsert" {
			switch s.Kind {
			case "ing":
				obj = buildIngress(s)
			case "vs":
				obj = buildVS(s)
			case "vsr":
				obj = buildVSR(s)
			case "ts":
				obj = buildTS(s)
			case "gc":
				obj = buildGC(s)
			}
		}
		if s.Kind == "gc" {
			key = k8s.VerifGCKey
		}
		evs, writes, verr, err := v.Apply(s.Kind, key, obj)
		if err != nil {
			return err
		}
		c.Ctl = append(c.Ctl, CtlStep{Events: evs, Writes: writes, VErr: verr, Probe: v.LastProbe, Render: v.Mergeable(), Files: mgr.files(), Served: append([]string{}, mgr.served...), PTStale: mgr.servedPT != mgr.passthrough, PT: mgr.passthroughHosts(), Hosts: v.Arb.Hosts(), LHosts: v.Arb.LHosts(), Res: v.Arb.Resources()})
	}
	wp := v.WeightProbe()
	c.WeightProbe = &wp
	wpp := v.WeightProbePending()
	c.WeightPend = &wpp
	c.WeightInv = []k8s.VWeightProbe{v.WeightProbeInvalid(2), v.WeightProbeInvalid(3)}
	// a Policy in use moves to another class: the rule it contributed must leave the VirtualServer
	pp := &PolicyProbeObs{}
	if err := v.PolicyProbe(1, c.ID); err == nil {
		pp.Before = strings.Contains(mgr.conf["vs_pp_cafe"], "deny 10.11.12.13;")
		if err := v.PolicyProbe(2, c.ID); err == nil {
			pp.After = strings.Contains(mgr.conf["vs_pp_cafe"], "deny 10.11.12.13;")
			pp.Ran = true
		}
	}
	_ = v.PolicyProbe(3, c.ID)
	c.PolicyProbe = pp
	c.Leader = &LeaderObs{Writes: v.Leader(), Policies: k8s.VerifPolicies}
	return nil
}

var ctlMode = flag.Bool("ctl", false, "also run the main history through the real LoadBalancerController.sync")

func main() {
	a := vh.ParseArgs()
	var cases []Case
	if a.Replay != "" {
		if err := vh.ReadReplay(a.Replay, &cases); err != nil {
			fmt.Fprintln(os.Stderr, err)
			os.Exit(3)
		}
	} else {
		root := vh.NewRng(a.Seed)
		for i := 0; i < a.N; i++ {
			cases = append(cases, genCase(root.Fork(uint64(i)), i, a.Tier))
		}
	}
	w, err := vh.NewWriter(a.Out)
	if err != nil {
		fmt.Fprintln(os.Stderr, err)
		os.Exit(3)
	}
	for i := range cases {
		runCase(&cases[i])
		w.Emit(cases[i])
	}
	w.Close()
}
