(* C13 -- model of internal/nginx/verify.go (GetConfigVersion, WaitForCorrectVersion),
   of LocalManager.Reload's version counter and of the version guard in front of the
   NGINX Plus API (internal/nginx/manager.go verifyConfigVersion / UpdateServersInPlus).

   Time is Z milliseconds.  The version endpoint is an arbitrary total function from the
   request index to a response (so schedules are unbounded / infinite); every response has
   a latency.  Nothing in this file is a proof; see Verify/Proofs.v. *)
From Coq Require Import List ZArith String Ascii Bool.
Import ListNotations.
Open Scope Z_scope.

(* ---------- strconv.Atoi (base 10, 64-bit int) ---------- *)

Definition digit_of (c : ascii) : option Z :=
  let n := Z.of_nat (nat_of_ascii c) in
  if (48 <=? n) && (n <=? 57) then Some (n - 48) else None.

Fixpoint digits_val (acc : Z) (s : string) : option Z :=
  match s with
  | EmptyString => Some acc
  | String c rest =>
      match digit_of c with
      | Some d => digits_val (acc * 10 + d) rest
      | None => None
      end
  end.

Definition max_int64 : Z := 9223372036854775807.
Definition min_int64 : Z := -9223372036854775808.

(* Go: optional single sign, then at least one decimal digit, nothing else; out of
   range is an error.  (Underscores are only legal with base 0, Atoi uses base 10.) *)
Definition atoi (s : string) : option Z :=
  let unsigned (neg : bool) (t : string) :=
    match t with
    | EmptyString => None
    | _ => match digits_val 0 t with
           | Some v => let r := if neg then - v else v in
                       if (min_int64 <=? r) && (r <=? max_int64) then Some r else None
           | None => None
           end
    end in
  match s with
  | EmptyString => None
  | String c rest =>
      if Ascii.eqb c "+"%char then unsigned false rest
      else if Ascii.eqb c "-"%char then unsigned true rest
      else unsigned false s
  end.

(* ---------- responses of the version endpoint ---------- *)

Inductive resp :=
| ConnErr (lat : Z)                         (* transport error: no HTTP answer *)
| Http (status : Z) (body : string) (lat : Z).

Definition lat (r : resp) : Z :=
  match r with ConnErr l => l | Http _ _ l => l end.

(* GetConfigVersion: Some v = returned (v, nil); None = returned an error. *)
Definition classify (r : resp) : option Z :=
  match r with
  | ConnErr _ => None
  | Http st body _ => if st =? 200 then atoi body else None
  end.

Definition interval : Z := 25.

Inductive outcome :=
| Acked (idx : nat)        (* returned nil after the response to request number idx *)
| TimedOut (nreq : nat)    (* returned the could-not-get-expected-version error after nreq requests *)
| OutOfFuel.               (* artefact of the fuel; excluded by wait_fuel_enough *)

(* WaitForCorrectVersion.  [sched i] is the answer to the i-th request.
   for time.Now().Before(endTime) { v, err := Get(); if err != nil {continue};
     if v == expected {return nil}; time.Sleep(interval) } ; return error *)
Fixpoint wait (fuel : nat) (sched : nat -> resp) (expected deadline now : Z) (i : nat) : outcome :=
  if now <? deadline then
    match fuel with
    | O => OutOfFuel
    | S f =>
        let r := sched i in
        let now' := now + lat r in
        match classify r with
        | None => wait f sched expected deadline now' (S i)
        | Some v => if v =? expected then Acked i
                    else wait f sched expected deadline (now' + interval) (S i)
        end
    end
  else TimedOut i.

(* The time at which request number i would start if none of the requests before it
   ended the wait (start of the poll = t0). *)
Fixpoint start_time (sched : nat -> resp) (t0 : Z) (i : nat) : Z :=
  match i with
  | O => t0
  | S j =>
      let r := sched j in
      start_time sched t0 j + lat r +
      match classify r with None => 0 | Some _ => interval end
  end.

(* ---------- the reload counter (LocalManager.Reload) ---------- *)

Record mgr := { version : Z }.

Inductive reload_result := ReloadOk | ReloadShellFailed | ReloadNotConfirmed.

(* One Reload: the counter is incremented and the version file written *before* the
   binary is signalled; [shell_ok] is the outcome of `nginx -s reload`, [sched] the
   version endpoint during this reload.  Returns the new manager, the version written
   to config-version.conf, and the result. *)
Definition reload (timeout : Z) (fuel : nat) (m : mgr) (shell_ok : bool) (sched : nat -> resp)
  : mgr * Z * reload_result :=
  let v := version m + 1 in
  let m' := {| version := v |} in
  if shell_ok then
    match wait fuel sched v timeout 0 0 with
    | Acked _ => (m', v, ReloadOk)
    | _ => (m', v, ReloadNotConfirmed)
    end
  else (m', v, ReloadShellFailed).

Fixpoint reloads (timeout : Z) (fuel : nat) (m : mgr)
         (script : list (bool * (nat -> resp))) : list (Z * reload_result) :=
  match script with
  | [] => []
  | (ok, sched) :: rest =>
      let '(m', v, res) := reload timeout fuel m ok sched in
      (v, res) :: reloads timeout fuel m' rest
  end.

(* ---------- Plus API guard (UpdateServersInPlus / UpdateStreamServersInPlus) ---------- *)

Inductive api_action := ApiCall (expected_header : Z) | ApiSkippedWithError.

(* verifyConfigVersion sends x-expected-config-version: <configVersion>; NGINX answers
   200 only from a worker whose map matches (config-version.conf).  The API call is made
   only after a 200. *)
Definition plus_update (m : mgr) (check : resp) : api_action :=
  match check with
  | ConnErr _ => ApiSkippedWithError
  | Http st _ _ => if st =? 200 then ApiCall (version m) else ApiSkippedWithError
  end.

(* ---------- config-version.conf (configVersionTemplateString) ---------- *)

Fixpoint pos_digits (fuel : nat) (n : Z) (acc : string) : string :=
  match fuel with
  | O => acc
  | S f =>
      let d := ascii_of_nat (Z.to_nat (48 + n mod 10)) in
      let acc' := String d acc in
      if n / 10 =? 0 then acc' else pos_digits f (n / 10) acc'
  end.

(* decimal rendering of a Go int as html/template prints it *)
Definition show_Z (n : Z) : string :=
  if n <? 0 then String "-"%char (pos_digits 25 (- n) EmptyString)
  else pos_digits 25 n EmptyString.

Definition nl : string := String (ascii_of_nat 10) EmptyString.
Definition tab : string := String (ascii_of_nat 9) EmptyString.

Definition version_conf (v : Z) (open_tracing : bool) : string :=
  ("server {" ++ nl ++
   "    listen unix:/var/lib/nginx/nginx-config-version.sock;" ++ nl ++
   tab ++ "access_log off;" ++ nl ++
   nl ++
   tab ++ (if open_tracing then nl ++ tab ++ "opentracing off;" ++ nl ++ tab else "") ++ nl ++
   nl ++
   "    location /configVersion {" ++ nl ++
   "        return 200 " ++ show_Z v ++ ";" ++ nl ++
   "    }" ++ nl ++
   "}" ++ nl ++
   "map $http_x_expected_config_version $config_version_mismatch {" ++ nl ++
   tab ++ """" ++ show_Z v ++ """ """";" ++ nl ++
   tab ++ "default ""mismatch"";" ++ nl ++
   "}")%string.
