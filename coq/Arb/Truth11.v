(* C05 truth proof, part 11: a standing host-side problem means the object is not applied *)
From Coq Require Import List ZArith String Ascii Bool Lia.
From NIC Require Import Base.SMap Arb.Types Arb.Model Arb.Spec Arb.WinsProofs Arb.InvProofs Arb.OwnerProofs
     Arb.ListenerProofs Arb.ClassProofs Arb.ChangeProofs Arb.ReportProofs Arb.ComposeProofs Arb.Cases Arb.ShadowProofs Arb.ShadowAttrs.
From NIC Require Import Arb.Truth01 Arb.Truth02 Arb.Truth03 Arb.Truth04 Arb.Truth05 Arb.Truth06 Arb.Truth07 Arb.Truth08 Arb.Truth09 Arb.Truth10.
Import ListNotations.
Open Scope string_scope.
Open Scope Z_scope.

Section Static.
  Variables (c : cfg) (o : objs).
  Hypothesis Hcm : cert_manager c = false.
  Hypothesis Hok : objs_ok o.
  Hypothesis Hr : roles_ok o.
  Hypothesis Hwf : objs_wf c o.
  Let B := build c (o_ings o) (o_vss o) (o_vsrs o) (o_tss o) (o_gc o).
  Let H := hosts_of_objs c o.

  (* a key of the listener map is the key of a stored listener TransportServer *)
  Lemma lkey_in k : key_in (smap_map RTS (lhosts_of_objs o)) k ->
    exists k0 t, In (k0, t) (o_tss o) /\ is_listener_ts t = true /\ k = ts_rkey t.
  Proof.
    intros (h & r & Hh & Hk). rewrite lookup_smap_map in Hh. destruct (lookup h (lhosts_of_objs o)) as [tc|] eqn:E; [|discriminate].
    cbn in Hh. inversion Hh; subst r. destruct (lhosts_ts_listener o h tc E) as [(k0 & Hst) Hl]. exists k0, (tc_ts tc). rewrite <- Hk. auto.
  Qed.

  Lemma hkey_in k : key_in H k -> exists r, lookup k (b_res B) = Some r.
  Proof. intros (h & r & Hh & Hk). exists r. rewrite <- Hk. exact (b_hosts_res _ _ _ _ _ _ _ _ Hh). Qed.

  Theorem hprob_not_applied k p : lookup k (hprobs_of_objs c o) = Some p -> ~ ApO c o k.
  Proof.
    intros L HA. destruct Hok as (W1 & W2 & W3 & W4 & K1 & K2 & K3 & K4).
    destruct (hprob_cases c o k p L) as [Hin|[Hin|Hin]].
    - (* no host *)
      unfold problems_no_host in Hin. apply in_filter_map in Hin. destruct Hin as ([k0 r] & Hres & Hf). cbn [fst snd] in Hf.
      apply In_lookup in Hres; [|apply wf_b_res].
      assert (k0 = k).
      { destruct r as [ic|vc|tc]; match type of Hf with (if ?b then _ else _) = _ => destruct b end; inversion Hf; reflexivity. }
      subst k0. pose proof (res_kind c o Hcm Hok k r Hres) as Hkind.
      destruct HA as [HA|[HA|[(h & ic & m & Hh & Hm & E)|(h & vc & x & Hh & Hx & E)]]].
      + destruct HA as (h & r' & Hh & Hk'). pose proof (b_hosts_res _ _ _ _ _ _ _ _ Hh) as Hres'. rewrite Hk' in Hres'.
        assert (r' = r) by congruence. subst r'.
        destruct r as [ic|vc|tc].
        * destruct (negb (any_true (ic_valid_hosts ic))) eqn:Ea; [|discriminate]. apply negb_true_iff in Ea.
          pose proof (coh_ing _ (coherent_hosts_of_objs c o Hok) h ic Hh h) as Hv.
          rewrite (any_true_lookup _ h (proj2 Hv Hh)) in Ea. discriminate.
        * rewrite (vs_place c o Hcm Hok h vc Hh) in Hh. rewrite (holder_key_of c o _ _ Hh), Hk', String.eqb_refl in Hf. discriminate.
        * rewrite (ts_place c o Hcm Hok h tc Hh) in Hh. rewrite (holder_key_of c o _ _ Hh), Hk', String.eqb_refl in Hf. discriminate.
      + destruct (lkey_in k HA) as (k1 & t & Ht & Hl & E). subst k.
        destruct r as [ic|vc|tc].
        * destruct Hkind as (? & _ & _ & E). clash E.
        * destruct Hkind as (? & _ & E). clash E.
        * destruct Hkind as (k2 & Hst & Hp & E).
          assert (t = tc_ts tc).
          { apply (same_stored (fun t => mkey (t_meta t)) (o_tss o) k1 k2 _ _ W4 K4 Ht Hst).
            unfold ts_rkey in E. apply append_inj_l in E. exact E. }
          subst t. pose proof (Hr _ _ Hst) as Hrole. unfold role_ok in Hrole. rewrite Hp, Hl in Hrole. discriminate.
      + subst k. destruct (attached_minion_facts c o Hcm Hok Hwf h ic m Hh Hm) as ((k1 & Hst) & Hmin & _).
        destruct r as [ic2|vc2|tc2].
        * destruct Hkind as (k2 & Hst2 & Hnm & E).
          assert (mc_ing m = ic_ing ic2).
          { apply (same_stored (fun i => mkey (i_meta i)) (o_ings o) k1 k2 _ _ W1 K1 Hst Hst2).
            unfold ing_rkey, key_of_ing in E. apply append_inj_l in E. exact E. }
          congruence.
        * destruct Hkind as (? & _ & E). clash E.
        * destruct Hkind as (? & _ & _ & E). clash E.
      + subst k. destruct r as [ic2|vc2|tc2].
        * destruct Hkind as (? & _ & _ & E). clash E.
        * destruct Hkind as (? & _ & E). clash E.
        * destruct Hkind as (? & _ & _ & E). clash E.
    - (* orphan minion *)
      unfold problems_orphan_minions in Hin. apply in_filter_map in Hin. destruct Hin as ([k0 i] & Hi & Hf). cbn [snd] in Hf.
      destruct (is_minion i) eqn:Hmi; [|discriminate].
      assert (Ek : k = ing_rkey i) by (match type of Hf with (if ?b then _ else _) = _ => destruct b end; inversion Hf; reflexivity).
      destruct HA as [HA|[HA|[(h & ic & m & Hh & Hm & E)|(h & vc & x & Hh & Hx & E)]]].
      + destruct (hkey_in k HA) as (r & Hres). pose proof (res_kind c o Hcm Hok k r Hres) as Hkind. subst k.
        destruct r as [ic|vc|tc].
        * destruct Hkind as (k2 & Hst2 & Hnm & E).
          assert (i = ic_ing ic).
          { apply (same_stored (fun i => mkey (i_meta i)) (o_ings o) k0 k2 _ _ W1 K1 Hi Hst2).
            unfold ing_rkey in E. apply append_inj_l in E. exact E. }
          congruence.
        * destruct Hkind as (? & _ & E). clash E.
        * destruct Hkind as (? & _ & _ & E). clash E.
      + destruct (lkey_in k HA) as (k1 & t & Ht & Hl & E). subst k. clash E.
      + rewrite Ek in E.
        destruct (attached_minion_facts c o Hcm Hok Hwf h ic m Hh Hm) as ((k1 & Hst) & Hmin & Hmas & Hhost & Hh0 & Hicm).
        assert (mc_ing m = i).
        { apply (same_stored (fun i => mkey (i_meta i)) (o_ings o) k1 k0 _ _ W1 K1 Hst Hi).
          unfold ing_rkey, key_of_ing in E. apply append_inj_l in E. congruence. }
        subst i. rewrite Hhost, <- Hh0 in Hf. rewrite Hh, Hicm in Hf. discriminate.
      + rewrite Ek in E. clash E.
    - (* route *)
      unfold problems_vsrs in Hin. apply in_filter_map in Hin. destruct Hin as ([k0 r] & Hrr & Hf). cbn [snd] in Hf.
      assert (Ek : k = vsr_pkey r).
      { destruct (lookup (r_host r) (hosts_of_objs c o)) as [[ic|vc|tc]|]; try (inversion Hf; reflexivity).
        match type of Hf with (if ?b then _ else _) = _ => destruct b end; inversion Hf; reflexivity. }
      destruct HA as [HA|[HA|[(h & ic & m & Hh & Hm & E)|(h & vc & x & Hh & Hx & E)]]].
      + destruct (hkey_in k HA) as (r2 & Hres). pose proof (res_kind c o Hcm Hok k r2 Hres) as Hkind. subst k.
        destruct r2 as [ic|vc|tc].
        * destruct Hkind as (? & _ & _ & E). clash E.
        * destruct Hkind as (? & _ & E). clash E.
        * destruct Hkind as (? & _ & _ & E). clash E.
      + destruct (lkey_in k HA) as (k1 & t & Ht & Hl & E). subst k. clash E.
      + rewrite Ek in E. clash E.
      + rewrite Ek in E.
        destruct (attached_vsr_facts c o Hcm Hok Hwf h vc x Hh Hx) as ((k1 & Hst) & Hh0 & Hhost).
        assert (x = r).
        { apply (same_stored (fun r => mkey (r_meta r)) (o_vsrs o) k1 k0 _ _ W3 K3 Hst Hrr).
          unfold vsr_pkey in E. apply append_inj_l in E. congruence. }
        subst x. rewrite Hhost, <- Hh0 in Hf. rewrite Hh in Hf.
        assert (Hex : existsb (fun x => String.eqb (m_ns (r_meta x)) (m_ns (r_meta r)) && String.eqb (m_name (r_meta x)) (m_name (r_meta r))) (vc_vsrs vc) = true).
        { apply existsb_exists. exists r. split; [exact Hx|]. rewrite !String.eqb_refl. reflexivity. }
        rewrite Hex in Hf. discriminate.
  Qed.
End Static.
