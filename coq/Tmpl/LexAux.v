(* Tmpl/LexAux.v -- small facts about the tokenizer DFA of Lex/Lexer.v shared by the whole Tmpl
   family (Classes, Regex, Analyze).  Self-contained: depends on Lex/Lexer.v only.

   INTERFACE
     structural : list ev -> list ev     the C06 notion of structure: the Semi/Open/Close/Err events
                                         in order; TokEnd (argument counts) is deliberately dropped
     run_app, run_app_fst, run_app_snd   run over a concatenation
     structural_app, no_err_app
     run_QErr                            QErr is a sink that emits nothing
     structural_nil_no_err               structural e = [] -> no_err e = true
     all_bytes, all_bytes_complete, forall_bytes     the 256-byte sweep and its lifting lemma
     all_states, all_states_complete
     lstate_eqb_eq, mem_st / mem_st_In, norm_st (canonical duplicate-free state set), union_st,
     subset_st, ev_eqb / evs_eqb, is_nil
     str_forall f s                      every byte of s satisfies f *)
From Coq Require Import List String Ascii Bool Arith.
From NIC Require Import Lex.Lexer.
Import ListNotations.
Open Scope string_scope.
Open Scope list_scope.

(* ---------------------------------------------------------------- structure of an event list *)

Definition is_struct (e : ev) : bool := match e with TokEnd => false | _ => true end.

Definition structural (l : list ev) : list ev := filter is_struct l.

Lemma structural_app : forall a b, structural (a ++ b) = structural a ++ structural b.
Proof. intros. unfold structural. apply filter_app. Qed.

Lemma no_err_app : forall a b, no_err (a ++ b) = no_err a && no_err b.
Proof. intros. unfold no_err. apply forallb_app. Qed.

Lemma structural_nil_no_err : forall e, structural e = [] -> no_err e = true.
Proof.
  induction e as [|x e IH]; intro H; [reflexivity|].
  destruct x; cbn in *; try discriminate. now apply IH.
Qed.

Lemma no_err_structural : forall e, no_err (structural e) = no_err e.
Proof.
  induction e as [|x e IH]; [reflexivity|]. destruct x; cbn in *; auto.
Qed.

(* ---------------------------------------------------------------- run *)

Lemma run_app : forall a q b,
    run q (a ++ b)%string =
    let (q1, e1) := run q a in let (q2, e2) := run q1 b in (q2, e1 ++ e2).
Proof.
  induction a as [|c a IH]; intros q b; cbn [run append].
  - destruct (run q b); reflexivity.
  - destruct (step q c) as [q1 e1]. rewrite IH.
    destruct (run q1 a) as [q2 e2]. destruct (run q2 b) as [q3 e3].
    now rewrite app_assoc.
Qed.

Lemma run_app_fst : forall a q b,
    fst (run q (a ++ b)%string) = fst (run (fst (run q a)) b).
Proof.
  intros. rewrite run_app. destruct (run q a) as [q1 e1]. cbn.
  destruct (run q1 b); reflexivity.
Qed.

Lemma run_app_snd : forall a q b,
    snd (run q (a ++ b)%string) = snd (run q a) ++ snd (run (fst (run q a)) b).
Proof.
  intros. rewrite run_app. destruct (run q a) as [q1 e1]. cbn.
  destruct (run q1 b); reflexivity.
Qed.

Lemma run_app_eq : forall a b q q1 e1 q2 e2,
    run q a = (q1, e1) -> run q1 b = (q2, e2) -> run q (a ++ b)%string = (q2, e1 ++ e2).
Proof. intros * Ha Hb. now rewrite run_app, Ha, Hb. Qed.

Lemma run_QErr : forall s, run QErr s = (QErr, []).
Proof. induction s as [|c s IH]; cbn; [reflexivity|]. now rewrite IH. Qed.

Lemma run_cons : forall q c s,
    run q (String c s) = (fst (run (fst (step q c)) s), snd (step q c) ++ snd (run (fst (step q c)) s)).
Proof.
  intros. cbn [run]. destruct (step q c) as [q1 e1]. cbn. destruct (run q1 s); reflexivity.
Qed.

(* ---------------------------------------------------------------- finite sweeps *)

Definition all_bytes : list ascii := map ascii_of_nat (seq 0 256).

Lemma all_bytes_complete : forall c, In c all_bytes.
Proof.
  intro c. unfold all_bytes. rewrite <- (ascii_nat_embedding c).
  apply in_map. apply in_seq. split; [apply Nat.le_0_l|]. cbn. apply nat_ascii_bounded.
Qed.

Lemma forall_bytes : forall P : ascii -> bool,
    forallb P all_bytes = true -> forall c, P c = true.
Proof. intros P H c. rewrite forallb_forall in H. apply H, all_bytes_complete. Qed.

Definition all_states : list lstate :=
  [QBetween; QBare; QBareEsc; QVar; QDQ; QDQEsc; QSQ; QSQEsc; QComment; QNeedSpace; QErr].

Lemma all_states_complete : forall q, In q all_states.
Proof. destruct q; cbn; tauto. Qed.

Lemma lstate_eqb_eq : forall a b, lstate_eqb a b = true <-> a = b.
Proof. destruct a, b; cbn; split; intro H; try reflexivity; discriminate. Qed.

Lemma lstate_eqb_refl : forall a, lstate_eqb a a = true.
Proof. destruct a; reflexivity. Qed.

Definition mem_st (q : lstate) (l : list lstate) : bool := existsb (lstate_eqb q) l.

Lemma mem_st_In : forall q l, mem_st q l = true <-> In q l.
Proof.
  intros. unfold mem_st. rewrite existsb_exists. split.
  - intros [x [Hx He]]. apply lstate_eqb_eq in He. now subst.
  - intro H. exists q. split; [assumption|apply lstate_eqb_refl].
Qed.

(* canonical representation of a set of states: in the order of all_states, no duplicates *)
Definition norm_st (l : list lstate) : list lstate := filter (fun q => mem_st q l) all_states.

Lemma norm_st_In : forall q l, In q (norm_st l) <-> In q l.
Proof.
  intros. unfold norm_st. rewrite filter_In, mem_st_In. split; [tauto|].
  intro H. split; [apply all_states_complete|assumption].
Qed.

Definition union_st (a b : list lstate) : list lstate := norm_st (a ++ b).

Lemma union_st_In : forall q a b, In q (union_st a b) <-> In q a \/ In q b.
Proof. intros. unfold union_st. rewrite norm_st_In. apply in_app_iff. Qed.

Definition subset_st (a b : list lstate) : bool := forallb (fun q => mem_st q b) a.

Lemma subset_st_In : forall a b, subset_st a b = true -> forall q, In q a -> In q b.
Proof.
  intros a b H q Hq. unfold subset_st in H. rewrite forallb_forall in H.
  apply mem_st_In. now apply H.
Qed.

Definition ev_eqb (a b : ev) : bool :=
  match a, b with
  | TokEnd, TokEnd | Semi, Semi | Open, Open | Close, Close | Err, Err => true
  | _, _ => false
  end.

Lemma ev_eqb_eq : forall a b, ev_eqb a b = true <-> a = b.
Proof. destruct a, b; cbn; split; intro H; try reflexivity; discriminate. Qed.

Fixpoint evs_eqb (a b : list ev) : bool :=
  match a, b with
  | [], [] => true
  | x :: a', y :: b' => ev_eqb x y && evs_eqb a' b'
  | _, _ => false
  end.

Lemma evs_eqb_eq : forall a b, evs_eqb a b = true <-> a = b.
Proof.
  induction a as [|x a IH]; destruct b as [|y b]; cbn; split; intro H;
    try reflexivity; try discriminate.
  - apply andb_true_iff in H. destruct H as [H1 H2].
    apply ev_eqb_eq in H1. apply IH in H2. now subst.
  - inversion H; subst. apply andb_true_iff. split; [now apply ev_eqb_eq|now apply IH].
Qed.

Definition is_nil {A} (l : list A) : bool := match l with [] => true | _ => false end.

Lemma is_nil_eq : forall A (l : list A), is_nil l = true <-> l = [].
Proof. destruct l; cbn; split; intro H; try reflexivity; discriminate. Qed.

(* ---------------------------------------------------------------- byte-wise predicates on strings *)

Fixpoint str_forall (f : ascii -> bool) (s : string) : bool :=
  match s with
  | EmptyString => true
  | String c r => f c && str_forall f r
  end.

Lemma str_forall_list : forall f s, str_forall f s = forallb f (list_ascii_of_string s).
Proof. induction s as [|c s IH]; cbn; [reflexivity|]. now rewrite IH. Qed.

Lemma str_forall_app : forall f a b, str_forall f (a ++ b)%string = str_forall f a && str_forall f b.
Proof.
  induction a as [|c a IH]; intro b; cbn; [reflexivity|]. rewrite IH. now rewrite andb_assoc.
Qed.

Lemma str_forall_impl : forall (f g : ascii -> bool) s,
    (forall c, f c = true -> g c = true) -> str_forall f s = true -> str_forall g s = true.
Proof.
  induction s as [|c s IH]; intros Hfg H; cbn in *; [reflexivity|].
  apply andb_true_iff in H. destruct H as [H1 H2].
  apply andb_true_iff. split; [now apply Hfg|now apply IH].
Qed.

Lemma append_nil_r : forall s : string, (s ++ "")%string = s.
Proof. induction s as [|c s IH]; cbn; [reflexivity|]. now rewrite IH. Qed.

Lemma append_assoc : forall a b c : string, ((a ++ b) ++ c)%string = (a ++ (b ++ c))%string.
Proof. induction a as [|x a IH]; intros; cbn; [reflexivity|]. now rewrite IH. Qed.
