(* Lex/C07Cases.v -- evaluation of the C07 specification S on the file sets the harness observed
   on the implementation.  No proofs here.

     file_set_case id files : verdict
       files = (file name, content) for the COMPLETE set of configuration files held by the
       recording nginx.Manager at the end of a case.  Every file is lexed and parsed ONCE.
     verdict = (id, malformed files, value problems (file, problem, directive), duplicate
               identifiers (kind, scope, ident), number of directives seen)
       malformed  = not (wf_conf content)
       problems   = Check.arity_errors (unknown directive / illegal number of arguments / illegal
                    value of a numeric server parameter)
     row v = [id; 1; spec_holds; nontrivial; tag]     (the shape every harness uses)
       spec_holds = every file wf_conf, no arity problem, no duplicate identifier
       tag        = 4*malformed? + 2*arity? + 1*dup? *)
From Coq Require Import List ZArith String Ascii Bool.
From NIC Require Import Lex.Lexer Lex.Parser Lex.Check Lex.IngressPath.
Import ListNotations.
Open Scope string_scope.

Definition verdict :=
  (Z * list string * list (string * string * string) * list (string * string * string) * Z)%type.

(* one pass per file: None = malformed *)
Definition tree_of (content : string) : option (list directive) :=
  match lex content with
  | Some ts => if words_short ts then parse ts else None
  | None => None
  end.

Definition file_set_case (id : Z) (files : list (string * string)) : verdict :=
  let trees := map (fun f => (fst f, tree_of (snd f))) files in
  let bad := flat_map (fun f => match snd f with None => [fst f] | Some _ => [] end) trees in
  let good := flat_map (fun f => match snd f with None => [] | Some ds => [(fst f, ds)] end) trees in
  let ar := flat_map (fun f => map (fun e => (fst f, fst e, snd e))
                                   (arity_errors (fctx_of_file (fst f)) (snd f))) good in
  let du := dup_idents_trees good in
  let n := fold_right (fun f acc => (Z.of_nat (dir_count (snd f)) + acc)%Z) 0%Z good in
  (id, bad, ar, du, n).

Definition is_nil {A} (l : list A) : bool := match l with [] => true | _ => false end.

Definition row (v : verdict) : list Z :=
  match v with
  | (id, bad, ar, du, n) =>
      let ok := is_nil bad && is_nil ar && is_nil du in
      [id; 1; if ok then 1 else 0; if (0 <? n)%Z then 1 else 0;
       (if is_nil bad then 0 else 4) + (if is_nil ar then 0 else 2) + (if is_nil du then 0 else 1)]%Z
  end.

Definition failing (v : verdict) : bool :=
  match v with (_, bad, ar, du, _) => negb (is_nil bad && is_nil ar && is_nil du) end.

(* identifier-scheme correspondence: the model of a namer against the real function's output *)
Definition name_case (id : Z) (model real : string) : list Z :=
  [id; if String.eqb model real then 1 else 0; 1; 1; 8]%Z.

(* Ingress path validator: whenever the real validator accepts, the model accepts
   (the model lacks the regexp2.Compile check, so it may accept more).
   tag 9 = real accepted, 10 = real rejected; nontrivial = the path is accepted but not one bare word
   or rejected by the model *)
Definition path_case (id : Z) (p : string) (real_accepts : bool) : list Z :=
  let m := NIC.Lex.IngressPath.ingress_path_ok p in
  [id; if real_accepts then (if m then 1 else 0) else 1; 1; 1; if real_accepts then 9 else 10]%Z.

(* The file set at EVERY reload of a case, not only the end state.
     files  = every distinct (name, content) that was on disk at some reload; the first nfinal of them
              are the end state
     snaps  = the file set (indexes into files) at each earlier reload
   Every version is lexed and parsed once.  malformed / arity problems are reported for every version
   (each was loaded at some reload); duplicates of the end state as before; duplicates of an earlier
   reload that the end state does not show get the kind prefixed with [reload-]. *)
Definition snap_case (id : Z) (files : list (string * string)) (nfinal : nat) (snaps : list (list nat)) : verdict :=
  let trees := map (fun f => (fst f, tree_of (snd f))) files in
  let bad := flat_map (fun f => match snd f with None => [fst f] | Some _ => [] end) trees in
  let good := flat_map (fun f => match snd f with None => [] | Some ds => [(fst f, ds)] end) trees in
  let ar := flat_map (fun f => map (fun e => (fst f, fst e, snd e))
                                   (arity_errors (fctx_of_file (fst f)) (snd f))) good in
  let pick (l : list nat) :=
      flat_map (fun i => match nth_error trees i with
                         | Some (n, Some ds) => [(n, ds)]
                         | _ => []
                         end) l in
  let du := dup_idents_trees (pick (seq 0 nfinal)) in
  let early := nodup_ident (flat_map (fun s => dup_idents_trees (pick s)) snaps) in
  let transient := flat_map (fun d => if mem_ident d du then []
                                      else match d with (k, sc, x) => [("reload-" ++ k, sc, x)] end) early in
  let n := fold_right (fun f acc => (Z.of_nat (dir_count (snd f)) + acc)%Z) 0%Z good in
  (id, bad, ar, (du ++ transient)%list, n).
