//go:build verif

package k8s

import (
	"context"

	"github.com/nginx/kubernetes-ingress/internal/configs"
	"github.com/nginx/kubernetes-ingress/internal/k8s/secrets"
	"github.com/nginx/kubernetes-ingress/internal/metrics/collectors"
	"github.com/nginx/kubernetes-ingress/pkg/apis/configuration/validation"
	fake_v1 "github.com/nginx/kubernetes-ingress/pkg/client/clientset/versioned/fake"
	api_v1 "k8s.io/api/core/v1"
	meta_v1 "k8s.io/apimachinery/pkg/apis/meta/v1"
	"k8s.io/apimachinery/pkg/runtime"
	"k8s.io/client-go/kubernetes/fake"
	"k8s.io/client-go/tools/cache"
	"k8s.io/client-go/tools/record"
)

// VerifC11 drives the Secret path of the real controller: the production constructor (which
// builds the real LocalSecretStore over the given Configurator), the real Secret event handlers,
// the real work queue and the real lbc.sync.  Informers are never started; the harness plays the
// informer: it changes the Secret store and calls the handler the informer would call.
type VerifC11 struct {
	lbc      *LoadBalancerController
	handlers cache.ResourceEventHandlerFuncs
}

// VerifC11New builds the controller through NewLoadBalancerController, watching the given
// namespaces (one group of informers each; every one of them watches Secrets), with the given
// keys as -wildcard-tls-secret / -default-server-tls-secret ("" = none).  allNamespaces are
// the namespaces that exist in the cluster (Active), so that a namespace that stops being
// watched is recognised as one that lost its label, not as a deleted one.
func VerifC11New(ctx context.Context, cnf *configs.Configurator, watched, allNamespaces []string, wildcardSecret, defaultSecret string) *VerifC11 {
	var nsObjs []runtime.Object
	for _, n := range allNamespaces {
		nsObjs = append(nsObjs, &api_v1.Namespace{ObjectMeta: meta_v1.ObjectMeta{Name: n}, Status: api_v1.NamespaceStatus{Phase: api_v1.NamespaceActive}})
	}
	lbc := NewLoadBalancerController(NewLoadBalancerControllerInput{
		KubeClient:                   fake.NewSimpleClientset(nsObjs...),
		WatchNamespaceLabel:          "verif/watch=yes",
		WildcardTLSSecret:            wildcardSecret,
		DefaultServerSecret:          defaultSecret,
		ConfClient:                   fake_v1.NewSimpleClientset(),
		Recorder:                     record.NewFakeRecorder(1 << 12),
		LoggerContext:                ctx,
		NginxConfigurator:            cnf,
		IsNginxPlus:                  true,
		IngressClass:                 "nginx",
		Namespace:                    watched,
		SecretNamespace:              []string{""},
		ControllerNamespace:          "nginx-ingress",
		Pod:                          &api_v1.Pod{ObjectMeta: meta_v1.ObjectMeta{Namespace: "nginx-ingress", Name: "nginx-ingress-0"}},
		AreCustomResourcesEnabled:    true,
		MetricsCollector:             collectors.NewControllerFakeCollector(),
		GlobalConfigurationValidator: validation.NewGlobalConfigurationValidator(map[int]bool{}),
		TransportServerValidator:     validation.NewTransportServerValidator(false, false, true),
		VirtualServerValidator:       validation.NewVirtualServerValidator(validation.IsPlus(true)),
	})
	// start-up is over: no initial updateAllConfigs / reload (there is no nginx to reload)
	lbc.isNginxReady = true
	return &VerifC11{lbc: lbc, handlers: createSecretHandlers(lbc)}
}

// lister is the Secret informer store of the namespace, nil when the namespace is not watched.
func (v *VerifC11) lister(ns string) cache.Store {
	nsi := v.lbc.namespacedInformers[ns]
	if nsi == nil {
		return nil
	}
	return nsi.secretLister
}

// Put creates or updates the Secret in the informer store of its namespace and delivers the
// Add / Update event.  Nothing happens (false) when the namespace is not watched.
func (v *VerifC11) Put(s *api_v1.Secret) (bool, error) {
	l := v.lister(s.Namespace)
	if l == nil {
		return false, nil
	}
	old, exists, err := l.Get(s)
	if err != nil {
		return true, err
	}
	if exists {
		if err := l.Update(s); err != nil {
			return true, err
		}
		v.handlers.UpdateFunc(old, s)
		return true, nil
	}
	if err := l.Add(s); err != nil {
		return true, err
	}
	v.handlers.AddFunc(s)
	return true, nil
}

// Del removes the Secret from the informer store and delivers the Delete event.
func (v *VerifC11) Del(ns, name string) (bool, error) {
	l := v.lister(ns)
	if l == nil {
		return false, nil
	}
	old, exists, err := l.GetByKey(ns + "/" + name)
	if err != nil || !exists {
		return false, err
	}
	if err := l.Delete(old); err != nil {
		return true, err
	}
	v.handlers.DeleteFunc(old)
	return true, nil
}

// PreSync is the start-up step of Run between WaitForCacheSync and the start of the queue.
func (v *VerifC11) PreSync() { v.lbc.preSyncSecrets() }

// Unwatch: the namespace lost the watch label (it is gone from the labelled-namespace store and
// still Active in the cluster); the real lbc.sync processes the namespace task.
func (v *VerifC11) Unwatch(ns string) {
	v.lbc.sync(task{Kind: namespace, Key: ns})
}

// Watch: the namespace got the watch label.  The informer group is created by the real
// newNamespacedInformer (what syncNamespace does first); it is not started -- the harness then
// delivers the Add events for the Secrets that exist in it through Put.
func (v *VerifC11) Watch(ns string) bool {
	if v.lbc.namespacedInformers[ns] != nil {
		return false
	}
	v.lbc.newNamespacedInformer(ns)
	return true
}

// Watched tells whether the namespace has an informer group.
func (v *VerifC11) Watched(ns string) bool { return v.lbc.namespacedInformers[ns] != nil }

// Drain is the worker: it takes every queued task, in queue order, and runs the real lbc.sync on
// each.  The tasks are taken off the queue first, so that sync sees an empty queue and does not
// enter batch mode (batch mode only postpones reloads, which this harness has none of).
func (v *VerifC11) Drain() []string {
	q := v.lbc.syncQueue.queue
	var ts []task
	for q.Len() > 0 {
		it, _ := q.Get()
		q.Done(it)
		ts = append(ts, it.(task))
	}
	keys := make([]string, 0, len(ts))
	for _, t := range ts {
		keys = append(keys, t.Key)
		v.lbc.sync(t)
	}
	return keys
}

// QueueLen is the number of queued tasks.
func (v *VerifC11) QueueLen() int { return v.lbc.syncQueue.queue.Len() }

// Get is what createIngressEx / createVirtualServerEx do to reference a Secret.
func (v *VerifC11) Get(key string) *secrets.SecretReference { return v.lbc.secretStore.GetSecret(key) }
