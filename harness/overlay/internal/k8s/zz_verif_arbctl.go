//go:build verif

package k8s

import (
	"context"
	"fmt"
	"sort"
	"strings"
	"sync"

	"github.com/nginx/kubernetes-ingress/internal/configs"
	"github.com/nginx/kubernetes-ingress/internal/metrics/collectors"
	conf_v1 "github.com/nginx/kubernetes-ingress/pkg/apis/configuration/v1"
	"github.com/nginx/kubernetes-ingress/pkg/apis/configuration/validation"
	fake_v1 "github.com/nginx/kubernetes-ingress/pkg/client/clientset/versioned/fake"
	api_v1 "k8s.io/api/core/v1"
	networking "k8s.io/api/networking/v1"
	meta_v1 "k8s.io/apimachinery/pkg/apis/meta/v1"
	"k8s.io/apimachinery/pkg/runtime"
	"k8s.io/apimachinery/pkg/types"
	"k8s.io/client-go/kubernetes/fake"
	k8stesting "k8s.io/client-go/testing"
	"k8s.io/client-go/tools/cache"
)

// VerifCtl drives the real LoadBalancerController.sync (production constructor, fake clientsets,
// informer stores filled by the harness) and records what the cluster would see: Events and status
// writes.  It is the controller-level counterpart of VerifArb (C05, C16).
type VerifCtl struct {
	Arb       *VerifArb
	LastProbe VProbe
	lbc       *LoadBalancerController
	rec       *verifRecorder
	conf      *fake_v1.Clientset
	kube      *fake.Clientset
}

// VEvent is one recorded Event, identified by the kind/namespace/name of its object.
type VEvent struct {
	Obj    string `json:"obj"` // Kind/namespace/name
	Type   string `json:"type"`
	Reason string `json:"reason"`
	msg    string
}

// VStatusWrite is one write to a status subresource (or an Ingress status update).
type VStatusWrite struct {
	Resource string `json:"resource"`
	Key      string `json:"key"`
	Reason   string `json:"reason,omitempty"` // status.reason written (VirtualServer, VirtualServerRoute, TransportServer)
	obj      runtime.Object
}

type verifRecorder struct {
	mu  sync.Mutex
	evs []VEvent
}

func verifObjKey(obj runtime.Object) string {
	switch o := obj.(type) {
	case *networking.Ingress:
		return getResourceKeyWithKind(ingressKind, &o.ObjectMeta)
	case *conf_v1.VirtualServer:
		return getResourceKeyWithKind(virtualServerKind, &o.ObjectMeta)
	case *conf_v1.VirtualServerRoute:
		return getResourceKeyWithKind(virtualServerRouteKind, &o.ObjectMeta)
	case *conf_v1.TransportServer:
		return getResourceKeyWithKind(transportServerKind, &o.ObjectMeta)
	case *conf_v1.GlobalConfiguration:
		return "GlobalConfiguration/" + o.Namespace + "/" + o.Name
	case *api_v1.Secret:
		return "Secret/" + o.Namespace + "/" + o.Name
	}
	return fmt.Sprintf("?%T", obj)
}

func (r *verifRecorder) Event(object runtime.Object, eventtype, reason, message string) {
	r.mu.Lock()
	r.evs = append(r.evs, VEvent{Obj: verifObjKey(object), Type: eventtype, Reason: reason, msg: message})
	r.mu.Unlock()
}

func (r *verifRecorder) Eventf(object runtime.Object, eventtype, reason, messageFmt string, args ...interface{}) {
	r.Event(object, eventtype, reason, fmt.Sprintf(messageFmt, args...))
}

func (r *verifRecorder) AnnotatedEventf(object runtime.Object, _ map[string]string, eventtype, reason, messageFmt string, args ...interface{}) {
	r.Event(object, eventtype, reason, fmt.Sprintf(messageFmt, args...))
}

func (r *verifRecorder) take() []VEvent {
	r.mu.Lock()
	defer r.mu.Unlock()
	out := r.evs
	r.evs = nil
	if out == nil {
		out = []VEvent{}
	}
	return out
}

// VerifGCKey is the key of the watched GlobalConfiguration.
const VerifGCKey = "nginx-ingress/globalconfiguration"

// VerifCtlNew builds the controller with the same class, validators and feature flags as VerifNewArb.
// VerifWatched: the namespaces of a controller started with -watch-namespace: every namespace the histories and the probes
// use, but not the controller's own namespace, where the GlobalConfiguration lives (it has an informer of its own).
var VerifWatched = []string{"ns1", "a-b", "ns2", "wp", "pp"}

func VerifCtlNew(cnf *configs.Configurator, class string, tlsPassthrough, certManager bool, anns map[string]int, watchSome bool) *VerifCtl {
	watched := []string{""}
	if watchSome {
		watched = VerifWatched
	}
	rec := &verifRecorder{}
	kube := fake.NewSimpleClientset()
	conf := fake_v1.NewSimpleClientset()
	lbc := NewLoadBalancerController(NewLoadBalancerControllerInput{
		KubeClient:                   kube,
		ConfClient:                   conf,
		Recorder:                     rec,
		LoggerContext:                configs.VerifC12Context(),
		NginxConfigurator:            cnf,
		IngressClass:                 class,
		Namespace:                    watched,
		SecretNamespace:              watched,
		ControllerNamespace:          "nginx-ingress",
		AreCustomResourcesEnabled:    true,
		ReportIngressStatus:          true,
		GlobalConfiguration:          VerifGCKey,
		MetricsCollector:             collectors.NewControllerFakeCollector(),
		GlobalConfigurationValidator: validation.NewGlobalConfigurationValidator(map[int]bool{80: true, 443: true}),
		TransportServerValidator:     validation.NewTransportServerValidator(tlsPassthrough, true, false),
		VirtualServerValidator:       validation.NewVirtualServerValidator(validation.IsPlus(tlsPassthrough), validation.IsDosEnabled(false), validation.IsCertManagerEnabled(certManager)),
		IsTLSPassthroughEnabled:      tlsPassthrough,
		SnippetsEnabled:              true,
	})
	// CertManagerEnabled in the constructor input would also start a cert-manager controller, which needs a
	// REST config; only the arbitration flag is wanted here
	lbc.configuration.isCertManagerEnabled = certManager
	lbc.isNginxReady = true
	cnf.EnableReloads()
	return &VerifCtl{Arb: &VerifArb{C: lbc.configuration, lbc: lbc, anns: anns, TLSPassthrough: tlsPassthrough, CertManager: certManager},
		lbc: lbc, rec: rec, conf: conf, kube: kube}
}

// nsi is the informer set of the namespace (the one set when all namespaces are watched)
func (v *VerifCtl) nsi(ns string) *namespacedInformer {
	if n := v.lbc.getNamespacedInformer(ns); n != nil {
		return n
	}
	panic("harness: namespace " + ns + " is not watched")
}

func (v *VerifCtl) store(kind, key string) (cache.Store, kind, error) {
	ns, _, _ := cache.SplitMetaNamespaceKey(key)
	if kind == "gc" {
		return v.lbc.globalConfigurationLister, globalConfiguration, nil
	}
	nsi := v.nsi(ns)
	switch kind {
	case "ing":
		return nsi.ingressLister.Store, ingress, nil
	case "vs":
		return nsi.virtualServerLister, virtualserver, nil
	case "vsr":
		return nsi.virtualServerRouteLister, virtualServerRoute, nil
	case "ts":
		return nsi.transportServerLister, transportserver, nil
	case "gc":
		return v.lbc.globalConfigurationLister, globalConfiguration, nil
	}
	return nil, 0, fmt.Errorf("unknown kind %q", kind)
}

// validationErrorText is the text of the validation error the controller will find for obj ("" if none or
// if the object is not of the controller's class)
func (v *VerifCtl) validationErrorText(obj interface{}) string {
	if obj == nil || !v.lbc.HasCorrectIngressClass(obj) {
		return ""
	}
	var err error
	c := v.lbc.configuration
	switch o := obj.(type) {
	case *networking.Ingress:
		err = validateIngress(o, c.isPlus, c.appProtectEnabled, c.appProtectDosEnabled, c.internalRoutesEnabled, c.snippetsEnabled).ToAggregate()
	case *conf_v1.VirtualServer:
		err = c.virtualServerValidator.ValidateVirtualServer(o)
	case *conf_v1.VirtualServerRoute:
		err = c.virtualServerValidator.ValidateVirtualServerRoute(o)
	case *conf_v1.TransportServer:
		err = c.transportServerValidator.ValidateTransportServer(o)
	}
	if err == nil {
		return ""
	}
	return err.Error()
}

// VErr tells whether the object of a sync was invalid and whether an Event about it carried the error text.
type VErr struct {
	Expected bool `json:"expected"`
	Reported bool `json:"reported"`
	// Unnamed lists "object: warning" for every success Event of the step whose message does not name a warning that
	// the Configuration holds for that object after the step (its own warnings, or its child warnings as a minion)
	Unnamed []string `json:"unnamed,omitempty"`
}

// VProbe tells whether the real informer event handler of the kind passed the event on to the sync queue.
// Kind is "add", "update", "delete" or "" (not probed: GlobalConfiguration, delete of an absent object).
type VProbe struct {
	Kind      string `json:"kind"`
	Delivered bool   `json:"delivered"`
	Note      string `json:"note,omitempty"` // "tombstone": the plain delete was passed on, the DeletedFinalStateUnknown one was not
}

func (v *VerifCtl) handlers(kind string) (cache.ResourceEventHandlerFuncs, bool) {
	switch kind {
	case "ing":
		return createIngressHandlers(v.lbc), true
	case "vs":
		return createVirtualServerHandlers(v.lbc), true
	case "vsr":
		return createVirtualServerRouteHandlers(v.lbc), true
	case "ts":
		return createTransportServerHandlers(v.lbc), true
	}
	return cache.ResourceEventHandlerFuncs{}, false
}

func (v *VerifCtl) drainQueue() int {
	q := v.lbc.syncQueue.queue
	n := 0
	for q.Len() > 0 {
		it, _ := q.Get()
		q.Done(it)
		n++
	}
	return n
}

func deepCopyObj(obj interface{}) interface{} {
	if ro, ok := obj.(runtime.Object); ok {
		return ro.DeepCopyObject()
	}
	return obj
}

// probe runs the real event handler of the kind on (copies of) the old and the new object, the way the
// informer would, and reports whether a task reached the sync queue.
func (v *VerifCtl) probe(kindName, key string, old interface{}, existed bool, obj interface{}) VProbe {
	h, ok := v.handlers(kindName)
	if !ok {
		return VProbe{}
	}
	v.drainQueue()
	p := VProbe{}
	switch {
	case obj != nil && existed:
		p.Kind = "update"
		h.UpdateFunc(deepCopyObj(old), deepCopyObj(obj))
	case obj != nil:
		p.Kind = "add"
		h.AddFunc(deepCopyObj(obj))
	case existed:
		// a delete reaches the handler either as the object or, after a missed watch event, as a tombstone
		p.Kind = "delete"
		h.DeleteFunc(deepCopyObj(old))
		plain := v.drainQueue() > 0
		h.DeleteFunc(cache.DeletedFinalStateUnknown{Key: key, Obj: deepCopyObj(old)})
		tomb := v.drainQueue() > 0
		p.Delivered = plain && tomb
		if plain && !tomb {
			p.Note = "tombstone"
		}
		return p
	default:
		return p
	}
	p.Delivered = v.drainQueue() > 0
	return p
}

// Apply puts (or removes, when obj is nil) the object in the informer store of its kind and runs the
// real lbc.sync on the corresponding task with an empty work queue.  It returns the Events recorded
// and the status writes issued during that sync.
func (v *VerifCtl) Apply(kindName, key string, obj interface{}) (evs []VEvent, writes []VStatusWrite, verr VErr, err error) {
	s, k, err := v.store(kindName, key)
	if err != nil {
		return nil, nil, verr, err
	}
	old, existed, _ := s.GetByKey(key)
	// the API server keeps the status across a spec update of the same object
	if existed && obj != nil {
		switch n := obj.(type) {
		case *conf_v1.VirtualServer:
			if o := old.(*conf_v1.VirtualServer); o.UID == n.UID {
				n.Status = *o.Status.DeepCopy()
			}
		case *conf_v1.VirtualServerRoute:
			if o := old.(*conf_v1.VirtualServerRoute); o.UID == n.UID {
				n.Status = *o.Status.DeepCopy()
			}
		case *conf_v1.TransportServer:
			if o := old.(*conf_v1.TransportServer); o.UID == n.UID {
				n.Status = *o.Status.DeepCopy()
			}
		}
	}
	v.LastProbe = v.probe(kindName, key, old, existed, obj)
	verrText := v.validationErrorText(obj)
	if obj != nil {
		if err := s.Add(obj); err != nil {
			return nil, nil, verr, err
		}
	} else if old, exists, _ := s.GetByKey(key); exists {
		if err := s.Delete(old); err != nil {
			return nil, nil, verr, err
		}
	}
	q := v.lbc.syncQueue.queue
	for q.Len() > 0 {
		it, _ := q.Get()
		q.Done(it)
	}
	v.kube.ClearActions()
	v.conf.ClearActions()
	v.lbc.sync(task{Kind: k, Key: key})
	writes = v.statusWrites()
	v.writeBack(writes)
	evs = v.rec.take()
	if verrText != "" {
		verr.Expected = true
		if ro, ok := obj.(runtime.Object); ok {
			me := verifObjKey(ro)
			for _, e := range evs {
				if e.Obj == me && strings.Contains(e.msg, verrText) {
					verr.Reported = true
				}
			}
		}
	}
	verr.Unnamed = v.unnamedWarnings(evs)
	return evs, writes, verr, nil
}

// unnamedWarnings: an "added or updated" Event must name every warning the Configuration holds for the object
func (v *VerifCtl) unnamedWarnings(evs []VEvent) []string {
	held := map[string][]string{}
	for _, r := range v.lbc.configuration.GetResources() {
		switch impl := r.(type) {
		case *IngressConfiguration:
			held["Ingress/"+getResourceKey(&impl.Ingress.ObjectMeta)] = append([]string{}, impl.Warnings...)
			for _, m := range impl.Minions {
				k := getResourceKey(&m.Ingress.ObjectMeta)
				held["Ingress/"+k] = append([]string{}, impl.ChildWarnings[k]...)
			}
		case *VirtualServerConfiguration:
			held["VirtualServer/"+getResourceKey(&impl.VirtualServer.ObjectMeta)] = append([]string{}, impl.Warnings...)
		case *TransportServerConfiguration:
			held["TransportServer/"+getResourceKey(&impl.TransportServer.ObjectMeta)] = append([]string{}, impl.Warnings...)
		}
	}
	var out []string
	for _, e := range evs {
		if !strings.HasPrefix(e.Reason, "AddedOrUpdated") {
			continue
		}
		for _, w := range held[e.Obj] {
			if !strings.Contains(e.msg, w) {
				out = append(out, e.Obj+": "+w)
			}
		}
	}
	sort.Strings(out)
	return out
}

// statusWrites are the writes to status subresources (and Ingress updates) the fake clientsets saw since
// the last ClearActions.
func (v *VerifCtl) statusWrites() []VStatusWrite {
	writes := []VStatusWrite{}
	collect := func(acts []k8stesting.Action) {
		for _, a := range acts {
			if a.GetVerb() != "update" && a.GetVerb() != "patch" {
				continue
			}
			name := ""
			if ua, ok := a.(k8stesting.UpdateAction); ok {
				if m, ok := ua.GetObject().(interface{ GetName() string }); ok {
					name = m.GetName()
				}
			}
			if a.GetSubresource() == "status" || a.GetResource().Resource == "ingresses" {
				w := VStatusWrite{Resource: a.GetResource().Resource, Key: a.GetNamespace() + "/" + name}
				if ua, ok := a.(k8stesting.UpdateAction); ok {
					w.obj = ua.GetObject()
					switch o := w.obj.(type) {
					case *conf_v1.VirtualServer:
						w.Reason = o.Status.Reason
					case *conf_v1.VirtualServerRoute:
						w.Reason = o.Status.Reason
					case *conf_v1.TransportServer:
						w.Reason = o.Status.Reason
					}
				}
				writes = append(writes, w)
			}
		}
	}
	collect(v.kube.Actions())
	collect(v.conf.Actions())
	sort.Slice(writes, func(i, j int) bool {
		if writes[i].Resource != writes[j].Resource {
			return writes[i].Resource < writes[j].Resource
		}
		return writes[i].Key < writes[j].Key
	})
	return writes
}

// VPolicy is a Policy the harness put into the store, with the class it carries.
type VPolicy struct {
	Key   string `json:"key"`
	Class string `json:"class"`
}

// VerifPolicies are two valid Policies, one of the controller's class and one of another class.
var VerifPolicies = []VPolicy{{Key: "ns1/pol-own", Class: ""}, {Key: "ns1/pol-foreign", Class: "other"}, {Key: "ns2/pol-named", Class: "nginx"}}

// Leader acquires leadership: it runs the real OnStartedLeading callback on the cluster as it is now.  Every
// object in the stores has an Event in the API (emitted by whichever controller serves it), as in a cluster
// that has been running; the Event list honours the involvedObject field selector.  It returns the status
// writes issued by the callback.
func (v *VerifCtl) Leader() []VStatusWrite {
	n := 0
	addEvent := func(kind string, m *meta_v1.ObjectMeta) {
		n++
		_ = v.kube.Tracker().Add(&api_v1.Event{
			ObjectMeta:     meta_v1.ObjectMeta{Name: fmt.Sprintf("ev-%d", n), Namespace: m.Namespace, CreationTimestamp: meta_v1.Now()},
			InvolvedObject: api_v1.ObjectReference{Kind: kind, Namespace: m.Namespace, Name: m.Name, UID: m.UID},
			Reason:         "AddedOrUpdated", Type: api_v1.EventTypeNormal,
			Message: fmt.Sprintf("Configuration for %s/%s was added or updated", m.Namespace, m.Name),
		})
	}
	for _, nsi := range v.lbc.namespacedInformers {
		for _, o := range nsi.virtualServerLister.List() {
			addEvent("VirtualServer", &o.(*conf_v1.VirtualServer).ObjectMeta)
		}
		for _, o := range nsi.virtualServerRouteLister.List() {
			addEvent("VirtualServerRoute", &o.(*conf_v1.VirtualServerRoute).ObjectMeta)
		}
		for _, o := range nsi.transportServerLister.List() {
			addEvent("TransportServer", &o.(*conf_v1.TransportServer).ObjectMeta)
		}
	}
	for _, p := range VerifPolicies {
		ns, name, _ := cache.SplitMetaNamespaceKey(p.Key)
		pol := &conf_v1.Policy{
			ObjectMeta: meta_v1.ObjectMeta{Namespace: ns, Name: name, UID: types.UID("uid-" + name)},
			Spec:       conf_v1.PolicySpec{IngressClass: p.Class, AccessControl: &conf_v1.AccessControl{Allow: []string{"10.0.0.0/8"}}},
		}
		_ = v.nsi(ns).policyLister.Add(pol)
	}
	v.kube.PrependReactor("list", "events", func(action k8stesting.Action) (bool, runtime.Object, error) {
		la, ok := action.(k8stesting.ListAction)
		if !ok {
			return false, nil, nil
		}
		sel := la.GetListRestrictions().Fields
		objs, err := v.kube.Tracker().List(action.GetResource(), api_v1.SchemeGroupVersion.WithKind("Event"), action.GetNamespace())
		if err != nil {
			return true, nil, err
		}
		out := &api_v1.EventList{}
		for _, e := range objs.(*api_v1.EventList).Items {
			name, hasName := sel.RequiresExactMatch("involvedObject.name")
			uid, hasUID := sel.RequiresExactMatch("involvedObject.uid")
			if (hasName && e.InvolvedObject.Name != name) || (hasUID && string(e.InvolvedObject.UID) != uid) {
				continue
			}
			out.Items = append(out.Items, e)
		}
		return true, out, nil
	})
	// the address this controller publishes is known, and every Ingress of the cluster carries it in its status, whoever
	// serves it (an address taken over from, or shared with, another controller)
	v.lbc.statusUpdater.SaveStatusFromExternalStatus("203.0.113.7")
	for _, nsi := range v.lbc.namespacedInformers {
		for _, o := range nsi.ingressLister.Store.List() {
			if ing, ok := o.(*networking.Ingress); ok {
				ing.Status.LoadBalancer.Ingress = []networking.IngressLoadBalancerIngress{{IP: "203.0.113.7"}}
			}
		}
	}
	v.kube.ClearActions()
	v.conf.ClearActions()
	createLeaderHandler(v.lbc).OnStartedLeading(context.Background())
	return v.statusWrites()
}

// VMaster is the rendering projection of one master Ingress that is in GetResources().
type VMaster struct {
	Master string                    `json:"master"`
	Locs   map[string][]configs.VLoc `json:"locs"` // server name -> locations
}

// Mergeable renders every master Ingress that is active now through the real createMergeableIngresses and
// generateNginxCfgForMergeableIngresses.
func (v *VerifCtl) Mergeable() []VMaster {
	out := []VMaster{}
	for _, r := range v.lbc.configuration.GetResources() {
		ic, ok := r.(*IngressConfiguration)
		if !ok || !ic.IsMaster {
			continue
		}
		mi := v.lbc.createMergeableIngresses(ic)
		out = append(out, VMaster{Master: getResourceKey(&ic.Ingress.ObjectMeta), Locs: configs.VerifMergeableLocations(v.lbc.configurator, mi)})
	}
	return out
}

// VWeightProbe is the outcome of a weight-only update of a VirtualServer of another class, delivered to
// the real informer handler with -weight-changes-dynamic-reload switched on.
type VWeightProbe struct {
	Stored bool           `json:"stored"` // the foreign VirtualServer entered Configuration (objects or hosts)
	Events []VEvent       `json:"events"`
	Writes []VStatusWrite `json:"writes"`
}

func verifSplitVS(class string, w1, w2 int, gen int64) *conf_v1.VirtualServer {
	pass := func(u string) *conf_v1.Action { return &conf_v1.Action{Pass: u} }
	return &conf_v1.VirtualServer{
		ObjectMeta: meta_v1.ObjectMeta{Namespace: "wp", Name: "foreign", UID: "uid-wp-foreign", Generation: gen},
		Spec: conf_v1.VirtualServerSpec{
			IngressClass: class, Host: "wp.example.com",
			Upstreams: []conf_v1.Upstream{{Name: "u1", Service: "s1", Port: 80}, {Name: "u2", Service: "s2", Port: 80}},
			Routes:    []conf_v1.Route{{Path: "/", Splits: []conf_v1.Split{{Weight: w1, Action: pass("u1")}, {Weight: w2, Action: pass("u2")}}}},
		},
	}
}

// WeightProbe edits only the split weights of a VirtualServer that belongs to another controller.
func (v *VerifCtl) WeightProbe() VWeightProbe {
	old, cur := verifSplitVS("other", 50, 50, 1), verifSplitVS("other", 60, 40, 2)
	nsi := v.nsi("wp")
	_ = nsi.virtualServerLister.Add(cur)
	v.drainQueue()
	v.rec.take()
	v.kube.ClearActions()
	v.conf.ClearActions()
	v.lbc.weightChangesDynamicReload = true
	createVirtualServerHandlers(v.lbc).UpdateFunc(old, cur)
	v.lbc.weightChangesDynamicReload = false
	q := v.lbc.syncQueue.queue
	for q.Len() > 0 {
		it, _ := q.Get()
		q.Done(it)
		v.lbc.sync(it.(task))
	}
	c := v.lbc.configuration
	c.lock.RLock()
	_, stored := c.virtualServers["wp/foreign"]
	_, holds := c.hosts["wp.example.com"]
	c.lock.RUnlock()
	out := VWeightProbe{Stored: stored || holds, Events: v.rec.take(), Writes: v.statusWrites()}
	_ = nsi.virtualServerLister.Delete(cur)
	v.lbc.sync(task{Kind: virtualserver, Key: "wp/foreign"})
	v.rec.take()
	return out
}

// WeightProbePending: a VirtualServer of this controller with splits is being served; an edit moves it to another
// class (the update waits in the queue, as it does while the worker is busy), and a weight-only update of the now
// foreign object arrives before that task is processed.  The fast path runs at event time: it must not store the
// foreign object, and must not record an Event or write a status on it.  A panic inside the handler counts as reached.
func (v *VerifCtl) WeightProbePending() VWeightProbe {
	own, cur1, cur2 := verifSplitVS("nginx", 50, 50, 1), verifSplitVS("other", 50, 50, 2), verifSplitVS("other", 70, 30, 3)
	for _, x := range []*conf_v1.VirtualServer{own, cur1, cur2} {
		x.Name, x.UID, x.Spec.Host = "pending", "uid-wp-pending", "wpp.example.com"
	}
	nsi := v.nsi("wp")
	sync := func() {
		q := v.lbc.syncQueue.queue
		for q.Len() > 0 {
			it, _ := q.Get()
			q.Done(it)
			v.lbc.sync(it.(task))
		}
	}
	v.drainQueue()
	v.lbc.weightChangesDynamicReload = true
	_ = nsi.virtualServerLister.Add(own)
	createVirtualServerHandlers(v.lbc).AddFunc(own)
	sync()
	_ = nsi.virtualServerLister.Add(cur1)
	createVirtualServerHandlers(v.lbc).UpdateFunc(own, cur1)
	v.rec.take()
	v.kube.ClearActions()
	v.conf.ClearActions()
	_ = nsi.virtualServerLister.Add(cur2)
	panicked := false
	func() {
		defer func() {
			if recover() != nil {
				panicked = true
			}
		}()
		createVirtualServerHandlers(v.lbc).UpdateFunc(cur1, cur2)
	}()
	c := v.lbc.configuration
	c.lock.RLock()
	st, ok := c.virtualServers["wp/pending"]
	stored := ok && st.Spec.IngressClass != "nginx"
	c.lock.RUnlock()
	out := VWeightProbe{Stored: stored || panicked, Events: v.rec.take(), Writes: v.statusWrites()}
	v.lbc.weightChangesDynamicReload = false
	sync()
	_ = nsi.virtualServerLister.Delete(cur2)
	v.lbc.sync(task{Kind: virtualserver, Key: "wp/pending"})
	v.rec.take()
	return out
}

// WeightProbeInvalid: a served VirtualServer with an n-way split (n = 2 or 3) is edited so that only the weights change and
// no longer add up to 100, with -weight-changes-dynamic-reload on.  The update goes to the real informer update handler and
// whatever it queues is processed by the real sync: the validation error must be reported (Events returned), and the rejected
// object must not be served again when the next unrelated event rebuilds the arbitration (Stored = it holds its host then).
func (v *VerifCtl) WeightProbeInvalid(n int) VWeightProbe {
	mkvs := func(ws []int, gen int64) *conf_v1.VirtualServer {
		x := verifSplitVS("nginx", 50, 50, gen)
		x.Name, x.UID, x.Spec.Host = fmt.Sprintf("inv%d", n), types.UID(fmt.Sprintf("uid-wp-inv%d", n)), fmt.Sprintf("wpi%d.example.com", n)
		x.Spec.Upstreams = append(x.Spec.Upstreams, conf_v1.Upstream{Name: "u3", Service: "s3", Port: 80})
		var sp []conf_v1.Split
		for i, w := range ws {
			sp = append(sp, conf_v1.Split{Weight: w, Action: &conf_v1.Action{Pass: fmt.Sprintf("u%d", i+1)}})
		}
		x.Spec.Routes[0].Splits = sp
		return x
	}
	good, bad := []int{50, 50}, []int{70, 50}
	if n == 3 {
		good, bad = []int{50, 30, 20}, []int{50, 30, 30}
	}
	old, cur := mkvs(good, 1), mkvs(bad, 2)
	key := "wp/" + old.Name
	nsi := v.nsi("wp")
	sync := func() {
		q := v.lbc.syncQueue.queue
		for q.Len() > 0 {
			it, _ := q.Get()
			q.Done(it)
			v.lbc.sync(it.(task))
		}
	}
	v.drainQueue()
	v.lbc.weightChangesDynamicReload = true
	_ = nsi.virtualServerLister.Add(old)
	createVirtualServerHandlers(v.lbc).AddFunc(old)
	sync()
	v.rec.take()
	v.kube.ClearActions()
	v.conf.ClearActions()
	_ = nsi.virtualServerLister.Add(cur)
	createVirtualServerHandlers(v.lbc).UpdateFunc(old, cur)
	sync()
	evs := v.rec.take()
	// an unrelated resource arrives: the arbitration is rebuilt; the rejected VirtualServer must not come back
	other := verifSplitVS("nginx", 50, 50, 1)
	other.Name, other.UID, other.Spec.Host = fmt.Sprintf("other%d", n), types.UID(fmt.Sprintf("uid-wp-other%d", n)), fmt.Sprintf("wpo%d.example.com", n)
	_ = nsi.virtualServerLister.Add(other)
	createVirtualServerHandlers(v.lbc).AddFunc(other)
	sync()
	c := v.lbc.configuration
	c.lock.RLock()
	_, holds := c.hosts[cur.Spec.Host]
	c.lock.RUnlock()
	out := VWeightProbe{Stored: holds, Events: evs, Writes: v.statusWrites()}
	v.lbc.weightChangesDynamicReload = false
	_ = nsi.virtualServerLister.Delete(cur)
	v.lbc.sync(task{Kind: virtualserver, Key: key})
	_ = nsi.virtualServerLister.Delete(other)
	v.lbc.sync(task{Kind: virtualserver, Key: "wp/" + other.Name})
	v.rec.take()
	return out
}

// writeBack plays the watch for the status writes of a sync: the informer store gets a NEW object that carries
// the written status (the real informer replaces the cached object; whoever kept the old pointer keeps the old
// status).  The resulting update event changes nothing but the status and is not delivered to the handlers.
func (v *VerifCtl) writeBack(writes []VStatusWrite) {
	for _, w := range writes {
		ns, _, _ := cache.SplitMetaNamespaceKey(w.Key)
		nsi := v.lbc.getNamespacedInformer(ns)
		if nsi == nil {
			continue
		}
		switch o := w.obj.(type) {
		case *conf_v1.VirtualServer:
			if cur, ok, _ := nsi.virtualServerLister.GetByKey(w.Key); ok {
				n := cur.(*conf_v1.VirtualServer).DeepCopy()
				n.Status = *o.Status.DeepCopy()
				_ = nsi.virtualServerLister.Add(n)
			}
		case *conf_v1.VirtualServerRoute:
			if cur, ok, _ := nsi.virtualServerRouteLister.GetByKey(w.Key); ok {
				n := cur.(*conf_v1.VirtualServerRoute).DeepCopy()
				n.Status = *o.Status.DeepCopy()
				_ = nsi.virtualServerRouteLister.Add(n)
			}
		case *conf_v1.TransportServer:
			if cur, ok, _ := nsi.transportServerLister.GetByKey(w.Key); ok {
				n := cur.(*conf_v1.TransportServer).DeepCopy()
				n.Status = *o.Status.DeepCopy()
				_ = nsi.transportServerLister.Add(n)
			}
		}
	}
}

// PolicyProbe: a VirtualServer of this controller uses an accessControl Policy of this controller; then the
// Policy is edited in place so that its class designates another controller.  All events go through the real
// handlers and lbc.sync.  It returns whether the Policy and the VirtualServer could be set up (the caller reads
// the rendered VirtualServer file before and after from its manager).
func (v *VerifCtl) PolicyProbe(step int, shape int) error {
	nsi := v.nsi("pp")
	pol := func(class string, gen int64) *conf_v1.Policy {
		return &conf_v1.Policy{
			ObjectMeta: meta_v1.ObjectMeta{Namespace: "pp", Name: "pol", UID: "uid-pp-pol", Generation: gen},
			Spec:       conf_v1.PolicySpec{IngressClass: class, AccessControl: &conf_v1.AccessControl{Deny: []string{"10.11.12.13"}}},
		}
	}
	drain := func() {
		q := v.lbc.syncQueue.queue
		for q.Len() > 0 {
			it, _ := q.Get()
			q.Done(it)
			v.lbc.sync(it.(task))
		}
	}
	switch step {
	case 1:
		p := pol("nginx", 1)
		if err := nsi.policyLister.Add(p); err != nil {
			return err
		}
		createPolicyHandlers(v.lbc).AddFunc(p)
		drain()
		// shape: where the VirtualServer references the Policy: 0 the spec; 1 the spec and a route; 2 two routes; 3 one route
		ref := []conf_v1.PolicyReference{{Name: "pol"}}
		vs := &conf_v1.VirtualServer{
			ObjectMeta: meta_v1.ObjectMeta{Namespace: "pp", Name: "cafe", UID: "uid-pp-cafe", Generation: 1},
			Spec: conf_v1.VirtualServerSpec{IngressClass: "nginx", Host: "pp.example.com",
				Upstreams: []conf_v1.Upstream{{Name: "u1", Service: "s1", Port: 80}},
				Routes:    []conf_v1.Route{{Path: "/", Action: &conf_v1.Action{Pass: "u1"}}, {Path: "/r2", Action: &conf_v1.Action{Pass: "u1"}}}},
		}
		switch shape % 4 {
		case 0:
			vs.Spec.Policies = ref
		case 1:
			vs.Spec.Policies, vs.Spec.Routes[1].Policies = ref, []conf_v1.PolicyReference{{Name: "pol", Namespace: "pp"}}
		case 2:
			vs.Spec.Routes[0].Policies, vs.Spec.Routes[1].Policies = ref, ref
		case 3:
			vs.Spec.Routes[1].Policies = ref
		}
		if err := nsi.virtualServerLister.Add(vs); err != nil {
			return err
		}
		createVirtualServerHandlers(v.lbc).AddFunc(vs)
		drain()
	case 2:
		old, cur := pol("nginx", 1), pol("other", 2)
		if err := nsi.policyLister.Add(cur); err != nil {
			return err
		}
		createPolicyHandlers(v.lbc).UpdateFunc(old, cur)
		drain()
	case 3:
		// clean up
		if vs, ok, _ := nsi.virtualServerLister.GetByKey("pp/cafe"); ok {
			_ = nsi.virtualServerLister.Delete(vs)
			v.lbc.sync(task{Kind: virtualserver, Key: "pp/cafe"})
		}
		if p, ok, _ := nsi.policyLister.GetByKey("pp/pol"); ok {
			_ = nsi.policyLister.Delete(p)
			v.lbc.sync(task{Kind: policy, Key: "pp/pol"})
		}
		v.rec.take()
	}
	return nil
}
