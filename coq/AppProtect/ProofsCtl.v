(* C19 -- the controller projection: the user-signature folder (what index.conf tells NGINX to load)
   holds exactly the signature sets in force, after every history that contains no DeleteUserSig of
   a key that is not stored (F37). *)
From Coq Require Import List ZArith String Ascii Bool Lia Permutation.
From NIC Require Import Base.SMap AppProtect.Model AppProtect.Spec AppProtect.ProofsBase AppProtect.ProofsSig
     AppProtect.ProofsInv AppProtect.ProofsReport AppProtect.ProofsReport2.
Import ListNotations.
Open Scope string_scope.
Open Scope list_scope.
Open Scope Z_scope.

Section V.
Context {fx : bool}.

Lemma other_events_usersigs st ev : is_sig_event ev = false ->
  usersigs (waf (fst (step fx st ev))) = usersigs (waf st).
Proof.
  intros H. destruct ev as [k o|k|k o|k|k o|k|k o|k|k o|k|o|k]; try discriminate;
    unfold step, lift_w, lift_d; cbn [fst snd waf].
  - unfold add_or_update_policy. destruct (create_policy_ex o) as [pol [c|]]; [reflexivity|].
    destruct (verify_policy_against_user_sigs fx (usersigs (waf st)) pol); reflexivity.
  - unfold delete_policy. destruct (lookup k (policies (waf st))); reflexivity.
  - unfold add_or_update_logconf. destruct (create_logconf_ex o) as [lc [c|]]; reflexivity.
  - unfold delete_logconf. destruct (lookup k (logconfs (waf st))); reflexivity.
  - reflexivity.
  - reflexivity.
  - reflexivity.
  - reflexivity.
  - destruct (add_or_update_dos_pr (dos st) o) as [[? ?] ?]. reflexivity.
  - reflexivity.
Qed.

Lemma step_keeps_wf_sigs st ev : wf (usersigs (waf st)) -> wf (usersigs (waf (fst (step fx st ev)))).
Proof.
  intros W. destruct (is_sig_event ev) eqn:E; [|rewrite other_events_usersigs by exact E; exact W].
  destruct ev as [k o|k|k o|k|k o|k|k o|k|k o|k|o|k]; try discriminate.
  - unfold step, lift_w, add_or_update_usersig. destruct (create_usersig_ex o) as [sg e].
    destruct (busc_usersigs (fx := fx) (waf st) (insert k sg (usersigs (waf st)))
                (match e with Some c => [prob KUserSig k c] | None => [] end)) as [E1 _].
    cbn [fst waf]. rewrite E1. apply wf_reconcile. apply wf_insert. exact W.
  - unfold step, lift_w, delete_usersig. destruct (lookup k (usersigs (waf st))).
    + destruct (busc_usersigs (fx := fx) (waf st) (remove k (usersigs (waf st))) []) as [E1 _].
      cbn [fst waf]. rewrite E1. apply wf_reconcile. apply wf_remove. exact W.
    + exact W.
Qed.

(* every signature operation of the history is effective: no DeleteUserSig of an absent key *)
Fixpoint effective_from (st : state) (evs : list event) : Prop :=
  match evs with
  | [] => True
  | ev :: r => (is_sig_event ev = true -> sig_op_effective st ev = true) /\ effective_from (fst (step fx st ev)) r
  end.

Definition files_are_in_force (sf : state * list string) : Prop :=
  forall key, In key (snd sf) <-> usable (fst sf) KUserSig key = true.

Lemma ctl_step_keeps sf ev :
  wf (usersigs (waf (fst sf))) -> files_are_in_force sf ->
  (is_sig_event ev = true -> sig_op_effective (fst sf) ev = true) ->
  files_are_in_force (ctl_step fx sf ev).
Proof.
  intros W HF He. unfold files_are_in_force, ctl_step, project_files. cbn [fst snd].
  destruct (is_sig_event ev) eqn:E.
  - destruct (usersig_list_complete (fx := fx) (fst sf) ev W (He eq_refl)) as [l [E1 E2]]. rewrite E1. exact E2.
  - intros key. destruct (other_events_keep_sigs (fx := fx) (fst sf) ev key E) as [E1 E2]. rewrite E2, E1. apply HF.
Qed.

Theorem files_follow_from evs : forall sf,
  wf (usersigs (waf (fst sf))) -> files_are_in_force sf -> effective_from (fst sf) evs ->
  files_are_in_force (ctl_run_from fx sf evs).
Proof.
  induction evs as [|ev r IH]; intros sf W HF He; cbn; [exact HF|].
  destruct He as [He1 He2]. apply IH.
  - cbn [ctl_step fst]. apply step_keeps_wf_sigs. exact W.
  - apply ctl_step_keeps; assumption.
  - exact He2.
Qed.

Theorem files_follow en evs :
  effective_from (init en) evs -> files_are_in_force (ctl_run fx en evs).
Proof.
  intros He. apply files_follow_from; [constructor| |exact He].
  intros key. cbn. split; [tauto|discriminate].
Qed.

End V.

(* F37 seen through the controller: the folder is emptied although a signature is in force *)
Lemma files_refuted : forall fx : bool,
  exists (evs : list event) (k : string),
    usable (fst (ctl_run fx true evs)) KUserSig k = true /\ snd (ctl_run fx true evs) = [].
Proof.
  intros fx. exists [EvUserSig "n1/a" {| so_uid := "aa-1"; so_ts := 1; so_valid := true; so_tag := "t1"; so_rev := TAbsent |};
                    EvDelUserSig "n2/c"], "n1/a".
  destruct fx; vm_compute; split; reflexivity.
Qed.
