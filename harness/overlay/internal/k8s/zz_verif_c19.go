//go:build verif

package k8s

import (
	"context"
	"sort"
	"strings"

	"github.com/nginx/kubernetes-ingress/internal/configs"
	"github.com/nginx/kubernetes-ingress/internal/configs/version1"
	"github.com/nginx/kubernetes-ingress/internal/configs/version2"
	"github.com/nginx/kubernetes-ingress/internal/k8s/appprotect"
	nl "github.com/nginx/kubernetes-ingress/internal/logger"
	"github.com/nginx/kubernetes-ingress/internal/nginx"
	"github.com/nginx/kubernetes-ingress/pkg/apis/configuration/validation"
	"k8s.io/apimachinery/pkg/apis/meta/v1/unstructured"
	"k8s.io/client-go/tools/cache"
	"k8s.io/client-go/tools/record"
)

// VerifC19 drives the controller side of the APUserSig path for property C19: the real
// syncAppProtectUserSig -> processAppProtectUserSigChange -> Configurator.RefreshAppProtectUserSigs
// over the real appprotect.Configuration; only the NGINX manager is replaced by a recorder of the
// App Protect files it is asked to write.  No Ingress / VirtualServer exists, so policy changes
// reach no resource; what is observed is the user-signature folder and its index.
type VerifC19 struct {
	lbc   *LoadBalancerController
	m     *verifC19Manager
	store cache.Store
}

type verifC19Manager struct {
	*nginx.FakeManager
	files map[string]string
}

func (m *verifC19Manager) CreateAppProtectResourceFile(name string, content []byte) {
	m.files[name] = string(content)
}

func (m *verifC19Manager) DeleteAppProtectResourceFile(name string) { delete(m.files, name) }

func (m *verifC19Manager) ClearAppProtectFolder(name string) {
	for f := range m.files {
		if strings.HasPrefix(f, name) {
			delete(m.files, f)
		}
	}
}

const (
	verifC19Folder = "/etc/nginx/waf/nac-usersigs/"
	verifC19Index  = "/etc/nginx/waf/nac-usersigs/index.conf"
)

// VerifC19New builds the controller fragment (fields the APUserSig path reads).
func VerifC19New() *VerifC19 {
	ctx := context.Background()
	logger := nl.LoggerFromContext(ctx)
	m := &verifC19Manager{FakeManager: nginx.NewFakeManager("/etc/nginx"), files: map[string]string{}}
	cnf := configs.NewConfigurator(configs.ConfiguratorParams{
		NginxManager:       m,
		StaticCfgParams:    &configs.StaticConfigParams{},
		Config:             configs.NewDefaultConfigParams(ctx, true),
		TemplateExecutor:   &version1.TemplateExecutor{},
		TemplateExecutorV2: &version2.TemplateExecutor{},
		IsPlus:             true,
	})
	store := cache.NewStore(cache.DeletionHandlingMetaNamespaceKeyFunc)
	lbc := &LoadBalancerController{
		configurator:            cnf,
		appProtectEnabled:       true,
		isNginxPlus:             true,
		ingressClass:            "nginx",
		appProtectConfiguration: appprotect.NewConfiguration(logger),
		recorder:                record.NewFakeRecorder(1 << 14),
		Logger:                  logger,
		namespacedInformers: map[string]*namespacedInformer{
			"": {appProtectUserSigLister: store, policyLister: cache.NewStore(cache.DeletionHandlingMetaNamespaceKeyFunc), appProtectEnabled: true},
		},
	}
	lbc.configuration = NewConfiguration(lbc.HasCorrectIngressClass, true, true, false, false,
		validation.NewVirtualServerValidator(validation.IsPlus(true)),
		validation.NewGlobalConfigurationValidator(map[int]bool{}),
		validation.NewTransportServerValidator(false, false, true), false, false, false, false)
	lbc.syncQueue = newTaskQueue(logger, func(task) {})
	return &VerifC19{lbc: lbc, m: m, store: store}
}

// Config is the real appprotect.Configuration of the controller.
func (v *VerifC19) Config() appprotect.Configuration { return v.lbc.appProtectConfiguration }

// SyncUserSig plays the informer and the worker for one APUserSig event: obj == nil means the
// object is gone from the cache; then the real syncAppProtectUserSig runs for the key.
func (v *VerifC19) SyncUserSig(key string, obj *unstructured.Unstructured) {
	if obj == nil {
		if old, ok, _ := v.store.GetByKey(key); ok {
			_ = v.store.Delete(old)
		}
	} else {
		_ = v.store.Add(obj)
	}
	v.lbc.syncAppProtectUserSig(task{Kind: appProtectUserSig, Key: key})
	// drain the event recorder so that it never blocks
	for {
		select {
		case <-v.lbc.recorder.(*record.FakeRecorder).Events:
			continue
		default:
		}
		break
	}
}

// Loaded returns the files index.conf tells NGINX to load (sorted, folder prefix removed);
// Files the files that exist in the folder besides the index.
func (v *VerifC19) Loaded() []string {
	out := []string{}
	for _, line := range strings.Split(v.m.files[verifC19Index], "\n") {
		line = strings.TrimSpace(line)
		if line == "" {
			continue
		}
		line = strings.TrimSuffix(strings.TrimPrefix(line, "app_protect_user_defined_signatures "), ";")
		out = append(out, strings.TrimPrefix(line, verifC19Folder))
	}
	sort.Strings(out)
	return out
}

func (v *VerifC19) Files() []string {
	out := []string{}
	for f := range v.m.files {
		if strings.HasPrefix(f, verifC19Folder) && f != verifC19Index {
			out = append(out, strings.TrimPrefix(f, verifC19Folder))
		}
	}
	sort.Strings(out)
	return out
}
