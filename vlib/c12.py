"""C12 -- no change left unapplied; no reload while reloads are held back."""
import os, json
from . import common as C

FK = {"main": "FMain", "conf": "FConf", "stream": "FStream", "tls": "FTls", "secret": "FSecret", "lazy": "FLazy"}
RK = {"ing": "KIng", "merge": "KMerge", "vs": "KVS", "ts": "KTS"}
ERR = {"none": 0, "reload": 1}


def cq_ev(e):
    k = e["e"]
    if k == "w":
        return "EWrite %s %s %s" % (FK[e["k"]], C.cq_str(e.get("n", "")), C.cq_bool(e.get("c", False)))
    if k == "d":
        return "EDelete %s %s %s" % (FK[e["k"]], C.cq_str(e.get("n", "")), C.cq_bool(e.get("c", False)))
    if k == "r":
        return "EReload %s %s" % (C.cq_bool(e.get("endp", False)), C.cq_bool(e.get("ok", False)))
    if k == "a":
        return "EApi %s %s %s" % (C.cq_bool(e.get("stream", False)), C.cq_str(e.get("n", "")), C.cq_bool(e.get("ok", False)))
    if k == "en":
        return "EEnable"
    if k == "dis":
        return "EDisable"
    raise ValueError(k)


def cq_log(l):
    return C.cq_list([cq_ev(e) for e in l or []])


def cq_res(r):
    return "(mkres %s %s %s %s %d %s)" % (RK[r["kind"]], C.cq_str(r["file"]), C.cq_z(r["ver"]),
                                          C.cq_list([C.cq_list([C.cq_str(u) for u in g]) for g in r.get("apis") or []]),
                                          r.get("weights", 0), C.cq_opt(r.get("pt"), C.cq_z))


def cq_rs(rs):
    return C.cq_list([cq_res(r) for r in rs or []])


def cq_strs(xs):
    return C.cq_list([C.cq_str(x) for x in xs or []])


def cq_op(o):
    k = o["op"]
    if k == "add":
        return "OAdd %s" % cq_res(o["res"])
    if k == "addvss":
        return "OAddVSs %s" % cq_rs(o.get("rs"))
    if k == "addres":
        return "OAddResources %s %s" % (cq_rs(o.get("rs")), C.cq_bool(o.get("always", False)))
    if k == "del":
        return "ODelete %s %s %s" % (RK[o["kind"]], C.cq_str(o["file"]), C.cq_bool(o.get("skip", False)))
    if k == "endp":
        return "OEndpoints %s %s" % (RK[o["kind"]], cq_rs(o.get("rs")))
    if k == "enable":
        return "OEnable"
    if k == "disable":
        return "ODisable"
    if k == "updateconfig":
        return "OUpdateConfig %s %s" % (C.cq_z(o.get("mv", 0)), cq_rs(o.get("rs")))
    if k == "reloadbatch":
        return "OReloadForBatch %s" % C.cq_bool(o.get("flag", False))
    if k == "updatevss":
        return "OUpdateVSs %s %s" % (cq_rs(o.get("rs")), cq_strs(o.get("files")))
    if k == "updatetss":
        return "OUpdateTSs %s %s" % (cq_rs(o.get("rs")), cq_strs(o.get("files")))
    if k == "batchdel":
        return "OBatchDelete %s %s" % (RK[o["kind"]], cq_strs(o.get("files")))
    if k == "secret":
        return "OSecret %s %s %s" % (C.cq_bool(o.get("eager", False)), C.cq_str(o["name"]), C.cq_z(o.get("ver", 0)))
    if k == "reload":
        return "OReload"
    raise ValueError(k)


def cq_nats(xs):
    return "[%s]%%nat" % "; ".join(str(x) for x in xs or [])


TK = {"endpointslice": "TEndpointSlice", "configmap": "TConfigMap", "mgmtconfigmap": "TConfigMap"}


def cq_task(t):
    tk = TK.get(t["kind"], "TOther")
    if t["kind"] == "stale" and t.get("name") == "endpointslice":
        tk = "TEndpointSlice"       # sync looks at the kind before it ignores the task
    return "(mktask %s %d %s %s %s %s %s %s %s)" % (tk, t["qlen"],
                                                    C.cq_list(["(%s)" % cq_op(o) for o in t.get("work") or []]),
                                                    C.cq_bool(t.get("found", False)), C.cq_bool(t.get("reports", True)),
                                                    C.cq_bool(t.get("allrep", True)),
                                                    C.cq_list(["(%s)" % cq_op(o) for o in t.get("allpre") or []]),
                                                    C.cq_z(t.get("mvnow", 0)), cq_rs(t.get("all")))


def cq_mis(obs):
    """per operation / sync: positions in its log of the API calls whose pushed servers differ from the file"""
    return C.cq_list([cq_nats([i for i, e in enumerate(o["log"] or [])
                                if (e.get("e") == "a" and e.get("mis")) or (e.get("e") == "w" and e.get("unpushed"))]) for o in obs])


def cq_fix(c):
    f = c.get("fix") or {}
    return "(mkfx %s %s %s %s)" % tuple(C.cq_bool(f.get(k, False)) for k in ("weights", "uab", "batchrep", "endprep"))


def case_to_coq(c):
    if c["fam"] == "cfg":
        obs = C.cq_list(["(%s, %d, %s)" % (cq_log(o["log"]), ERR.get(o["err"], 2), C.cq_bool(o["enabled"])) for o in c["obs"]])
        return "cfg_case %d %s %s %s %s %s %s %s" % (c["id"], C.cq_bool(c["plus"]), cq_fix(c), C.cq_list(["(%s)" % cq_op(o) for o in c["ops"]]),
                                               cq_nats(c["rfail"]), cq_nats(c["afail"]), obs, cq_mis(c["obs"]))
    if c["fam"] == "ctl":
        obs = C.cq_list(["(%s, %s, %s, %s, %s)" % (cq_log(o["log"]), C.cq_bool(o["enabled"]), C.cq_bool(o["ready"]),
                                                   C.cq_bool(o["batch"]), C.cq_bool(o["reported"])) for o in c["obs"]])
        return "ctl_case %d %s %s %s %s %s %s" % (c["id"], C.cq_bool(c["plus"]), cq_fix(c), C.cq_list([cq_task(t) for t in c["tasks"]]),
                                            cq_nats(c["rfail"]), cq_nats(c["afail"]), obs) + " " + cq_mis(c["obs"])
    raise ValueError(c["fam"])


PRELUDE = """From NIC Require Import Base.SMap Reload.Model Reload.Cases.
Definition mkfx w u b d := {| fx_weights := w; fx_uab := u; fx_batchrep := b; fx_endprep := d |}.
Definition mkres k n v a w pt := {| r_kind := k; r_name := n; r_ver := v; r_apis := a; r_weights := w; r_pt := pt |}.
Definition mktask k q w f rp ar pre mv al := {| t_kind := k; t_qlen := q; t_work := w; t_found := f; t_reports := rp; t_all_reports := ar; t_all_pre := pre; t_mainver := mv; t_all := al |}.
"""


def evaluate(run, cases, tag):
    cases = [c for c in cases if not (isinstance(c.get("obs"), dict) and "error" in c["obs"])]
    if not cases:
        return []
    body = PRELUDE
    body += "Definition results : list (list Z) := Eval vm_compute in\n  [" + ";\n   ".join(case_to_coq(c) for c in cases) + "].\n"
    body += "Print results.\n"
    path = os.path.join(C.WORK, "cases", "C12_%s.v" % tag)
    C.write_cases_v(path, body)
    rc, out = C.coqc(path)
    res = C.parse_z_lists(out, "results")
    if rc != 0 or res is None or len(res) != len(cases):
        raise C.TieBroken("coqc could not evaluate the C12 cases file (%s): %s" % (path, out[-1500:]))
    return res


def op_site(o):
    """call site of an operation, for finding signatures"""
    k = o["op"]
    if k == "add":
        r = o["res"]
        if r["kind"] == "vs":
            return "AddOrUpdateVirtualServer" + ("-weights" if r.get("weights", 0) > 0 else "")
        return {"ing": "AddOrUpdateIngress", "merge": "AddOrUpdateMergeableIngress", "ts": "AddOrUpdateTransportServer"}[r["kind"]]
    if k == "del":
        return {"ing": "DeleteIngress", "merge": "DeleteIngress", "vs": "DeleteVirtualServer", "ts": "DeleteTransportServer"}[o["kind"]]
    if k == "endp":
        return {"ing": "UpdateEndpoints", "merge": "UpdateEndpointsMergeableIngress", "vs": "UpdateEndpointsForVirtualServers",
                "ts": "UpdateEndpointsForTransportServers"}[o["kind"]]
    if k == "batchdel":
        return "BatchDeleteVirtualServers" if o["kind"] == "vs" else "BatchDeleteIngresses"
    if k == "secret":
        return "secret-write:" + o["name"]
    if k == "reload":
        return "Reload"
    return {"addvss": "AddOrUpdateVirtualServers", "addres": "AddOrUpdateResources", "enable": "EnableReloads", "disable": "DisableReloads",
            "updateconfig": "UpdateConfig", "reloadbatch": "ReloadForBatchUpdates", "updatevss": "UpdateVirtualServers",
            "updatetss": "UpdateTransportServers"}[k]


def work_sites(t):
    return "+".join(sorted({op_site(o) for o in t.get("work") or []})) or "none"


VERDICT = {
    1: ("reload-while-held", "a Reload or API call happened while reloads were held back (mid-batch / before start-up ended)"),
    2: ("change-not-reloaded", "the batch ended after a file changed but no Reload call followed the last change"),
    3: ("reload-without-change", "the batch ended with nothing changed and nothing pending, yet NGINX was reloaded"),
    4: ("reload-without-change", "the batch ended with nothing changed and nothing pending, yet everything was regenerated and NGINX reloaded"),
    5: ("reload-failure-not-reported", "the Reload that closes the batch failed and was not reported on any resource (no Warning event)"),
    8: ("reload-failure-not-reported", "the handler's own Reload failed, its object still exists, and nothing was reported on it (no Warning event)"),
    9: ("reload-failure-not-reported", "the Reload of updateAllConfigs failed and was reported neither on a resource nor on the ConfigMap/GlobalConfiguration"),
    11: ("drain-left-window-open", "the queue was empty when the sync ended, yet reloads are still held back (batch still open or start-up not finished): "
         "what the batch wrote is not reloaded and nothing will reload it until an unrelated event"),
    10: ("api-push-differs-from-file", "the sync wrote the file, pushed a different server list for the same upstream through the Plus API, the call succeeded and no reload followed"),
    7: ("change-not-applied", "outside any batch the sync changed a file but neither called Reload afterwards nor pushed the change through the Plus API"),
    6: ("reload-failure-not-reported", "a Reload that failed while endpoints were updated was only logged (no Warning event on the resources using the service)"),
}


def shrink_cfg(c, upto):
    d = dict(c)
    d["ops"] = c["ops"][:upto + 1]
    d["obs"] = c["obs"][:upto + 1]
    return d


def judge(run, cases, res):
    byid = {c["id"]: c for c in cases}
    for c in cases:
        if isinstance(c.get("obs"), dict) and "error" in c["obs"]:
            run.failing({"kind": "harness-case-error", "fam": c["fam"]}, [c],
                        "the harness could not run case %d (%s): %s" % (c["id"], c["fam"], c["obs"]["error"][:300]),
                        theorem="correspondence harness c12", found_input=False)
    for row in res:
        cid, agree, spec, nontriv, cover, ag = row[:6]
        c = byid[cid]
        steps = c["ops"] if c["fam"] == "cfg" else c["tasks"]
        canon = {k: c.get(k) for k in ("fam", "plus", "dynw", "dyns", "mgmt", "ops", "tasks", "rfail", "afail")}
        run.count_case(canon, bool(nontriv))
        run.cov["traces_validated_against_impl"] += 1
        run.cov.setdefault("operations_or_syncs_validated", 0)
        run.cov["operations_or_syncs_validated"] += len(steps)
        bf = run.cov.setdefault("by_family", {})
        bf[c["fam"] + ":" + c["class"]] = bf.get(c["fam"] + ":" + c["class"], 0) + 1
        br = run.cov.setdefault("model_branches_reached", {})
        names = (["reload-ok", "reload-failed", "api-ok", "api-failed", "unchanged-write-or-absent-delete", "weight-updates", "disable"]
                 if c["fam"] == "cfg" else
                 ["reload-ok", "reload-failed", "api-call", "batch-started", "failure-swallowed", "failure-reported", "updateAllConfigsOnBatch-set"])
        for i, nme in enumerate(names):
            if cover & (1 << i):
                br[c["fam"] + ":" + nme] = br.get(c["fam"] + ":" + nme, 0) + 1
        for o in (c["obs"] if isinstance(c["obs"], list) else []):
            if o.get("panic"):
                run.failing({"kind": "panic", "fam": c["fam"]}, [c], "the code under test panicked in case %d: %s" % (cid, o["panic"][:200]),
                            theorem="Reload.Cases (panic)")
        if c["fam"] == "cfg":
            s1, s2, s4, s5 = row[6:10]
            s6 = row[10] if len(row) > 10 else -1
            if s6 >= 0:
                site = op_site(c["ops"][s6])
                run.failing({"kind": "retried-change-not-applied", "site": site}, [shrink_cfg(c, s6)],
                            "case %d op %d (%s): the endpoints operation before it wrote the changed file and returned the failed reload; this retry over the "
                            "same files returned without error with reloads enabled, but made neither a successful reload nor (Plus) successful API pushes - "
                            "NGINX keeps running the old servers: %s" % (cid, s6, site, json.dumps(c["obs"][s6]["log"])[:300]),
                            theorem="Reload.Cases.retry_ok (C12: no change left unapplied)")
            if s5 >= 0:
                site = op_site(c["ops"][s5])
                bad = [e for e in c["obs"][s5]["log"] if e.get("mis") or e.get("unpushed")]
                run.failing({"kind": "api-push-differs-from-file", "site": site}, [shrink_cfg(c, s5)],
                            "case %d op %d (%s) wrote the file and used the Plus API instead of a reload, but an upstream whose servers changed in the file "
                            "was pushed with different servers or not pushed at all: %s" % (cid, s5, site, json.dumps(bad)[:400]),
                            theorem="Reload.Cases.push_same_ok (C12: pushes the same change through the API)")
            if s1 >= 0:
                site = op_site(c["ops"][s1])
                run.failing({"kind": "reload-while-held", "site": site}, [shrink_cfg(c, s1)],
                            "case %d op %d (%s): a Reload or API call reached the Manager between DisableReloads/start-up and EnableReloads: %s"
                            % (cid, s1, site, json.dumps(c["obs"][s1]["log"])[:300]), theorem="Reload.Cases.held_from (C12_no_reload_while_held)")
            if s2 >= 0:
                site = op_site(c["ops"][s2])
                run.failing({"kind": "change-not-applied", "site": site}, [shrink_cfg(c, s2)],
                            "case %d op %d (%s) returned without error with reloads enabled but its change was neither reloaded nor pushed through the API: %s"
                            % (cid, s2, site, json.dumps(c["obs"][s2]["log"])[:300]), theorem="Reload.Cases.applied_ok (C12_applied_when_enabled)")
            if s4 >= 0:
                site = op_site(c["ops"][s4])
                run.failing({"kind": "reload-failure-not-returned", "site": site}, [shrink_cfg(c, s4)],
                            "case %d op %d (%s): failed Reload and returned error disagree: err=%s log=%s"
                            % (cid, s4, site, c["obs"][s4]["err"], json.dumps(c["obs"][s4]["log"])[:300]),
                            theorem="Reload.Cases.failprop_ok (C12_failure_propagates)")
        else:
            vs = row[6:]
            for i, v in enumerate(vs):
                if v == 0:
                    continue
                kind, what = VERDICT.get(v, ("spec", "specification fails"))
                t = c["tasks"][i]
                ended = (i > 0 and c["obs"][i - 1]["batch"]) and not c["obs"][i]["batch"]
                j = i           # the batch that ends here is syncs j..i
                while j > 0 and c["obs"][j - 1]["batch"]:
                    j -= 1
                batch_tasks = c["tasks"][j:i + 1]
                if ended and v == 3 and all(x["kind"] == "endpointslice" and not x.get("found") for x in batch_tasks):
                    # no task of the batch could have touched anything NGINX reads (only EndpointSlices no resource uses):
                    # not the by-design class F16a (a non-endpointslice task, or a referenced EndpointSlice, raises the flag)
                    site = "batch-end-unreferenced-endpointslices-only"
                elif v == 5 or (ended and v in (2, 3)):
                    site = "batch-end"
                elif v == 9:
                    site = "updateAllConfigs"
                elif v == 11:
                    site = "queue-drained-by-" + t["kind"] + "-task"
                elif ended and v == 4:
                    # the batch is syncs j..i; a ConfigMap task inside it makes updateAllConfigs the intended ending
                    # (then the reload without change is the by-design F16a class), otherwise the stale flag did it
                    site = "batch-end" if (any(x["kind"] in ("configmap", "mgmtconfigmap") for x in batch_tasks)
                                            or any(o["op"] == "updateconfig" for o in t.get("work") or [])) else "batch-end-updateall"
                elif v == 6:
                    # the EndpointSlice of the controller's own Service goes through updateNumberOfIngressControllerReplicas
                    site = "task-endpointslice:controller-replicas" if t.get("name") == "nic-svc" else "task-endpointslice"
                else:
                    site = "task-" + t["kind"] + ":" + work_sites(t)
                d = dict(c)
                d["tasks"], d["obs"] = c["tasks"][:i + 1], c["obs"][:i + 1]
                run.failing({"kind": kind, "site": site}, [d], "case %d sync %d (%s task, queue length %d): %s: %s"
                            % (cid, i, t["kind"], t["qlen"], what, json.dumps(c["obs"][i])[:300]), theorem="Reload.Cases.sync_verdict")
        if not agree and spec:
            run.failing({"kind": "correspondence", "fam": c["fam"]}, [c],
                        "model and implementation disagree (family %s, case %d, step %d: %s) but the specification holds on the observation: obs=%s"
                        % (c["fam"], cid, ag, json.dumps(steps[ag])[:200] if 0 <= ag < len(steps) else "length", json.dumps(c["obs"][ag] if 0 <= ag < len(c["obs"]) else None)[:300]),
                        theorem="correspondence Reload.Model ~ internal/configs/configurator.go, internal/k8s/controller.go", found_input=False)
        elif not agree:
            run.cov.setdefault("disagreements_on_spec_failing_cases", 0)
            run.cov["disagreements_on_spec_failing_cases"] += 1
            run.failing({"kind": "correspondence", "fam": c["fam"]}, [c],
                        "model and implementation disagree (family %s, case %d, step %d)" % (c["fam"], cid, ag),
                        theorem="correspondence Reload.Model ~ internal/configs/configurator.go, internal/k8s/controller.go", found_input=False)


TRUSTED = [
    "Rocq 8.16.1 kernel incl. vm_compute (no native_compute); no axioms (Print Assumptions: closed)",
    "hand-written model coq/Reload/Model.v of the reload gate of internal/configs/configurator.go and of LoadBalancerController.sync, tied on every run by the "
    "correspondence harness harness/overlay/internal/verifh/c12 (real NewConfigurator + production templates, real lbc.sync with a real workqueue of chosen length) "
    "over a recording nginx.Manager",
    "the recording Manager (in-memory files with byte comparison standing in for LocalManager.configContentsChanged; Reload and Plus API results injected by call index); "
    "the nginx process itself is not run",
    "four fixed probes on the real code decide which variant of the model applies (repairs F15/F16b/F16c/F16d present or not); the specification is "
    "evaluated on the observations regardless of the variant",
    "the harness's own formulas for file names, upstream names and content identity of the generated resources (a wrong formula shows up as a correspondence mismatch)",
]


def check(run):
    n = 800 if run.tier == "quick" else 12000
    run.proof_obligations()
    binary = C.go_build("c12")
    out = os.path.join(C.WORK, "cases", "c12_%s.jsonl" % run.tier)
    rc, log = C.run_harness(binary, ["-seed", str(run.seed), "-n", str(n), "-out", out, "-tier", run.tier], timeout=3000)
    if rc != 0:
        raise C.TieBroken("c12 harness failed rc=%d: %s" % (rc, log[-1500:]))
    cases = C.read_jsonl(out)
    if cases:
        # which of the proposed repairs (fixes/F15, F16b, F16c, F16d) the tree under test contains, probed by the harness
        run.cov["code_variant_probed"] = cases[0].get("fix")
    shard = 60
    parts = [cases[k:k + shard] for k in range(0, len(cases), shard)]
    from concurrent.futures import ThreadPoolExecutor
    with ThreadPoolExecutor(max_workers=8) as ex:      # one coqc process per shard
        futs = [ex.submit(evaluate, run, part, "%s_%d" % (run.tier, i)) for i, part in enumerate(parts)]
        results = [f.result() for f in futs]
    for part, res in zip(parts, results):
        judge(run, part, res)
    for c in [x for x in cases if x["fam"] == "cfg"][:1] + [x for x in cases if x["fam"] == "ctl"][:1]:
        run.sample(c)
    run.cov["rule"] = ("cfg: histories of 4-30 public Configurator operations (AddOrUpdate{Ingress,MergeableIngress,VirtualServer,VirtualServers,TransportServer,Resources}, "
                       "Delete*, UpdateEndpoints* (OSS and Plus), Enable/DisableReloads, UpdateConfig, ReloadForBatchUpdates, Update{VirtualServers,TransportServers}, "
                       "BatchDelete*) over 10 named resources with repeated and changed content, reload failures / API failures injected at random call indices, plus a fixed "
                       "corpus (witnesses of the refutation theorems, a failure at every call of a short history, Plus API fallback).  ctl: histories of 3-30 real "
                       "lbc.sync calls (ingress incl. one with a replica-scaled rate limit, virtualserver, transportserver, endpointslice incl. the controller's own "
                       "Service, configmap, MGMT configmap (Plus), secret tasks for every special-Secret role: default server, wildcard, MGMT licence / client "
                       "certificate / trusted CA, with -ssl-dynamic-reload on and off; add/update/delete/re-delivery; queue length chosen per task; two-batch "
                       "histories). Secret files are classified by the recording Manager at write time: a change NGINX sees only after a reload iff a "
                       "configuration file on disk names the file literally. "
                       "A case is distinct by its full input; a case is non-trivial when the model run contains a change, a Reload or an API call.")
    run.cov["trusted_base"] = TRUSTED
    run.assumptions += [
        "files NGINX reads = main config, conf.d, stream-conf.d, and the special Secret files a configuration file names literally; regular (resource-referenced) Secrets, "
        "App Protect files, DH params, SPIFFE certs, policies with rateLimit.scale on VirtualServers are not in the operation alphabet",
        "the model has one has-something-to-report-on flag per task: histories with the trusted-CA Secret keep the NGINX ConfigMap so that both reloads of its handler are reportable",
        "template execution cannot fail in the generated cases (the only injected faults are Reload and Plus API results)",
        "endpoints operations are called with the stored spec (only endpoints differ) and every resource has at least one upstream to push",
    ]


def replay(run, path):
    binary = C.go_build("c12")
    out = os.path.join(C.WORK, "cases", "c12_replay.jsonl")
    rc, log = C.run_harness(binary, ["-replay", path, "-out", out], timeout=600)
    if rc != 0:
        raise C.TieBroken("c12 harness failed on replay: %s" % log[-1500:])
    cases = C.read_jsonl(out)
    res = evaluate(run, cases, "replay")
    for c, r in zip([c for c in cases if not (isinstance(c.get("obs"), dict) and "error" in c["obs"])], res):
        print("replay case %d (%s): model-agrees=%d spec=%d first-disagreement=%d detail=%s" % (c["id"], c["fam"], r[1], r[2], r[5], r[6:]))
        for i, o in enumerate(c["obs"]):
            print("   step %d %s -> impl %s" % (i, json.dumps((c.get("ops") or c.get("tasks"))[i])[:160], json.dumps(o)[:300]))
    judge(run, cases, res)
