//go:build verif

package k8s

// Add-only hooks for property C14 (upstream servers = ready endpoints of the referenced
// service port).  Nothing here decides anything: a LoadBalancerController is assembled the
// way controller_test.go assembles one (struct literal, namespacedInformer with plain
// cache stores the harness fills), and the unexported endpoint-resolution functions are
// exported as thin wrappers.

import (
	"io"
	"log/slog"

	"github.com/nginx/kubernetes-ingress/internal/configs"
	"github.com/nginx/kubernetes-ingress/internal/k8s/secrets"
	conf_v1 "github.com/nginx/kubernetes-ingress/pkg/apis/configuration/v1"
	"github.com/nginx/kubernetes-ingress/pkg/apis/configuration/validation"
	api_v1 "k8s.io/api/core/v1"
	discovery_v1 "k8s.io/api/discovery/v1"
	networking "k8s.io/api/networking/v1"
	"k8s.io/apimachinery/pkg/labels"
	"k8s.io/client-go/tools/cache"
)

// VerifC14 is a controller over stores the harness populates.
type VerifC14 struct {
	lbc    *LoadBalancerController
	svcs   cache.Store
	slices cache.Store
	pods   cache.Indexer
}

// NewVerifC14 builds the controller; the pod indexer has the namespace index every
// shared informer has (ListAllByNamespace uses it).
func NewVerifC14(isPlus bool) *VerifC14 {
	logger := slog.New(slog.NewTextHandler(io.Discard, nil))
	v := &VerifC14{
		svcs:   cache.NewStore(cache.MetaNamespaceKeyFunc),
		slices: cache.NewStore(cache.MetaNamespaceKeyFunc),
		pods:   cache.NewIndexer(cache.MetaNamespaceKeyFunc, cache.Indexers{cache.NamespaceIndex: cache.MetaNamespaceIndexFunc}),
	}
	nsi := map[string]*namespacedInformer{
		"": {
			svcLister:           v.svcs,
			endpointSliceLister: storeToEndpointSliceLister{Store: v.slices},
			podLister:           indexerToPodLister{Indexer: v.pods},
			policyLister:        cache.NewStore(cache.MetaNamespaceKeyFunc),
		},
	}
	lbc := &LoadBalancerController{
		ingressClass:              "nginx",
		isNginxPlus:               isPlus,
		areCustomResourcesEnabled: true,
		namespacedInformers:       nsi,
		secretStore:               secrets.NewEmptyFakeSecretsStore(),
		Logger:                    logger,
	}
	lbc.configuration = NewConfiguration(
		lbc.HasCorrectIngressClass, isPlus, false, false, false,
		validation.NewVirtualServerValidator(validation.IsPlus(isPlus)),
		validation.NewGlobalConfigurationValidator(map[int]bool{80: true, 443: true}),
		validation.NewTransportServerValidator(true, true, isPlus),
		true, true, false, false,
	)
	v.lbc = lbc
	return v
}

func (v *VerifC14) AddService(s *api_v1.Service) error              { return v.svcs.Add(s) }
func (v *VerifC14) AddSlice(s *discovery_v1.EndpointSlice) error    { return v.slices.Add(s) }
func (v *VerifC14) AddPod(p *api_v1.Pod) error                      { return v.pods.Add(p) }
func (v *VerifC14) IsPlus() bool                                    { return v.lbc.isNginxPlus }

// VerifC14Endpoint is the projection of a podEndpoint.
type VerifC14Endpoint struct {
	Address string
	PodName string
}

// EndpointsForIngressBackend = getServiceForIngressBackend + getEndpointsForIngressBackend.
func (v *VerifC14) EndpointsForIngressBackend(backend *networking.IngressBackend, ns string) (eps []VerifC14Endpoint, external bool, svcFound bool, err error) {
	svc, err := v.lbc.getServiceForIngressBackend(backend, ns)
	if err != nil {
		return nil, false, false, err
	}
	res, external, err := v.lbc.getEndpointsForIngressBackend(backend, svc)
	for _, e := range res {
		eps = append(eps, VerifC14Endpoint{Address: e.Address, PodName: e.PodName})
	}
	return eps, external, true, err
}

// EndpointsForUpstream = getEndpointsForUpstream (VirtualServer / TransportServer path).
func (v *VerifC14) EndpointsForUpstream(ns, service string, port uint16) (eps []VerifC14Endpoint, external bool, err error) {
	res, external, err := v.lbc.getEndpointsForUpstream(ns, service, port)
	for _, e := range res {
		eps = append(eps, VerifC14Endpoint{Address: e.Address, PodName: e.PodName})
	}
	return eps, external, err
}

// EndpointsForSubselector = getEndpointsForSubselector.
func (v *VerifC14) EndpointsForSubselector(ns string, u conf_v1.Upstream) (eps []VerifC14Endpoint, err error) {
	res, err := v.lbc.getEndpointsForSubselector(ns, u)
	for _, e := range res {
		eps = append(eps, VerifC14Endpoint{Address: e.Address, PodName: e.PodName})
	}
	return eps, err
}

// TargetPort = getTargetPort.
func (v *VerifC14) TargetPort(svcPort api_v1.ServicePort, svc *api_v1.Service) (int32, error) {
	return v.lbc.getTargetPort(svcPort, svc)
}

// ListPods runs the real pod lister (label selection is delegated to it).
func (v *VerifC14) ListPods(ns string, sel map[string]string) ([]string, error) {
	pods, err := v.lbc.getNamespacedInformer(ns).podLister.ListByNamespace(ns, labels.Set(sel).AsSelector())
	var names []string
	for _, p := range pods {
		names = append(names, p.Name)
	}
	return names, err
}

func (v *VerifC14) CreateIngressEx(ing *networking.Ingress, validHosts map[string]bool) *configs.IngressEx {
	return v.lbc.createIngressEx(ing, validHosts, nil)
}

// CreateMinionIngressEx = createIngressEx for a minion (with its valid paths).
func (v *VerifC14) CreateMinionIngressEx(ing *networking.Ingress, validHosts map[string]bool, validMinionPaths map[string]bool) *configs.IngressEx {
	return v.lbc.createIngressEx(ing, validHosts, validMinionPaths)
}

func (v *VerifC14) CreateVirtualServerEx(vs *conf_v1.VirtualServer, vsrs []*conf_v1.VirtualServerRoute) *configs.VirtualServerEx {
	return v.lbc.createVirtualServerEx(vs, vsrs)
}

func (v *VerifC14) CreateTransportServerEx(ts *conf_v1.TransportServer, listenerPort int) *configs.TransportServerEx {
	return v.lbc.createTransportServerEx(ts, listenerPort, "", "")
}

// The pure helpers, for direct differential runs.
func VerifC14SelectSlicesForPort(p int32, esx []discovery_v1.EndpointSlice) []discovery_v1.EndpointSlice {
	return selectEndpointSlicesForPort(p, esx)
}

func VerifC14FilterReady(esx []discovery_v1.EndpointSlice) []discovery_v1.Endpoint {
	return filterReadyEndpointsFrom(esx)
}

func VerifC14JoinAddrPort(a string, p int32) string { return ipv6SafeAddrPort(a, p) }

func VerifC14FindPort(pod *api_v1.Pod, sp api_v1.ServicePort) (int32, error) { return findPort(pod, sp) }
