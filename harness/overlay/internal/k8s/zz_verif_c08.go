//go:build verif

package k8s

// Add-only hook for the C08 harness: a LoadBalancerController assembled the way the unit tests
// assemble it (struct literal, cache.NewStore listers, real Configuration, real secret store, real
// App Protect configuration, real Configurator), and the real Ex constructors
// (createVirtualServerEx: getPolicies + add*SecretRefs + addWAFPolicyRefs; createIngressEx;
// createMergeableIngresses) applied to what the real Configuration accepted.

import (
	"context"
	"fmt"
	"io"
	"log/slog"

	api_v1 "k8s.io/api/core/v1"
	networking "k8s.io/api/networking/v1"
	meta_v1 "k8s.io/apimachinery/pkg/apis/meta/v1"
	"k8s.io/apimachinery/pkg/apis/meta/v1/unstructured"
	"k8s.io/apimachinery/pkg/runtime"
	dynamicfake "k8s.io/client-go/dynamic/fake"
	"k8s.io/client-go/kubernetes/fake"
	"k8s.io/client-go/tools/cache"
	"k8s.io/client-go/tools/record"

	"github.com/nginx/kubernetes-ingress/internal/configs"
	"github.com/nginx/kubernetes-ingress/internal/k8s/appprotect"
	"github.com/nginx/kubernetes-ingress/internal/k8s/appprotectdos"
	"github.com/nginx/kubernetes-ingress/internal/k8s/secrets"
	nl "github.com/nginx/kubernetes-ingress/internal/logger"
	"github.com/nginx/kubernetes-ingress/internal/metrics/collectors"
	conf_v1 "github.com/nginx/kubernetes-ingress/pkg/apis/configuration/v1"
	"github.com/nginx/kubernetes-ingress/pkg/apis/configuration/validation"
	fake_v1 "github.com/nginx/kubernetes-ingress/pkg/client/clientset/versioned/fake"
)

// VerifC08Opts are the switches of the controller that matter for policies.
type VerifC08Opts struct {
	IsPlus         bool
	EnableOIDC     bool
	AppProtect     bool
	InternalRoutes bool
	IngressClass   string
	// controller level only: the special secrets of the controller (-wildcard-tls-secret, -default-server-tls-secret), ns/name
	WildcardTLSSecret   string
	DefaultServerSecret string
	Configurator        *configs.Configurator
}

// VerifC08 wraps the controller.
type VerifC08 struct {
	lbc *LoadBalancerController
	nsi *namespacedInformer
}

// NewVerifC08 builds the controller.
func NewVerifC08(o VerifC08Opts) *VerifC08 {
	nsi := &namespacedInformer{
		svcLister:                 cache.NewStore(keyFunc),
		endpointSliceLister:       storeToEndpointSliceLister{cache.NewStore(keyFunc)},
		podLister:                 indexerToPodLister{cache.NewIndexer(keyFunc, cache.Indexers{cache.NamespaceIndex: cache.MetaNamespaceIndexFunc})},
		policyLister:              cache.NewStore(keyFunc),
		ingressLister:             storeToIngressLister{cache.NewStore(keyFunc)},
		virtualServerLister:       cache.NewStore(keyFunc),
		virtualServerRouteLister:  cache.NewStore(keyFunc),
		transportServerLister:     cache.NewStore(keyFunc),
		secretLister:              cache.NewStore(keyFunc),
		areCustomResourcesEnabled: true,
		isSecretsEnabledNamespace: true,
		appProtectEnabled:         o.AppProtect,
	}
	lbc := &LoadBalancerController{
		ingressClass:              o.IngressClass,
		configurator:              o.Configurator,
		metricsCollector:          collectors.NewControllerFakeCollector(),
		Logger:                    slog.New(slog.NewTextHandler(io.Discard, nil)),
		namespacedInformers:       map[string]*namespacedInformer{"": nsi},
		isNginxPlus:               o.IsPlus,
		areCustomResourcesEnabled: true,
		enableOIDC:                o.EnableOIDC,
		appProtectEnabled:         o.AppProtect,
		internalRoutesEnabled:     o.InternalRoutes,
		dosConfiguration:          appprotectdos.NewConfiguration(false),
	}
	lbc.appProtectConfiguration = appprotect.NewConfiguration(lbc.Logger)
	lbc.configuration = NewConfiguration(
		lbc.HasCorrectIngressClass,
		o.IsPlus,
		o.AppProtect,
		false,
		o.InternalRoutes,
		validation.NewVirtualServerValidator(validation.IsPlus(o.IsPlus)),
		validation.NewGlobalConfigurationValidator(map[int]bool{80: true, 443: true}),
		validation.NewTransportServerValidator(false, false, o.IsPlus),
		false,
		false,
		false,
		false,
	)
	lbc.secretStore = secrets.NewLocalSecretStore(o.Configurator)
	return &VerifC08{lbc: lbc, nsi: nsi}
}

// AddPolicy puts a Policy into the lister (the cluster state getPolicies reads).
func (v *VerifC08) AddPolicy(p *conf_v1.Policy) { _ = v.nsi.policyLister.Add(p) }

// AddSecret does what the secret informer handler + syncSecret do with a Secret: unsupported
// types are ignored (createSecretHandlers), everything else goes to the real store, which
// validates it.  It returns whether the secret was handed to the store.
func (v *VerifC08) AddSecret(s *api_v1.Secret) bool {
	if !secrets.IsSupportedSecretType(s.Type) {
		return false
	}
	v.lbc.secretStore.AddOrUpdateSecret(s)
	return true
}

// DeleteSecret does what syncSecret does when the Secret is gone from the lister.
func (v *VerifC08) DeleteSecret(key string) { v.lbc.secretStore.DeleteSecret(key) }

// AddAPPolicy / AddAPLogConf feed the real App Protect configuration; the result says whether the
// resource is usable afterwards (GetAppResource succeeds).
func (v *VerifC08) AddAPPolicy(u *unstructured.Unstructured) bool {
	v.lbc.appProtectConfiguration.AddOrUpdatePolicy(u)
	_, err := v.lbc.appProtectConfiguration.GetAppResource(appprotect.PolicyGVK.Kind, u.GetNamespace()+"/"+u.GetName())
	return err == nil
}

// AddAPLogConf adds an APLogConf.
func (v *VerifC08) AddAPLogConf(u *unstructured.Unstructured) bool {
	v.lbc.appProtectConfiguration.AddOrUpdateLogConf(u)
	_, err := v.lbc.appProtectConfiguration.GetAppResource(appprotect.LogConfGVK.Kind, u.GetNamespace()+"/"+u.GetName())
	return err == nil
}

// PolicyClassOK is the real class filter applied to a Policy.
func (v *VerifC08) PolicyClassOK(p *conf_v1.Policy) bool { return v.lbc.HasCorrectIngressClass(p) }

// PolicyValid is the real validator call getPolicies makes.
func (v *VerifC08) PolicyValid(p *conf_v1.Policy) bool {
	return validation.ValidatePolicy(p, v.lbc.isNginxPlus, v.lbc.enableOIDC, v.lbc.appProtectEnabled) == nil
}

// VerifC08Built is what the real Configuration + Ex constructors made of one upsert.
type VerifC08Built struct {
	VS        []*configs.VirtualServerEx
	Ingresses []*configs.IngressEx
	Mergeable []*configs.MergeableIngresses
	Problems  int
}

func (v *VerifC08) build(changes []ResourceChange, problems int) VerifC08Built {
	out := VerifC08Built{Problems: problems}
	for _, c := range changes {
		if c.Op != AddOrUpdate {
			continue
		}
		switch impl := c.Resource.(type) {
		case *VirtualServerConfiguration:
			out.VS = append(out.VS, v.lbc.createVirtualServerEx(impl.VirtualServer, impl.VirtualServerRoutes))
		case *IngressConfiguration:
			if impl.IsMaster {
				out.Mergeable = append(out.Mergeable, v.lbc.createMergeableIngresses(impl))
			} else {
				out.Ingresses = append(out.Ingresses, v.lbc.createIngressEx(impl.Ingress, impl.ValidHosts, nil))
			}
		}
	}
	return out
}

// AddVirtualServer runs the real Configuration and builds the Ex objects of the emitted changes.
func (v *VerifC08) AddVirtualServer(vs *conf_v1.VirtualServer) VerifC08Built {
	ch, pr := v.lbc.configuration.AddOrUpdateVirtualServer(vs)
	return v.build(ch, len(pr))
}

// AddVirtualServerRoute does the same for a VirtualServerRoute.
func (v *VerifC08) AddVirtualServerRoute(vsr *conf_v1.VirtualServerRoute) VerifC08Built {
	ch, pr := v.lbc.configuration.AddOrUpdateVirtualServerRoute(vsr)
	return v.build(ch, len(pr))
}

// AddIngress does the same for an Ingress.
func (v *VerifC08) AddIngress(ing *networking.Ingress) VerifC08Built {
	ch, pr := v.lbc.configuration.AddOrUpdateIngress(ing)
	return v.build(ch, len(pr))
}

// ---------------------------------------------------------------- controller level (histories)

// VerifC08Ctl is the real LoadBalancerController built by the production constructor over fake
// clientsets.  The harness plays the informers: it puts an object into (or removes it from) the
// store of its kind, calls the REAL event handler of that kind the way the informer would (which
// decides whether a task is queued), and then runs the REAL lbc.sync on every queued task.
type VerifC08Ctl struct {
	lbc *LoadBalancerController
	nsi *namespacedInformer
}

// NewVerifC08Ctl builds the controller.
func NewVerifC08Ctl(o VerifC08Opts, internalRoutes bool) *VerifC08Ctl {
	logger := slog.New(slog.NewTextHandler(io.Discard, nil))
	lbc := NewLoadBalancerController(NewLoadBalancerControllerInput{
		KubeClient:                   fake.NewSimpleClientset(),
		ConfClient:                   fake_v1.NewSimpleClientset(),
		DynClient:                    dynamicfake.NewSimpleDynamicClient(runtime.NewScheme()),
		Recorder:                     record.NewFakeRecorder(100000),
		LoggerContext:                nl.ContextWithLogger(context.Background(), logger),
		NginxConfigurator:            o.Configurator,
		IngressClass:                 o.IngressClass,
		Namespace:                    []string{""},
		SecretNamespace:              []string{""},
		ControllerNamespace:          "nginx-ingress",
		Pod:                          &api_v1.Pod{ObjectMeta: meta_v1.ObjectMeta{Name: "nginx-ingress-0", Namespace: "nginx-ingress"}},
		AreCustomResourcesEnabled:    true,
		IsNginxPlus:                  o.IsPlus,
		EnableOIDC:                   o.EnableOIDC,
		AppProtectEnabled:            o.AppProtect,
		InternalRoutesEnabled:        internalRoutes,
		WildcardTLSSecret:            o.WildcardTLSSecret,
		DefaultServerSecret:          o.DefaultServerSecret,
		MetricsCollector:             collectors.NewControllerFakeCollector(),
		GlobalConfigurationValidator: validation.NewGlobalConfigurationValidator(map[int]bool{80: true, 443: true}),
		TransportServerValidator:     validation.NewTransportServerValidator(false, false, o.IsPlus),
		VirtualServerValidator:       validation.NewVirtualServerValidator(validation.IsPlus(o.IsPlus)),
	})
	lbc.isNginxReady = true
	o.Configurator.EnableReloads()
	return &VerifC08Ctl{lbc: lbc, nsi: lbc.namespacedInformers[""]}
}

func (v *VerifC08Ctl) storeAndHandlers(kind string) (cache.Store, cache.ResourceEventHandlerFuncs, bool) {
	switch kind {
	case "secret":
		return v.nsi.secretLister, createSecretHandlers(v.lbc), true
	case "policy":
		return v.nsi.policyLister, createPolicyHandlers(v.lbc), true
	case "appol":
		return v.nsi.appProtectPolicyLister, createAppProtectPolicyHandlers(v.lbc), v.nsi.appProtectPolicyLister != nil
	case "aplog":
		return v.nsi.appProtectLogConfLister, createAppProtectLogConfHandlers(v.lbc), v.nsi.appProtectLogConfLister != nil
	case "vs":
		return v.nsi.virtualServerLister, createVirtualServerHandlers(v.lbc), true
	case "vsr":
		return v.nsi.virtualServerRouteLister, createVirtualServerRouteHandlers(v.lbc), true
	case "ing":
		return v.nsi.ingressLister.Store, createIngressHandlers(v.lbc), true
	}
	return nil, cache.ResourceEventHandlerFuncs{}, false
}

// Apply delivers one informer event: obj != nil is an add (no object under the key yet) or an update;
// obj == nil deletes the object stored under key.  It returns how many tasks the real handler queued
// (0 = the handler dropped the event) after running the real sync on each of them.
func (v *VerifC08Ctl) Apply(kind, key string, obj interface{}) (int, error) {
	if err := v.Deliver(kind, key, obj); err != nil {
		return 0, err
	}
	return v.Drain(), nil
}

// Deliver only plays the informer (store + real handler): the task, if the handler queues one, stays in the
// work queue.  Several Deliver calls followed by one Drain give the worker a BATCH, as after a burst of
// events or a resync.
func (v *VerifC08Ctl) Deliver(kind, key string, obj interface{}) error {
	s, h, ok := v.storeAndHandlers(kind)
	if !ok {
		return fmt.Errorf("kind %q is not watched in this configuration", kind)
	}
	old, existed, _ := s.GetByKey(key)
	switch {
	case obj != nil:
		if err := s.Add(obj); err != nil {
			return err
		}
		if existed {
			h.UpdateFunc(old, obj)
		} else {
			h.AddFunc(obj)
		}
	case existed:
		if err := s.Delete(old); err != nil {
			return err
		}
		h.DeleteFunc(old)
	}
	return nil
}

// Drain is the loop of taskQueue.worker on the real queue: Get, the real lbc.sync, Done, until the queue is
// empty.  With more than two tasks queued the real batch bookkeeping of sync (reloads held back, one reload
// at the end of the batch if enableBatchReload) is what runs.  It returns the number of tasks synced.
func (v *VerifC08Ctl) Drain() int {
	q := v.lbc.syncQueue.queue
	n := 0
	for q.Len() > 0 && n < 50 {
		it, _ := q.Get()
		v.lbc.sync(it.(task))
		q.Done(it)
		n++
	}
	return n
}

// CurrentVS builds, from the controller's state NOW, what a fresh rendering of the VirtualServer
// that holds the host would be made from (real createVirtualServerEx).  nil if no VirtualServer holds it.
func (v *VerifC08Ctl) CurrentVS(host string) *configs.VirtualServerEx {
	r, ok := v.lbc.configuration.hosts[host].(*VirtualServerConfiguration)
	if !ok {
		return nil
	}
	return v.lbc.createVirtualServerEx(r.VirtualServer, r.VirtualServerRoutes)
}

// CurrentIngress does the same for an Ingress host (regular or master).
func (v *VerifC08Ctl) CurrentIngress(host string) (*configs.IngressEx, *configs.MergeableIngresses) {
	r, ok := v.lbc.configuration.hosts[host].(*IngressConfiguration)
	if !ok {
		return nil, nil
	}
	if r.IsMaster {
		return nil, v.lbc.createMergeableIngresses(r)
	}
	return v.lbc.createIngressEx(r.Ingress, r.ValidHosts, nil), nil
}

// PolicyVerdicts are the real validator / class verdicts for a Policy.
func (v *VerifC08Ctl) PolicyVerdicts(p *conf_v1.Policy) (valid, classOK bool) {
	return validation.ValidatePolicy(p, v.lbc.isNginxPlus, v.lbc.enableOIDC, v.lbc.appProtectEnabled) == nil, v.lbc.HasCorrectIngressClass(p)
}

// APUsable tells whether GetAppResource succeeds now.
func (v *VerifC08Ctl) APUsable(kind, key string) bool {
	k := appprotect.PolicyGVK.Kind
	if kind == "aplog" {
		k = appprotect.LogConfGVK.Kind
	}
	_, err := v.lbc.appProtectConfiguration.GetAppResource(k, key)
	return err == nil
}
