"""Shared driver of the arbitration family (C01 C02 C03 C04 C05 C16): runs the `arb` harness on the
real k8s.Configuration, renders histories + observations as Coq terms of coq/Arb/Types.v, evaluates
coq/Arb/Cases.v on them in parallel shards."""
import os, json
from concurrent.futures import ThreadPoolExecutor
from . import common as C

S = C.cq_str


def meta(m):
    return "(mkMeta %s %s %s %s %s %s)" % (S(m["ns"]), S(m["name"]), S(m["uid"]), C.cq_z(m["ts"]), C.cq_z(m["gen"]), C.cq_z(m["ann"]))


def ing(i):
    kind = {"regular": "IRegular", "master": "IMaster", "minion": "IMinion"}[i["kind"]]
    return "(mkIng %s %s %s %s %s)" % (meta(i["meta"]), kind, C.cq_list([S(h) for h in i["hosts"] or []]),
                                       C.cq_list([S(p) for p in i["paths"] or []]), C.cq_bool(i["challenge"]))


def vs(v):
    l = v.get("listener")
    return "(mkVS %s %s %s %s)" % (meta(v["meta"]), S(v["host"]),
                                   C.cq_list(["(%s, %s)" % (S(r[0]), S(r[1])) for r in v["routes"] or []]),
                                   "None" if l is None else "(Some (%s, %s))" % (S(l[0]), S(l[1])))


def vsr(r):
    return "(mkVSR %s %s %s)" % (meta(r["meta"]), S(r["host"]), C.cq_list([S(p) for p in r["subpaths"] or []]))


def ts(t):
    return "(mkTS %s %s %s %s)" % (meta(t["meta"]), S(t["lname"]), S(t["proto"]), S(t["host"]))


def listener(l):
    return "(mkL %s %s %s %s %s %s)" % (S(l["name"]), C.cq_z(l["port"]), S(l["proto"]), S(l["ipv4"]), S(l["ipv6"]), C.cq_bool(l["ssl"]))


def smap_bool(m):
    return C.cq_list(["(%s, %s)" % (S(k), C.cq_bool(m[k])) for k in sorted(m or {}, key=lambda s: s.encode())])


def strs(l):
    return C.cq_list([S(x) for x in l or []])


def res(r):
    k = r["k"]
    if k == "ing":
        mins = C.cq_list(["(mkMC %s %s)" % (ing(m["ing"]), smap_bool(m.get("valid_paths"))) for m in r.get("minions") or []])
        cw = r.get("child_warnings") or {}
        cws = C.cq_list(["(%s, %s)" % (S(key), strs(cw[key])) for key in sorted(cw, key=lambda s: s.encode())])
        return "(RIng (mkIC %s %s %s %s %s %s))" % (ing(r["ing"]), C.cq_bool(r.get("master", False)), mins,
                                                    smap_bool(r.get("valid_hosts")), strs(r.get("warnings")), cws)
    if k == "vs":
        return "(RVS (mkVC %s %s %s %s %s %s %s %s %s))" % (
            vs(r["vs"]), C.cq_list([vsr(x) for x in r.get("vsrs") or []]), strs(r.get("warnings")),
            C.cq_z(r.get("http_port", 0)), C.cq_z(r.get("https_port", 0)), S(r.get("http4", "")), S(r.get("http6", "")),
            S(r.get("https4", "")), S(r.get("https6", "")))
    if k == "ts":
        return "(RTS (mkTC %s %s %s %s %s))" % (ts(r["ts"]), C.cq_z(r.get("port", 0)), S(r.get("ipv4", "")), S(r.get("ipv6", "")),
                                                strs(r.get("warnings")))
    raise ValueError(k)


def change(c):
    return "(mkCh %s %s %s)" % ("Delete" if c["op"] == "del" else "AddOrUpdate", res(c["res"]), C.cq_bool(c["err"]))


def problem(p):
    return "(mkP %s %s %s %s %s)" % (S(p["obj"]), S(p.get("uid", "")), C.cq_bool(p["is_error"]), S(p["reason"]), S(p["msg"]))


def view(m):
    return C.cq_list(["(%s, %s)" % (S(k), S(m[k])) for k in sorted(m or {}, key=lambda s: s.encode())])


def event(m):
    e = m["e"]
    if e == "ing":
        return "(EIng %s %s %s)" % (ing(m["ing"]), C.cq_bool(m["cls"]), C.cq_bool(m["valid"]))
    if e == "vs":
        return "(EVS %s %s %s)" % (vs(m["vs"]), C.cq_bool(m["cls"]), C.cq_bool(m["valid"]))
    if e == "vsr":
        return "(EVSR %s %s %s)" % (vsr(m["vsr"]), C.cq_bool(m["cls"]), C.cq_bool(m["valid"]))
    if e == "ts":
        return "(ETS %s %s %s)" % (ts(m["ts"]), C.cq_bool(m["cls"]), C.cq_bool(m["valid"]))
    if e == "gc":
        return "(EGC %s %s)" % (C.cq_list([listener(l) for l in m["listeners"] or []]), C.cq_bool(m["err"]))
    if e == "del_gc":
        return "EDelGC"
    return "(%s %s)" % ({"del_ing": "EDelIng", "del_vs": "EDelVS", "del_vsr": "EDelVSR", "del_ts": "EDelTS"}[e], S(m["key"]))


def obs(o, full=True):
    return "(mkObs %s %s %s %s %s)" % (
        C.cq_list([change(c) for c in o.get("changes") or []]) if full else "[]",
        C.cq_list([problem(p) for p in o.get("problems") or []]) if full else "[]",
        view(o["hosts"]), view(o["lhosts"]), C.cq_list([res(r) for r in o.get("res") or []]))


def events_of(h):
    return C.cq_list([event(e["m"]) for e in h["events"]])


def case_term(fn, c, with_erased=False):
    """fn: name of the Coq function of Arb.Cases (or a property-specific file) taking
       id cfg events obs final alts"""
    main = c["histories"][0]
    others = [h for h in c["histories"][1:] if h["label"] != "erased"]
    alts = C.cq_list(["(%s, %s)" % (events_of(h), obs(h["final"], full=False)) for h in others])
    extra = ""
    if with_erased:
        er = [h for h in c["histories"] if h["label"] == "erased"][0]
        extra = " %s %s" % (events_of(er), C.cq_list([obs(o) for o in er["steps"]]))
    return "%s %d (mkCfg %s %s) %s %s %s %s%s" % (
        fn, c["id"], C.cq_bool(c["tls_passthrough"]), C.cq_bool(c["cert_manager"]), events_of(main),
        C.cq_list([obs(o) for o in main["steps"]]), obs(main["final"], full=False), alts, extra)


REASON_CODE = {"AddedOrUpdated": 1, "AddedOrUpdatedWithWarning": 2, "Rejected": 3, "RejectedWithError": 3, "AddedOrUpdatedWithError": 3,
               "NoIngressMasterFound": 4, "NoVirtualServerFound": 4, "Ignored": 4}
KIND_OF_RESOURCE = {"ingresses": "Ingress", "virtualservers": "VirtualServer", "virtualserverroutes": "VirtualServerRoute",
                    "transportservers": "TransportServer"}


def ctl_term(c):
    """the controller-level observations of the main history (harness run with -ctl)"""
    out = []
    for st in c["ctl"]:
        evs = ["(%s, %d)" % (S(e["obj"]), REASON_CODE.get(e["reason"], 9)) for e in st["events"] if not e["obj"].startswith("GlobalConfiguration/")]
        wr = [S("%s/%s" % (KIND_OF_RESOURCE.get(w["resource"], w["resource"]), w["key"])) for w in st["writes"]]
        o = {"hosts": st["hosts"], "lhosts": st["lhosts"], "res": st["res"]}
        ve = st.get("verr") or {}
        pr = st.get("probe") or {}
        probe = 0 if not pr.get("kind") else (1 if pr.get("delivered") else 2)
        out.append("(mkCtl %s %s %s %s %s %d %s %s %s)" % (C.cq_list(evs), C.cq_list(wr), obs(o, full=False), C.cq_bool(ve.get("expected", False)), C.cq_bool(ve.get("reported", False)), probe,
                                                     C.cq_list([S(f) for f in st.get("files") or []]),
                                                     C.cq_list(["(%s, %s)" % (S(x[0]), S(x[1])) for x in st.get("pt") or []]),
                                                     C.cq_list(["(%s, %d)" % (S("%s/%s" % (KIND_OF_RESOURCE.get(w["resource"], w["resource"]), w["key"])), REASON_CODE.get(w["reason"], 9))
                                                                for w in st["writes"] if w.get("reason")])))
    ld = c.get("leader") or {"writes": [], "policies": []}
    pol_class = {p["key"]: p["class"] for p in ld["policies"]}
    lw = [S("%s/%s" % (KIND_OF_RESOURCE.get(w["resource"], w["resource"]), w["key"])) for w in ld["writes"] if w["resource"] != "policies"]
    pw = ["(%s, %s)" % (S(w["key"]), S(pol_class.get(w["key"], "?unknown"))) for w in ld["writes"] if w["resource"] == "policies"]
    return "%s %s %s" % (C.cq_list(out), C.cq_list(lw), C.cq_list(pw))


def generate(run, n, tag="arb", ctl=False):
    binary = C.go_build("arb")
    out = os.path.join(C.WORK, "cases", "%s_%s_%s.jsonl" % (tag, run.pid, run.tier))
    rc, log = C.run_harness(binary, ["-seed", str(run.seed), "-n", str(n), "-out", out, "-tier", run.tier] + (["-ctl"] if ctl else []), timeout=3000)
    if rc != 0:
        raise C.TieBroken("arb harness failed rc=%d: %s" % (rc, log[-1500:]))
    return C.read_jsonl(out)


def replay_cases(run, path, ctl=False):
    binary = C.go_build("arb")
    out = os.path.join(C.WORK, "cases", "arb_%s_replay.jsonl" % run.pid)
    rc, log = C.run_harness(binary, ["-replay", os.path.abspath(path), "-out", out] + (["-ctl"] if ctl else []), timeout=600)
    if rc != 0:
        raise C.TieBroken("arb harness failed on replay: %s" % log[-1500:])
    return C.read_jsonl(out)


def evaluate(run, cases, fn="arb_case", imports="Arb.Types Arb.Model Arb.Spec Arb.Cases", shard=25, tag="arb", with_erased=False, extra=None):
    """returns {case id: row}"""
    good = [c for c in cases if not c.get("error")]
    shards = [good[i:i + shard] for i in range(0, len(good), shard)]

    def one(args):
        k, part = args
        body = "From NIC Require Import Base.SMap %s.\n" % imports
        body += "Definition results : list (list Z) := Eval vm_compute in\n  [" + ";\n   ".join(case_term(fn, c, with_erased) + (" " + extra(c) if extra else "") for c in part) + "].\n"
        body += "Print results.\n"
        path = os.path.join(C.WORK, "cases", "%s_%s_%s_%d.v" % (tag, run.pid, run.tier, k))
        C.write_cases_v(path, body)
        rc, out = C.coqc(path, timeout=3000)
        rows = C.parse_z_lists(out, "results")
        if rc != 0 or rows is None or len(rows) != len(part):
            raise C.TieBroken("coqc could not evaluate %s: %s" % (path, out[-2000:]))
        return rows

    rows = {}
    with ThreadPoolExecutor(max_workers=12) as ex:
        for part_rows in ex.map(one, list(enumerate(shards))):
            for r in part_rows:
                rows[r[0]] = r
    return rows


def canon(c):
    return [[e["m"] for e in h["events"]] for h in c["histories"][:1]]


def summarize_case(c):
    """small human-readable sample for the evidence file"""
    main = c["histories"][0]
    return {"id": c["id"], "tls_passthrough": c["tls_passthrough"], "cert_manager": c["cert_manager"],
            "events": [(e.get("note"), e["m"]) for e in main["events"][:6]],
            "n_events": len(main["events"]), "alternatives": [h["label"] for h in c["histories"][1:]],
            "final_hosts": main["final"]["hosts"], "final_lhosts": main["final"]["lhosts"]}


TRUSTED = [
    "Rocq 8.16.1 kernel incl. vm_compute (no native_compute)",
    "hand-written model coq/Arb/{Types,Model}.v of internal/k8s/configuration.go, tied on every run by the correspondence harness "
    "harness/overlay/internal/verifh/arb (+ hook harness/overlay/internal/k8s/zz_verif_arb.go) which drives the real k8s.Configuration",
    "the projection of real objects onto the model's attributes (zz_verif_arb.go: hosts, rule-0 paths, mergeable type, challenge label, routes, "
    "listener refs, meta incl. an id per distinct annotation map); warnings compared as sorted lists; validation error text abstracted to `invalid`",
    "validators and the class predicate are oracles: the harness passes the verdicts of the real validateIngress / ValidateVirtualServer(Route) / "
    "ValidateTransportServer / HasCorrectIngressClass into the model's events",
    "API-server assumptions enforced by the generator: UIDs of simultaneously existing objects are distinct, UID and creationTimestamp are immutable, "
    "generation moves with every spec change (not across delete-and-recreate)",
]


# row layout of Arb.Cases.ctl_case
CID, DX, DS, DC, DF, CNEV, DD, DK, DL, DFILES, DPT, DST, DSTC, DFSPEC = range(14)


def judge_delivery(run, cases, rows, pid, why, kinds=None):
    """every event is offered to the real informer handler of its kind; one that differs from the last event about the
    object must reach the sync queue (used by the checks whose property depends on the controller seeing every change)"""
    for c in cases:
        if c.get("error") or c["id"] not in rows:
            continue
        r = rows[c["id"]]
        if r[DD] != 0:
            ev = c["histories"][0]["events"][r[DD] - 1]
            if kinds and ev["spec"]["kind"] not in kinds:
                continue
            pr = c["ctl"][r[DD] - 1].get("probe") or {}
            run.failing({"kind": "event-not-delivered", "event_kind": ev["spec"]["kind"]}, [c],
                        "%s: at step %d of case %d the real informer handler drops a %s event (%s) about %s %s/%s that differs from the last one about that object (%s): %s"
                        % (pid, r[DD], c["id"], pr.get("kind"), ev.get("note"), ev["spec"]["kind"], ev["spec"].get("ns"), ev["spec"].get("name"), pr.get("note") or "new UID, class, spec or annotations", why),
                        theorem="Arb.Cases.delivery_code")


def judge_files(run, cases, rows, pid):
    for c in cases:
        if c.get("error") or c["id"] not in rows:
            continue
        r = rows[c["id"]]
        # what NGINX runs is what it read at the last reload: after every event (the queue is empty, reloads are not held
        # back) the files on disk must have been reloaded
        for i, st in enumerate(c["ctl"]):
            if "served" in st and (st["served"] != st["files"] or st.get("pt_stale")):
                ev = c["histories"][0]["events"][i]
                run.failing({"kind": "files-not-reloaded", "level": "controller", "event_kind": ev["spec"]["kind"]}, [c],
                            "%s: after step %d of case %d (%s %s %s/%s through the real lbc.sync, processChanges and Configurator) NGINX still runs the files of the last reload, which are not "
                            "the files that exist now: running %s, on disk %s%s" % (pid, i + 1, c["id"], ev["op"], ev["spec"]["kind"], ev["spec"].get("ns"), ev["spec"].get("name"),
                                                                                    json.dumps(st["served"]), json.dumps(st["files"]), "; the TLS passthrough map changed too" if st.get("pt_stale") else ""),
                            theorem="harness arb (recMgr.Reload snapshot)")
                break
        if r[DFILES] != 0:
            st = c["ctl"][r[DFILES] - 1]
            ev = c["histories"][0]["events"][r[DFILES] - 1]
            served = sorted("%s %s/%s" % (x["k"], (x.get(x["k"]) or {}).get("meta", {}).get("ns"), (x.get(x["k"]) or {}).get("meta", {}).get("name")) for x in st["res"])
            run.failing({"kind": "files-vs-served", "level": "controller"}, [c],
                        "%s: after step %d of case %d (%s %s %s/%s through the real lbc.sync, processChanges and Configurator) the configuration files that exist are not one per active resource: files %s, active %s"
                        % (pid, r[DFILES], c["id"], ev["op"], ev["spec"]["kind"], ev["spec"].get("ns"), ev["spec"].get("name"), json.dumps(st["files"]), json.dumps(served)),
                        theorem="Arb.Cases.files_ok")
        elif len(r) > DFSPEC and r[DFSPEC] != 0:
            st = c["ctl"][r[DFSPEC] - 1]
            ev = c["histories"][0]["events"][r[DFSPEC] - 1]
            run.failing({"kind": "files-vs-specified-served-set", "level": "controller", "event_kind": ev["spec"]["kind"]}, [c],
                        "%s: after step %d of case %d (%s %s %s/%s through the real lbc.sync, the controller %s) the configuration files are not one per resource that the current object "
                        "set makes active according to the specification (an event did not reach the arbitration, or its changes were not applied): files %s"
                        % (pid, r[DFSPEC], c["id"], ev["op"], ev["spec"]["kind"], ev["spec"].get("ns"), ev["spec"].get("name"),
                           "started with -watch-namespace" if c["id"] % 4 == 1 else "watching all namespaces", json.dumps(st["files"])),
                        theorem="Arb.Cases.files_spec_run")
