(* Policies/ProofsVS.v -- the whole VirtualServer: the VirtualServer-wide OIDC slot never holds the
   key of a policy whose Secret is unusable, so the classification of the check implies an error
   return for EVERY scope (spec, route, subroute, inherited) with no side condition on the slot. *)
From Coq Require Import List String Ascii Bool Arith.
From NIC Require Import Lex.Lexer Lex.Parser Policies.Model Policies.Spec Policies.Proofs Policies.ProofsCheck.
Import ListNotations.
Open Scope string_scope.
Open Scope list_scope.

(* ---------------------------------------------------------------- ns/name keys *)

Lemma nskey_inj_ns : forall a a' b b',
  has_slash a = false -> has_slash a' = false -> nskey a b = nskey a' b' -> a = a'.
Proof.
  unfold nskey. induction a as [|c a IH]; intros a' b b' H H' E.
  - destruct a' as [|c' a']; [reflexivity|]. cbn in E. injection E as E1 E2. subst c'.
    cbn in H'. discriminate.
  - destruct a' as [|c' a'].
    + cbn in E. injection E as E1 E2. subst c. cbn in H. discriminate.
    + cbn in E. injection E as E1 E2. subst c'. cbn in H, H'.
      apply orb_false_iff in H. apply orb_false_iff in H'. destruct H as [_ H]. destruct H' as [_ H'].
      rewrite (IH a' b b' H H' E2). reflexivity.
Qed.

(* ---------------------------------------------------------------- the slot invariant *)

(* the slot holds only the key of an OIDC policy whose client Secret is usable *)
Definition slot_ok (pm : policy_map) (d : deps) (slot : option string) : Prop :=
  forall k, slot = Some k ->
    exists polns name p, k = nskey polns name /\ has_slash polns = false /\
                         assoc k pm = Some p /\ pkind p = KOidc /\
                         usable (secret_state d TyOIDC (nskey polns (psecret p))) = true.

Lemma slot_ok_none : forall pm d, slot_ok pm d None.
Proof. intros pm d k H. discriminate. Qed.

Lemma add_policy_slot : forall p key polns d ctx oidc a v a' o',
  add_policy p key polns d ctx oidc a = (v, a', o') ->
  o' = oidc \/ (o' = Some key /\ pkind p = KOidc /\
                usable (secret_state d TyOIDC (nskey polns (psecret p))) = true).
Proof.
  intros p key polns d ctx oidc a v a' o' H.
  unfold add_policy in H.
  destruct (pkind p) eqn:K;
    repeat match type of H with
           | context [if ?b then _ else _] => destruct b eqn:?
           | context [match ?o with Some _ => _ | None => _ end] => destruct o eqn:?
           end;
    inversion H; subst; clear H; auto.
Qed.

Definition refs_wf (own : string) (refs : list polref) : Prop :=
  forall r, In r refs -> has_slash (ref_ns own r) = false.

Lemma gen_loop_slot_ok : forall refs pm d ctx own oidc a,
  refs_wf own refs -> slot_ok pm d oidc ->
  slot_ok pm d (snd (gen_loop refs pm d ctx own oidc a)).
Proof.
  induction refs as [|r refs IH]; intros pm d ctx own oidc a W S; cbn [gen_loop]; [exact S|].
  destruct (assoc (ref_key own r) pm) as [p|] eqn:A; [|exact S].
  destruct (add_policy p (ref_key own r) (ref_ns own r) d ctx oidc a) as [[v a1] o1] eqn:E.
  assert (S1 : slot_ok pm d o1).
  { apply add_policy_slot in E. destruct E as [E|(E & K & U)]; [subst o1; exact S|].
    subst o1. intros k Hk. inversion Hk; subst k.
    exists (ref_ns own r), (snd r), p. split; [reflexivity|]. split; [apply W; left; reflexivity|]. auto. }
  assert (W1 : refs_wf own refs) by (intros x Ix; apply W; right; exact Ix).
  destruct v; try (apply IH; assumption); exact S1.
Qed.

Lemma oidc_after_slot_ok : forall refs pm d ctx own slot,
  refs_wf own refs -> slot_ok pm d slot -> slot_ok pm d (oidc_after refs pm d (mkScope ctx own slot)).
Proof. intros. unfold oidc_after. cbn. apply gen_loop_slot_ok; assumption. Qed.

(* ---------------------------------------------------------------- a scope, given a good slot *)

Theorem scan_implies_error_return_slot_ok : forall cls cluster v d id ctx own refs slot,
  In (id, ctx, own, refs) (vs_scopes v) ->
  refs_wf own refs ->
  slot_ok (vs_policy_map cls cluster v) d slot ->
  fst (scan_refs cls cluster d ctx own [] refs) = true ->
  generate_policies refs (vs_policy_map cls cluster v) d (mkScope ctx own slot) = ErrorReturn.
Proof.
  intros cls cluster v d id ctx own refs slot I W SO H.
  destruct (scan_refs_sound _ _ _ _ _ _ _ H) as (pre & r & post & E & U & Wt). subst refs.
  pose proof (vs_policy_map_complete cls cluster v _ _ _ _ I) as CP.
  pose proof (vs_policy_map_sound cls cluster v) as SD.
  set (pm := vs_policy_map cls cluster v) in *.
  assert (Ir : In r (pre ++ r :: post)) by (apply in_or_app; right; left; reflexivity).
  apply scope_fails_closed_partial.
  - (* ref_unusable *)
    unfold ref_unusable. cbn [sc_owner_ns].
    destruct (assoc (ref_key own r) pm) as [p|] eqn:A; [|exact Logic.I].
    destruct (SD _ _ A) as (cp & Ac & C & V & P). subst p.
    unfold policy_unusable in U. rewrite Ac, C, V in U. cbn [negb orb] in U.
    unfold policy_unusable_here. cbn [sc_ctx sc_oidc].
    destruct (pkind (cp_pol cp)) eqn:K; try exact U.
    destruct slot as [k|]; [|exact U].
    intros Q. subst k.
    destruct (SO _ eq_refl) as (polns & name & p' & Ek & Hs & A' & K' & Us).
    rewrite A in A'. inversion A'; subst p'.
    assert (polns = ref_ns own r).
    { symmetry. eapply nskey_inj_ns; [apply W; exact Ir | exact Hs | exact Ek]. }
    subst polns. unfold deps_bad in U. rewrite K in U. rewrite Us in U. discriminate.
  - cbn [sc_owner_ns]. intros (r' & p' & p & Ir' & A' & A & K).
    destruct Wt as [Wt|(p0 & M0 & _ & F)].
    + destruct (SD _ _ A) as (cp & Ac & C & V & _). unfold in_map in Wt. rewrite Ac, C, V in Wt. discriminate.
    + assert (A0 : assoc (ref_key own r) pm = Some p0) by (apply CP; [exact Ir | exact M0]).
      rewrite A in A0. inversion A0; subst p0.
      destruct (SD _ _ A') as (cp' & Ac' & C' & V' & P').
      apply (F r' p' Ir'); [|exact K].
      apply in_map_spec. exists cp'. auto.
Qed.

(* ---------------------------------------------------------------- threading through the VirtualServer *)

Definition vs_wf (v : vserver) : Prop :=
  forall id ctx own refs, In (id, ctx, own, refs) (vs_scopes v) -> refs_wf own refs.

Lemma routes_views_covers_ok : forall rs pm d own so oidc,
  (forall r, In r rs -> is_empty (r_vsr r) = true -> refs_wf own (r_pols r)) ->
  slot_ok pm d oidc ->
  slot_ok pm d (snd (routes_views rs pm d own so oidc)) /\
  forall r, In r rs -> is_empty (r_vsr r) = true ->
    exists slot, slot_ok pm d slot /\
      In (String.append "route:" (r_path r),
          view_of (generate_policies (r_pols r) pm d (mkScope CRoute own slot)) so)
         (fst (routes_views rs pm d own so oidc)).
Proof.
  induction rs as [|x rs IH]; intros pm d own so oidc W S; cbn [routes_views].
  - split; [exact S | intros r []].
  - assert (Wt : forall r, In r rs -> is_empty (r_vsr r) = true -> refs_wf own (r_pols r))
      by (intros r Ir; apply W; right; exact Ir).
    destruct (negb (is_empty (r_vsr x))) eqn:X.
    + destruct (IH pm d own so oidc Wt S) as [S' C]. split; [exact S'|].
      intros r [Ir|Ir] E; [subst x; rewrite E in X; discriminate | apply C; assumption].
    + apply negb_false_iff in X.
      assert (S1 : slot_ok pm d (oidc_after (r_pols x) pm d (mkScope CRoute own oidc))).
      { apply oidc_after_slot_ok; [apply W; [left; reflexivity | exact X] | exact S]. }
      destruct (IH pm d own so _ Wt S1) as [S' C].
      destruct (routes_views rs pm d own so (oidc_after (r_pols x) pm d (mkScope CRoute own oidc))) as [vs' o'] eqn:R.
      cbn [fst snd] in *. split; [exact S'|].
      intros r [Ir|Ir] E.
      * subst x. exists oidc. split; [exact S | left; reflexivity].
      * destruct (C r Ir E) as (slot & Sk & Hin). exists slot. split; [exact Sk | right; exact Hin].
Qed.

Lemma sub_scope_refs_wf : forall v x s,
  vs_wf v -> In x (vs_vsrs v) -> In s (v_subs x) ->
  let '(id, ctx, own, refs) := sub_scope_of v x s in refs_wf own refs.
Proof.
  intros v x s W Ix Is. destruct (inherited_scope v x s Ix Is) as [I _].
  destruct (sub_scope_of v x s) as [[[id ctx] own] refs]. eapply W; exact I.
Qed.

Lemma subs_views_covers_ok : forall subs x v pm d so oidc,
  (forall s, In s subs -> let '(id, ctx, own, refs) := sub_scope_of v x s in refs_wf own refs) ->
  slot_ok pm d oidc ->
  slot_ok pm d (snd (subs_views subs x v pm d so oidc)) /\
  forall s, In s subs ->
    exists slot, slot_ok pm d slot /\
      let '(id, ctx, own, refs) := sub_scope_of v x s in
      In (id, view_of (generate_policies refs pm d (mkScope ctx own slot)) so) (fst (subs_views subs x v pm d so oidc)).
Proof.
  induction subs as [|y subs IH]; intros x v pm d so oidc W S; cbn [subs_views].
  - split; [exact S | intros s []].
  - assert (Wt : forall s, In s subs -> let '(id, ctx, own, refs) := sub_scope_of v x s in refs_wf own refs)
      by (intros s Is; apply W; right; exact Is).
    pose proof (W y (or_introl eq_refl)) as Wy. unfold sub_scope_of in Wy.
    destruct (s_pols y) as [|r0 rs0] eqn:P.
    + set (refs := inherited_refs (vs_ns v) (vs_routes v) (nskey (v_ns x) (v_name x)) []) in *.
      assert (S1 : slot_ok pm d (oidc_after refs pm d (mkScope CRoute (vs_ns v) oidc)))
        by (apply oidc_after_slot_ok; assumption).
      destruct (IH x v pm d so _ Wt S1) as [S' C].
      destruct (subs_views subs x v pm d so (oidc_after refs pm d (mkScope CRoute (vs_ns v) oidc))) as [vs' o'] eqn:R.
      cbn [fst snd] in *. split; [exact S'|].
      intros s [Is|Is].
      * subst y. exists oidc. split; [exact S|]. unfold sub_scope_of. rewrite P. left. reflexivity.
      * destruct (C s Is) as (slot & Sk & Hin). exists slot. split; [exact Sk|].
        destruct (sub_scope_of v x s) as [[[id ctx] own] rf]. right. exact Hin.
    + assert (S1 : slot_ok pm d (oidc_after (r0 :: rs0) pm d (mkScope CSubroute (v_ns x) oidc)))
        by (apply oidc_after_slot_ok; assumption).
      destruct (IH x v pm d so _ Wt S1) as [S' C].
      destruct (subs_views subs x v pm d so (oidc_after (r0 :: rs0) pm d (mkScope CSubroute (v_ns x) oidc))) as [vs' o'] eqn:R.
      cbn [fst snd] in *. split; [exact S'|].
      intros s [Is|Is].
      * subst y. exists oidc. split; [exact S|]. unfold sub_scope_of. rewrite P. left. reflexivity.
      * destruct (C s Is) as (slot & Sk & Hin). exists slot. split; [exact Sk|].
        destruct (sub_scope_of v x s) as [[[id ctx] own] rf]. right. exact Hin.
Qed.

Lemma vsrs_views_covers_ok : forall xs v pm d so oidc,
  (forall x s, In x xs -> In s (v_subs x) -> let '(id, ctx, own, refs) := sub_scope_of v x s in refs_wf own refs) ->
  slot_ok pm d oidc ->
  forall x s, In x xs -> In s (v_subs x) ->
    exists slot, slot_ok pm d slot /\
      let '(id, ctx, own, refs) := sub_scope_of v x s in
      In (id, view_of (generate_policies refs pm d (mkScope ctx own slot)) so) (vsrs_views xs v pm d so oidc).
Proof.
  induction xs as [|y xs IH]; intros v pm d so oidc W S x s Ix Is; [contradiction|].
  cbn [vsrs_views].
  destruct (subs_views_covers_ok (v_subs y) y v pm d so oidc (fun s Js => W y s (or_introl eq_refl) Js) S) as [S' C].
  destruct (subs_views (v_subs y) y v pm d so oidc) as [here o'] eqn:R. cbn [fst snd] in *.
  destruct Ix as [Ix|Ix].
  - subst y. destruct (C s Is) as (slot & Sk & Hin). exists slot. split; [exact Sk|].
    destruct (sub_scope_of v x s) as [[[id ctx] own] rf]. apply in_or_app. left. exact Hin.
  - destruct (IH v pm d so o' (fun x s Jx Js => W x s (or_intror Jx) Js) S' x s Ix Is) as (slot & Sk & Hin).
    exists slot. split; [exact Sk|].
    destruct (sub_scope_of v x s) as [[[id ctx] own] rf]. apply in_or_app. right. exact Hin.
Qed.

(* every scope of the VirtualServer is generated in a state of the slot that satisfies the invariant *)
Theorem vs_views_covers_ok : forall v pm d id ctx own refs,
  vs_wf v ->
  In (id, ctx, own, refs) (vs_scopes v) ->
  exists slot vw, slot_ok pm d slot /\ In (id, vw) (vs_views v pm d) /\
                  lv_err vw = is_error (generate_policies refs pm d (mkScope ctx own slot)).
Proof.
  intros v pm d id ctx own refs W I.
  assert (W0 : refs_wf (vs_ns v) (vs_pols v)) by (eapply W; left; reflexivity).
  assert (S1 : slot_ok pm d (oidc_after (vs_pols v) pm d (mkScope CSpec (vs_ns v) None)))
    by (apply oidc_after_slot_ok; [exact W0 | apply slot_ok_none]).
  assert (WR : forall r, In r (vs_routes v) -> is_empty (r_vsr r) = true -> refs_wf (vs_ns v) (r_pols r)).
  { intros r Ir E. eapply (W (String.append "route:" (r_path r)) CRoute). right. apply in_or_app. left.
    unfold own_route_scopes. apply in_flat_map. exists r. split; [exact Ir|]. rewrite E. left. reflexivity. }
  unfold vs_views.
  match goal with |- context [routes_views (vs_routes v) pm d (vs_ns v) ?so ?o] =>
    destruct (routes_views_covers_ok (vs_routes v) pm d (vs_ns v) so o WR S1) as [S2 CR];
    destruct (routes_views (vs_routes v) pm d (vs_ns v) so o) as [rv o2] eqn:R
  end.
  cbn [fst snd] in *.
  unfold vs_scopes in I. destruct I as [I|I].
  - inversion I; subst. exists None. eexists. split; [apply slot_ok_none|]. split; [left; reflexivity | reflexivity].
  - apply in_app_or in I. destruct I as [I|I].
    + unfold own_route_scopes in I. apply in_flat_map in I. destruct I as (r & Ir & I).
      destruct (is_empty (r_vsr r)) eqn:E; [|contradiction]. destruct I as [I|[]]. inversion I; subst.
      destruct (CR r Ir E) as (slot & Sk & Hin).
      exists slot. eexists. split; [exact Sk|]. split; [right; apply in_or_app; left; exact Hin | apply lv_err_view_of].
    + unfold sub_scopes in I. apply in_flat_map in I. destruct I as (x & Ix & I).
      apply in_map_iff in I. destruct I as (s & Es & Is).
      match goal with |- context [vsrs_views (vs_vsrs v) v pm d ?so o2] =>
        destruct (vsrs_views_covers_ok (vs_vsrs v) v pm d so o2
                    (fun x s Jx Js => sub_scope_refs_wf v x s W Jx Js) S2 x s Ix Is) as (slot & Sk & Hin)
      end.
      unfold sub_scope_of in Hin.
      destruct (s_pols s) as [|r0 rs0]; inversion Es; subst;
        (exists slot; eexists; split; [exact Sk|]; split; [right; apply in_or_app; right; exact Hin | apply lv_err_view_of]).
Qed.

(* THE VirtualServer-level statement: for every VirtualServer whose namespaces contain no slash, every
   scope that the check's input classification marks (an unusable reference that no earlier
   reference of its kind shadows) gets PoliciesErrorReturn -- no condition on the OIDC slot left. *)
Theorem vs_unusable_scope_renders_error : forall cls cluster v d id ctx own refs,
  vs_wf v ->
  In (id, ctx, own, refs) (vs_scopes v) ->
  fst (scan_refs cls cluster d ctx own [] refs) = true ->
  exists vw, In (id, vw) (vs_views v (vs_policy_map cls cluster v) d) /\ lv_err vw = true.
Proof.
  intros cls cluster v d id ctx own refs W I H.
  destruct (vs_views_covers_ok v (vs_policy_map cls cluster v) d _ _ _ _ W I) as (slot & vw & Sk & J & E).
  exists vw. split; [exact J|]. rewrite E.
  rewrite (scan_implies_error_return_slot_ok cls cluster v d id ctx own refs slot I (W _ _ _ _ I) Sk H). reflexivity.
Qed.
