(* Policies/Spec.v -- the decidable specification of C08, evaluated on the PARSED output of the
   real templates (S) and on the inputs (which scopes MUST fail).  NO PROOFS here.

   Rendered-config side (on Lex.Parser.directive forests):
     terminating_return ds   the block ds answers every request that enters it with a 5xx: scanning
                             its own directives in order, a [return 5xx] is met before anything that
                             could end or divert processing earlier (rewrite, break, another return,
                             a *_pass directive, an [if] block containing anything but return/set).
                             NGINX runs the rewrite-module directives of a block in order, in the
                             rewrite phase, before any content handler; requiring the return to come
                             textually before proxy_pass as well is deliberately conservative.
     loc_closed              a location fails closed: it has a terminating return (and every
                             error_page target it names exists and cannot proxy), or it cannot proxy
                             itself and every location its rewrites lead to (through map /
                             split_clients variables) fails closed
     loc_reaches_pass        some path from the location reaches a *_pass directive (non-vacuity)
     scope_fails_closed      server / entry location of a scope
     tls_rejects             server has an ssl listener, [ssl_reject_handshake on], no certificate
     auth_enforced           auth_jwt + auth_jwt_key_file / auth_basic + auth_basic_user_file present
   Input side:
     policy_unusable         the property's notion of an unusable reference, independent of the
                             loop: missing / foreign class / invalid, or a dependency it needs is
                             missing, invalid, of the wrong type, or the policy is not allowed in the
                             context. *)
From Coq Require Import List String Ascii Bool Arith.
From NIC Require Import Lex.Lexer Lex.Parser Policies.Model.
Import ListNotations.
Open Scope string_scope.
Open Scope list_scope.

(* ---------------------------------------------------------------- rendered side *)

Definition is_digit (c : ascii) : bool :=
  let n := nat_of_ascii c in Nat.leb 48 n && Nat.leb n 57.

Definition is_5xx (s : string) : bool :=
  match s with
  | String a (String b (String c EmptyString)) => Ascii.eqb a "5"%char && is_digit b && is_digit c
  | _ => false
  end.

Definition pass_names : list string :=
  ["proxy_pass"; "grpc_pass"; "fastcgi_pass"; "uwsgi_pass"; "scgi_pass"; "memcached_pass"].

Definition is_pass (d : directive) : bool := mem (dname d) pass_names.

Definition only_return_or_set (ds : list directive) : bool :=
  forallb (fun d => (String.eqb (dname d) "return" || String.eqb (dname d) "set") &&
                    match dbody d with None => true | Some _ => false end) ds.

Fixpoint terminating_return (ds : list directive) : bool :=
  match ds with
  | [] => false
  | d :: r =>
      let n := dname d in
      match dbody d with
      | None =>
          if String.eqb n "return" then
            match dargs d with code :: _ => is_5xx code | [] => false end
          else if String.eqb n "rewrite" || String.eqb n "break" || is_pass d then false
          else terminating_return r
      | Some body =>
          if String.eqb n "if" then only_return_or_set body && terminating_return r
          else terminating_return r
      end
  end.

Definition has_pass (ds : list directive) : bool := existsb is_pass (all_dirs ds).

(* bodies of [location <args> { ... }] among the children of a server *)
Definition list_eqb (a b : list string) : bool :=
  Nat.eqb (List.length a) (List.length b) && forallb (fun p => String.eqb (fst p) (snd p)) (combine a b).

Definition find_locations (srv : list directive) (args : list string) : list (list directive) :=
  flat_map (fun d => match d with
                     | Dir n a (Some b) => if String.eqb n "location" && list_eqb a args then [b] else []
                     | _ => []
                     end) srv.

(* every value a top-level map / split_clients block can give to the variable *)
Definition var_values (http : list directive) (var : string) : list string :=
  flat_map (fun d => match d with
                     | Dir n [_; v] (Some body) =>
                         if (String.eqb n "map" || String.eqb n "split_clients") && String.eqb v var
                         then flat_map (fun e => match dargs e with [x] => [x] | _ => [] end) body
                         else []
                     | _ => []
                     end) http.

Definition is_var (s : string) : bool := match s with String c _ => Ascii.eqb c "$"%char | _ => false end.

Fixpoint resolve (fuel : nat) (http : list directive) (t : string) : list string :=
  match fuel with
  | O => []
  | S f => if is_var t then flat_map (resolve f http) (var_values http t) else [t]
  end.

Definition rewrite_targets (body : list directive) : list string :=
  flat_map (fun d => match d with
                     | Dir n (_ :: repl :: _) None => if String.eqb n "rewrite" then [repl] else []
                     | _ => []
                     end) body.

Definition last_arg (d : directive) : option string :=
  match rev (dargs d) with x :: _ => Some x | [] => None end.

(* internal targets (named locations and URIs) of the error_page directives of a block that
   handle some 5xx code: only those can see the response of a [return 5xx] *)
Definition error_page_targets (body : list directive) : list string :=
  flat_map (fun d => if String.eqb (dname d) "error_page" && existsb is_5xx (removelast (dargs d)) then
                       match last_arg d with
                       | Some t => match t with
                                   | String c _ => if Ascii.eqb c "@"%char || Ascii.eqb c "/"%char then [t] else []
                                   | _ => []
                                   end
                       | None => []
                       end
                     else []) body.

(* a named location that does not exist makes NGINX answer 500 (ngx_http_named_location); a URI that
   matches no exact location would go through location matching again, so it is not accepted *)
Definition is_named (t : string) : bool := match t with String c _ => Ascii.eqb c "@"%char | _ => false end.

Definition error_pages_ok (srv body : list directive) : bool :=
  forallb (fun t => match find_locations srv [t] with
                    | [] => is_named t
                    | bs => forallb (fun b => negb (has_pass b)) bs
                    end) (error_page_targets body).

Definition nonempty {A} (l : list A) : bool := match l with [] => false | _ => true end.

Fixpoint loc_closed (fuel : nat) (http srv body : list directive) : bool :=
  match fuel with
  | O => false
  | S f =>
      if terminating_return body then error_pages_ok srv body
      else
        negb (has_pass body) &&
        let tg := rewrite_targets body in
        nonempty tg &&
        forallb (fun t =>
                   let uris := resolve 8 http t in
                   nonempty uris &&
                   forallb (fun u => match find_locations srv [u] with
                                     | [] => false
                                     | bs => forallb (loc_closed f http srv) bs
                                     end) uris) tg
  end.

Fixpoint loc_reaches_pass (fuel : nat) (http srv body : list directive) : bool :=
  match fuel with
  | O => false
  | S f =>
      if terminating_return body then false
      else
        has_pass body ||
        existsb (fun t => existsb (fun u => existsb (loc_reaches_pass f http srv) (find_locations srv [u]))
                                  (resolve 8 http t)) (rewrite_targets body)
  end.

Definition walk_fuel : nat := 6.

(* the server blocks (bodies) of a file that carry the host in server_name *)
Definition servers_of (http : list directive) (host : string) : list (list directive) :=
  filter (fun b => existsb (fun d => String.eqb (dname d) "server_name" && mem host (dargs d)) b)
         (blocks_top "server" http).

(* entry = [] : the server scope.  Otherwise the words after [location] of the scope's entry. *)
Definition scope_fails_closed_in (http srv : list directive) (entry : list string) : bool :=
  terminating_return srv ||
  match entry with
  | [] => false
  | _ => match find_locations srv entry with
         | [] => false
         | bs => forallb (loc_closed walk_fuel http srv) bs
         end
  end.

Definition scope_reaches_pass_in (http srv : list directive) (entry : list string) : bool :=
  negb (terminating_return srv) &&
  match entry with
  | [] => existsb (fun d => match d with
                            | Dir n _ (Some b) => String.eqb n "location" && loc_reaches_pass walk_fuel http srv b
                            | _ => false
                            end) srv
  | _ => existsb (loc_reaches_pass walk_fuel http srv) (find_locations srv entry)
  end.

(* THE rendered-level predicate of the property, on a parsed file: every server block of the
   host fails closed for the scope (and there is one) *)
Definition scope_fails_closed (http : list directive) (host : string) (entry : list string) : bool :=
  match servers_of http host with
  | [] => false
  | ss => forallb (fun srv => scope_fails_closed_in http srv entry) ss
  end.

Definition scope_reaches_pass (http : list directive) (host : string) (entry : list string) : bool :=
  existsb (fun srv => scope_reaches_pass_in http srv entry) (servers_of http host).

(* TLS: the host has a TLS listener that rejects every handshake and offers no certificate *)
Definition has_dir (name : string) (ds : list directive) : bool := nonempty (find_top name ds).

Definition ssl_listener (srv : list directive) : bool :=
  existsb (fun d => String.eqb (dname d) "listen" && mem "ssl" (dargs d)) srv.

Definition rejects_in (srv : list directive) : bool :=
  ssl_listener srv &&
  existsb (fun d => match dargs d with ["on"] => true | _ => false end) (find_top "ssl_reject_handshake" srv) &&
  negb (has_dir "ssl_certificate" srv) && negb (has_dir "ssl_certificate_key" srv).

Definition tls_rejects (http : list directive) (host : string) : bool :=
  match servers_of http host with
  | [] => false
  | ss => forallb rejects_in ss
  end.

Definition serves_cert (http : list directive) (host cert : string) : bool :=
  existsb (fun srv => ssl_listener srv &&
                      existsb (fun d => match dargs d with [c] => String.eqb c cert | _ => false end)
                              (find_top "ssl_certificate" srv)) (servers_of http host).

(* Ingress authentication present in a block (server, or the location of a minion) *)
Definition one_nonempty_arg (name : string) (ds : list directive) : bool :=
  existsb (fun d => match dargs d with [x] => negb (is_empty x) | _ => false end) (find_top name ds).

Definition jwt_enforced (ds : list directive) : bool :=
  existsb (fun d => match dargs d with x :: _ => negb (String.eqb x "off") | [] => false end) (find_top "auth_jwt" ds) &&
  one_nonempty_arg "auth_jwt_key_file" ds.

Definition basic_enforced (ds : list directive) : bool :=
  existsb (fun d => match dargs d with [x] => negb (String.eqb x "off") | _ => false end) (find_top "auth_basic" ds) &&
  one_nonempty_arg "auth_basic_user_file" ds.

(* where = [] : server level; otherwise the location's words *)
Definition auth_blocks (http : list directive) (host : string) (where_ : list string) : list (list directive) :=
  match where_ with
  | [] => servers_of http host
  | _ => flat_map (fun srv => find_locations srv where_) (servers_of http host)
  end.

Definition auth_enforced (jwt basic : bool) (http : list directive) (host : string) (where_ : list string) : bool :=
  match auth_blocks http host where_ with
  | [] => false
  | bs => forallb (fun b => (negb jwt || jwt_enforced b) && (negb basic || basic_enforced b)) bs
  end.

(* ---------------------------------------------------------------- input side *)

(* a dependency the policy needs is not usable, or the policy is not allowed here *)
Definition deps_bad (p : policy) (polns : string) (d : deps) (ctx : context) : bool :=
  let bad := fun ty name => negb (usable (secret_state d ty (nskey polns name))) in
  match pkind p with
  | KAccess | KRate | KNone => false
  | KJwt => negb (is_empty (psecret p)) && bad TyJWK (psecret p)
  | KBasic => bad TyHtpasswd (psecret p)
  | KIngressMTLS => negb (d_tls d) || negb (is_spec ctx) || bad TyCA (psecret p)
  | KEgressMTLS => (negb (is_empty (psecret p)) && bad TyTLS (psecret p)) ||
                   (negb (is_empty (psecret2 p)) && bad TyCA (psecret2 p))
  | KOidc => bad TyOIDC (psecret p)
  | KApiKey => bad TyAPIKey (psecret p)
  | KWaf => negb (waf_ok p polns d)
  end.

Definition policy_unusable (cls : string) (cluster : list (string * cpolicy)) (d : deps)
           (ctx : context) (owner_ns : string) (r : polref) : bool :=
  match assoc (ref_key owner_ns r) cluster with
  | None => true
  | Some cp => negb (class_ok cls cp) || negb (cp_valid cp) || deps_bad (cp_pol cp) (ref_ns owner_ns r) d ctx
  end.

Definition scope_must_fail (cls : string) (cluster : list (string * cpolicy)) (d : deps)
           (ctx : context) (owner_ns : string) (refs : list polref) : bool :=
  existsb (policy_unusable cls cluster d ctx owner_ns) refs.

(* Which unusable references are NOT preceded, in the same list, by a reference that resolves (in
   the policy map) to a policy of the same kind?  Those are the ones the theorem
   Policies.Proofs.scope_fails_closed_partial speaks about; the others are shadowed duplicates.
   Result: (an unshadowed unusable reference exists, kinds of the shadowed unusable ones). *)
Definition in_map (cls : string) (cluster : list (string * cpolicy)) (owner_ns : string) (r : polref) : option policy :=
  match assoc (ref_key owner_ns r) cluster with
  | Some cp => if class_ok cls cp && cp_valid cp then Some (cp_pol cp) else None
  | None => None
  end.

Fixpoint scan_refs (cls : string) (cluster : list (string * cpolicy)) (d : deps) (ctx : context)
         (owner_ns : string) (seen : list kind) (refs : list polref) : bool * list kind :=
  match refs with
  | [] => (false, [])
  | r :: rest =>
      match in_map cls cluster owner_ns r with
      | None => (true, snd (scan_refs cls cluster d ctx owner_ns seen rest))
      | Some p =>
          let '(u, ks) := scan_refs cls cluster d ctx owner_ns (pkind p :: seen) rest in
          let bad := deps_bad p (ref_ns owner_ns r) d ctx in
          let sh := existsb (kind_eqb (pkind p)) seen in
          (u || (bad && negb sh), if bad && sh then pkind p :: ks else ks)
      end
  end.

Definition kind_code (k : kind) : nat :=
  match k with
  | KAccess => 1 | KRate => 2 | KJwt => 3 | KBasic => 4 | KIngressMTLS => 5 | KEgressMTLS => 6
  | KOidc => 7 | KApiKey => 8 | KWaf => 9 | KNone => 10
  end.

(* the scopes of a VirtualServer in generation order, with the references that apply *)
Definition own_route_scopes (v : vserver) : list (string * context * string * list polref) :=
  flat_map (fun r => if is_empty (r_vsr r)
                     then [(String.append "route:" (r_path r), CRoute, vs_ns v, r_pols r)] else []) (vs_routes v).

Definition sub_scopes (v : vserver) : list (string * context * string * list polref) :=
  flat_map (fun x =>
    let key := nskey (v_ns x) (v_name x) in
    map (fun s =>
           let id := String.append "sub:" (String.append key (String.append ":" (s_path s))) in
           match s_pols s with
           | [] => (id, CRoute, vs_ns v, inherited_refs (vs_ns v) (vs_routes v) key [])
           | _ => (id, CSubroute, v_ns x, s_pols s)
           end) (v_subs x)) (vs_vsrs v).

Definition vs_scopes (v : vserver) : list (string * context * string * list polref) :=
  ("spec", CSpec, vs_ns v, vs_pols v) :: own_route_scopes v ++ sub_scopes v.


(* ---------------------------------------------------------------- declarative notions used by the theorems *)

(* the policy a reference resolves to cannot be used in this scope: a dependency is missing /
   invalid / of the wrong type or the policy is not allowed in the context; for OIDC, when the
   VirtualServer already holds an OIDC configuration, the question is whether it is another one *)
Definition policy_unusable_here (p : policy) (key polns : string) (d : deps) (sc : scope) : Prop :=
  match pkind p with
  | KOidc => match sc_oidc sc with
             | None => deps_bad p polns d (sc_ctx sc) = true
             | Some k => k <> key
             end
  | _ => deps_bad p polns d (sc_ctx sc) = true
  end.

(* the reference is unusable: it does not resolve in the policy map (missing / foreign class /
   invalid: dropped by getPolicies), or it resolves to a policy that is unusable here *)
Definition ref_unusable (pm : policy_map) (d : deps) (sc : scope) (r : polref) : Prop :=
  match assoc (ref_key (sc_owner_ns sc) r) pm with
  | None => True
  | Some p => policy_unusable_here p (ref_key (sc_owner_ns sc) r) (ref_ns (sc_owner_ns sc) r) d sc
  end.

(* an earlier reference of the same list resolves to a policy of the same kind *)
Definition shadowed (pm : policy_map) (owner_ns : string) (pre : list polref) (r : polref) : Prop :=
  exists r' p' p, In r' pre /\ assoc (ref_key owner_ns r') pm = Some p' /\
                  assoc (ref_key owner_ns r) pm = Some p /\ pkind p' = pkind p.

(* the policy map only holds what getPolicies lets through *)
Definition pm_sound (cls : string) (cluster : list (string * cpolicy)) (pm : policy_map) : Prop :=
  forall k p, assoc k pm = Some p ->
    exists cp, assoc k cluster = Some cp /\ class_ok cls cp = true /\ cp_valid cp = true /\ cp_pol cp = p.

(* the template site  {{ with PoliciesErrorReturn }} return {{ .Code }}; {{ end }} *)
Definition render_error_return (v : view) : list directive :=
  if lv_err v then [Dir "return" ["500"] None] else [].

(* directives that may precede the return without changing what it does *)
Definition harmless (d : directive) : bool :=
  match dbody d with
  | None => negb (String.eqb (dname d) "return" || String.eqb (dname d) "rewrite" ||
                  String.eqb (dname d) "break" || is_pass d)
  | Some _ => negb (String.eqb (dname d) "if")
  end.
