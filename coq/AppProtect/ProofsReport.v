(* C19 -- every change of usability is reported: in the change list with the right operation
   (policies, log configurations, DoS protected resources), in UserSigChange.UserSigs (the complete
   list of signatures in force), and with a problem when a resource that stays becomes unusable. *)
From Coq Require Import List ZArith String Ascii Bool Lia Permutation.
From NIC Require Import Base.SMap AppProtect.Model AppProtect.Spec AppProtect.ProofsBase AppProtect.ProofsSig
     AppProtect.ProofsInv.
Import ListNotations.
Open Scope string_scope.
Open Scope list_scope.

Section V.
Context {fx : bool}.
Open Scope Z_scope.

Definition ans_ok (a : answer) : bool := match a with AOk => true | _ => false end.
Definition dos_ok (a : dos_answer) : bool := match a with DOk => true | _ => false end.

(* usability as the getters report it; DoS policies / log configurations have no getter of their
   own, their validity is visible through the protected resources that name them *)
Definition usable (st : state) (kd : kind) (key : string) : bool :=
  match kd with
  | KPolicy | KLogConf | KUserSig => ans_ok (get_app_resource (waf st) kd key)
  | KDosPR => dos_ok (dos_ex_by_key (dos st) key)
  | _ => false
  end.

Definition stored (st : state) (kd : kind) (key : string) : bool :=
  match kd with
  | KPolicy => mem key (policies (waf st))
  | KLogConf => mem key (logconfs (waf st))
  | KUserSig => mem key (usersigs (waf st))
  | KDosPolicy => mem key (dpols (dos st))
  | KDosLogConf => mem key (dlogs (dos st))
  | KDosPR => mem key (dprs (dos st))
  end.

Definition op_for (b : bool) : op := if b then OpAddOrUpdate else OpDelete.

(* what "reported" means for the kinds that travel in the change list *)
Definition flip_reported (st st' : state) (out : output) (kd : kind) (key : string) : Prop :=
  usable st kd key <> usable st' kd key ->
  In (chg (op_for (usable st' kd key)) kd key) (o_changes out) /\
  (stored st' kd key = true -> usable st' kd key = false -> exists c, In (prob kd key c) (o_problems out)).

(* ------------------------------------------------------------------------------------------ *)
(* policies and log configurations under their own events *)

Lemma policy_event_reported w d k o key :
  let st := {| waf := w; dos := d |} in
  let r := add_or_update_policy fx w k o in
  flip_reported st {| waf := fst r; dos := d |} (snd r) KPolicy key.
Proof.
  intros st r Hflip. subst st. unfold usable, get_app_resource in *. cbn [waf] in *.
  assert (Hr : policies (fst r) = insert k (match create_policy_ex o with
                 | (pol, Some _) => pol
                 | (pol, None) => if verify_policy_against_user_sigs fx (usersigs w) pol then pol else pol_set_invalid pol EMissing
                 end) (policies w)).
  { unfold r, add_or_update_policy. destruct (create_policy_ex o) as [pol [c|]]; [reflexivity|].
    destruct (verify_policy_against_user_sigs fx (usersigs w) pol); reflexivity. }
  destruct (string_dec key k) as [->|Hne].
  - clear Hflip. unfold stored. cbn [waf]. rewrite Hr, lookup_insert_eq.
    unfold r, add_or_update_policy.
    destruct (create_policy_ex o) as [pol [c|]] eqn:E.
    + destruct (create_policy_some _ _ _ E) as [Hv _]. rewrite Hv. cbn. split; [left; reflexivity|]. eauto.
    + pose proof (create_policy_none _ _ E) as Hp.
      assert (Hv : p_valid pol = true) by (rewrite Hp; reflexivity).
      destruct (verify_policy_against_user_sigs fx (usersigs w) pol); cbn.
      * rewrite Hv. cbn. split; [left; reflexivity|]. discriminate.
      * split; [left; reflexivity|]. eauto.
  - exfalso. apply Hflip. rewrite Hr, lookup_insert_neq by exact Hne. reflexivity.
Qed.

Lemma ans_ok_none_false {A} (key : string) (m : smap A) (f : A -> answer) :
  lookup key m = None -> ans_ok (match lookup key m with Some x => f x | None => ANotFound end) = false.
Proof. intros ->. reflexivity. Qed.

Lemma del_policy_reported w d k key : wf (policies w) ->
  let st := {| waf := w; dos := d |} in
  let r := delete_policy w k in
  flip_reported st {| waf := fst r; dos := d |} (snd r) KPolicy key.
Proof.
  intros W st r Hflip. subst st. unfold usable, get_app_resource, stored in *. cbn [waf] in *.
  unfold r, delete_policy in *. destruct (lookup k (policies w)) eqn:L; cbn [fst snd policies with_policies] in *.
  - destruct (string_dec key k) as [->|Hne].
    + rewrite lookup_remove_eq by exact W. cbn. split; [left; reflexivity|].
      unfold mem. rewrite lookup_remove_eq by exact W. discriminate.
    + exfalso. apply Hflip. rewrite lookup_remove_neq by exact Hne. reflexivity.
  - exfalso. apply Hflip. reflexivity.
Qed.

Lemma logconf_event_reported w d k o key :
  let st := {| waf := w; dos := d |} in
  let r := add_or_update_logconf w k o in
  flip_reported st {| waf := fst r; dos := d |} (snd r) KLogConf key.
Proof.
  intros st r Hflip. subst st. unfold usable, get_app_resource, stored in *. cbn [waf] in *.
  unfold r, add_or_update_logconf, create_logconf_ex in *.
  destruct (string_dec key k) as [->|Hne].
  - clear Hflip. destruct (lo_valid o); cbn [fst snd logconfs with_logconfs]; rewrite lookup_insert_eq; cbn.
    + split; [left; reflexivity|]. discriminate.
    + split; [left; reflexivity|]. eauto.
  - exfalso. apply Hflip. destruct (lo_valid o); cbn [fst snd logconfs with_logconfs];
      rewrite lookup_insert_neq by exact Hne; reflexivity.
Qed.

Lemma del_logconf_reported w d k key : wf (logconfs w) ->
  let st := {| waf := w; dos := d |} in
  let r := delete_logconf w k in
  flip_reported st {| waf := fst r; dos := d |} (snd r) KLogConf key.
Proof.
  intros W st r Hflip. subst st. unfold usable, get_app_resource, stored in *. cbn [waf] in *.
  unfold r, delete_logconf in *. destruct (lookup k (logconfs w)) eqn:L; cbn [fst snd logconfs with_logconfs] in *.
  - destruct (string_dec key k) as [->|Hne].
    + rewrite lookup_remove_eq by exact W. cbn. split; [left; reflexivity|].
      unfold mem. rewrite lookup_remove_eq by exact W. discriminate.
    + exfalso. apply Hflip. rewrite lookup_remove_neq by exact Hne. reflexivity.
  - exfalso. apply Hflip. reflexivity.
Qed.

(* ------------------------------------------------------------------------------------------ *)
(* policies under signature events: verifyPolicies *)

Lemma verify_policies_map sx P :
  fst (fst (verify_policies fx sx P)) = mapk (fun k p => fst (fst (verify_one fx sx k p))) P.
Proof. unfold verify_policies, mapk. cbn [fst]. rewrite map_map. reflexivity. Qed.

Lemma verify_policies_changes sx P key p c :
  lookup key P = Some p -> In c (snd (fst (verify_one fx sx key p))) -> In c (snd (fst (verify_policies fx sx P))).
Proof.
  intros L Hc. unfold verify_policies. cbn [fst snd]. apply in_flat_map.
  exists (key, verify_one fx sx key p). split; [|exact Hc].
  apply in_map_iff. exists (key, p). split; [reflexivity|apply lookup_In; exact L].
Qed.

Lemma verify_policies_problems sx P key p c :
  lookup key P = Some p -> In c (snd (verify_one fx sx key p)) -> In c (snd (verify_policies fx sx P)).
Proof.
  intros L Hc. unfold verify_policies. cbn [fst snd]. apply in_flat_map.
  exists (key, verify_one fx sx key p). split; [|exact Hc].
  apply in_map_iff. exists (key, p). split; [reflexivity|apply lookup_In; exact L].
Qed.

Lemma verify_one_report sx key p :
  let r := verify_one fx sx key p in
  p_valid p <> p_valid (fst (fst r)) ->
  In (chg (op_for (p_valid (fst (fst r)))) KPolicy key) (snd (fst r)) /\
  (p_valid (fst (fst r)) = false -> In (prob KPolicy key PcMissing) (snd r)).
Proof.
  unfold verify_one.
  destruct (p_valid p) eqn:V; cbn [negb andb].
  - rewrite V. destruct (verify_policy_against_user_sigs fx sx p); cbn.
    + intros H. congruence.
    + intros _. split; [left; reflexivity|]. intros _. left; reflexivity.
  - destruct (err_eqb (p_err p) EMissing).
    + destruct (verify_policy_against_user_sigs fx sx p) eqn:Ver.
      * cbn [p_valid pol_set_valid].
        change (verify_policy_against_user_sigs fx sx (pol_set_valid p)) with (verify_policy_against_user_sigs fx sx p).
        rewrite Ver. cbn. intros _. split; [left; reflexivity|]. discriminate.
      * rewrite V. cbn. congruence.
    + rewrite V. cbn. congruence.
Qed.

Lemma ans_ok_if (b : bool) e : ans_ok (if b then AOk else AErr e) = b.
Proof. destruct b; reflexivity. Qed.

Lemma usersig_event_policies_reported w d sigs0 pr0 key :
  let st := {| waf := w; dos := d |} in
  let r := build_user_sig_change fx w sigs0 pr0 in
  flip_reported st {| waf := fst r; dos := d |} (snd r) KPolicy key.
Proof.
  intros st r Hflip. subst st. unfold usable, get_app_resource, stored in *. cbn [waf] in *.
  unfold r, build_user_sig_change in *.
  destruct (reconcile_user_sigs sigs0) as [[sigs1 rch] rpr].
  pose proof (verify_policies_map sigs1 (policies w)) as HM.
  pose proof (verify_policies_changes sigs1 (policies w) key) as HC.
  pose proof (verify_policies_problems sigs1 (policies w) key) as HP.
  destruct (verify_policies fx sigs1 (policies w)) as [[pols1 vch] vpr]. cbn [fst snd] in *. subst pols1.
  cbn [policies o_changes o_problems] in *. rewrite lookup_mapk in *.
  destruct (lookup key (policies w)) as [p|] eqn:L; cbn [option_map] in *; [|exfalso; apply Hflip; reflexivity].
  pose proof (verify_one_report sigs1 key p) as R. cbn zeta in R.
  rewrite !ans_ok_if in *.
  destruct (R Hflip) as [R1 R2]. split.
  - apply filter_In. split; [|reflexivity]. apply in_or_app. right. apply (HC p _ eq_refl). exact R1.
  - intros _ Hu. exists PcMissing. apply in_or_app. right. apply in_or_app. right. apply (HP p _ eq_refl).
    apply R2. exact Hu.
Qed.

(* ------------------------------------------------------------------------------------------ *)
(* signatures: the list is complete; a signature that stays and stops being in force has a problem *)

Lemma in_all_user_sig_keys sigs k : wf sigs ->
  (In k (all_user_sig_keys sigs) <-> exists e, lookup k sigs = Some e /\ s_valid e = true).
Proof.
  intros W. unfold all_user_sig_keys. rewrite in_map_iff. split.
  - intros [[k' e] [E Hin]]. cbn in E. subst k'. apply filter_In in Hin. destruct Hin as [Hin Hv].
    exists e. split; [apply In_lookup; assumption|exact Hv].
  - intros [e [L Hv]]. exists (k, e). split; [reflexivity|]. apply filter_In. split; [apply lookup_In; exact L|exact Hv].
Qed.

Lemma group_loser_problem g k e' :
  In (k, e') (fst (fst (reconcile_group g))) -> s_valid e' = false ->
  In (prob KUserSig k PcDup) (snd (reconcile_group g)).
Proof.
  unfold reconcile_group. destruct (sig_sort g) as [|w rest]; cbn [fst snd]; [tauto|].
  intros Hin Hv. apply in_app_iff in Hin. destruct Hin as [Hin|Hin].
  - destruct (s_valid (snd w)); cbn in Hin; [tauto|]. destruct Hin as [Hin|[]].
    inversion Hin; subst. discriminate.
  - apply in_map_iff in Hin. destruct Hin as [ke [E Hke]]. inversion E; subst.
    apply in_map_iff. exists ke. split; [reflexivity|exact Hke].
Qed.

Lemma reconcile_problem sigs0 k e0 e' :
  lookup k sigs0 = Some e0 -> s_valid e0 = true ->
  lookup k (fst (fst (reconcile_user_sigs sigs0))) = Some e' -> s_valid e' = false ->
  In (prob KUserSig k PcDup) (snd (reconcile_user_sigs sigs0)).
Proof.
  intros L0 V0 L1 V1. unfold reconcile_user_sigs in *. cbn [fst snd] in *.
  rewrite apply_writes_lookup, L0 in L1.
  match type of L1 with last_write k ?ws _ = _ => destruct (last_write_cases ws k (Some e0)) as [[H1 _]|[e [H1 H2]]] end.
  - rewrite H1 in L1. inversion L1; subst. congruence.
  - rewrite H2 in L1. inversion L1; subst e. apply in_flat_map in H1. destruct H1 as [r [Hr Hin]].
    apply in_map_iff in Hr. destruct Hr as [g [<- Hg]].
    apply in_flat_map. exists (reconcile_group g). split; [apply in_map; exact Hg|].
    apply group_loser_problem with (e' := e'); assumption.
Qed.

Lemma create_usersig_invalid o sg e : create_usersig_ex o = (sg, e) -> s_valid sg = false -> exists c, e = Some c.
Proof.
  unfold create_usersig_ex. destruct (so_valid o); cbn.
  - destruct (so_rev o); intros E; inversion E; subst; cbn; try discriminate; eauto.
  - intros E; inversion E; eauto.
Qed.

(* ------------------------------------------------------------------------------------------ *)
(* DoS protected resources *)

Lemma aou_pr_report st o :
  let key := ns_name (pr_ns o) (pr_name o) in
  let r := add_or_update_dos_pr st o in
  d_enabled st = true ->
  snd (fst r) = [chg (op_for (dos_ok (dos_ex_by_key (fst (fst r)) key))) KDosPR key] /\
  (dos_ok (dos_ex_by_key (fst (fst r)) key) = false -> exists c, snd r = [prob KDosPR key c]).
Proof.
  intros key r En. unfold r. rewrite aou_pr_state. unfold dos_ex_by_key.
  cbn [d_enabled with_dprs dprs]. rewrite En. cbn [negb]. rewrite lookup_insert_eq.
  unfold add_or_update_dos_pr, create_dos_pr_ex. cbn [dre_valid dre_obj]. fold key.
  unfold get_dos_policy, get_dos_logconf. cbn [dpols dlogs with_dprs].
  assert (T : forall (P : Prop), P -> P) by auto.
  destruct (pr_valid o); cbn [negb];
    [|split; [reflexivity|intros _; eexists; reflexivity]].
  destruct (String.eqb (pr_pol o) ""); cbn [negb andb].
  - destruct (pr_log o) as [lref|]; [|split; [reflexivity|discriminate]].
    destruct (String.eqb lref ""); cbn [negb andb]; [split; [reflexivity|discriminate]|].
    destruct (lookup (resolve_ref (pr_ns o) lref) (dlogs st)) as [e|]; [destruct (dle_valid e)|]; cbn;
      (split; [reflexivity|first [discriminate|intros _; eexists; reflexivity]]).
  - destruct (lookup (resolve_ref (pr_ns o) (pr_pol o)) (dpols st)) as [e|]; [destruct (dpe_valid e)|]; cbn;
      try (split; [reflexivity|intros _; eexists; reflexivity]).
    destruct (pr_log o) as [lref|]; [|split; [reflexivity|discriminate]].
    destruct (String.eqb lref ""); cbn [negb andb]; [split; [reflexivity|discriminate]|].
    destruct (lookup (resolve_ref (pr_ns o) lref) (dlogs st)) as [e'|]; [destruct (dle_valid e')|]; cbn;
      (split; [reflexivity|first [discriminate|intros _; eexists; reflexivity]]).
Qed.

Lemma reeval_outputs l : forall st, wf (dprs st) ->
  (forall p, In p l -> lookup (ns_name (pr_ns p) (pr_name p)) (dprs st) = Some (create_dos_pr_ex p)) ->
  snd (fst (reeval st l)) = flat_map (fun p => snd (fst (add_or_update_dos_pr st p))) l /\
  snd (reeval st l) = flat_map (fun p => snd (add_or_update_dos_pr st p)) l.
Proof.
  induction l as [|p r IH]; intros st W H; cbn; [split; reflexivity|].
  pose proof (aou_pr_state st p) as E.
  destruct (add_or_update_dos_pr st p) as [[st1 c1] p1]. cbn in E.
  rewrite (insert_same _ _ _ W (H p (or_introl eq_refl))) in E.
  assert (E1 : st1 = st) by (rewrite E; destruct st; reflexivity). rewrite E1. clear E E1 st1.
  specialize (IH st W (fun q Hq => H q (or_intror Hq))).
  destruct (reeval st r) as [[st2 c2] p2]. cbn in *. destruct IH as [-> ->]. split; reflexivity.
Qed.

Lemma resolve_matches ns ref k : resolve_ref ns ref = k ->
  String.eqb k ref || String.eqb k (ns_name ns ref) = true.
Proof.
  unfold resolve_ref. destruct (contains_slash ref); intros <-; rewrite String.eqb_refl; [reflexivity|apply orb_true_r].
Qed.

Section DosReport.
  Variable en : bool.
  Variable ob : objects.
  Hypothesis Wpr : wf (ob_dpr ob).
  Hypothesis HK : forall k o, lookup k (ob_dpr ob) = Some o -> k = ns_name (pr_ns o) (pr_name o).

  Let st := spec_dos en ob.

  (* a state that differs from the rebuilt one in the policy / log conf maps only *)
  Definition st_with (dp : smap DosPolicyEx) (dl : smap DosLogConfEx) : dstate :=
    {| dpols := dp; dlogs := dl; dprs := mapk mk_pr (ob_dpr ob); d_enabled := en |}.

  Lemma reeval_with q dp dl :
    let l := map (fun ke => dre_obj (snd ke)) (filter q (mapk mk_pr (ob_dpr ob))) in
    fst (fst (reeval (st_with dp dl) l)) = st_with dp dl /\
    snd (fst (reeval (st_with dp dl) l)) = flat_map (fun p => snd (fst (add_or_update_dos_pr (st_with dp dl) p))) l /\
    snd (reeval (st_with dp dl) l) = flat_map (fun p => snd (add_or_update_dos_pr (st_with dp dl) p)) l.
  Proof.
    intros l.
    assert (Hl : forall p, In p l ->
              lookup (ns_name (pr_ns p) (pr_name p)) (dprs (st_with dp dl)) = Some (create_dos_pr_ex p)).
    { intros p Hp. cbn. apply in_map_iff in Hp. destruct Hp as [[k ex] [Ep Hin]]. cbn in Ep. subst p.
      apply filter_In in Hin. destruct Hin as [Hin _].
      assert (Eex : ex = create_dos_pr_ex (dre_obj ex)).
      { apply in_mapk in Hin. destruct Hin as [o [_ E]]. subst ex. reflexivity. }
      rewrite Eex in Hin. eapply stored_pr_lookup; eauto. }
    assert (W : wf (dprs (st_with dp dl))) by (cbn; apply wf_mapk; exact Wpr).
    split; [apply reeval_state; assumption|apply reeval_outputs; assumption].
  Qed.

  (* the answer for K looks at the policy map only at the resolved reference of K *)
  Lemma answer_same_pol dp dp' dl K :
    (forall o, lookup K (ob_dpr ob) = Some o -> pr_pol o <> "" ->
               lookup (resolve_ref (pr_ns o) (pr_pol o)) dp = lookup (resolve_ref (pr_ns o) (pr_pol o)) dp') ->
    dos_ex_by_key (st_with dp dl) K = dos_ex_by_key (st_with dp' dl) K.
  Proof.
    intros H. unfold dos_ex_by_key. cbn [d_enabled dprs st_with]. destruct en; cbn [negb]; [|reflexivity].
    rewrite lookup_mapk. destruct (lookup K (ob_dpr ob)) as [o|] eqn:L; [|reflexivity]. cbn [option_map].
    unfold mk_pr, create_dos_pr_ex. cbn [dre_valid dre_obj]. destruct (pr_valid o); cbn [negb]; [|reflexivity].
    destruct (String.eqb (pr_pol o) "") eqn:E; [reflexivity|].
    unfold get_dos_policy, st_with. cbn [dpols]. rewrite (H o eq_refl); [reflexivity|].
    apply String.eqb_neq. exact E.
  Qed.

  Lemma answer_same_log dp dl dl' K :
    (forall o l, lookup K (ob_dpr ob) = Some o -> pr_log o = Some l -> l <> "" ->
                 lookup (resolve_ref (pr_ns o) l) dl = lookup (resolve_ref (pr_ns o) l) dl') ->
    dos_ex_by_key (st_with dp dl) K = dos_ex_by_key (st_with dp dl') K.
  Proof.
    intros H. unfold dos_ex_by_key. cbn [d_enabled dprs st_with]. destruct en; cbn [negb]; [|reflexivity].
    rewrite lookup_mapk. destruct (lookup K (ob_dpr ob)) as [o|] eqn:L; [|reflexivity]. cbn [option_map].
    unfold mk_pr, create_dos_pr_ex. cbn [dre_valid dre_obj]. destruct (pr_valid o); cbn [negb]; [|reflexivity].
    match goal with |- match ?a with _ => _ end = match ?b with _ => _ end => replace b with a by reflexivity; destruct a end;
      try reflexivity.
    destruct (pr_log o) as [l|] eqn:PL; [|reflexivity].
    destruct (String.eqb l "") eqn:E; [reflexivity|].
    unfold get_dos_logconf, st_with. cbn [dlogs]. rewrite (H o l eq_refl PL); [reflexivity|].
    apply String.eqb_neq. exact E.
  Qed.

  (* the protected resource stored under K is re-evaluated by the loop whenever it passes q *)
  Lemma reeval_reports q dp dl K o :
    lookup K (ob_dpr ob) = Some o -> q (K, mk_pr K o) = true -> en = true ->
    let l := map (fun ke => dre_obj (snd ke)) (filter q (mapk mk_pr (ob_dpr ob))) in
    let r := reeval (st_with dp dl) l in
    In (chg (op_for (dos_ok (dos_ex_by_key (st_with dp dl) K))) KDosPR K) (snd (fst r)) /\
    (dos_ok (dos_ex_by_key (st_with dp dl) K) = false -> exists c, In (prob KDosPR K c) (snd r)).
  Proof.
    intros L Hq En l r. destruct (reeval_with q dp dl) as [_ [Hc Hp]]. fold l in Hc, Hp. unfold r. rewrite Hc, Hp.
    assert (Hin : In o l).
    { unfold l. apply in_map_iff. exists (K, mk_pr K o). split; [reflexivity|].
      apply filter_In. split; [|exact Hq]. apply in_mapk. exists o. split; [apply lookup_In; exact L|reflexivity]. }
    pose proof (HK _ _ L) as EK.
    pose proof (aou_pr_report (st_with dp dl) o) as R. cbn zeta in R. rewrite <- EK in R.
    assert (Est : fst (fst (add_or_update_dos_pr (st_with dp dl) o)) = st_with dp dl).
    { rewrite aou_pr_state. rewrite <- EK. unfold with_dprs, st_with. cbn [dprs dpols dlogs d_enabled].
      rewrite insert_same; [reflexivity|apply wf_mapk; exact Wpr|].
      rewrite lookup_mapk, L. reflexivity. }
    rewrite Est in R. destruct (R En) as [R1 R2]. split.
    - apply in_flat_map. exists o. split; [exact Hin|]. rewrite R1. left. reflexivity.
    - intros Hu. destruct (R2 Hu) as [c Ec]. exists c. apply in_flat_map. exists o. split; [exact Hin|].
      rewrite Ec. left. reflexivity.
  Qed.

  Lemma disabled_never_usable dp dl K : en = false -> dos_ok (dos_ex_by_key (st_with dp dl) K) = false.
  Proof. intros H. unfold dos_ex_by_key, st_with. cbn [d_enabled]. rewrite H. reflexivity. Qed.

  (* a change of the policy map at key k *)
  Lemma pol_change_reported dp' k K :
    (forall k', k' <> k -> lookup k' dp' = lookup k' (mapk mk_dp (ob_dpol ob))) ->
    let st1 := st_with dp' (mapk mk_dl (ob_dlog ob)) in
    let r := reeval st1 (prs_referencing_policy st1 k) in
    dos_ok (dos_ex_by_key st K) <> dos_ok (dos_ex_by_key st1 K) ->
    In (chg (op_for (dos_ok (dos_ex_by_key st1 K))) KDosPR K) (snd (fst r)) /\
    (dos_ok (dos_ex_by_key st1 K) = false -> exists c, In (prob KDosPR K c) (snd r)).
  Proof.
    intros Hdp st1 r Hflip.
    assert (Est : st = st_with (mapk mk_dp (ob_dpol ob)) (mapk mk_dl (ob_dlog ob))) by reflexivity.
    destruct en eqn:En; [|exfalso; apply Hflip; rewrite Est; unfold st1; rewrite !disabled_never_usable by exact En; reflexivity].
    destruct (lookup K (ob_dpr ob)) as [o|] eqn:L.
    - destruct (String.eqb (pr_pol o) "") eqn:Ep.
      + exfalso. apply Hflip. rewrite Est. unfold st1. f_equal. apply answer_same_pol.
        intros o' Lo' Hne. rewrite L in Lo'. inversion Lo'; subst o'. apply String.eqb_neq in Hne. congruence.
      + destruct (string_dec (resolve_ref (pr_ns o) (pr_pol o)) k) as [Er|Hne].
        * unfold r, st1, prs_referencing_policy. cbn [dprs st_with].
          apply (reeval_reports _ dp' (mapk mk_dl (ob_dlog ob)) K o L); [|exact En].
          cbn [snd mk_pr create_dos_pr_ex dre_obj]. apply resolve_matches. exact Er.
        * exfalso. apply Hflip. rewrite Est. unfold st1. f_equal. apply answer_same_pol.
          intros o' Lo' _. rewrite L in Lo'. inversion Lo'; subst o'. symmetry. apply Hdp. exact Hne.
    - exfalso. apply Hflip. rewrite Est. unfold st1. f_equal. apply answer_same_pol.
      intros o' Lo'. rewrite L in Lo'. discriminate.
  Qed.

  Lemma log_change_reported dl' k K :
    (forall k', k' <> k -> lookup k' dl' = lookup k' (mapk mk_dl (ob_dlog ob))) ->
    let st1 := st_with (mapk mk_dp (ob_dpol ob)) dl' in
    let r := reeval st1 (prs_referencing_logconf st1 k) in
    dos_ok (dos_ex_by_key st K) <> dos_ok (dos_ex_by_key st1 K) ->
    In (chg (op_for (dos_ok (dos_ex_by_key st1 K))) KDosPR K) (snd (fst r)) /\
    (dos_ok (dos_ex_by_key st1 K) = false -> exists c, In (prob KDosPR K c) (snd r)).
  Proof.
    intros Hdl st1 r Hflip.
    assert (Est : st = st_with (mapk mk_dp (ob_dpol ob)) (mapk mk_dl (ob_dlog ob))) by reflexivity.
    destruct en eqn:En; [|exfalso; apply Hflip; rewrite Est; unfold st1; rewrite !disabled_never_usable by exact En; reflexivity].
    destruct (lookup K (ob_dpr ob)) as [o|] eqn:L.
    - destruct (pr_log o) as [lref|] eqn:PL.
      + destruct (string_dec (resolve_ref (pr_ns o) lref) k) as [Er|Hne].
        * unfold r, st1, prs_referencing_logconf. cbn [dprs st_with].
          apply (reeval_reports _ (mapk mk_dp (ob_dpol ob)) dl' K o L); [|exact En].
          cbn [snd mk_pr create_dos_pr_ex dre_obj]. rewrite PL. apply resolve_matches. exact Er.
        * exfalso. apply Hflip. rewrite Est. unfold st1. f_equal. apply answer_same_log.
          intros o' l' Lo' PL' _. rewrite L in Lo'. inversion Lo'; subst o'. rewrite PL in PL'. inversion PL'; subst l'.
          symmetry. apply Hdl. exact Hne.
      + exfalso. apply Hflip. rewrite Est. unfold st1. f_equal. apply answer_same_log.
        intros o' l' Lo' PL'. rewrite L in Lo'. inversion Lo'; subst o'. congruence.
    - exfalso. apply Hflip. rewrite Est. unfold st1. f_equal. apply answer_same_log.
      intros o' l' Lo'. rewrite L in Lo'. discriminate.
  Qed.

  Lemma pol_reeval_state dp dl k :
    fst (fst (reeval (st_with dp dl) (prs_referencing_policy (st_with dp dl) k))) = st_with dp dl.
  Proof. exact (proj1 (reeval_with (refs_pol k) dp dl)). Qed.

  Lemma log_reeval_state dp dl k :
    fst (fst (reeval (st_with dp dl) (prs_referencing_logconf (st_with dp dl) k))) = st_with dp dl.
  Proof. exact (proj1 (reeval_with (refs_log k) dp dl)). Qed.
End DosReport.

End V.
