//go:build verif

// Correspondence harness for C15.  For generated clusters and resources with references in every
// position it runs the REAL createExtendedResources (createIngressEx / createMergeableIngresses /
// createVirtualServerEx / createTransportServerEx) of a LoadBalancerController built like
// controller_test.go does, finds out on which objects the extended resource depends (by changing,
// deleting or creating each object of a small universe and re-running the real function; the look-ups
// made through instrumented stores are recorded as well), and asks the REAL Configuration.FindResourcesFor*,
// getPoliciesForSecret, getWAFPoliciesForAppProtect*, *RequiresEndpointsUpdate whether the reverse
// direction finds the resource.  It writes inputs and projected observables as JSON lines.
package main

import (
	"context"
	"errors"
	"fmt"
	"os"
	"path/filepath"
	"reflect"
	"sort"
	"strconv"
	"strings"
	"sync"

	"github.com/nginx/kubernetes-ingress/internal/configs"
	"github.com/nginx/kubernetes-ingress/internal/configs/version1"
	"github.com/nginx/kubernetes-ingress/internal/configs/version2"
	"github.com/nginx/kubernetes-ingress/internal/k8s"
	"github.com/nginx/kubernetes-ingress/internal/k8s/appprotect"
	"github.com/nginx/kubernetes-ingress/internal/k8s/secrets"
	"github.com/nginx/kubernetes-ingress/internal/nginx"
	"github.com/nginx/kubernetes-ingress/internal/verifh/vh"
	conf_v1 "github.com/nginx/kubernetes-ingress/pkg/apis/configuration/v1"
	"github.com/nginx/kubernetes-ingress/pkg/apis/dos/v1beta1"
	dosvalidation "github.com/nginx/kubernetes-ingress/pkg/apis/dos/validation"
	api_v1 "k8s.io/api/core/v1"
	discovery_v1 "k8s.io/api/discovery/v1"
	networking "k8s.io/api/networking/v1"
	meta_v1 "k8s.io/apimachinery/pkg/apis/meta/v1"
	"k8s.io/apimachinery/pkg/apis/meta/v1/unstructured"
	"k8s.io/apimachinery/pkg/types"
	"k8s.io/apimachinery/pkg/util/intstr"
	"k8s.io/client-go/tools/cache"
)

// ---------------------------------------------------------------- input

type Env struct {
	Plus bool `json:"plus"`
	AP   bool `json:"ap"`
	Dos  bool `json:"dos"`
	Fix  bool `json:"fix"`  // probed from the real checker, not chosen (fixes/F19a.diff)
	FixC bool `json:"fixc"` // probed: virtualServerRequiresEndpointsUpdate looks at upstream.Backup (fixes/F19c.diff)
	FixB bool `json:"fixb"` // probed: the EndpointSlice delete handler queues the Service (fixes/F19b.diff)
	// event level: the Secrets configured as -default-server-tls-secret / -wildcard-tls-secret ("" = none); they may
	// also be referenced by the resources
	DefaultSecret  string `json:"default_secret,omitempty"`
	WildcardSecret string `json:"wildcard_secret,omitempty"`
}

type SvcSpec struct {
	Key      string `json:"key"`
	External bool   `json:"external"`
	Slice    bool   `json:"slice"`
	Named    bool   `json:"named,omitempty"` // port 80 has the NAMED targetPort "web", resolved through the pods
}

type SecretSpec struct {
	Key string `json:"key"`
	OK  bool   `json:"ok"`
}

type PolicySpec struct {
	Ns      string   `json:"ns"`
	Name    string   `json:"name"`
	Class   string   `json:"class"`
	Type    string   `json:"type"` // access jwt jwks basic imtls emtls oidc apikey waf empty double
	Secret  string   `json:"secret,omitempty"`
	Secret2 string   `json:"secret2,omitempty"`
	ApPol   string   `json:"appol,omitempty"`
	SecLog  *string  `json:"seclog,omitempty"`
	SecLogs []string `json:"seclogs,omitempty"`
	HasLogs bool     `json:"haslogs,omitempty"` // SecurityLogs != nil
}

type ApSpec struct {
	Kind string `json:"kind"` // appolicy | aplogconf | dospolicy | doslogconf | usersig
	Key  string `json:"key"`
	OK   bool   `json:"ok"`
	Tag  string `json:"tag,omitempty"` // appolicy: signature-requirements tag; usersig: the tag it defines
}

type DosSpec struct {
	Key    string `json:"key"`
	Valid  bool   `json:"valid"`
	Pol    string `json:"pol,omitempty"`    // Spec.ApDosPolicy: "name" or "ns/name"
	HasLog bool   `json:"haslog,omitempty"` // Spec.DosSecurityLog != nil
	Log    string `json:"log,omitempty"`    // Spec.DosSecurityLog.ApDosLogConf
}

type Cluster struct {
	Services []SvcSpec    `json:"services"`
	Secrets  []SecretSpec `json:"secrets"`
	Policies []PolicySpec `json:"policies"`
	Ap       []ApSpec     `json:"ap"`
	Dos      []DosSpec    `json:"dos"`
	DosHops  []ApSpec     `json:"doshops"`  // kind dospolicy | doslogconf: APDosPolicy / APDosLogConf objects
	UserSigs []ApSpec     `json:"usersigs"` // kind usersig: APUserSig objects (event level only)
}

type PolRef struct {
	Name string `json:"name"`
	Ns   string `json:"ns"`
}

type Ups struct {
	Name         string `json:"name"`
	Service      string `json:"service"`
	Backup       string `json:"backup,omitempty"`
	BackupPort   int    `json:"backup_port,omitempty"`
	Subselector  bool   `json:"subselector,omitempty"`
	UseClusterIP bool   `json:"use_cluster_ip,omitempty"`
}

type Route struct {
	Path     string   `json:"path"`
	Policies []PolRef `json:"policies,omitempty"`
	Dos      string   `json:"dos,omitempty"`
	Pass     string   `json:"pass,omitempty"`  // action.pass upstream
	Route    string   `json:"route,omitempty"` // delegation to a VirtualServerRoute ns/name
}

type VSR struct {
	Ns        string  `json:"ns"`
	Name      string  `json:"name"`
	Subroutes []Route `json:"subroutes"`
	Upstreams []Ups   `json:"upstreams"`
}

type VS struct {
	Ns        string   `json:"ns"`
	Name      string   `json:"name"`
	Host      string   `json:"host,omitempty"` // default vs.example.com
	TLS       *string  `json:"tls,omitempty"`
	Policies  []PolRef `json:"policies,omitempty"`
	Dos       string   `json:"dos,omitempty"`
	Upstreams []Ups    `json:"upstreams"`
	Routes    []Route  `json:"routes"`
	VSRs      []VSR    `json:"vsrs,omitempty"`
}

type TSUps struct {
	Name       string `json:"name"`
	Service    string `json:"service"`
	Backup     string `json:"backup,omitempty"`
	BackupPort int    `json:"backup_port,omitempty"`
}

type TS struct {
	Ns        string  `json:"ns"`
	Name      string  `json:"name"`
	TLS       *string `json:"tls,omitempty"`
	Upstreams []TSUps `json:"upstreams"`
}

type IngPath struct {
	Path string `json:"path"`
	Svc  string `json:"svc"`
}

type IngRule struct {
	Host   string    `json:"host"`
	NoHTTP bool      `json:"no_http,omitempty"`
	Paths  []IngPath `json:"paths,omitempty"`
}

type Ing struct {
	Ns      string            `json:"ns"`
	Name    string            `json:"name"`
	TLS     []string          `json:"tls,omitempty"`
	Ann     map[string]string `json:"ann,omitempty"`
	Default string            `json:"default,omitempty"`
	Rules   []IngRule         `json:"rules"`
}

type Case struct {
	Fam     string  `json:"fam"` // res | inv
	ID      int     `json:"id"`
	Class   string  `json:"class"` // ing | merge | vs | ts | inv
	Env     Env     `json:"env"`
	Cluster Cluster `json:"cluster"`
	Ing     *Ing    `json:"ing,omitempty"`
	Minions []Ing   `json:"minions,omitempty"`
	Rival   *Ing    `json:"rival,omitempty"` // an older Ingress owning one of the hosts
	VS      *VS     `json:"vs,omitempty"`
	TS      *TS     `json:"ts,omitempty"`
	Obs     any     `json:"obs"`
}

// ---------------------------------------------------------------- observables

type Dep struct {
	Kind string `json:"kind"` // secret service endpoints policy appolicy aplogconf dos
	Key  string `json:"key"`
}

type Rev struct {
	Kind   string   `json:"kind"`
	Ns     string   `json:"ns"`
	Name   string   `json:"name"`
	Exists bool     `json:"exists"`
	Direct bool     `json:"direct"`        // the resource is among FindResourcesFor<kind>(ns, name)
	Via    []string `json:"via"`           // policies the second hop finds for the object
	Req    bool     `json:"req"`           // endpoints: the *RequiresEndpointsUpdate filter lets the resource through
	EpFind bool     `json:"epfind"`        // endpoints: FindResourcesForEndpoints (unused by the controller; informational)
	Dep    bool     `json:"dep"`           // the extended resource changes when this object is changed / deleted / created
	How    string   `json:"how,omitempty"` // which mutation showed the dependency
}

type PolObs struct {
	Key     string         `json:"key"`
	Valid   bool           `json:"valid"`
	ClassOK bool           `json:"class_ok"`
	Found   bool           `json:"found"` // the resource is among FindResourcesForPolicy(key)
	Skel    map[string]any `json:"skel"`  // the reference-bearing fields read off the real object
}

// EvObs: one notification delivered through the real informer handler and the real lbc.sync
type EvObs struct {
	Kind      string `json:"kind"`
	Key       string `json:"key"`
	Op        string `json:"op"`                   // add | update | update-irrelevant | delete
	Relevant  bool   `json:"relevant"`             // Service update: verdict of hasServiceChanges; true otherwise
	Queued    int    `json:"queued"`               // tasks the handler put on the work queue
	Regen     bool   `json:"regen"`                // the configuration file of the resource was written again
	Stale     bool   `json:"stale"`                // after the event, regenerating the resource would still change its file
	Dep       bool   `json:"dep"`                  // the extended resource was observed to depend on the object (create*Ex level)
	Material  bool   `json:"material"`             // the new version differs in what generation reads (false: metadata-only changes)
	FreshDiff bool   `json:"fresh_diff,omitempty"` // a controller started afresh on the same cluster writes a different file
	Recreate  string `json:"recreate,omitempty"`   // history: this Policy was stored unusable, seen by a Secret sync, deleted and created again usable before the event
	Err       string `json:"err,omitempty"`
}

type Obs struct {
	Served     bool              `json:"served"`
	Reject     string            `json:"reject,omitempty"`
	ResKey     string            `json:"res_key,omitempty"`
	ValidHosts map[string]bool   `json:"valid_hosts,omitempty"`
	MinionOK   []string          `json:"minion_keys,omitempty"`
	MinionPath []map[string]bool `json:"minion_paths,omitempty"`
	VsrKeys    []string          `json:"vsr_keys,omitempty"`
	Skel       map[string]any    `json:"skel,omitempty"` // the resource as the model sees it (fields read off the real objects)
	Lookups    []Dep             `json:"lookups"`
	Rev        []Rev             `json:"rev"`
	Pols       []PolObs          `json:"pols"`
	DosProt    []map[string]any  `json:"dosprot"` // the stored DosProtectedResources as the model sees them
	Events     []EvObs           `json:"events"`
	Multi      []Obs             `json:"multi,omitempty"` // class multi: one entry per served resource
	Kind       string            `json:"kind,omitempty"`  // class multi: ing | vs | ts
	Panic      string            `json:"panic,omitempty"`
	Error      string            `json:"error,omitempty"`
}

// ---------------------------------------------------------------- universe

var (
	nss       = []string{"ns1", "ns2"}
	secNames  = []string{"sec-a", "sec-b", "sec-c"}
	svcNames  = []string{"svc-a", "svc-b", "svc-c", "svc-d"}
	polNames  = []string{"pol-a", "pol-b", "pol-c", "pol-d"}
	apNames   = []string{"app-a", "app-b"}
	logNames  = []string{"log-a", "log-b"}
	dosNames  = []string{"dos-a", "dos-b"}
	dpolNames = []string{"dpol-a", "dpol-b"}
	dlogNames = []string{"dlog-a", "dlog-b"}
	kindNames = map[string][]string{"secret": secNames, "service": svcNames, "endpoints": svcNames, "policy": polNames,
		"appolicy": apNames, "aplogconf": logNames, "dos": dosNames, "dospolicy": dpolNames, "doslogconf": dlogNames}
	kinds = []string{"secret", "service", "endpoints", "policy", "appolicy", "aplogconf", "dos", "dospolicy", "doslogconf"}
)

const (
	annBasic  = "nginx.org/basic-auth-secret"
	annJWT    = "nginx.com/jwt-key"
	annApPol  = "appprotect.f5.com/app-protect-policy"
	annApLog  = "appprotect.f5.com/app-protect-security-log"
	annApDst  = "appprotect.f5.com/app-protect-security-log-destination"
	annDos    = "appprotectdos.f5.com/app-protect-dos-resource"
	annClusIP = "nginx.org/use-cluster-ip"
	annMerge  = "nginx.org/mergeable-ingress-type"
	annClass  = "kubernetes.io/ingress.class"
)

// ---------------------------------------------------------------- instrumented stores

type recorder struct {
	seen    map[Dep]bool
	lastSvc string
}

func (r *recorder) add(kind, key string) {
	if r.seen != nil {
		r.seen[Dep{kind, key}] = true
	}
}

type recStore struct {
	cache.Store
	name string
	rec  *recorder
}

func (s recStore) GetByKey(key string) (interface{}, bool, error) {
	it, ok, err := s.Store.GetByKey(key)
	switch s.name {
	case "service":
		s.rec.add("service", key)
		if ok {
			s.rec.lastSvc = key
		}
	case "policy":
		s.rec.add("policy", key)
	}
	return it, ok, err
}

func (s recStore) List() []interface{} {
	if s.name == "endpointslice" && s.rec.lastSvc != "" {
		// GetServiceEndpointSlices(svc) lists the store and filters by the service fetched just before
		s.rec.add("endpoints", s.rec.lastSvc)
	}
	return s.Store.List()
}

// fakeSecrets is the secrets.SecretStore the controller reads; the content of an entry is a version number.
type secEntry struct {
	ok  bool
	ver int
}

type fakeSecrets struct {
	m   map[string]*secEntry
	rec *recorder
}

func (s *fakeSecrets) AddOrUpdateSecret(sec *api_v1.Secret) {
	ver, _ := strconv.Atoi(sec.ResourceVersion)
	s.m[sec.Namespace+"/"+sec.Name] = &secEntry{ok: string(sec.Data["ok"]) != "0", ver: ver}
}
func (s *fakeSecrets) DeleteSecret(key string) { delete(s.m, key) }
func (s *fakeSecrets) GetSecret(key string) *secrets.SecretReference {
	s.rec.add("secret", key)
	e := s.m[key]
	if e == nil {
		return &secrets.SecretReference{Error: errors.New("secret doesn't exist or of an unsupported type")}
	}
	ns, name, _ := strings.Cut(key, "/")
	sec := &api_v1.Secret{ObjectMeta: meta_v1.ObjectMeta{Namespace: ns, Name: name, ResourceVersion: fmt.Sprint(e.ver)}}
	if !e.ok {
		return &secrets.SecretReference{Secret: sec, Error: errors.New("invalid secret")}
	}
	return &secrets.SecretReference{Secret: sec, Path: "/etc/nginx/secrets/" + ns + "-" + name}
}
func (s *fakeSecrets) GetSecretReferenceMap() map[string]*secrets.SecretReference { return nil }

// fakeAP is the appprotect.Configuration the controller reads.
type fakeAP struct {
	m   map[Dep]*secEntry // kind appolicy|aplogconf
	rec *recorder
}

func (a *fakeAP) GetAppResource(kind, key string) (*unstructured.Unstructured, error) {
	k := "appolicy"
	if kind == appprotect.LogConfGVK.Kind {
		k = "aplogconf"
	} else if kind != appprotect.PolicyGVK.Kind {
		return nil, fmt.Errorf("unknown kind %s", kind)
	}
	a.rec.add(k, key)
	e := a.m[Dep{k, key}]
	if e == nil {
		return nil, fmt.Errorf("app protect resource %s not found", key)
	}
	if !e.ok {
		return nil, fmt.Errorf("app protect resource %s is invalid", key)
	}
	ns, name, _ := strings.Cut(key, "/")
	u := &unstructured.Unstructured{Object: map[string]interface{}{}}
	u.SetNamespace(ns)
	u.SetName(name)
	u.SetKind(kind)
	u.SetResourceVersion(fmt.Sprint(e.ver))
	return u, nil
}
func (a *fakeAP) AddOrUpdatePolicy(*unstructured.Unstructured) ([]appprotect.Change, []appprotect.Problem) {
	return nil, nil
}
func (a *fakeAP) AddOrUpdateLogConf(*unstructured.Unstructured) ([]appprotect.Change, []appprotect.Problem) {
	return nil, nil
}
func (a *fakeAP) AddOrUpdateUserSig(*unstructured.Unstructured) (appprotect.UserSigChange, []appprotect.Problem) {
	return appprotect.UserSigChange{}, nil
}
func (a *fakeAP) DeletePolicy(string) ([]appprotect.Change, []appprotect.Problem)  { return nil, nil }
func (a *fakeAP) DeleteLogConf(string) ([]appprotect.Change, []appprotect.Problem) { return nil, nil }
func (a *fakeAP) DeleteUserSig(string) (appprotect.UserSigChange, []appprotect.Problem) {
	return appprotect.UserSigChange{}, nil
}

// ---------------------------------------------------------------- building objects

func splitKey(k string) (string, string) {
	ns, name, _ := strings.Cut(k, "/")
	return ns, name
}

func svcIP(key string, gen int) string {
	h := 0
	for i := 0; i < len(key); i++ {
		h = (h*31 + int(key[i])) % 200
	}
	return fmt.Sprintf("10.%d.%d.%d", 1+gen, h/16+1, h%16+1)
}

func mkService(s SvcSpec, gen int) *api_v1.Service {
	ns, name := splitKey(s.Key)
	svc := &api_v1.Service{ObjectMeta: meta_v1.ObjectMeta{Namespace: ns, Name: name, ResourceVersion: fmt.Sprint(gen)}}
	svc.Spec.Ports = []api_v1.ServicePort{
		{Name: "http", Port: 80, TargetPort: intstr.FromInt(8080)},
		{Name: "alt", Port: 8080, TargetPort: intstr.FromInt(9090)},
	}
	if s.Named {
		svc.Spec.Ports[0].TargetPort = intstr.FromString("web")
		svc.Spec.Ports[0].Protocol, svc.Spec.Ports[1].Protocol = api_v1.ProtocolTCP, api_v1.ProtocolTCP
	}
	if s.External {
		svc.Spec.Type = api_v1.ServiceTypeExternalName
		svc.Spec.ExternalName = fmt.Sprintf("ext%d.%s.example.com", gen, name)
	} else {
		svc.Spec.Type = api_v1.ServiceTypeClusterIP
		svc.Spec.ClusterIP = svcIP(s.Key, gen+50)
		svc.Spec.Selector = map[string]string{"app": name}
	}
	return svc
}

func mkSlice(key string, gen int) (*discovery_v1.EndpointSlice, *api_v1.Pod) {
	ns, name := splitKey(key)
	ready := true
	p1, p2 := int32(8080), int32(9090)
	ip := svcIP(key, gen)
	podName := name + "-pod"
	sl := &discovery_v1.EndpointSlice{
		ObjectMeta: meta_v1.ObjectMeta{Namespace: ns, Name: name + "-slice", Labels: map[string]string{"kubernetes.io/service-name": name}},
		Ports:      []discovery_v1.EndpointPort{{Port: &p1}, {Port: &p2}},
		Endpoints: []discovery_v1.Endpoint{{Addresses: []string{ip}, Conditions: discovery_v1.EndpointConditions{Ready: &ready},
			TargetRef: &api_v1.ObjectReference{Kind: "Pod", Namespace: ns, Name: podName}}},
	}
	pod := &api_v1.Pod{ObjectMeta: meta_v1.ObjectMeta{Namespace: ns, Name: podName, Labels: map[string]string{"app": name, "v": "1"}}}
	pod.Status.PodIP = ip
	pod.Spec.Containers = []api_v1.Container{{Name: "app", Ports: []api_v1.ContainerPort{{Name: "web", ContainerPort: 8080, Protocol: api_v1.ProtocolTCP}}}}
	return sl, pod
}

func mkPolicy(p PolicySpec, gen int) *conf_v1.Policy {
	pol := &conf_v1.Policy{ObjectMeta: meta_v1.ObjectMeta{Namespace: p.Ns, Name: p.Name, ResourceVersion: fmt.Sprint(gen)}}
	pol.Spec.IngressClass = p.Class
	switch p.Type {
	case "access":
		pol.Spec.AccessControl = &conf_v1.AccessControl{Allow: []string{"10.0.0.0/8"}}
	case "jwt":
		pol.Spec.JWTAuth = &conf_v1.JWTAuth{Realm: "realm", Secret: p.Secret}
	case "jwks":
		pol.Spec.JWTAuth = &conf_v1.JWTAuth{Realm: "realm", JwksURI: "https://idp.example.com/keys", KeyCache: "1h"}
	case "basic":
		pol.Spec.BasicAuth = &conf_v1.BasicAuth{Secret: p.Secret}
	case "imtls":
		pol.Spec.IngressMTLS = &conf_v1.IngressMTLS{ClientCertSecret: p.Secret, VerifyClient: "on"}
	case "emtls":
		pol.Spec.EgressMTLS = &conf_v1.EgressMTLS{TLSSecret: p.Secret, TrustedCertSecret: p.Secret2}
	case "oidc":
		pol.Spec.OIDC = &conf_v1.OIDC{AuthEndpoint: "https://idp.example.com/auth", TokenEndpoint: "https://idp.example.com/token",
			JWKSURI: "https://idp.example.com/keys", ClientID: "client", ClientSecret: p.Secret}
	case "apikey":
		pol.Spec.APIKey = &conf_v1.APIKey{SuppliedIn: &conf_v1.SuppliedIn{Header: []string{"X-API-Key"}}, ClientSecret: p.Secret}
	case "waf":
		w := &conf_v1.WAF{Enable: true, ApPolicy: p.ApPol}
		if p.SecLog != nil {
			w.SecurityLog = &conf_v1.SecurityLog{Enable: true, ApLogConf: *p.SecLog, LogDest: "syslog:server=127.0.0.1:514"}
		}
		if p.HasLogs {
			w.SecurityLogs = []*conf_v1.SecurityLog{}
			for _, l := range p.SecLogs {
				w.SecurityLogs = append(w.SecurityLogs, &conf_v1.SecurityLog{Enable: true, ApLogConf: l, LogDest: "syslog:server=127.0.0.1:514"})
			}
		}
		pol.Spec.WAF = w
	case "double":
		pol.Spec.BasicAuth = &conf_v1.BasicAuth{Secret: p.Secret}
		pol.Spec.AccessControl = &conf_v1.AccessControl{Allow: []string{"10.0.0.0/8"}}
	case "empty":
	}
	return pol
}

func mkDos(d DosSpec, gen int) *v1beta1.DosProtectedResource {
	ns, name := splitKey(d.Key)
	r := &v1beta1.DosProtectedResource{ObjectMeta: meta_v1.ObjectMeta{Namespace: ns, Name: name, ResourceVersion: fmt.Sprint(gen)}}
	r.Spec.Enable = true
	r.Spec.Name = name
	if !d.Valid {
		r.Spec.Name = "" // rejected by the real validator
	}
	r.Spec.ApDosPolicy = d.Pol
	if d.HasLog {
		r.Spec.DosSecurityLog = &v1beta1.DosSecurityLog{Enable: true, ApDosLogConf: d.Log, DosLogDest: "stderr"}
	}
	return r
}

// mkDosHop: an APDosPolicy (valid: has a spec) or an APDosLogConf (valid: has spec.filter)
func mkDosHop(kind, key string, ok bool, gen int) *unstructured.Unstructured {
	ns, name := splitKey(key)
	u := &unstructured.Unstructured{Object: map[string]interface{}{"apiVersion": "appprotectdos.f5.com/v1beta1"}}
	if kind == "dospolicy" {
		u.SetKind("APDosPolicy")
		if ok {
			u.Object["spec"] = map[string]interface{}{"mitigation_mode": "standard", "gen": int64(gen)}
		} else {
			u.Object["broken"] = int64(gen)
		}
	} else {
		u.SetKind("APDosLogConf")
		if ok {
			u.Object["spec"] = map[string]interface{}{"filter": map[string]interface{}{"traffic-mitigation-stats": "all"}, "gen": int64(gen)}
		} else {
			u.Object["spec"] = map[string]interface{}{"content": map[string]interface{}{"format": "splunk"}, "gen": int64(gen)}
		}
	}
	u.SetNamespace(ns)
	u.SetName(name)
	u.SetResourceVersion(fmt.Sprint(gen))
	u.SetGeneration(1)
	u.SetUID("uid-original")
	return u
}

func mkUpstream(u Ups) conf_v1.Upstream {
	out := conf_v1.Upstream{Name: u.Name, Service: u.Service, Port: 80, Backup: u.Backup, UseClusterIP: u.UseClusterIP}
	if u.BackupPort != 0 {
		bp := uint16(u.BackupPort)
		out.BackupPort = &bp
	}
	if u.Subselector {
		out.Subselector = map[string]string{"v": "1"}
	}
	return out
}

func mkRoute(r Route) conf_v1.Route {
	out := conf_v1.Route{Path: r.Path, Dos: r.Dos, Route: r.Route}
	for _, p := range r.Policies {
		out.Policies = append(out.Policies, conf_v1.PolicyReference{Name: p.Name, Namespace: p.Ns})
	}
	if r.Pass != "" {
		out.Action = &conf_v1.Action{Pass: r.Pass}
	}
	return out
}

const vsHost = "vs.example.com"

func mkVS(v *VS) *conf_v1.VirtualServer {
	vs := &conf_v1.VirtualServer{ObjectMeta: meta_v1.ObjectMeta{Namespace: v.Ns, Name: v.Name, Generation: 1, UID: "vs-uid"}}
	vs.Spec.IngressClass = "nginx"
	vs.Spec.Host = vsHost
	if v.Host != "" {
		vs.Spec.Host = v.Host
	}
	if v.TLS != nil {
		vs.Spec.TLS = &conf_v1.TLS{Secret: *v.TLS}
	}
	for _, p := range v.Policies {
		vs.Spec.Policies = append(vs.Spec.Policies, conf_v1.PolicyReference{Name: p.Name, Namespace: p.Ns})
	}
	vs.Spec.Dos = v.Dos
	for _, u := range v.Upstreams {
		vs.Spec.Upstreams = append(vs.Spec.Upstreams, mkUpstream(u))
	}
	for _, r := range v.Routes {
		vs.Spec.Routes = append(vs.Spec.Routes, mkRoute(r))
	}
	return vs
}

func mkVSRFor(v *VS, r VSR) *conf_v1.VirtualServerRoute {
	o := mkVSR(r)
	if v.Host != "" {
		o.Spec.Host = v.Host
	}
	return o
}

func mkVSR(r VSR) *conf_v1.VirtualServerRoute {
	vsr := &conf_v1.VirtualServerRoute{ObjectMeta: meta_v1.ObjectMeta{Namespace: r.Ns, Name: r.Name, Generation: 1, UID: "vsr-uid"}}
	vsr.Spec.IngressClass = "nginx"
	vsr.Spec.Host = vsHost
	for _, u := range r.Upstreams {
		vsr.Spec.Upstreams = append(vsr.Spec.Upstreams, mkUpstream(u))
	}
	for _, s := range r.Subroutes {
		vsr.Spec.Subroutes = append(vsr.Spec.Subroutes, mkRoute(s))
	}
	return vsr
}

func mkTS(t *TS) *conf_v1.TransportServer {
	ts := &conf_v1.TransportServer{ObjectMeta: meta_v1.ObjectMeta{Namespace: t.Ns, Name: t.Name, Generation: 1, UID: "ts-uid"}}
	ts.Spec.IngressClass = "nginx"
	ts.Spec.Listener = conf_v1.TransportServerListener{Name: "tcp-1", Protocol: "TCP"}
	if t.TLS != nil {
		ts.Spec.TLS = &conf_v1.TransportServerTLS{Secret: *t.TLS}
	}
	for _, u := range t.Upstreams {
		tu := conf_v1.TransportServerUpstream{Name: u.Name, Service: u.Service, Port: 80, Backup: u.Backup}
		if u.BackupPort != 0 {
			bp := uint16(u.BackupPort)
			tu.BackupPort = &bp
		}
		ts.Spec.Upstreams = append(ts.Spec.Upstreams, tu)
	}
	if len(t.Upstreams) > 0 {
		ts.Spec.Action = &conf_v1.TransportServerAction{Pass: t.Upstreams[0].Name}
	}
	return ts
}

func mkIngress(i *Ing, age int) *networking.Ingress {
	ing := &networking.Ingress{ObjectMeta: meta_v1.ObjectMeta{Namespace: i.Ns, Name: i.Name, Generation: 1}}
	ing.UID = types.UID("uid-" + i.Name)
	ing.CreationTimestamp = meta_v1.Unix(int64(1000+age), 0)
	ing.Annotations = map[string]string{annClass: "nginx"}
	for k, v := range i.Ann {
		ing.Annotations[k] = v
	}
	for _, s := range i.TLS {
		ing.Spec.TLS = append(ing.Spec.TLS, networking.IngressTLS{SecretName: s})
	}
	backend := func(svc string) networking.IngressBackend {
		return networking.IngressBackend{Service: &networking.IngressServiceBackend{Name: svc, Port: networking.ServiceBackendPort{Number: 80}}}
	}
	if i.Default != "" {
		b := backend(i.Default)
		ing.Spec.DefaultBackend = &b
	}
	pt := networking.PathTypePrefix
	for _, r := range i.Rules {
		rule := networking.IngressRule{Host: r.Host}
		if !r.NoHTTP {
			h := &networking.HTTPIngressRuleValue{}
			for _, p := range r.Paths {
				h.Paths = append(h.Paths, networking.HTTPIngressPath{Path: p.Path, PathType: &pt, Backend: backend(p.Svc)})
			}
			rule.HTTP = h
		}
		ing.Spec.Rules = append(ing.Spec.Rules, rule)
	}
	return ing
}

// ---------------------------------------------------------------- generators

func pick(r *vh.Rng, xs []string) string { return xs[r.Intn(len(xs))] }

// qualified reference to an object of the pool: "name" (own namespace) or "ns/name"
func qref(r *vh.Rng, names []string) string {
	n := pick(r, names)
	if r.Chance(2, 5) {
		return pick(r, nss) + "/" + n
	}
	return n
}

func genCluster(r *vh.Rng, e Env) Cluster {
	var c Cluster
	for _, ns := range nss {
		for _, n := range svcNames {
			if r.Chance(4, 5) {
				ext := e.Plus && r.Chance(1, 4)
				c.Services = append(c.Services, SvcSpec{Key: ns + "/" + n, External: ext, Slice: !ext && r.Chance(9, 10), Named: !ext && r.Chance(1, 3)})
			}
		}
		for _, n := range secNames {
			if r.Chance(4, 5) {
				c.Secrets = append(c.Secrets, SecretSpec{Key: ns + "/" + n, OK: r.Chance(4, 5)})
			}
		}
		for _, n := range polNames {
			if r.Chance(5, 6) {
				p := PolicySpec{Ns: ns, Name: n, Class: "nginx"}
				if r.Chance(1, 10) {
					p.Class = "other"
				} else if r.Chance(1, 4) {
					p.Class = ""
				}
				types := []string{"access", "basic", "imtls", "emtls", "apikey", "basic", "emtls"}
				if e.Plus {
					types = append(types, "jwt", "jwt", "jwks", "oidc")
					if e.AP {
						types = append(types, "waf", "waf", "waf")
					}
				}
				if r.Chance(1, 12) {
					types = []string{"empty", "double", "waf", "jwt"}
				}
				p.Type = pick(r, types)
				p.Secret = pick(r, secNames)
				if p.Type == "emtls" {
					if r.Chance(1, 4) {
						p.Secret = ""
					}
					if r.Chance(3, 4) {
						p.Secret2 = pick(r, secNames)
					}
				}
				if p.Type == "waf" {
					if r.Chance(5, 6) {
						p.ApPol = qref(r, apNames)
					}
					if r.Chance(1, 2) {
						s := qref(r, logNames)
						p.SecLog = &s
					}
					if r.Chance(1, 2) {
						p.HasLogs = true
						for k := r.Intn(3); k > 0; k-- {
							p.SecLogs = append(p.SecLogs, qref(r, logNames))
						}
					}
				}
				c.Policies = append(c.Policies, p)
			}
		}
		for _, n := range apNames {
			if r.Chance(4, 5) {
				a := ApSpec{Kind: "appolicy", Key: ns + "/" + n, OK: r.Chance(5, 6)}
				if r.Chance(1, 3) {
					a.Tag = pick(r, []string{"tag-a", "tag-b"}) // requires a user-defined signature with this tag
				}
				c.Ap = append(c.Ap, a)
			}
		}
		for _, n := range logNames {
			if r.Chance(4, 5) {
				c.Ap = append(c.Ap, ApSpec{Kind: "aplogconf", Key: ns + "/" + n, OK: r.Chance(5, 6)})
			}
		}
		for _, n := range dosNames {
			if r.Chance(4, 5) {
				d := DosSpec{Key: ns + "/" + n, Valid: r.Chance(5, 6)}
				if r.Chance(2, 3) {
					d.Pol = qref(r, dpolNames)
				}
				if r.Chance(1, 2) {
					d.HasLog = true
					d.Log = qref(r, dlogNames)
				}
				c.Dos = append(c.Dos, d)
			}
		}
		if ns == "ns1" { // one APUserSig per tag (several per tag is the arbitration C19 is about)
			for i, tag := range []string{"tag-a", "tag-b"} {
				if r.Chance(5, 6) {
					c.UserSigs = append(c.UserSigs, ApSpec{Kind: "usersig", Key: fmt.Sprintf("ns1/sig-%c", 'a'+i), OK: r.Chance(7, 8), Tag: tag})
				}
			}
		}
		for _, n := range dpolNames {
			if r.Chance(5, 6) {
				c.DosHops = append(c.DosHops, ApSpec{Kind: "dospolicy", Key: ns + "/" + n, OK: r.Chance(5, 6)})
			}
		}
		for _, n := range dlogNames {
			if r.Chance(5, 6) {
				c.DosHops = append(c.DosHops, ApSpec{Kind: "doslogconf", Key: ns + "/" + n, OK: r.Chance(5, 6)})
			}
		}
	}
	return c
}

func genPolRefs(r *vh.Rng, max int, owner string) []PolRef {
	var out []PolRef
	seen := map[string]bool{}
	for k := r.Intn(max + 1); k > 0; k-- {
		p := PolRef{Name: pick(r, polNames)}
		if r.Chance(2, 5) {
			p.Ns = pick(r, nss) // cross-namespace (or explicit own namespace)
		}
		rns := p.Ns
		if rns == "" {
			rns = owner
		}
		if seen[rns+"/"+p.Name] {
			continue
		}
		seen[rns+"/"+p.Name] = true
		out = append(out, p)
	}
	return out
}

func genUpstreams(r *vh.Rng, e Env, prefix string, n int) []Ups {
	var out []Ups
	for i := 0; i < n; i++ {
		u := Ups{Name: fmt.Sprintf("%s%d", prefix, i), Service: pick(r, svcNames)}
		if r.Chance(1, 4) {
			u.UseClusterIP = true
		} else if e.Plus && r.Chance(1, 4) {
			u.Subselector = true
		}
		if e.Plus && r.Chance(2, 5) {
			u.Backup = pick(r, svcNames)
			u.BackupPort = 8080
		}
		out = append(out, u)
	}
	return out
}

func genDosRef(r *vh.Rng, e Env, num, den int) string {
	if e.Dos && r.Chance(num, den) {
		return qref(r, dosNames)
	}
	return ""
}

func genVS(r *vh.Rng, e Env) *VS {
	v := &VS{Ns: pick(r, nss), Name: "vs"}
	if r.Chance(1, 2) {
		s := pick(r, secNames)
		if r.Chance(1, 10) {
			s = ""
		}
		v.TLS = &s
	}
	v.Policies = genPolRefs(r, 3, v.Ns)
	v.Dos = genDosRef(r, e, 1, 3)
	v.Upstreams = genUpstreams(r, e, "u", 1+r.Intn(3))
	nr := 1 + r.Intn(3)
	for i := 0; i < nr; i++ {
		rt := Route{Path: fmt.Sprintf("/r%d", i), Policies: genPolRefs(r, 2, v.Ns), Dos: genDosRef(r, e, 1, 4)}
		if r.Chance(2, 5) {
			// delegate to a VirtualServerRoute, same or other namespace
			vsr := VSR{Ns: v.Ns, Name: fmt.Sprintf("vsr%d", i)}
			if r.Chance(1, 3) {
				vsr.Ns = pick(r, nss)
			}
			vsr.Upstreams = genUpstreams(r, e, fmt.Sprintf("v%d-", i), 1+r.Intn(2))
			ns := 1 + r.Intn(2)
			for j := 0; j < ns; j++ {
				vsr.Subroutes = append(vsr.Subroutes, Route{Path: fmt.Sprintf("/r%d/s%d", i, j), Policies: genPolRefs(r, 2, vsr.Ns),
					Dos: genDosRef(r, e, 1, 4), Pass: vsr.Upstreams[r.Intn(len(vsr.Upstreams))].Name})
			}
			rt.Route = vsr.Ns + "/" + vsr.Name
			rt.Policies = nil // the validator forbids policies on a route that delegates? (kept empty to stay valid)
			rt.Dos = ""
			v.VSRs = append(v.VSRs, vsr)
		} else {
			rt.Pass = v.Upstreams[r.Intn(len(v.Upstreams))].Name
		}
		v.Routes = append(v.Routes, rt)
	}
	return v
}

func genTS(r *vh.Rng, e Env) *TS {
	t := &TS{Ns: pick(r, nss), Name: "ts"}
	if r.Chance(1, 2) {
		s := pick(r, secNames)
		t.TLS = &s
	}
	n := 1 + r.Intn(3)
	for i := 0; i < n; i++ {
		u := TSUps{Name: fmt.Sprintf("t%d", i), Service: pick(r, svcNames)}
		if r.Chance(2, 5) {
			u.Backup = pick(r, svcNames)
			u.BackupPort = 8080
		}
		t.Upstreams = append(t.Upstreams, u)
	}
	return t
}

func genAnn(r *vh.Rng, e Env, full bool) map[string]string {
	a := map[string]string{}
	if r.Chance(1, 3) {
		a[annBasic] = pick(r, secNames)
	}
	if e.Plus && r.Chance(1, 3) {
		a[annJWT] = pick(r, secNames)
	}
	if r.Chance(1, 4) {
		a[annClusIP] = "true"
	}
	if e.Plus && e.AP && (full || r.Chance(1, 3)) {
		if r.Chance(1, 2) {
			a[annApPol] = qref(r, apNames)
		}
		if r.Chance(1, 2) {
			n := 1 + r.Intn(2)
			var confs, dsts []string
			for k := 0; k < n; k++ {
				confs = append(confs, qref(r, logNames))
				dsts = append(dsts, "syslog:server=127.0.0.1:514")
			}
			a[annApLog] = strings.Join(confs, ",")
			if r.Chance(7, 8) {
				if r.Chance(1, 8) {
					dsts = append(dsts, "syslog:server=127.0.0.2:514")
				}
				a[annApDst] = strings.Join(dsts, ",")
			}
		}
	}
	if e.Plus && e.Dos && (full || r.Chance(1, 3)) && r.Chance(1, 2) {
		a[annDos] = qref(r, dosNames)
	}
	return a
}

func genIng(r *vh.Rng, e Env) (*Ing, *Ing) {
	i := &Ing{Ns: pick(r, nss), Name: "ing", Ann: genAnn(r, e, true)}
	for k := r.Intn(3); k > 0; k-- {
		i.TLS = append(i.TLS, pick(r, secNames))
	}
	if r.Chance(1, 3) {
		i.Default = pick(r, svcNames)
	}
	nr := 1 + r.Intn(2)
	for k := 0; k < nr; k++ {
		rule := IngRule{Host: fmt.Sprintf("h%d.example.com", k)}
		if r.Chance(1, 8) {
			rule.NoHTTP = true
		} else {
			np := 1 + r.Intn(3)
			for j := 0; j < np; j++ {
				rule.Paths = append(rule.Paths, IngPath{Path: fmt.Sprintf("/p%d", j), Svc: pick(r, svcNames)})
			}
		}
		i.Rules = append(i.Rules, rule)
	}
	var rival *Ing
	if nr > 1 && r.Chance(1, 3) {
		rival = &Ing{Ns: pick(r, nss), Name: "rival", Rules: []IngRule{{Host: "h1.example.com", Paths: []IngPath{{Path: "/", Svc: pick(r, svcNames)}}}}}
	}
	return i, rival
}

func genMergeable(r *vh.Rng, e Env) (*Ing, []Ing) {
	m := &Ing{Ns: pick(r, nss), Name: "master", Ann: genAnn(r, e, true), Rules: []IngRule{{Host: "m.example.com", NoHTTP: r.Bool()}}}
	m.Ann[annMerge] = "master"
	delete(m.Ann, annClusIP)
	for k := r.Intn(2); k > 0; k-- {
		m.TLS = append(m.TLS, pick(r, secNames))
	}
	var mins []Ing
	n := 1 + r.Intn(3)
	for k := 0; k < n; k++ {
		mi := Ing{Ns: m.Ns, Name: fmt.Sprintf("minion%d", k), Ann: genAnn(r, e, false)}
		mi.Ann[annMerge] = "minion"
		if r.Chance(1, 5) {
			mi.Default = pick(r, svcNames)
		}
		if r.Chance(1, 10) {
			mi.TLS = []string{pick(r, secNames)} // validateMinionSpec rejects this minion
		}
		rule := IngRule{Host: "m.example.com"}
		np := 1 + r.Intn(2)
		for j := 0; j < np; j++ {
			p := fmt.Sprintf("/m%d-%d", k, j)
			if r.Chance(1, 4) {
				p = "/shared" // a path two minions may claim: only the older one keeps it
			}
			rule.Paths = append(rule.Paths, IngPath{Path: p, Svc: pick(r, svcNames)})
		}
		mi.Rules = []IngRule{rule}
		mins = append(mins, mi)
	}
	return m, mins
}

// genMulti: two or three served resources of different kinds, on different hosts, that share namespace and
// name (control: distinct names); each references its own Secret / Service / Policy.
func genMulti(r *vh.Rng, e Env, c *Case) {
	ns := pick(r, nss)
	shared := r.Chance(3, 4)
	name := func(kind string) string {
		if shared {
			return "cafe"
		}
		return "cafe-" + kind
	}
	which := r.Intn(4) // 0: ing+vs, 1: ing+ts, 2: vs+ts, 3: all
	if which != 2 {
		c.Ing, _ = genIng(r, e)
		c.Ing.Ns, c.Ing.Name = ns, name("ing")
	}
	if which != 1 {
		c.VS = genVS(r, e)
		for i := range c.VS.VSRs {
			if c.VS.VSRs[i].Ns == c.VS.Ns {
				c.VS.VSRs[i].Ns = ns
			}
		}
		for i := range c.VS.Routes {
			if c.VS.Routes[i].Route != "" {
				c.VS.Routes[i].Route = c.VS.VSRs[routeIdx(c.VS, i)].Ns + "/" + c.VS.VSRs[routeIdx(c.VS, i)].Name
			}
		}
		c.VS.Ns, c.VS.Name = ns, name("vs")
		if r.Bool() {
			c.VS.Host = "a-vs.example.com" // sorts before the Ingress hosts; the default sorts after them
		}
	}
	if which != 0 {
		c.TS = genTS(r, e)
		c.TS.Ns, c.TS.Name = ns, name("ts")
	}
}

// routeIdx: the index in v.VSRs of the VirtualServerRoute the i-th route of v delegates to
func routeIdx(v *VS, i int) int {
	n := 0
	for k := 0; k < i; k++ {
		if v.Routes[k].Route != "" {
			n++
		}
	}
	return n
}

func genCase(r *vh.Rng, id int, fix bool) Case {
	e := Env{Fix: fix}
	switch r.Intn(8) {
	case 0:
	case 1, 2:
		e.Plus = true
	default:
		e.Plus, e.AP, e.Dos = true, r.Chance(4, 5), r.Chance(4, 5)
	}
	if r.Chance(1, 3) {
		e.DefaultSecret = pick(r, nss) + "/" + pick(r, secNames)
	}
	if r.Chance(1, 5) {
		e.WildcardSecret = pick(r, nss) + "/" + pick(r, secNames)
	}
	c := Case{Fam: "res", ID: id, Env: e, Cluster: genCluster(r, e)}
	switch r.Intn(12) {
	case 10, 11:
		c.Class = "multi"
		genMulti(r, e, &c)
	case 0, 1, 2, 3:
		c.Class, c.VS = "vs", genVS(r, e)
	case 4, 5:
		c.Class, c.TS = "ts", genTS(r, e)
	case 6, 7:
		c.Class = "ing"
		c.Ing, c.Rival = genIng(r, e)
	default:
		c.Class = "merge"
		m, mins := genMergeable(r, e)
		c.Ing, c.Minions = m, mins
	}
	return c
}

// ---------------------------------------------------------------- running a case

type world struct {
	v     *k8s.VerifC15
	rec   *recorder
	sec   *fakeSecrets
	ap    *fakeAP
	c     *Case
	svc   map[string]SvcSpec
	slice map[string]bool
	pols  map[string]PolicySpec
	dos   map[string]DosSpec
	dhop  map[Dep]ApSpec // dospolicy | doslogconf
	gen   int
	mgr   *recMgr // event-level world only
}

func build(c *Case) *world {
	w := &world{c: c, rec: &recorder{}, svc: map[string]SvcSpec{}, slice: map[string]bool{}, pols: map[string]PolicySpec{}, dos: map[string]DosSpec{}, dhop: map[Dep]ApSpec{}}
	w.sec = &fakeSecrets{m: map[string]*secEntry{}, rec: w.rec}
	w.ap = &fakeAP{m: map[Dep]*secEntry{}, rec: w.rec}
	w.v = k8s.NewVerifC15(k8s.VerifC15Opts{Plus: c.Env.Plus, AppProtect: c.Env.AP, Dos: c.Env.Dos, SecretStore: w.sec, AppProtectConf: w.ap,
		Wrap: func(name string, s cache.Store) cache.Store { return recStore{Store: s, name: name, rec: w.rec} }})
	for _, s := range c.Cluster.Services {
		w.svc[s.Key] = s
		_ = w.v.Services.Add(mkService(s, 0))
		if s.Slice {
			w.addSlice(s.Key, 0)
		}
	}
	for _, s := range c.Cluster.Secrets {
		w.sec.m[s.Key] = &secEntry{ok: s.OK, ver: 1}
	}
	for _, p := range c.Cluster.Policies {
		w.pols[p.Ns+"/"+p.Name] = p
		_ = w.v.Policies.Add(mkPolicy(p, 0))
	}
	for _, a := range c.Cluster.Ap {
		w.ap.m[Dep{a.Kind, a.Key}] = &secEntry{ok: a.OK, ver: 1}
	}
	for _, h := range c.Cluster.DosHops {
		w.dhop[Dep{h.Kind, h.Key}] = h
		w.setDosHop(h.Kind, h.Key, mkDosHop(h.Kind, h.Key, h.OK, 0))
	}
	for _, d := range c.Cluster.Dos {
		w.dos[d.Key] = d
		w.v.AddDosProtected(mkDos(d, 0))
	}
	return w
}

func (w *world) setDosHop(kind, key string, obj *unstructured.Unstructured) {
	if kind == "dospolicy" {
		w.v.SetDosPolicy(key, obj)
	} else {
		w.v.SetDosLogConf(key, obj)
	}
}

func (w *world) addSlice(key string, gen int) {
	sl, pod := mkSlice(key, gen)
	_ = w.v.Slices.Add(sl)
	_ = w.v.Pods.Add(pod)
	w.slice[key] = true
}

func (w *world) delSlice(key string) {
	sl, pod := mkSlice(key, 0)
	_ = w.v.Slices.Delete(sl)
	_ = w.v.Pods.Delete(pod)
	delete(w.slice, key)
}

// canon makes two runs of createExtendedResources comparable with reflect.DeepEqual: endpoint lists are
// sorted (the code collects them from a Go map); dropped are the fields that do not flow into the NGINX
// configuration: PodsByIP (read only by the update*MetricsLabels functions of the configurator) and, of a
// minion IngressEx, AppProtectPolicy / AppProtectLogs / DosEx (addOrUpdateMergeableIngress reads Master's only).
func canon(ex *configs.ExtendedResources) {
	sortEp := func(m map[string][]string) {
		for k := range m {
			sort.Strings(m[k])
		}
	}
	for _, e := range ex.IngressExes {
		sortEp(e.Endpoints)
		e.PodsByIP = nil
	}
	for _, m := range ex.MergeableIngresses {
		sortEp(m.Master.Endpoints)
		m.Master.PodsByIP = nil
		for _, mi := range m.Minions {
			sortEp(mi.Endpoints)
			mi.PodsByIP = nil
			mi.AppProtectPolicy, mi.AppProtectLogs, mi.DosEx = nil, nil, nil
		}
	}
	for _, e := range ex.VirtualServerExes {
		sortEp(e.Endpoints)
		e.PodsByIP = nil
	}
	for _, e := range ex.TransportServerExes {
		sortEp(e.Endpoints)
		e.PodsByIP = nil
	}
}

func (w *world) createEx(key string) configs.ExtendedResources {
	ex, _ := w.v.CreateEx(key)
	canon(&ex)
	return ex
}

// mutations of one object of the universe; each returns an undo function
func (w *world) mutate(kind, key, how string) func() {
	w.gen++
	g := w.gen
	switch kind {
	case "secret":
		old := w.sec.m[key]
		switch how {
		case "delete":
			delete(w.sec.m, key)
		case "change":
			w.sec.m[key] = &secEntry{ok: old.ok, ver: old.ver + g}
		case "add", "repair":
			w.sec.m[key] = &secEntry{ok: true, ver: g}
		}
		return func() {
			if old == nil {
				delete(w.sec.m, key)
			} else {
				w.sec.m[key] = old
			}
		}
	case "appolicy", "aplogconf":
		d := Dep{kind, key}
		old := w.ap.m[d]
		switch how {
		case "delete":
			delete(w.ap.m, d)
		case "change":
			w.ap.m[d] = &secEntry{ok: old.ok, ver: old.ver + g}
		case "add", "repair":
			w.ap.m[d] = &secEntry{ok: true, ver: g}
		}
		return func() {
			if old == nil {
				delete(w.ap.m, d)
			} else {
				w.ap.m[d] = old
			}
		}
	case "service":
		spec, exists := w.svc[key]
		hadSlice := w.slice[key]
		switch how {
		case "delete":
			_ = w.v.Services.Delete(mkService(spec, 0))
		case "change":
			_ = w.v.Services.Update(mkService(spec, g))
		case "add":
			_ = w.v.Services.Add(mkService(SvcSpec{Key: key}, g))
			w.addSlice(key, 0)
		}
		return func() {
			if exists {
				_ = w.v.Services.Update(mkService(spec, 0))
			} else {
				_ = w.v.Services.Delete(mkService(SvcSpec{Key: key}, 0))
				if !hadSlice {
					w.delSlice(key)
				}
			}
		}
	case "endpoints":
		had := w.slice[key]
		switch how {
		case "delete":
			w.delSlice(key)
		case "change":
			w.delSlice(key)
			w.addSlice(key, 1+g%40)
		case "add":
			w.addSlice(key, 0)
		}
		return func() {
			w.delSlice(key)
			if had {
				w.addSlice(key, 0)
			}
		}
	case "policy":
		spec, exists := w.pols[key]
		switch how {
		case "delete":
			_ = w.v.Policies.Delete(mkPolicy(spec, 0))
		case "change":
			_ = w.v.Policies.Update(mkPolicy(spec, g))
		case "add", "repair":
			ns, name := splitKey(key)
			_ = w.v.Policies.Update(mkPolicy(PolicySpec{Ns: ns, Name: name, Class: "nginx", Type: "access"}, g))
		}
		return func() {
			if exists {
				_ = w.v.Policies.Update(mkPolicy(spec, 0))
			} else {
				ns, name := splitKey(key)
				_ = w.v.Policies.Delete(mkPolicy(PolicySpec{Ns: ns, Name: name}, 0))
			}
		}
	case "dos":
		spec, exists := w.dos[key]
		switch how {
		case "delete":
			w.v.DeleteDosProtected(mkDos(spec, 0))
		case "change":
			w.v.AddDosProtected(mkDos(spec, g))
		case "add":
			w.v.AddDosProtected(mkDos(DosSpec{Key: key, Valid: true}, g))
		case "repair":
			fixed := spec
			fixed.Valid = true
			w.v.AddDosProtected(mkDos(fixed, g))
		}
		return func() {
			if exists {
				w.v.AddDosProtected(mkDos(spec, 0))
			} else {
				w.v.DeleteDosProtected(mkDos(DosSpec{Key: key}, 0))
			}
		}
	case "dospolicy", "doslogconf":
		spec, exists := w.dhop[Dep{kind, key}]
		switch how {
		case "delete":
			w.setDosHop(kind, key, nil)
		case "change":
			w.setDosHop(kind, key, mkDosHop(kind, key, spec.OK, g))
		case "add", "repair":
			w.setDosHop(kind, key, mkDosHop(kind, key, true, g))
		}
		return func() {
			if exists {
				w.setDosHop(kind, key, mkDosHop(kind, key, spec.OK, 0))
			} else {
				w.setDosHop(kind, key, nil)
			}
		}
	}
	return func() {}
}

func (w *world) exists(kind, key string) bool {
	switch kind {
	case "secret":
		return w.sec.m[key] != nil
	case "appolicy", "aplogconf":
		return w.ap.m[Dep{kind, key}] != nil
	case "service":
		_, ok := w.svc[key]
		return ok
	case "endpoints":
		return w.slice[key]
	case "policy":
		_, ok := w.pols[key]
		return ok
	case "dos":
		_, ok := w.dos[key]
		return ok
	case "dospolicy", "doslogconf":
		_, ok := w.dhop[Dep{kind, key}]
		return ok
	}
	return false
}

func contains(xs []string, x string) bool {
	for _, y := range xs {
		if y == x {
			return true
		}
	}
	return false
}

func runCase(c *Case) (obs Obs) {
	defer func() {
		if p := recover(); p != nil {
			obs.Panic = fmt.Sprint(p)
		}
	}()
	c.Env.Fix = k8s.VerifC15ProbeVsrBackup()
	c.Env.FixC = k8s.VerifC15ProbeBackupEndpoints()
	c.Env.FixB = k8s.VerifC15ProbeSliceDelete()
	w := build(c)
	var probs []k8s.VerifC15Problem
	type target struct{ kind, key string }
	var targets []target
	if c.VS != nil {
		probs = append(probs, w.v.AddVirtualServer(mkVS(c.VS))...)
		for _, r := range c.VS.VSRs {
			probs = append(probs, w.v.AddVirtualServerRoute(mkVSRFor(c.VS, r))...)
		}
		targets = append(targets, target{"vs", "VirtualServer/" + c.VS.Ns + "/" + c.VS.Name})
	}
	if c.TS != nil {
		gc := &conf_v1.GlobalConfiguration{ObjectMeta: meta_v1.ObjectMeta{Namespace: "nginx-ingress", Name: "gc"}}
		gc.Spec.Listeners = []conf_v1.Listener{{Name: "tcp-1", Port: 5353, Protocol: "TCP"}}
		probs = append(probs, w.v.AddGlobalConfiguration(gc)...)
		probs = append(probs, w.v.AddTransportServer(mkTS(c.TS))...)
		targets = append(targets, target{"ts", "TransportServer/" + c.TS.Ns + "/" + c.TS.Name})
	}
	if c.Ing != nil {
		if c.Rival != nil {
			probs = append(probs, w.v.AddIngress(mkIngress(c.Rival, 0))...)
		}
		kind, age := "ing", 10
		if c.Class == "merge" {
			kind, age = "merge", 0
		}
		probs = append(probs, w.v.AddIngress(mkIngress(c.Ing, age))...)
		for k := range c.Minions {
			probs = append(probs, w.v.AddIngress(mkIngress(&c.Minions[k], 10+k))...)
		}
		targets = append(targets, target{kind, "Ingress/" + c.Ing.Ns + "/" + c.Ing.Name})
	}
	reject := ""
	for _, p := range probs {
		reject += p.Reason + ": " + p.Msg + "; "
	}
	if len(reject) > 300 {
		reject = reject[:300]
	}
	for _, t := range targets {
		var res *k8s.VerifC15Resource
		for _, r := range w.v.Resources() {
			r := r
			if r.Key == t.key {
				res = &r
			}
		}
		one := Obs{Kind: t.kind}
		if res == nil {
			one.Reject = reject
		} else {
			one = analyze(w, c, res, t.kind)
			one.Kind = t.kind
		}
		if c.Class != "multi" {
			return one
		}
		obs.Multi = append(obs.Multi, one)
		obs.Served = obs.Served || one.Served
	}
	return obs
}

// analyze observes one served resource: forward dependencies, reverse look-ups, events.
func analyze(w *world, c *Case, res *k8s.VerifC15Resource, kind string) (obs Obs) {
	obs.Served = true
	obs.Lookups, obs.Rev, obs.Pols = []Dep{}, []Rev{}, []PolObs{}
	obs.ResKey = res.Key
	obs.ValidHosts = res.ValidHosts
	obs.MinionOK = res.MinionKeys
	obs.MinionPath = res.MinionPath
	obs.VsrKeys = res.VsrKeys

	obs.Skel = skeleton(c, res, kind)

	// forward: the real createExtendedResources with recording stores
	w.rec.seen = map[Dep]bool{}
	w.rec.lastSvc = ""
	base := w.createEx(res.Key)
	for d := range w.rec.seen {
		obs.Lookups = append(obs.Lookups, d)
	}
	w.rec.seen = nil
	sort.Slice(obs.Lookups, func(i, j int) bool {
		if obs.Lookups[i].Kind != obs.Lookups[j].Kind {
			return obs.Lookups[i].Kind < obs.Lookups[j].Kind
		}
		return obs.Lookups[i].Key < obs.Lookups[j].Key
	})

	// policies: verdicts of the real validators and the real reverse lookup
	polKeys := []string{}
	for k := range w.pols {
		polKeys = append(polKeys, k)
	}
	sort.Strings(polKeys)
	for _, k := range polKeys {
		pobj := mkPolicy(w.pols[k], 0)
		valid, classOK := w.v.PolicyVerdict(pobj)
		ns, name := splitKey(k)
		obs.Pols = append(obs.Pols, PolObs{Key: k, Valid: valid, ClassOK: classOK, Found: contains(w.v.Find("policy", ns, name), res.Key), Skel: skPolicy(pobj)})
	}

	// DosProtectedResources: reference fields read off the real objects, verdict of the real validator
	obs.DosProt = []map[string]any{}
	dosKeys := []string{}
	for k := range w.dos {
		dosKeys = append(dosKeys, k)
	}
	sort.Strings(dosKeys)
	for _, k := range dosKeys {
		d := mkDos(w.dos[k], 0)
		var lg any
		if d.Spec.DosSecurityLog != nil {
			lg = d.Spec.DosSecurityLog.ApDosLogConf
		}
		obs.DosProt = append(obs.DosProt, map[string]any{"ns": d.Namespace, "name": d.Name, "valid": dosvalidation.ValidateDosProtectedResource(d) == nil,
			"policy": d.Spec.ApDosPolicy, "logconf": lg})
	}

	// universe: the pool, plus whatever was looked up outside it
	type obj struct{ kind, key string }
	var uni []obj
	seen := map[obj]bool{}
	for _, k := range kinds {
		for _, ns := range nss {
			for _, n := range kindNames[k] {
				o := obj{k, ns + "/" + n}
				uni = append(uni, o)
				seen[o] = true
			}
		}
	}
	for _, d := range obs.Lookups {
		o := obj{d.Kind, d.Key}
		if !seen[o] && strings.Count(d.Key, "/") == 1 {
			uni = append(uni, o)
			seen[o] = true
		}
	}
	for _, o := range uni {
		ns, name := splitKey(o.key)
		rv := Rev{Kind: o.kind, Ns: ns, Name: name, Exists: w.exists(o.kind, o.key), Via: []string{}}
		// dependency: does the extended resource change when the object changes?
		tries := []string{"add"}
		if rv.Exists {
			tries = []string{"delete", "change"}
			switch o.kind {
			case "secret", "policy", "appolicy", "aplogconf", "dos", "dospolicy", "doslogconf":
				tries = append(tries, "repair") // an object that is there but unusable: make it usable
			}
		}
		if o.kind == "endpoints" {
			if s, ok := w.svc[o.key]; !ok || s.External {
				tries = nil // no Service with pods behind this key: nothing to change
			}
		}
		for _, how := range tries {
			undo := w.mutate(o.kind, o.key, how)
			ex := w.createEx(res.Key)
			undo()
			if !reflect.DeepEqual(base, ex) {
				rv.Dep, rv.How = true, how
				break
			}
		}
		// backward: the real reverse lookups
		what := o.kind
		if o.kind == "endpoints" {
			what = "service" // syncEndpointSlices uses FindResourcesForService
			rv.EpFind = contains(w.v.Find("endpoints", ns, name), res.Key)
			rv.Req = w.v.RequiresEndpointsUpdate(base, name)
		}
		rv.Direct = contains(w.v.Find(what, ns, name), res.Key)
		rv.Via = w.v.PoliciesFor(o.kind, ns, name)
		if o.kind == "dospolicy" || o.kind == "doslogconf" {
			rv.Via = w.v.DosProtectedFor(o.kind, o.key) // the hop inside appprotectdos.Configuration
		}
		obs.Rev = append(obs.Rev, rv)
	}
	obs.Events = []EvObs{}
	if os.Getenv("VERIF_C15_NOEVENTS") == "" {
		obs.Events = runEvents(c, res.Key, obs.Rev, obs.Pols)
	}
	// sanity: the base is reproducible
	if again := w.createEx(res.Key); !reflect.DeepEqual(base, again) {
		obs.Error = "createExtendedResources is not reproducible on an unchanged cluster"
	}
	return obs
}

// ---------------------------------------------------------------- the resource in the model's terms

func optS(s *string) any {
	if s == nil {
		return nil
	}
	return *s
}

func skPolRefs(ps []conf_v1.PolicyReference) []any {
	out := []any{}
	for _, p := range ps {
		out = append(out, map[string]any{"name": p.Name, "ns": p.Namespace})
	}
	return out
}

func skUpstreams(us []conf_v1.Upstream) []any {
	out := []any{}
	for _, u := range us {
		out = append(out, map[string]any{"service": u.Service, "backup": u.Backup, "backup_port": u.BackupPort != nil,
			"subselector": len(u.Subselector) > 0, "use_cluster_ip": u.UseClusterIP})
	}
	return out
}

func skRoutes(rs []conf_v1.Route) []any {
	out := []any{}
	for _, r := range rs {
		out = append(out, map[string]any{"policies": skPolRefs(r.Policies), "dos": r.Dos})
	}
	return out
}

func skIngress(ing *networking.Ingress, validHosts map[string]bool, validPaths map[string]bool) map[string]any {
	ann := func(k string) any {
		if v, ok := ing.Annotations[k]; ok {
			return v
		}
		return nil
	}
	tls := []any{}
	for _, t := range ing.Spec.TLS {
		tls = append(tls, t.SecretName)
	}
	var def any
	if ing.Spec.DefaultBackend != nil {
		def = ing.Spec.DefaultBackend.Service.Name
	}
	rules := []any{}
	for _, r := range ing.Spec.Rules {
		var paths any
		if r.HTTP != nil {
			ps := []any{}
			for _, p := range r.HTTP.Paths {
				ps = append(ps, map[string]any{"valid": validPaths == nil || validPaths[p.Path], "svc": p.Backend.Service.Name})
			}
			paths = ps
		}
		rules = append(rules, map[string]any{"host_valid": validHosts[r.Host], "paths": paths})
	}
	return map[string]any{"ns": ing.Namespace, "tls": tls, "basic": ann(annBasic), "jwt": ann(annJWT), "ap_policy": ann(annApPol),
		"ap_logconf": ann(annApLog), "ap_logdst": ann(annApDst), "dos": ann(annDos), "use_cluster_ip": ing.Annotations[annClusIP] == "true",
		"default": def, "rules": rules}
}

func skPolicy(p *conf_v1.Policy) map[string]any {
	out := map[string]any{"ns": p.Namespace, "name": p.Name}
	if j := p.Spec.JWTAuth; j != nil {
		out["jwt"] = map[string]any{"secret": j.Secret, "jwks": j.JwksURI != ""}
	}
	if b := p.Spec.BasicAuth; b != nil {
		out["basic"] = b.Secret
	}
	if m := p.Spec.IngressMTLS; m != nil {
		out["imtls"] = m.ClientCertSecret
	}
	if m := p.Spec.EgressMTLS; m != nil {
		out["emtls"] = map[string]any{"tls": m.TLSSecret, "trusted": m.TrustedCertSecret}
	}
	if o := p.Spec.OIDC; o != nil {
		out["oidc"] = o.ClientSecret
	}
	if a := p.Spec.APIKey; a != nil {
		out["apikey"] = a.ClientSecret
	}
	if w := p.Spec.WAF; w != nil {
		m := map[string]any{"appol": w.ApPolicy}
		if w.SecurityLog != nil {
			m["seclog"] = w.SecurityLog.ApLogConf
		}
		if w.SecurityLogs != nil {
			ls := []any{}
			for _, l := range w.SecurityLogs {
				ls = append(ls, l.ApLogConf)
			}
			m["seclogs"] = ls
		}
		out["waf"] = m
	}
	return out
}

func skeleton(c *Case, res *k8s.VerifC15Resource, kind string) map[string]any {
	switch kind {
	case "vs":
		vs := mkVS(c.VS)
		var tls any
		if vs.Spec.TLS != nil {
			tls = vs.Spec.TLS.Secret
		}
		vsrs := []any{}
		for _, k := range res.VsrKeys { // the routes the Configuration attached, in its order
			for _, r := range c.VS.VSRs {
				if r.Ns+"/"+r.Name == k {
					o := mkVSRFor(c.VS, r)
					vsrs = append(vsrs, map[string]any{"ns": o.Namespace, "subroutes": skRoutes(o.Spec.Subroutes), "upstreams": skUpstreams(o.Spec.Upstreams)})
				}
			}
		}
		return map[string]any{"kind": "vs", "ns": vs.Namespace, "tls": tls, "policies": skPolRefs(vs.Spec.Policies), "dos": vs.Spec.Dos,
			"upstreams": skUpstreams(vs.Spec.Upstreams), "routes": skRoutes(vs.Spec.Routes), "vsrs": vsrs}
	case "ts":
		ts := mkTS(c.TS)
		var tls any
		if ts.Spec.TLS != nil {
			tls = ts.Spec.TLS.Secret
		}
		ups := []any{}
		for _, u := range ts.Spec.Upstreams {
			ups = append(ups, map[string]any{"service": u.Service, "backup": u.Backup, "backup_port": u.BackupPort != nil})
		}
		return map[string]any{"kind": "ts", "ns": ts.Namespace, "tls": tls, "upstreams": ups}
	case "ing":
		return map[string]any{"kind": "ing", "ing": skIngress(mkIngress(c.Ing, 10), res.ValidHosts, nil)}
	case "merge":
		mins := []any{}
		for i, k := range res.MinionKeys { // the minions the Configuration attached, in its order
			for j := range c.Minions {
				if c.Minions[j].Ns+"/"+c.Minions[j].Name == k {
					mins = append(mins, skIngress(mkIngress(&c.Minions[j], 10+j), res.ValidHosts, res.MinionPath[i]))
				}
			}
		}
		return map[string]any{"kind": "merge", "master": skIngress(mkIngress(c.Ing, 0), res.ValidHosts, nil), "minions": mins}
	}
	return nil
}

// ---------------------------------------------------------------- event level: real handlers, real lbc.sync

// recMgr is the nginx.Manager the real Configurator writes through; it keeps the last content per file.
type recMgr struct {
	*nginx.FakeManager
	writes []string
	files  map[string]string
}

func (m *recMgr) CreateConfig(name string, content []byte) bool {
	m.writes = append(m.writes, "config:"+name)
	m.files["config:"+name] = string(content)
	return true
}
func (m *recMgr) DeleteConfig(name string) {
	m.writes = append(m.writes, "delete:"+name)
	delete(m.files, "config:"+name)
}
func (m *recMgr) CreateStreamConfig(name string, content []byte) bool {
	m.writes = append(m.writes, "stream:"+name)
	m.files["stream:"+name] = string(content)
	return true
}
func (m *recMgr) DeleteStreamConfig(name string) {
	m.writes = append(m.writes, "delete-stream:"+name)
	delete(m.files, "stream:"+name)
}

var tmpl struct {
	once sync.Once
	v1   map[bool]*version1.TemplateExecutor
	v2   map[bool]*version2.TemplateExecutor
	err  error
}

func templates(plus bool) (*version1.TemplateExecutor, *version2.TemplateExecutor, error) {
	tmpl.once.Do(func() {
		dir := os.Getenv("VERIF_REPO_DIR")
		if dir == "" {
			dir = "/repo"
		}
		dir = filepath.Join(dir, "internal", "configs")
		tmpl.v1, tmpl.v2 = map[bool]*version1.TemplateExecutor{}, map[bool]*version2.TemplateExecutor{}
		for _, p := range []bool{false, true} {
			pre := "nginx"
			if p {
				pre = "nginx-plus"
			}
			t1, err := version1.NewTemplateExecutor(filepath.Join(dir, "version1", pre+".tmpl"), filepath.Join(dir, "version1", pre+".ingress.tmpl"))
			if err != nil {
				tmpl.err = err
				return
			}
			t2, err := version2.NewTemplateExecutor(filepath.Join(dir, "version2", pre+".virtualserver.tmpl"), filepath.Join(dir, "version2", pre+".transportserver.tmpl"))
			if err != nil {
				tmpl.err = err
				return
			}
			tmpl.v1[p], tmpl.v2[p] = t1, t2
		}
	})
	return tmpl.v1[plus], tmpl.v2[plus], tmpl.err
}

func mkSecretObj(key string, ok bool, gen int) *api_v1.Secret {
	ns, name := splitKey(key)
	v := "1"
	if !ok {
		v = "0"
	}
	return &api_v1.Secret{ObjectMeta: meta_v1.ObjectMeta{Namespace: ns, Name: name, ResourceVersion: fmt.Sprint(gen + 1)},
		Type: api_v1.SecretTypeTLS, Data: map[string][]byte{"ok": []byte(v)}}
}

func mkApObj(kind, key string, ok bool, gen int, tag string) *unstructured.Unstructured {
	ns, name := splitKey(key)
	spec := map[string]interface{}{}
	k := appprotect.PolicyGVK.Kind
	if kind == "aplogconf" {
		k = appprotect.LogConfGVK.Kind
		if ok {
			spec["content"] = map[string]interface{}{"format": "default", "gen": int64(gen)}
			spec["filter"] = map[string]interface{}{"request_type": "all"}
		} else {
			spec["broken"] = int64(gen)
		}
	} else if kind == "usersig" {
		k = appprotect.UserSigGVK.Kind
		if ok {
			spec["signatures"] = []interface{}{map[string]interface{}{"name": name, "gen": int64(gen)}}
		} else {
			spec["broken"] = int64(gen)
		}
		spec["tag"] = tag
	} else if ok {
		pol := map[string]interface{}{"name": name, "gen": int64(gen)}
		if tag != "" {
			pol["signature-requirements"] = []interface{}{map[string]interface{}{"tag": tag}}
		}
		spec["policy"] = pol
	} else {
		spec["broken"] = int64(gen)
	}
	u := &unstructured.Unstructured{Object: map[string]interface{}{"apiVersion": "appprotect.f5.com/v1beta1", "kind": k, "spec": spec}}
	u.SetNamespace(ns)
	u.SetName(name)
	u.SetResourceVersion(fmt.Sprint(gen))
	u.SetGeneration(1)
	u.SetUID("uid-original")
	return u
}

// edited marks the new version of a custom resource: an edit in place moves metadata.generation; an object that was
// deleted and created again while the watch was down arrives as an update with a new UID and generation 1 again.
func edited(u *unstructured.Unstructured, recreated bool) *unstructured.Unstructured {
	if recreated {
		u.SetUID("uid-recreated")
	} else {
		u.SetGeneration(2)
	}
	return u
}

// buildFull: a controller with the real Configurator (over recMgr) and the real appprotect.Configuration;
// the cluster is placed in the stores, App Protect / DoS objects and the resources are delivered through
// the real handlers and synced.
func buildFull(c *Case) (*world, error) {
	t1, t2, err := templates(c.Env.Plus)
	if err != nil {
		return nil, err
	}
	w := &world{c: c, rec: &recorder{}, svc: map[string]SvcSpec{}, slice: map[string]bool{}, pols: map[string]PolicySpec{}, dos: map[string]DosSpec{}, dhop: map[Dep]ApSpec{}}
	w.sec = &fakeSecrets{m: map[string]*secEntry{}, rec: w.rec}
	w.mgr = &recMgr{FakeManager: nginx.NewFakeManager("/etc/nginx"), files: map[string]string{}}
	ver := "nginx version: nginx/1.25.3"
	if c.Env.Plus {
		ver = "nginx version: nginx/1.25.3 (nginx-plus-r31)"
	}
	ctx := context.Background()
	static := &configs.StaticConfigParams{NginxStatus: true, NginxStatusAllowCIDRs: []string{"127.0.0.1"}, NginxStatusPort: 8080,
		NginxVersion: nginx.NewVersion(ver), MainAppProtectLoadModule: c.Env.AP, MainAppProtectDosLoadModule: c.Env.Dos, EnableOIDC: true,
		EnableSnippets: true, EnableCertManager: true}
	cnf := configs.NewConfigurator(configs.ConfiguratorParams{NginxManager: w.mgr, StaticCfgParams: static,
		Config: configs.NewDefaultConfigParams(ctx, c.Env.Plus), MGMTCfgParams: configs.NewDefaultMGMTConfigParams(ctx),
		TemplateExecutor: t1, TemplateExecutorV2: t2, IsPlus: c.Env.Plus, NginxVersion: nginx.NewVersion(ver)})
	cnf.EnableReloads()
	w.v = k8s.NewVerifC15(k8s.VerifC15Opts{Plus: c.Env.Plus, AppProtect: c.Env.AP, Dos: c.Env.Dos, SecretStore: w.sec, Configurator: cnf,
		DefaultServerSecret: c.Env.DefaultSecret, WildcardTLSSecret: c.Env.WildcardSecret})
	for _, s := range c.Cluster.Services {
		w.svc[s.Key] = s
		_ = w.v.Services.Add(mkService(s, 0))
		if s.Slice {
			w.addSlice(s.Key, 0)
		}
	}
	for _, s := range c.Cluster.Secrets {
		w.sec.m[s.Key] = &secEntry{ok: s.OK, ver: 1}
		_ = w.v.Secrets.Add(mkSecretObj(s.Key, s.OK, 0))
	}
	for _, p := range c.Cluster.Policies {
		w.pols[p.Ns+"/"+p.Name] = p
		_ = w.v.Policies.Add(mkPolicy(p, 0))
	}
	deliver := func(kind string, obj interface{}) error {
		_, err := w.v.Deliver(kind, "add", nil, obj)
		return err
	}
	for _, u := range c.Cluster.UserSigs {
		o := mkApObj("usersig", u.Key, u.OK, 0, u.Tag)
		_ = w.v.ApSig.Add(o)
		if c.Env.AP {
			if err := deliver("usersig", o); err != nil {
				return nil, err
			}
		}
	}
	w.v.Drain()
	for _, a := range c.Cluster.Ap {
		o := mkApObj(a.Kind, a.Key, a.OK, 0, a.Tag)
		if a.Kind == "appolicy" {
			_ = w.v.ApPol.Add(o)
		} else {
			_ = w.v.ApLog.Add(o)
		}
		if c.Env.AP {
			if err := deliver(a.Kind, o); err != nil {
				return nil, err
			}
		}
	}
	for _, h := range c.Cluster.DosHops {
		w.dhop[Dep{h.Kind, h.Key}] = h
		o := mkDosHop(h.Kind, h.Key, h.OK, 0)
		if h.Kind == "dospolicy" {
			_ = w.v.DosPol.Add(o)
		} else {
			_ = w.v.DosLog.Add(o)
		}
		if c.Env.Dos {
			if err := deliver(h.Kind, o); err != nil {
				return nil, err
			}
		}
	}
	for _, d := range c.Cluster.Dos {
		w.dos[d.Key] = d
		o := mkDos(d, 0)
		_ = w.v.DosProt.Add(o)
		if c.Env.Dos {
			if err := deliver("dos", o); err != nil {
				return nil, err
			}
		}
	}
	w.v.Drain()
	add := func(kind string, store cache.Store, obj interface{}) error {
		_ = store.Add(obj)
		return deliver(kind, obj)
	}
	if c.VS != nil {
		if err := add("vs", w.v.VS, mkVS(c.VS)); err != nil {
			return nil, err
		}
		for _, r := range c.VS.VSRs {
			if err := add("vsr", w.v.VSR, mkVSRFor(c.VS, r)); err != nil {
				return nil, err
			}
		}
	}
	if c.TS != nil {
		gc := &conf_v1.GlobalConfiguration{ObjectMeta: meta_v1.ObjectMeta{Namespace: "nginx-ingress", Name: "gc"}}
		gc.Spec.Listeners = []conf_v1.Listener{{Name: "tcp-1", Port: 5353, Protocol: "TCP"}}
		w.v.AddGlobalConfiguration(gc)
		if err := add("ts", w.v.TS, mkTS(c.TS)); err != nil {
			return nil, err
		}
	}
	if c.Ing != nil {
		if c.Rival != nil {
			if err := add("ingress", w.v.Ingress, mkIngress(c.Rival, 0)); err != nil {
				return nil, err
			}
		}
		age := 10
		if c.Class == "merge" {
			age = 0
		}
		if err := add("ingress", w.v.Ingress, mkIngress(c.Ing, age)); err != nil {
			return nil, err
		}
		for k := range c.Minions {
			if err := add("ingress", w.v.Ingress, mkIngress(&c.Minions[k], 10+k)); err != nil {
				return nil, err
			}
		}
	}
	w.v.Drain()
	return w, nil
}

// freshFiles starts a second controller (own Configuration, Configurator, App Protect / DoS stores) over the SAME
// informer stores and secret store, lets it sync everything the way a starting controller does, and returns its files.
func freshFiles(w *world, c *Case) (map[string]string, error) {
	t1, t2, err := templates(c.Env.Plus)
	if err != nil {
		return nil, err
	}
	mgr := &recMgr{FakeManager: nginx.NewFakeManager("/etc/nginx"), files: map[string]string{}}
	ver := "nginx version: nginx/1.25.3"
	if c.Env.Plus {
		ver = "nginx version: nginx/1.25.3 (nginx-plus-r31)"
	}
	ctx := context.Background()
	static := &configs.StaticConfigParams{NginxStatus: true, NginxStatusAllowCIDRs: []string{"127.0.0.1"}, NginxStatusPort: 8080,
		NginxVersion: nginx.NewVersion(ver), MainAppProtectLoadModule: c.Env.AP, MainAppProtectDosLoadModule: c.Env.Dos, EnableOIDC: true,
		EnableSnippets: true, EnableCertManager: true}
	cnf := configs.NewConfigurator(configs.ConfiguratorParams{NginxManager: mgr, StaticCfgParams: static,
		Config: configs.NewDefaultConfigParams(ctx, c.Env.Plus), MGMTCfgParams: configs.NewDefaultMGMTConfigParams(ctx),
		TemplateExecutor: t1, TemplateExecutorV2: t2, IsPlus: c.Env.Plus, NginxVersion: nginx.NewVersion(ver)})
	cnf.EnableReloads()
	v := k8s.NewVerifC15(k8s.VerifC15Opts{Plus: c.Env.Plus, AppProtect: c.Env.AP, Dos: c.Env.Dos, SecretStore: w.sec, Configurator: cnf,
		DefaultServerSecret: c.Env.DefaultSecret, WildcardTLSSecret: c.Env.WildcardSecret, Share: w.v})
	all := func(kind string, st cache.Store, on bool) error {
		if !on {
			return nil
		}
		keys := st.ListKeys()
		sort.Strings(keys)
		for _, k := range keys {
			o, _, _ := st.GetByKey(k)
			if _, err := v.Deliver(kind, "add", nil, o); err != nil {
				return err
			}
		}
		v.Drain()
		return nil
	}
	type step struct {
		kind string
		st   cache.Store
		on   bool
	}
	for _, s := range []step{{"usersig", w.v.ApSig, c.Env.AP}, {"appolicy", w.v.ApPol, c.Env.AP}, {"aplogconf", w.v.ApLog, c.Env.AP},
		{"dospolicy", w.v.DosPol, c.Env.Dos}, {"doslogconf", w.v.DosLog, c.Env.Dos}, {"dos", w.v.DosProt, c.Env.Dos}} {
		if err := all(s.kind, s.st, s.on); err != nil {
			return nil, err
		}
	}
	if c.TS != nil {
		gc := &conf_v1.GlobalConfiguration{ObjectMeta: meta_v1.ObjectMeta{Namespace: "nginx-ingress", Name: "gc"}}
		gc.Spec.Listeners = []conf_v1.Listener{{Name: "tcp-1", Port: 5353, Protocol: "TCP"}}
		v.AddGlobalConfiguration(gc)
	}
	for _, s := range []step{{"vs", w.v.VS, true}, {"vsr", w.v.VSR, true}, {"ts", w.v.TS, true}, {"ingress", w.v.Ingress, true}} {
		if err := all(s.kind, s.st, s.on); err != nil {
			return nil, err
		}
	}
	return snapshot(mgr.files), nil
}

// storeEvent changes the store the way the informer does before it calls the handler; it returns the
// handler arguments.
func (w *world) storeEvent(kind, key, op string) (string, interface{}, interface{}, bool) {
	w.gen++
	g := w.gen
	ns, name := splitKey(key)
	// update-invalid / update-valid: an update whose new version is unusable / usable
	after := func(ok bool) bool { return ok }
	if op == "update-invalid" {
		op, after = "update", func(bool) bool { return false }
	} else if op == "update-valid" {
		op, after = "update", func(bool) bool { return true }
	}
	recreated := op == "update-recreated" // same name, same generation, new UID, different content
	if recreated {
		op = "update"
	}
	switch kind {
	case "secret":
		e := w.sec.m[key]
		switch op {
		case "add":
			cur := mkSecretObj(key, true, g)
			_ = w.v.Secrets.Add(cur)
			return "add", nil, cur, true
		case "update":
			old, cur := mkSecretObj(key, e.ok, 0), mkSecretObj(key, after(e.ok), g)
			_ = w.v.Secrets.Update(cur)
			return "update", old, cur, true
		case "delete":
			old := mkSecretObj(key, e.ok, 0)
			_ = w.v.Secrets.Delete(old)
			return "delete", old, nil, true
		}
	case "appolicy", "aplogconf":
		st := w.v.ApPol
		if kind == "aplogconf" {
			st = w.v.ApLog
		}
		ok, tag := true, ""
		for _, a := range w.c.Cluster.Ap {
			if a.Kind == kind && a.Key == key {
				ok, tag = a.OK, a.Tag
			}
		}
		switch op {
		case "add":
			cur := mkApObj(kind, key, true, g, tag)
			_ = st.Add(cur)
			return "add", nil, cur, true
		case "update":
			old, cur := mkApObj(kind, key, ok, 0, tag), edited(mkApObj(kind, key, after(ok), g, tag), recreated)
			_ = st.Update(cur)
			return "update", old, cur, true
		case "delete":
			old := mkApObj(kind, key, ok, 0, tag)
			_ = st.Delete(old)
			return "delete", old, nil, true
		}
	case "service":
		spec := w.svc[key]
		switch op {
		case "add":
			cur := mkService(SvcSpec{Key: key}, g)
			_ = w.v.Services.Add(cur)
			w.addSlice(key, 0) // the slice arrives separately; only the Service notification is delivered here
			return "add", nil, cur, true
		case "update": // a port changes its number: hasServiceChanges notices it
			old, cur := mkService(spec, 0), mkService(spec, 0)
			cur.ResourceVersion = fmt.Sprint(g)
			cur.Spec.Ports[1].Port = 8081
			if spec.External {
				cur.Spec.ExternalName = "moved." + cur.Spec.ExternalName
			}
			_ = w.v.Services.Update(cur)
			return "update", old, cur, k8s.VerifC15ServiceChangeIsRelevant(old, cur)
		case "update-irrelevant": // only metadata changes
			old, cur := mkService(spec, 0), mkService(spec, 0)
			cur.ResourceVersion = fmt.Sprint(g)
			cur.Labels = map[string]string{"touched": fmt.Sprint(g)}
			_ = w.v.Services.Update(cur)
			return "update", old, cur, k8s.VerifC15ServiceChangeIsRelevant(old, cur)
		case "delete":
			old := mkService(spec, 0)
			_ = w.v.Services.Delete(old)
			return "delete", old, nil, true
		}
	case "endpoints":
		old, oldPod := mkSlice(key, 0)
		switch op {
		case "add":
			w.addSlice(key, 0)
			return "add", nil, old, true
		case "update":
			cur, pod := mkSlice(key, 1+g%40)
			_ = w.v.Pods.Delete(oldPod)
			_ = w.v.Pods.Add(pod)
			_ = w.v.Slices.Update(cur)
			return "update", old, cur, true
		case "delete":
			w.delSlice(key)
			return "delete", old, nil, true
		case "rollout": // new pods: the container port behind the name "web" moves 8080 -> 9090, the slice follows
			cur, pod := mkSlice(key, 1+g%40)
			p := int32(9090)
			cur.Ports = []discovery_v1.EndpointPort{{Port: &p}}
			pod.Spec.Containers[0].Ports[0].ContainerPort = 9090
			_ = w.v.Pods.Delete(oldPod)
			_ = w.v.Pods.Add(pod)
			_ = w.v.Slices.Update(cur)
			return "update", old, cur, true
		case "update-metadata": // what the EndpointSlice controller does all the time; must stay harmless
			cur, _ := mkSlice(key, 0)
			cur.Annotations = map[string]string{"endpoints.kubernetes.io/last-change-trigger-time": fmt.Sprint(g)}
			cur.ResourceVersion = fmt.Sprint(g)
			_ = w.v.Slices.Update(cur)
			return "update", old, cur, true
		case "relabel-away": // label-only update: the slice leaves this Service for another one, endpoints and ports unchanged
			cur, _ := mkSlice(key, 0)
			cur.Labels = map[string]string{"kubernetes.io/service-name": otherSvc(name)}
			_ = w.v.Slices.Update(cur)
			delete(w.slice, key)
			return "update", old, cur, true
		case "relabel-to": // label-only update: a slice of an unrelated Service joins this Service, endpoints and ports unchanged
			was, pod := mkSlice(key, 45)
			was.Name, pod.Name = name+"-adopted", name+"-adopted-pod"
			was.Endpoints[0].TargetRef.Name = pod.Name
			was.Labels = map[string]string{"kubernetes.io/service-name": "somebody-else"}
			_ = w.v.Slices.Add(was) // it was there all along (nobody references somebody-else)
			_ = w.v.Pods.Add(pod)
			cur := was.DeepCopy()
			cur.Labels = map[string]string{"kubernetes.io/service-name": name}
			_ = w.v.Slices.Update(cur)
			return "update", was, cur, true
		}
	case "policy":
		spec := w.pols[key]
		switch op {
		case "add":
			cur := mkPolicy(PolicySpec{Ns: ns, Name: name, Class: "nginx", Type: "access"}, g)
			_ = w.v.Policies.Add(cur)
			return "add", nil, cur, true
		case "update":
			nspec := spec
			if valid := spec.Type != "empty" && spec.Type != "double"; after(valid) != valid {
				if valid {
					nspec.Type = "empty" // a spec with no policy field: rejected by ValidatePolicy
				} else {
					nspec.Type = "access"
				}
			}
			old, cur := mkPolicy(spec, 0), mkPolicy(nspec, g)
			tweakPolicy(cur, g)
			_ = w.v.Policies.Update(cur)
			return "update", old, cur, !reflect.DeepEqual(old.Spec, cur.Spec)
		case "delete":
			old := mkPolicy(spec, 0)
			_ = w.v.Policies.Delete(old)
			return "delete", old, nil, true
		}
	case "dos":
		spec := w.dos[key]
		switch op {
		case "add":
			cur := mkDos(DosSpec{Key: key, Valid: true}, g)
			_ = w.v.DosProt.Add(cur)
			return "add", nil, cur, true
		case "update":
			nspec := spec
			nspec.Valid = after(spec.Valid)
			old, cur := mkDos(spec, 0), mkDos(nspec, g)
			cur.Spec.ApDosMonitor = &v1beta1.ApDosMonitor{URI: fmt.Sprintf("mon%d.example.com", g)}
			_ = w.v.DosProt.Update(cur)
			return "update", old, cur, true
		case "delete":
			old := mkDos(spec, 0)
			_ = w.v.DosProt.Delete(old)
			return "delete", old, nil, true
		}
	case "usersig":
		ok, tag := true, "tag-a"
		for _, u := range w.c.Cluster.UserSigs {
			if u.Key == key {
				ok, tag = u.OK, u.Tag
			}
		}
		if name == "sig-b" {
			tag = "tag-b"
		}
		switch op {
		case "add":
			cur := mkApObj(kind, key, true, g, tag)
			_ = w.v.ApSig.Add(cur)
			return "add", nil, cur, true
		case "update":
			old, cur := mkApObj(kind, key, ok, 0, tag), edited(mkApObj(kind, key, after(ok), g, tag), recreated)
			_ = w.v.ApSig.Update(cur)
			return "update", old, cur, true
		case "delete":
			old := mkApObj(kind, key, ok, 0, tag)
			_ = w.v.ApSig.Delete(old)
			return "delete", old, nil, true
		}
	case "dospolicy", "doslogconf":
		st := w.v.DosPol
		if kind == "doslogconf" {
			st = w.v.DosLog
		}
		spec := w.dhop[Dep{kind, key}]
		switch op {
		case "add":
			cur := mkDosHop(kind, key, true, g)
			_ = st.Add(cur)
			return "add", nil, cur, true
		case "update":
			old, cur := mkDosHop(kind, key, spec.OK, 0), edited(mkDosHop(kind, key, after(spec.OK), g), recreated)
			_ = st.Update(cur)
			return "update", old, cur, true
		case "delete":
			old := mkDosHop(kind, key, spec.OK, 0)
			_ = st.Delete(old)
			return "delete", old, nil, true
		}
	}
	return "", nil, nil, false
}

// tweakPolicy changes the spec of a policy without touching its references or its validity
func tweakPolicy(p *conf_v1.Policy, g int) {
	sp := &p.Spec
	switch {
	case sp.AccessControl != nil && sp.BasicAuth == nil:
		sp.AccessControl.Allow = append(sp.AccessControl.Allow, fmt.Sprintf("10.%d.0.0/16", g%250))
	case sp.JWTAuth != nil:
		sp.JWTAuth.Realm = fmt.Sprintf("realm%d", g)
	case sp.BasicAuth != nil:
		sp.BasicAuth.Realm = fmt.Sprintf("realm%d", g)
	case sp.IngressMTLS != nil:
		d := g % 7
		sp.IngressMTLS.VerifyDepth = &d
	case sp.EgressMTLS != nil:
		d := g % 7
		sp.EgressMTLS.VerifyDepth = &d
	case sp.OIDC != nil:
		sp.OIDC.ClientID = fmt.Sprintf("client%d", g)
	case sp.APIKey != nil:
		sp.APIKey.SuppliedIn.Header = append(sp.APIKey.SuppliedIn.Header, fmt.Sprintf("X-Key-%d", g))
	case sp.WAF != nil:
		sp.WAF.Enable = !sp.WAF.Enable
	}
}

// snapshot copies the files with their lines sorted: the order of some generated blocks (e.g. the maps of
// several APIKey policies) follows Go map iteration and differs between two generations of the same input
// (that is C09's subject, not C15's); a stale server, secret path or policy changes the multiset of lines.
// configFile: the name under which the Configurator writes the resource ("Kind/ns/name" -> recMgr key)
func configFile(resKey string) string {
	parts := strings.SplitN(resKey, "/", 3)
	if len(parts) != 3 {
		return ""
	}
	switch parts[0] {
	case "VirtualServer":
		return "config:vs_" + parts[1] + "_" + parts[2]
	case "TransportServer":
		return "stream:ts_" + parts[1] + "_" + parts[2]
	}
	return "config:" + parts[1] + "-" + parts[2]
}

// otherSvc: another Service name of the pool (the Service a relabelled slice moves to)
func otherSvc(name string) string {
	for i, n := range svcNames {
		if n == name {
			return svcNames[(i+1)%len(svcNames)]
		}
	}
	return svcNames[0]
}

func findSvc(c *Case, key string) (SvcSpec, bool) {
	for _, s := range c.Cluster.Services {
		if s.Key == key {
			return s, true
		}
	}
	return SvcSpec{}, false
}

func snapshot(m map[string]string) map[string]string {
	out := make(map[string]string, len(m))
	for k, v := range m {
		ls := strings.Split(v, "\n")
		sort.Strings(ls)
		out[k] = strings.Join(ls, "\n")
	}
	return out
}

func oneEvent(c *Case, resKey, kind, key, op string) EvObs {
	return historyEvent(c, resKey, kind, key, op, "")
}

// historyEvent: recreate != "" names a Policy; the controller is then started with that Policy stored in an unusable
// form, a Secret sync runs (every Secret / App Protect sync lists the policies through getAllPolicies), the Policy is
// deleted and created again in its usable form (same name, same metadata.generation), both notifications are synced,
// and only then the event under test is delivered -- all on ONE controller instance.
func historyEvent(c *Case, resKey, kind, key, op, recreate string) (ev EvObs) {
	ev = EvObs{Kind: kind, Key: key, Op: op, Relevant: true, Recreate: recreate}
	defer func() {
		if p := recover(); p != nil {
			ev.Err = "panic: " + fmt.Sprint(p)
		}
	}()
	start := c
	var polSpec PolicySpec
	if recreate != "" {
		cc := *c
		cc.Cluster.Policies = append([]PolicySpec{}, c.Cluster.Policies...)
		for i, p := range cc.Cluster.Policies {
			if p.Ns+"/"+p.Name == recreate {
				polSpec = p
				cc.Cluster.Policies[i].Type = "empty" // no policy field: ValidatePolicy rejects it
			}
		}
		start = &cc
	}
	w, err := buildFull(start)
	if err != nil {
		ev.Err = err.Error()
		return ev
	}
	if recreate != "" {
		w.c = c
		warm := mkSecretObj("ns1/warm-up", true, 0)
		_ = w.v.Secrets.Add(warm)
		if _, err := w.v.Deliver("secret", "add", nil, warm); err != nil {
			ev.Err = err.Error()
			return ev
		}
		w.v.Drain()
		broken := polSpec
		broken.Type = "empty"
		gone := mkPolicy(broken, 0)
		_ = w.v.Policies.Delete(gone)
		if _, err := w.v.Deliver("policy", "delete", gone, nil); err != nil {
			ev.Err = err.Error()
			return ev
		}
		w.v.Drain()
		again := mkPolicy(polSpec, 0)
		again.UID = "recreated"
		_ = w.v.Policies.Add(again)
		w.pols[recreate] = polSpec
		if _, err := w.v.Deliver("policy", "add", nil, again); err != nil {
			ev.Err = err.Error()
			return ev
		}
		w.v.Drain()
	}
	found := false
	for _, r := range w.v.Resources() {
		if r.Key == resKey {
			found = true
		}
	}
	if !found {
		ev.Err = "resource not served in the event-level controller"
		return ev
	}
	file := configFile(resKey)
	w.mgr.writes = nil
	hop, old, cur, relevant := w.storeEvent(kind, key, op)
	if hop == "" {
		ev.Err = "no such event"
		return ev
	}
	ev.Relevant = relevant
	ev.Material = relevant
	if kind == "service" {
		ev.Material = op != "update-irrelevant"
	}
	if op == "update-metadata" {
		ev.Material = false
	}
	n, err := w.v.Deliver(kind, hop, old, cur)
	if err != nil {
		ev.Err = err.Error()
		return ev
	}
	ev.Queued = n
	if hop == "update" {
		ev.Relevant = n > 0 // the verdict of the handler's update filter, as observed
		if kind == "service" && ev.Relevant != relevant {
			ev.Err = "hasServiceChanges and the Service update handler disagree"
		}
	}
	w.v.Drain()
	for _, wr := range w.mgr.writes {
		if wr == file {
			ev.Regen = true
		}
	}
	after := snapshot(w.mgr.files)
	if err := w.v.Regenerate(resKey); err != nil {
		ev.Err = "regenerate: " + err.Error()
		return ev
	}
	regen := snapshot(w.mgr.files)
	ev.Stale = !reflect.DeepEqual(after, regen)
	if op == "rollout" || (kind == "endpoints" && op == "update") {
		// state that survives between events (caches) is invisible to a regeneration on the same controller:
		// compare with a controller started afresh on the cluster as it is now
		fresh, err := freshFiles(w, c)
		if err != nil {
			ev.Err = "fresh controller: " + err.Error()
			return ev
		}
		if fresh[file] != after[file] {
			ev.FreshDiff, ev.Stale = true, true
			if os.Getenv("VERIF_C15_DEBUG") != "" {
				fmt.Fprintf(os.Stderr, "DEBUG fresh %s %s %s\n--- after event\n%s\n--- fresh controller\n%s\n", kind, key, op, after[file], fresh[file])
			}
		}
	}
	if ev.Stale && os.Getenv("VERIF_C15_DEBUG") != "" {
		for k, v := range regen {
			if after[k] != v {
				a, b := strings.Split(after[k], "\n"), strings.Split(v, "\n")
				for i := 0; i < len(a) || i < len(b); i++ {
					var x, y string
					if i < len(a) {
						x = a[i]
					}
					if i < len(b) {
						y = b[i]
					}
					if x != y {
						fmt.Fprintf(os.Stderr, "DEBUG %s %s %s %s line %d:\n  after-event: %s\n  regenerated: %s\n", kind, key, op, k, i, x, y)
					}
				}
			}
		}
	}
	return ev
}

// runEvents: for every object the resource depends on (and a few it does not), deliver the notifications
// an informer would send for a deletion and an update (or, for a missing object, a creation).
// usable: for the kinds that can be stored in an unusable state, is the object of the case usable now?
func usable(c *Case, kind, key string) (ok bool, has bool) {
	switch kind {
	case "secret":
		for _, x := range c.Cluster.Secrets {
			if x.Key == key {
				return x.OK, true
			}
		}
	case "appolicy", "aplogconf":
		for _, x := range c.Cluster.Ap {
			if x.Kind == kind && x.Key == key {
				return x.OK, true
			}
		}
	case "dospolicy", "doslogconf":
		for _, x := range c.Cluster.DosHops {
			if x.Kind == kind && x.Key == key {
				return x.OK, true
			}
		}
	case "dos":
		for _, x := range c.Cluster.Dos {
			if x.Key == key {
				return x.Valid, true
			}
		}
	case "policy":
		for _, x := range c.Cluster.Policies {
			if x.Ns+"/"+x.Name == key {
				return x.Type != "empty" && x.Type != "double", true
			}
		}
	}
	return false, false
}

func runEvents(c *Case, resKey string, revs []Rev, pols []PolObs) []EvObs {
	out := []EvObs{}
	extra := 2
	for _, r := range revs {
		if !r.Dep {
			if extra == 0 || !r.Exists {
				continue
			}
			extra--
		}
		key := r.Ns + "/" + r.Name
		var ops []string
		if r.Exists {
			ops = []string{"update", "delete"}
			if r.Kind == "service" {
				ops = append(ops, "update-irrelevant")
			}
			if r.Kind == "endpoints" {
				ops = append(ops, "update-metadata", "relabel-away", "relabel-to")
				if sp, ok := findSvc(c, key); ok && sp.Named {
					ops = append(ops, "rollout")
				}
			}
			switch r.Kind {
			case "appolicy", "aplogconf", "dospolicy", "doslogconf":
				ops = append(ops, "update-recreated")
			}
			if ok, has := usable(c, r.Kind, key); has {
				if ok {
					ops = append(ops, "update-invalid") // the new version fails validation
				} else {
					ops = append(ops, "update-valid")
				}
			}
		} else if r.Kind != "endpoints" {
			ops = []string{"add"}
		} else if sp, ok := findSvc(c, key); ok && !sp.External {
			ops = []string{"add"} // a Service with pods whose first EndpointSlice arrives
		}
		if (r.Kind == "appolicy" || r.Kind == "aplogconf") && !c.Env.AP {
			continue // no informer for these kinds without -enable-app-protect
		}
		if (r.Kind == "dos" || r.Kind == "dospolicy" || r.Kind == "doslogconf") && !c.Env.Dos {
			continue
		}
		for _, op := range ops {
			e := oneEvent(c, resKey, r.Kind, key, op)
			e.Dep = r.Dep
			out = append(out, e)
		}
		// a dependency reached through a Policy: the same events after that Policy was re-created (see historyEvent)
		if r.Dep && (r.Kind == "secret" || r.Kind == "appolicy" || r.Kind == "aplogconf") {
			for _, pk := range r.Via {
				used := false
				for _, p := range pols {
					used = used || (p.Key == pk && p.Found && p.Valid)
				}
				if used {
					for _, op := range ops {
						if op == "update" || op == "delete" || op == "add" {
							e := historyEvent(c, resKey, r.Kind, key, op, pk)
							e.Dep = true
							out = append(out, e)
						}
					}
					break
				}
			}
		}
	}
	// APUserSig -> APPolicy (signature requirements): not in the model (that store is C19's subject); the events are
	// driven and judged by the same model-free observable (is the file what a regeneration produces?)
	apDep := false
	for _, r := range revs {
		apDep = apDep || (r.Kind == "appolicy" && r.Dep)
	}
	if c.Env.AP && apDep {
		have := map[string]bool{}
		for _, u := range c.Cluster.UserSigs {
			have[u.Key] = true
			ops := []string{"update", "delete", "update-invalid", "update-recreated"}
			if !u.OK {
				ops = []string{"update", "delete", "update-valid", "update-recreated"}
			}
			for _, op := range ops {
				out = append(out, oneEvent(c, resKey, "usersig", u.Key, op))
			}
		}
		for _, k := range []string{"ns1/sig-a", "ns1/sig-b"} {
			if !have[k] {
				out = append(out, oneEvent(c, resKey, "usersig", k, "add"))
			}
		}
	}
	return out
}

func invCase(id int) Case {
	return Case{Fam: "inv", ID: id, Class: "inv", Obs: map[string]any{"fields": k8s.VerifC15FieldInventory(), "fix": k8s.VerifC15ProbeVsrBackup()}}
}

func main() {
	a := vh.ParseArgs()
	w, err := vh.NewWriter(a.Out)
	if err != nil {
		fmt.Fprintln(os.Stderr, err)
		os.Exit(2)
	}
	defer w.Close()
	if a.Replay != "" {
		var cases []Case
		if err := vh.ReadReplay(a.Replay, &cases); err != nil {
			fmt.Fprintln(os.Stderr, err)
			os.Exit(2)
		}
		for i := range cases {
			c := cases[i]
			if c.Fam == "inv" {
				w.Emit(invCase(c.ID))
				continue
			}
			c.Obs = runCase(&c)
			w.Emit(c)
		}
		return
	}
	w.Emit(invCase(0))
	fix := k8s.VerifC15ProbeVsrBackup()
	root := vh.NewRng(a.Seed)
	for i := 1; i <= a.N; i++ {
		c := genCase(root.Fork(uint64(i)), i, fix)
		c.Obs = runCase(&c)
		w.Emit(c)
	}
}
