(* C02: ownership of (listener, host) pairs and binding to the GlobalConfiguration listener. *)
From Coq Require Import List ZArith String Ascii Bool Lia.
From NIC Require Import Base.SMap Arb.Types Arb.Model Arb.Spec Arb.WinsProofs Arb.InvProofs Arb.OwnerProofs.
Import ListNotations.
Open Scope Z_scope.

(* ---------- the maps are keyed by namespace/name of the stored object ---------- *)

Definition keyed {A} (key_of : A -> string) (m : smap A) : Prop :=
  forall k v, In (k, v) m -> k = key_of v.

Lemma in_insert {A} k (v : A) m k0 v0 : In (k0, v0) (insert k v m) -> (k0 = k /\ v0 = v) \/ In (k0, v0) m.
Proof.
  induction m as [|[k' v'] r IH]; cbn.
  - intros [H|[]]. inversion H. auto.
  - destruct (String.compare k k'); cbn.
    + intros [H|H]; [inversion H; auto|auto].
    + intros [H|[H|H]]; [inversion H; auto|auto|auto].
    + intros [H|H]; [auto|]. apply IH in H. destruct H; auto.
Qed.

Lemma in_remove {A} k (m : smap A) k0 v0 : In (k0, v0) (remove k m) -> In (k0, v0) m.
Proof.
  induction m as [|[k' v'] r IH]; cbn; [tauto|].
  destruct (String.eqb k k'); cbn; [auto|]. intros [H|H]; auto.
Qed.

Lemma keyed_upd {A} (key_of : A -> string) b v m : keyed key_of m -> keyed key_of (upd b (key_of v) v m).
Proof.
  intros H k0 v0 Hin. unfold upd in Hin. destruct b.
  - apply in_insert in Hin. destruct Hin as [[-> ->]|Hin]; [reflexivity|auto].
  - apply in_remove in Hin. auto.
Qed.

Lemma keyed_remove {A} (key_of : A -> string) k m : keyed key_of m -> keyed key_of (remove k m).
Proof. intros H k0 v0 Hin. apply in_remove in Hin. auto. Qed.

Lemma wf_upd {A} b k (v : A) m : wf m -> wf (upd b k v m).
Proof. unfold upd. destruct b; auto using wf_insert, wf_remove. Qed.

Definition objs_ok (o : objs) : Prop :=
  wf (o_ings o) /\ wf (o_vss o) /\ wf (o_vsrs o) /\ wf (o_tss o) /\
  keyed (fun i => mkey (i_meta i)) (o_ings o) /\ keyed (fun v => mkey (v_meta v)) (o_vss o) /\
  keyed (fun r => mkey (r_meta r)) (o_vsrs o) /\ keyed (fun t => mkey (t_meta t)) (o_tss o).

Lemma objs_ok_event o e : objs_ok o -> objs_ok (apply_event o e).
Proof.
  intros (W1 & W2 & W3 & W4 & K1 & K2 & K3 & K4).
  destruct e; cbn [apply_event]; unfold objs_ok; cbn [o_ings o_vss o_vsrs o_tss];
    repeat split; auto using wf_upd, wf_remove, keyed_remove;
    try (apply (keyed_upd (fun i => mkey (i_meta i))); assumption);
    try (apply (keyed_upd (fun v => mkey (v_meta v))); assumption);
    try (apply (keyed_upd (fun r => mkey (r_meta r))); assumption);
    try (apply (keyed_upd (fun t => mkey (t_meta t))); assumption).
Qed.

Theorem objs_after_ok es : objs_ok (objs_after es).
Proof.
  unfold objs_after. assert (H : objs_ok objs0).
  { unfold objs_ok, objs0; cbn. repeat split; try constructor; intros ? ? []. }
  revert H. generalize objs0. induction es as [|e es IH]; intros o H; cbn; auto using objs_ok_event.
Qed.

(* ---------- listener hosts ---------- *)

Lemma append_inj_l (p a b : string) : (p ++ a)%string = (p ++ b)%string -> a = b.
Proof. induction p as [|c p IH]; cbn; [auto|]. intros H. inversion H. auto. Qed.

Section Listeners.
  Variables (g : option (list listener)) (tss : smap tserver).
  Hypothesis Hwf : wf tss.
  Hypothesis Hkeyed : keyed (fun t => mkey (t_meta t)) tss.

  Definition cfg_of (t : tserver) : ts_cfg :=
    match ts_listener g t with
    | Some l => mkTC t (l_port l) (l_ipv4 l) (l_ipv6 l)
                     (warnings_for (ts_rkey t) (snd (run_claims lwarning [] (lclaims g tss))))
    | None => mkTC t 0 "" "" []
    end.

  Lemma tss_rkey_inj k1 t1 k2 t2 :
    In (k1, t1) tss -> In (k2, t2) tss -> ts_rkey t1 = ts_rkey t2 -> t1 = t2.
  Proof.
    intros H1 H2 He. unfold ts_rkey in He. apply append_inj_l in He.
    pose proof (Hkeyed _ _ H1) as E1. pose proof (Hkeyed _ _ H2) as E2. cbn in E1, E2.
    assert (k1 = k2) by congruence. subst k2.
    apply (In_lookup _ _ _ Hwf) in H1. apply (In_lookup _ _ _ Hwf) in H2. congruence.
  Qed.

  Lemma lb_cfgs_in cfg :
    In cfg (lb_cfgs (build_listeners g tss)) <->
    exists k t, In (k, t) tss /\ is_listener_ts t = true /\ cfg = cfg_of t.
  Proof.
    unfold build_listeners, cfg_of. destruct (run_claims lwarning [] (lclaims g tss)) as [hs ws]. cbn [lb_cfgs snd].
    rewrite in_filter_map. split.
    - intros ([k t] & Hin & Hf). cbn [snd] in Hf. destruct (is_listener_ts t) eqn:Hl; [|discriminate].
      inversion Hf. exists k, t. auto.
    - intros (k & t & Hin & Hl & ->). exists (k, t). split; [exact Hin|]. cbn [snd]. rewrite Hl. reflexivity.
  Qed.

  Lemma cfg_of_ts t : tc_ts (cfg_of t) = t.
  Proof. unfold cfg_of. destruct (ts_listener g t); reflexivity. Qed.

  Lemma lclaims_in key rk m :
    In (key, (rk, m)) (lclaims g tss) <->
    exists k t l, In (k, t) tss /\ is_listener_ts t = true /\ ts_listener g t = Some l /\
                  key = lkey (l_name l) (t_host t) /\ rk = ts_rkey t /\ m = t_meta t.
  Proof.
    unfold lclaims. rewrite in_filter_map. split.
    - intros ([k t] & Hin & Hf). cbn [snd] in Hf. destruct (is_listener_ts t) eqn:Hl; [|discriminate].
      destruct (ts_listener g t) as [l|] eqn:Hg; [|discriminate]. inversion Hf; subst.
      exists k, t, l. auto 10.
    - intros (k & t & l & Hin & Hl & Hg & -> & -> & ->). exists (k, t). split; [exact Hin|].
      cbn [snd]. rewrite Hl, Hg. reflexivity.
  Qed.

  (* the configuration stored for a holder is the one of the TransportServer that made the claim *)
  Lemma lb_hosts_lookup key :
    lookup key (lb_hosts (build_listeners g tss)) =
    match lookup key (holders (lclaims g tss)) with
    | Some y => match lookup (fst y) (of_list (map (fun c => (ts_rkey (tc_ts c), c)) (lb_cfgs (build_listeners g tss)))) with
                | Some c => Some c | None => None end
    | None => None
    end.
  Proof.
    unfold build_listeners. pose proof (run_claims_fst lwarning (lclaims g tss) []) as Hf.
    destruct (run_claims lwarning [] (lclaims g tss)) as [hs ws]. cbn [fst] in Hf.
    cbn [lb_hosts lb_cfgs]. fold (holders (lclaims g tss)) in Hf. subst hs.
    rewrite (lookup_filter_map_keys (fun y : hold => lookup (fst y) _)) by (apply wf_holders; constructor).
    destruct (lookup key (holders (lclaims g tss))) as [y|]; [|reflexivity].
    destruct (lookup (fst y) _); reflexivity.
  Qed.

  Theorem lhost_entry key cfg :
    lookup key (lb_hosts (build_listeners g tss)) = Some cfg ->
    exists k l, In (k, tc_ts cfg) tss /\ cfg = cfg_of (tc_ts cfg) /\
                is_listener_ts (tc_ts cfg) = true /\
                ts_listener g (tc_ts cfg) = Some l /\ key = lkey (l_name l) (t_host (tc_ts cfg)) /\
                lookup key (holders (lclaims g tss)) = Some (ts_rkey (tc_ts cfg), t_meta (tc_ts cfg)).
  Proof.
    rewrite lb_hosts_lookup. destruct (lookup key (holders (lclaims g tss))) as [[rk m]|] eqn:Hh; [|discriminate].
    cbn [fst]. destruct (lookup rk _) as [c0|] eqn:Hc; [|discriminate]. intros H; inversion H; subst c0.
    apply of_list_lookup_in in Hc. apply in_map_iff in Hc. destruct Hc as (c1 & Heq & Hin). inversion Heq; subst c1 rk.
    apply lb_cfgs_in in Hin. destruct Hin as (k & t & Hin & Hl & Hcfg).
    pose proof (holder_is_claim _ _ _ Hh) as Hclaim. apply lclaims_in in Hclaim.
    destruct Hclaim as (k2 & t2 & l & Hin2 & Hl2 & Hg2 & Hkey & Hrk & Hm).
    assert (Ht : tc_ts cfg = t) by (rewrite Hcfg; apply cfg_of_ts).
    assert (t2 = t). { apply (tss_rkey_inj k2 t2 k t); auto. rewrite <- Hrk, Ht. reflexivity. }
    subst t2. exists k, l. rewrite Hm, Ht in Hh. rewrite Ht.
    split; [exact Hin|]. split; [exact Hcfg|]. split; [exact Hl|]. split; [exact Hg2|].
    split; [exact Hkey|rewrite Hm; reflexivity].
  Qed.

  Theorem listener_owner key :
    option_map (fun c => ts_rkey (tc_ts c)) (lookup key (lb_hosts (build_listeners g tss))) =
    option_map fst (lookup key (holders (lclaims g tss))).
  Proof.
    destruct (lookup key (lb_hosts (build_listeners g tss))) as [cfg|] eqn:Hl.
    - destruct (lhost_entry _ _ Hl) as (k & l & _ & _ & _ & _ & _ & Hh). rewrite Hh. reflexivity.
    - rewrite lb_hosts_lookup in Hl.
      destruct (lookup key (holders (lclaims g tss))) as [[rk m]|] eqn:Hh; [|reflexivity].
      exfalso. cbn [fst] in Hl.
      apply holder_is_claim, lclaims_in in Hh. destruct Hh as (k & t & l & Hin & Hlt & Hg & _ & -> & _).
      destruct (lookup (ts_rkey t) _) eqn:Hc; [discriminate|].
      revert Hc. apply of_list_in_some. rewrite map_map. cbn [fst].
      apply in_map_iff. exists (cfg_of t). split; [rewrite cfg_of_ts; reflexivity|].
      apply lb_cfgs_in. eauto.
  Qed.
End Listeners.

(* C02: for every history, every (listener, host) pair is owned by the least claimant *)
Theorem listener_owner_is_least c es key :
  uids_distinct (claimants (listener_claims (objs_after es)) key) ->
  option_map (fun cf => ts_rkey (tc_ts cf)) (lookup key (lhosts (run c es))) = spec_listener_owner (objs_after es) key.
Proof.
  intros Hd. destruct (hosts_function_of_objs c es) as [_ Hl]. rewrite Hl.
  destruct (objs_after_ok es) as (_ & _ & _ & W & _ & _ & _ & K).
  unfold lhosts_of_objs, spec_listener_owner, listener_claims.
  rewrite (listener_owner _ _ W K). f_equal. apply holders_owner. exact Hd.
Qed.

(* C02: a TransportServer is active only on a listener of the current GlobalConfiguration that has
   its name and protocol, and it is bound to exactly that listener's port and addresses *)
Theorem active_iff_listener c es key cf :
  lookup key (lhosts (run c es)) = Some cf ->
  exists k l ls,
    In (k, tc_ts cf) (o_tss (objs_after es)) /\
    o_gc (objs_after es) = Some ls /\ In l ls /\
    l_name l = t_lname (tc_ts cf) /\ l_proto l = t_proto (tc_ts cf) /\
    tc_port cf = l_port l /\ tc_ipv4 cf = l_ipv4 l /\ tc_ipv6 cf = l_ipv6 l /\
    key = lkey (l_name l) (t_host (tc_ts cf)).
Proof.
  destruct (hosts_function_of_objs c es) as [_ Hl]. rewrite Hl.
  destruct (objs_after_ok es) as (_ & _ & _ & W & _ & _ & _ & K).
  unfold lhosts_of_objs. intros H.
  destruct (lhost_entry _ _ W K _ _ H) as (k & l & Hin & Hcfg & _ & Hg & Hkey & _).
  unfold ts_listener in Hg. destruct (o_gc (objs_after es)) as [ls|] eqn:Hgc; [|discriminate].
  assert (Hfl : forall ls0, first_listener (t_lname (tc_ts cf)) (t_proto (tc_ts cf)) ls0 = Some l ->
                  In l ls0 /\ l_name l = t_lname (tc_ts cf) /\ l_proto l = t_proto (tc_ts cf)).
  { induction ls0 as [|l0 r IH]; cbn; [discriminate|].
    destruct (String.eqb (t_lname (tc_ts cf)) (l_name l0) && String.eqb (t_proto (tc_ts cf)) (l_proto l0)) eqn:He.
    - intros E; inversion E; subst. apply andb_true_iff in He. destruct He as [E1 E2].
      apply String.eqb_eq in E1. apply String.eqb_eq in E2. auto.
    - intros E. destruct (IH E) as (? & ? & ?). auto. }
  destruct (Hfl _ Hg) as (Hinl & Hn & Hp).
  exists k, l, ls.
  assert (Hc : cf = mkTC (tc_ts cf) (l_port l) (l_ipv4 l) (l_ipv6 l)
                   (warnings_for (ts_rkey (tc_ts cf))
                      (snd (run_claims lwarning [] (lclaims (o_gc (objs_after es)) (o_tss (objs_after es))))))).
  { rewrite Hcfg at 1. unfold cfg_of, ts_listener. rewrite Hgc, Hg. reflexivity. }
  split; [exact Hin|]. split; [reflexivity|]. split; [exact Hinl|]. split; [exact Hn|]. split; [exact Hp|].
  rewrite Hc. cbn. repeat split; auto.
Qed.
