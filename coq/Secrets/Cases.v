(* C11 -- evaluation of the model (X) and of the decidable specification (S) on the histories the
   harness ran through the real store / Configurator / LocalManager.  No proofs here. *)
From Coq Require Import List String Ascii Bool ZArith.
From NIC Require Import Base.SMap Secrets.Model Secrets.Spec.
Import ListNotations.
Open Scope string_scope.
Open Scope Z_scope.

(* one observed step: directory listing (sorted by name), Path, Error != nil *)
Definition sobs := (list (string * file) * string * bool)%type.

Fixpoint listing_eqb (a b : list (string * file)) : bool :=
  match a, b with
  | [], [] => true
  | (f, c) :: ra, (f', c') :: rb => String.eqb f f' && file_eqb c c' && listing_eqb ra rb
  | _, _ => false
  end.

Definition b2z (b : bool) : Z := if b then 1 else 0.

(* ---------- X: the model, step by step ---------- *)

Fixpoint agree (cadel : bool) (st : state) (h : list op) (obs : list sobs) : bool :=
  match h, obs with
  | [], [] => true
  | o :: r, (ls, p, e) :: robs =>
      let '(st', ro) := step cadel st o in
      listing_eqb (files st') ls &&
      match ro with
      | Some (mp, me) => String.eqb mp p && Bool.eqb me e
      | None => true
      end && agree cadel st' r robs
  | _, _ => false
  end.

(* number of steps at which the model's directory changes (coverage) *)
Fixpoint changes (st : state) (h : list op) : Z :=
  match h with
  | [] => 0
  | o :: r => let st' := step_st false st o in
              (if listing_eqb (files st') (files st) then 0 else 1) + changes st' r
  end.

(* ---------- S: the specification on the implementation's own listings ---------- *)

Definition kind_code (k : kind) : Z :=
  match k with KFile _ => 1 | KCA => 2 | KNone => 3 end.

(* about the key whose files are wrong: does another key of the universe derive a common name
   (1: same ns-name file name, 2: only through a -ca.crt / -ca.crl suffix) *)
Definition collision_code (univ : list string) (k : string) : Z :=
  let others := filter (fun k' => negb (String.eqb k' k)) univ in
  if existsb (fun k' => String.eqb (key_to_fname k') (key_to_fname k)) others then 1
  else if existsb (fun k' => negb (names_disjointb k k')) others then 2
  else 0.

(* was k, in the history so far, given a version of another kind while it existed; did it ever
   have the CA kind *)
Fixpoint retyped (k : string) (prev : option kind) (h : list op) : bool :=
  match h with
  | [] => false
  | Upsert ns name v :: r =>
      if String.eqb (key_of ns name) k then
        let kd := kind_of_type (vtype v) in
        match prev with
        | Some kd0 => negb (kind_code kd0 =? kind_code kd) || retyped k (Some kd) r
        | None => retyped k (Some kd) r
        end
      else retyped k prev r
  | Delete k' :: r => if String.eqb k' k then retyped k None r else retyped k prev r
  | _ :: r => retyped k prev r
  end.

Definition had_ca (k : string) (h : list op) : bool :=
  existsb (fun o => match o with
                    | Upsert ns name v => String.eqb (key_of ns name) k &&
                                          (kind_code (kind_of_type (vtype v)) =? 2)
                    | _ => false end) h.

(* which of the names of k is wrong: 0 ns-name, 1 -ca.crt, 2 -ca.crl; and whether a file is there
   that should not be (1) or is missing / different (2) *)
Definition wrong_file (g : ghost) (d : disk) (k : string) : Z * Z :=
  let fix go (i : Z) (l : list string) : Z * Z :=
    match l with
    | [] => (9, 0)
    | f :: r =>
        if ofile_eqb (lookup f d) (assoc f (expected g k)) then go (i + 1) r
        else (i, match assoc f (expected g k) with None => 1 | Some _ => 2 end)
    end in
  go 0 (names_of_key k).

(* the verdict on one step; [] = fine, otherwise
   [fail kind; collision; retyped; had CA; file index; direction]
   fail kind: 1 a file nobody derives, 2 the files of a key are not as expected, 3 a reference
   does not report the error (or reports one for a valid secret), 6 a reference names a file that
   is not derived from that Secret *)
Definition step_verdict (univ : list string) (done : list op) (g : ghost) (o : op) (ob : sobs) : list Z :=
  let '(ls, p, e) := ob in
  if negb (owned univ ls) then [1; 0; 0; 0; 0; 0]
  else
    match filter (fun k => negb (key_ok g ls k)) univ with
    | k :: _ =>
        let '(fi, dir) := wrong_file g ls k in
        [2; collision_code univ k; b2z (retyped k None done); b2z (had_ca k done); fi; dir]
    | [] =>
        let ref_verdict (k : string) : list Z :=
          if negb (Bool.eqb e (get_err_expected g k)) then [3; 0; 0; 0; 0; 0]
          else if negb (path_ok k p) then [6; 0; 0; 0; 0; 0]
          else [] in
        match o with
        | Get k => ref_verdict k
        | ForcePath ns name => ref_verdict (key_of ns name)
        | _ => []
        end
    end.

(* first failing step: (index, verdict) *)
Fixpoint spec_run (univ : list string) (done : list op) (g : ghost) (i : Z)
         (h : list op) (obs : list sobs) : Z * list Z :=
  match h, obs with
  | o :: r, ob :: robs =>
      let g' := gstep g o in
      let done' := (done ++ [o])%list in
      match step_verdict univ done' g' o ob with
      | [] => spec_run univ done' g' (i + 1) r robs
      | v => (i, v)
      end
  | [], [] => (-1, [])
  | _, _ => (i, [4; 0; 0; 0; 0; 0])
  end.

Definition nonempty_somewhere (obs : list sobs) : bool :=
  existsb (fun ob => match ob with (ls, _, _) => match ls with [] => false | _ => true end end) obs.

(* row: [id; model agrees (code as it stands); spec; nontrivial; steps that change the directory;
         model agrees (repaired CA deletion); failing step; fail kind; collision; retyped; had CA;
         file index; direction] *)
Definition hist_case (id : Z) (h : list op) (obs : list sobs) : list Z :=
  let '(i, v) := spec_run (universe h) [] gempty 0 h obs in
  ([id; b2z (agree false init h obs); b2z (match v with [] => true | _ => false end);
   b2z (nonempty_somewhere obs); changes init h; b2z (agree true init h obs); i]
  ++ match v with [] => [0; 0; 0; 0; 0; 0] | _ => v end)%list.

(* the constants the model copies from the source *)
Definition consts_case (types : list string) (modes : list Z) (keys : list string) : list Z :=
  let want_types := [type_tls; type_ca; type_jwk; type_oidc; type_htpasswd; type_apikey; type_license] in
  let ok_t := if list_eq_dec string_dec types want_types then true else false in
  let ok_m := if list_eq_dec Z.eq_dec modes [mode_rw_only; mode_jwk; mode_htpasswd] then true else false in
  let ok_k := match keys with
              | [crt; crl; _; _] => String.eqb ("-" ++ crt) ca_crt_suffix && String.eqb ("-" ++ crl) ca_crl_suffix
              | _ => false
              end in
  [-1; b2z (ok_t && ok_m && ok_k); 1; 0; 0; b2z (ok_t && ok_m && ok_k); -1; 0; 0; 0; 0; 0; 0].

(* ---------- the controller family: cluster-level events through the real handlers, queue and
   lbc.sync, the start-up step, namespaces that stop / start being watched, process restarts ---------- *)

Inductive xev := XE (e : cev) | XRestart.

(* one observed step: listing, Path, Error != nil, keys the worker synced (drain only) *)
Definition csobs := (sobs * list string)%type.

Fixpoint list_str_eqb (a b : list string) : bool :=
  match a, b with
  | [], [] => true
  | x :: ra, y :: rb => String.eqb x y && list_str_eqb ra rb
  | _, _ => false
  end.

(* apply store operations, remember what the last lookup showed *)
Fixpoint apply_ops (cadel : bool) (st : state) (ops : list op) (last : option refobs) : state * option refobs :=
  match ops with
  | [] => (st, last)
  | o :: r => let '(st', ro) := step cadel st o in
              apply_ops cadel st' r (match ro with Some x => Some x | None => last end)
  end.

Fixpoint cagree (cadel : bool) (c : cstate) (st : state) (h : list xev) (obs : list csobs) : bool :=
  match h, obs with
  | [], [] => true
  | XRestart :: r, ((ls, _, _), _) :: robs =>
      let st' := restart_state st in
      listing_eqb (files st') ls && cagree cadel (crestart c) st' r robs
  | XE e :: r, ((ls, p, er), synced) :: robs =>
      let '(c', ops) := cstep c e in
      let '(st', ro) := apply_ops cadel st ops None in
      listing_eqb (files st') ls &&
      match e with
      | CDrain => list_str_eqb synced (map task_key (c_pend c))
      | CGet _ => match ro with Some (mp, me) => String.eqb mp p && Bool.eqb me er | None => false end
      | _ => true
      end && cagree cadel c' st' r robs
  | _, _ => false
  end.

(* S.  The specification's own book-keeping, independent of handlers / queue / syncSecret /
   preSyncSecrets / cleanup code:
     api, unw   the objects of the cluster and the namespaces not watched; a Secret is VISIBLE when it
                exists and its namespace is watched
     dirty      the keys with an event the worker has not yet had a chance to see
     g          current version and asked-for flag per key, as the controller should know them: brought
                up to date with the visible object for every dirty key when the worker drains, for every
                key at start-up, set to absent for the keys of a namespace that stops being watched, and
                emptied by a restart (nothing has been asked for in the new process)
     pre        the files that were in the directory when the process restarted and are still unchanged
   The listing is judged whenever no event is outstanding. *)
Record sstate := mks {
  s_g : ghost; s_api : objects; s_unw : list string; s_keys : list qtask; s_dirty : list qtask;
  s_done : list op; s_pre : list (string * file) }.

Definition visible (s : sstate) (t : qtask) : option ver :=
  if mem_s (fst t) (s_unw s) then None else s_api s (task_key t).

Definition sync_vis (s : sstate) (t : qtask) : op :=
  match visible s t with Some v => Upsert (fst t) (snd t) v | None => Delete (task_key t) end.

Definition learn (s : sstate) (ts : list qtask) (dirty' : list qtask) : sstate :=
  let gops := map (sync_vis s) ts in
  mks (fold_left gstep gops (s_g s)) (s_api s) (s_unw s) (s_keys s) dirty' ((s_done s) ++ gops)%list (s_pre s).

(* like step_verdict, but a wrong file that is a left-over of the previous process gets fail kind 5 *)
Definition cverdict (univ : list string) (s : sstate) (o : op) (ob : sobs) : list Z :=
  let '(ls, _, _) := ob in
  match step_verdict univ (s_done s) (s_g s) o ob with
  | 2 :: rest =>
      match filter (fun k => negb (key_ok (s_g s) ls k)) univ with
      | k :: _ =>
          let '(fi, _) := wrong_file (s_g s) ls k in
          let f := nth (Z.to_nat fi) (names_of_key k) "" in
          if existsb (fun fc => String.eqb (fst fc) f) (s_pre s) then 5 :: rest else 2 :: rest
      | [] => 2 :: rest
      end
  | v => v
  end.

Definition keep_pre (ls : list (string * file)) (pre : list (string * file)) : list (string * file) :=
  filter (fun fc => ofile_eqb (lookup (fst fc) ls) (Some (snd fc))) pre.

Definition set_pre (s : sstate) (pre : list (string * file)) : sstate :=
  mks (s_g s) (s_api s) (s_unw s) (s_keys s) (s_dirty s) (s_done s) pre.

(* book-keeping of one step; the bool says whether the listing is to be judged after it *)
Definition sstep (s : sstate) (x : xev) (ls : list (string * file)) : sstate * bool * op :=
  match x with
  | XRestart =>
      (mks gempty (s_api s) (s_unw s) (s_keys s) (s_keys s) [] ls, false, Delete "")
  | XE (CPut ns name v) =>
      let s1 := mks (s_g s) (oset (s_api s) (key_of ns name) (Some v)) (s_unw s) (enq (ns, name) (s_keys s))
                    (if mem_s ns (s_unw s) then s_dirty s else enq (ns, name) (s_dirty s)) (s_done s) (s_pre s) in
      (s1, false, Delete "")
  | XE (CDel ns name) =>
      let s1 := mks (s_g s) (oset (s_api s) (key_of ns name) None) (s_unw s) (s_keys s)
                    (if mem_s ns (s_unw s) then s_dirty s else enq (ns, name) (s_dirty s)) (s_done s) (s_pre s) in
      (s1, false, Delete "")
  | XE CDrain => (learn s (s_dirty s) [], true, Delete "")
  | XE CStart => (learn s (s_keys s) [], true, Delete "")
  | XE (CGet k) =>
      let s1 := mks (gstep (s_g s) (Get k)) (s_api s) (s_unw s) (s_keys s) (s_dirty s)
                    ((s_done s) ++ [Get k])%list (s_pre s) in
      (s1, match s_dirty s with [] => true | _ => false end, Get k)
  | XE (CUnwatch ns) =>
      if mem_s ns (s_unw s) then (s, match s_dirty s with [] => true | _ => false end, Delete "")
      else
        let s1 := mks (s_g s) (s_api s) (ns :: s_unw s) (s_keys s) (s_dirty s) (s_done s) (s_pre s) in
        let d' := filter (fun t => negb (in_ns ns t)) (s_dirty s) in
        (learn s1 (filter (in_ns ns) (s_keys s)) d', match d' with [] => true | _ => false end, Delete "")
  | XE (CWatch ns) =>
      if mem_s ns (s_unw s) then
        (mks (s_g s) (s_api s) (filter (fun n => negb (String.eqb n ns)) (s_unw s)) (s_keys s)
             (fold_left (fun q t => if in_ns ns t then enq t q else q) (s_keys s) (s_dirty s)) (s_done s) (s_pre s),
         false, Delete "")
      else (s, match s_dirty s with [] => true | _ => false end, Delete "")
  end.

Fixpoint cspec_run (univ : list string) (s : sstate) (i : Z) (h : list xev) (obs : list csobs) : Z * list Z :=
  match h, obs with
  | x :: r, (ob, _) :: robs =>
      let '(ls, _, _) := ob in
      let '(s1, judge, o) := sstep s x ls in
      let s2 := match x with XRestart => s1 | _ => set_pre s1 (keep_pre ls (s_pre s1)) end in
      if judge then
        match cverdict univ s2 o ob with
        | [] => cspec_run univ s2 (i + 1) r robs
        | v => (i, v)
        end
      else cspec_run univ s2 (i + 1) r robs
  | [], [] => (-1, [])
  | _, _ => (i, [4; 0; 0; 0; 0; 0])
  end.

Definition cuniverse (h : list xev) : list string :=
  dedup (flat_map (fun x => match x with XE (CPut ns name _) => [key_of ns name] | _ => [] end) h).

Definition sinit : sstate := mks gempty (fun _ => None) [] [] [] [] [].

Definition ctl_case (id : Z) (h : list xev) (obs : list csobs) : list Z :=
  let '(i, v) := cspec_run (cuniverse h) sinit 0 h obs in
  let sobs_only := map fst obs in
  ([id; b2z (cagree false cinit init h obs); b2z (match v with [] => true | _ => false end);
    b2z (nonempty_somewhere sobs_only); Z.of_nat (List.length h); b2z (cagree true cinit init h obs); i]
   ++ match v with [] => [0; 0; 0; 0; 0; 0] | _ => v end)%list.
