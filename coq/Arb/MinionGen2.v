(* C04/C05: consequences of the general scan invariant *)
From Coq Require Import List ZArith String Ascii Bool Lia.
From NIC Require Import Base.SMap Arb.Types Arb.Model Arb.Spec Arb.WinsProofs Arb.InvProofs Arb.OwnerProofs Arb.ListenerProofs Arb.Cases Arb.MinionProofs Arb.ComposeProofs Arb.ShadowProofs.
From NIC Require Import Arb.MinionGen1.
Import ListNotations.
Open Scope Z_scope.

Definition distinct_keys (ms : list ingress) : Prop := forall i j, In i ms -> In j ms -> mkey (i_meta i) = mkey (i_meta j) -> i = j.

(* a minion's mark for a path is true iff the minion is the least claimant of the path among the minions of the
   host -- whatever the number of minions and paths, and however often a minion lists a path *)
Theorem minion_path_owner_gen ms mk p :
  distinct_keys ms -> uids_distinct (claimants (claims_of ms) p) ->
  let s := scan ms (mkMS [] [] []) in
  vp_get (ms_vp s) mk p = Some true <-> option_map fst (least (claimants (claims_of ms) p)) = Some mk.
Proof.
  intros U Hd s. destruct (scan_general ms U) as [Hm Hp _ _]. fold s in Hm, Hp.
  rewrite (Hm mk p), (Hp p), <- claims_pairs.
  change (fold_left claim1 (claims_of ms) []) with (holders (claims_of ms)). rewrite (holders_owner _ _ Hd).
  destruct (least (claimants (claims_of ms) p)) as [[k m]|]; cbn.
  - split; [intros [m' H]; inversion H; reflexivity|intros H; inversion H; eauto].
  - split; [intros [m' H]; discriminate|discriminate].
Qed.

(* a minion that lists a path is the least claimant of that path or carries a warning *)
Theorem minion_warned ms i p :
  distinct_keys ms -> uids_distinct (claimants (claims_of ms) p) -> In i ms -> In p (i_paths i) ->
  let s := scan ms (mkMS [] [] []) in
  option_map fst (least (claimants (claims_of ms) p)) = Some (mkey (i_meta i)) \/ cw_get (ms_cw s) (mkey (i_meta i)) <> [].
Proof.
  intros U Hd Hi Hpi s. destruct (scan_general ms U) as [_ Hp _ Hw]. fold s in Hp, Hw.
  assert (Hin : In (i, p) (pairs_of ms)).
  { unfold pairs_of. apply in_flat_map. exists i. split; [exact Hi|]. apply in_map. exact Hpi. }
  destruct (Hw i p Hin) as [(m & H)|H]; [left|right; exact H].
  rewrite (Hp p), <- claims_pairs in H. change (fold_left claim1 (claims_of ms) []) with (holders (claims_of ms)) in H.
  rewrite (holders_owner _ _ Hd) in H. rewrite H. reflexivity.
Qed.

(* the minions of a host, taken from a store keyed by namespace/name *)
Lemma minions_of_distinct is_ host : wf is_ -> keyed (fun i => mkey (i_meta i)) is_ -> distinct_keys (minions_of is_ host).
Proof.
  intros W K i j Hi Hj E. apply minions_of_exact in Hi. apply minions_of_exact in Hj.
  destruct Hi as (k1 & H1 & _). destruct Hj as (k2 & H2 & _).
  exact (same_stored (fun i => mkey (i_meta i)) is_ k1 k2 i j W K H1 H2 E).
Qed.

Lemma path_claims_eq is_ host : path_claims is_ host = claims_of (minions_of is_ host).
Proof. reflexivity. Qed.

(* the child warnings build_minions returns are those of the scan *)
Lemma build_minions_cw is_ host : snd (build_minions is_ host) = ms_cw (scan (minions_of is_ host) (mkMS [] [] [])).
Proof. reflexivity. Qed.
