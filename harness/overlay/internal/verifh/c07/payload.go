//go:build verif

package main

// Class "payload": every string leaf the resource generators can populate (Ingress annotations and
// paths, VirtualServer / VirtualServerRoute / TransportServer / Policy spec fields) is extended, one
// leaf at a time, with each byte sequence that is dangerous in some rendering context (bare word,
// double-quoted, single-quoted, regex).  The REAL validator of the resource decides whether the
// value is accepted; an accepted value must keep the generated files well-formed.  The fixtures are
// chosen by a greedy cover over generated candidates so that every leaf path the generators can
// produce occurs in at least one fixture; all dependencies are present so that the full rendering is
// exercised.

import (
	"fmt"
	"reflect"
	"sort"
	"strings"

	networking "k8s.io/api/networking/v1"

	"github.com/nginx/kubernetes-ingress/internal/k8s"
	"github.com/nginx/kubernetes-ingress/internal/verifh/vh"
	conf_v1 "github.com/nginx/kubernetes-ingress/pkg/apis/configuration/v1"
	"github.com/nginx/kubernetes-ingress/pkg/apis/configuration/validation"
)

// Payload describes the one mutated leaf of a payload case.
type Payload struct {
	Field    string `json:"field"`  // normalised leaf path, e.g. VirtualServer.Spec.Upstreams[].LBMethod
	Add      []int  `json:"add"`    // bytes appended
	Value    []int  `json:"value"`  // resulting value
	Target   string `json:"target"` // kind ns/name of the mutated object
	Accepted bool   `json:"accepted"`
}

var payloads = []string{"", " 30m", " 8k", "\"", "\\", "'", "{", "}", ";", " x", "#", "$", "\\\"", "${", " \"x\"", "\n", ")", "\"x", "{}", "'x", ", ", ",", ", ,X-Accel-Redirect", " ,",
	"\\ ", "\\\t", " ", "\t", prepend + " ", prepend + "\\ ", prepend + "\\\t"}

// a payload that starts with this marker is put in FRONT of the value
const prepend = "\x00<"

type leaf struct {
	path string
	get  func() string
	set  func(string)
}

func collectLeaves(v reflect.Value, path string, out *[]leaf) {
	switch v.Kind() {
	case reflect.Ptr:
		if !v.IsNil() {
			collectLeaves(v.Elem(), path, out)
		}
	case reflect.Struct:
		t := v.Type()
		for i := 0; i < t.NumField(); i++ {
			f := t.Field(i)
			if f.Name == "ObjectMeta" || f.Name == "TypeMeta" || f.Name == "Status" || !f.IsExported() {
				continue
			}
			collectLeaves(v.Field(i), path+"."+f.Name, out)
		}
	case reflect.Slice:
		for i := 0; i < v.Len(); i++ {
			el := "[]"
			if sp, ok := v.Index(i).Interface().(conf_v1.Split); ok && sp.Weight == 0 {
				el = "[weight0]" // the action of a split that gets no traffic is rendered all the same
			}
			collectLeaves(v.Index(i), path+el, out)
		}
	case reflect.Map:
		if v.Type().Key().Kind() == reflect.String && v.Type().Elem().Kind() == reflect.String {
			keys := v.MapKeys()
			sort.Slice(keys, func(i, j int) bool { return keys[i].String() < keys[j].String() })
			for _, k := range keys {
				k, m := k, v
				*out = append(*out, leaf{path: path + "[" + k.String() + "]",
					get: func() string { return m.MapIndex(k).String() },
					set: func(s string) { m.SetMapIndex(k, reflect.ValueOf(s)) }})
			}
		}
	case reflect.String:
		if v.CanSet() && v.String() != "" {
			vv := v
			*out = append(*out, leaf{path: path, get: func() string { return vv.String() }, set: func(s string) { vv.SetString(s) }})
		}
	}
}

func leavesOf(o any) []leaf {
	var out []leaf
	switch x := o.(type) {
	case *networking.Ingress:
		// host, service and port names of an Ingress are validated by the API server (DNS names); the
		// controller's own validator covers the paths and the annotations
		for i := range x.Spec.Rules {
			if h := x.Spec.Rules[i].HTTP; h != nil {
				for j := range h.Paths {
					pp := &h.Paths[j]
					out = append(out, leaf{path: "Ingress.Spec.Rules[].HTTP.Paths[].Path", get: func() string { return pp.Path }, set: func(s string) { pp.Path = s }})
				}
			}
		}
		keys := make([]string, 0, len(x.Annotations))
		for k := range x.Annotations {
			keys = append(keys, k)
		}
		sort.Strings(keys)
		for _, k := range keys {
			k := k
			out = append(out, leaf{path: "Ingress.annotations[" + k + "]", get: func() string { return x.Annotations[k] }, set: func(s string) { x.Annotations[k] = s }})
		}
	case *conf_v1.VirtualServer:
		collectLeaves(reflect.ValueOf(&x.Spec), "VirtualServer.Spec", &out)
	case *conf_v1.VirtualServerRoute:
		collectLeaves(reflect.ValueOf(&x.Spec), "VirtualServerRoute.Spec", &out)
	case *conf_v1.TransportServer:
		collectLeaves(reflect.ValueOf(&x.Spec), "TransportServer.Spec", &out)
	case *conf_v1.Policy:
		collectLeaves(reflect.ValueOf(&x.Spec), "Policy.Spec", &out)
	}
	return out
}

func validateObj(o any, fl Flags) bool {
	switch x := o.(type) {
	case *networking.Ingress:
		return len(k8s.VerifValidateIngress(x, fl.Plus, false)) == 0
	case *conf_v1.VirtualServer:
		return validation.NewVirtualServerValidator(validation.IsPlus(fl.Plus)).ValidateVirtualServer(x) == nil
	case *conf_v1.VirtualServerRoute:
		return validation.NewVirtualServerValidator(validation.IsPlus(fl.Plus)).ValidateVirtualServerRoute(x) == nil
	case *conf_v1.TransportServer:
		return validation.NewTransportServerValidator(fl.TLSPassthrough, false, fl.Plus).ValidateTransportServer(x) == nil
	case *conf_v1.Policy:
		return validation.ValidatePolicy(x, fl.Plus, false, false) == nil
	}
	return false
}

func objKey(o any) string {
	switch x := o.(type) {
	case *networking.Ingress:
		return "ing " + x.Namespace + "/" + x.Name
	case *conf_v1.VirtualServer:
		return "vs " + x.Namespace + "/" + x.Name
	case *conf_v1.VirtualServerRoute:
		return "vsr " + x.Namespace + "/" + x.Name
	case *conf_v1.TransportServer:
		return "ts " + x.Namespace + "/" + x.Name
	case *conf_v1.Policy:
		return "policy " + x.Namespace + "/" + x.Name
	}
	return "?"
}

// fixture kinds; candidate j of kind k is generated from Fork(1000*k+j)
var fixtureKinds = []string{"ing", "mm", "vs", "vsvsr", "ts", "vspol"}

// genFixture builds a small world with all dependencies present around one generated resource
// (group); targets = the objects whose leaves are mutated.
func genFixture(r *vh.Rng, kind string, plus bool) (*world, []any) {
	w := &world{deps: map[string]string{}}
	w.flags = Flags{Plus: plus, HTTP2: true, TLSPassthrough: true, Resolver: true}
	_ = r.Bool() // (keeps the random stream of the fixtures stable)
	w.allOK = true
	genDeps(r.Fork(1), w)
	w.gc = genGC()
	ns, name, host := "a", "web", "x.example.com"
	switch kind {
	case "ing":
		w.addIngress(r, ns, name, []string{host, "y.example.com"}[:1+r.Intn(2)], "ing", pickPaths(r, 1+r.Intn(2)))
	case "mm":
		w.addIngress(r, ns, name, []string{host}, "master", nil)
		w.addIngress(r, "b", "m", []string{host}, "minion", pickPaths(r, 1+r.Intn(2)))
	case "vs":
		w.addVS(r, ns, name, host, nil)
	case "vsvsr":
		w.addVS(r, ns, name, host, []string{"b/r"})
		w.addVSR(r, "b", "r", host, []string{"/vsr1"})
	case "ts":
		w.addTS(r, ns, name)
	case "vspol":
		w.addVS(r, ns, name, host, nil)
		vs := w.objs[0].(*conf_v1.VirtualServer)
		p := vh.Pick(r, polPool)
		vs.Spec.Policies = []conf_v1.PolicyReference{{Name: p}}
		for i := range vs.Spec.Routes {
			vs.Spec.Routes[i].Policies = nil
		}
		if vs.Spec.TLS == nil {
			vs.Spec.TLS = &conf_v1.TLS{Secret: "tls"}
		}
		var targets []any
		for _, pol := range w.policies {
			if pol.Namespace == ns && pol.Name == p {
				targets = append(targets, pol)
			}
		}
		return w, targets
	}
	return w, append([]any(nil), w.objs...)
}

// The fixtures do NOT depend on the seed of the run: the set of (leaf, payload) pairs, and therefore the
// set of known findings it hits on an unchanged tree, is the same for every VERIF_SEED.
var fixtureSeeds = []uint64{1}

type enumEntry struct {
	fseed uint64
	kind  string
	cand  int
	obj   int // index among targets
	leaf  int
	path  string
	plus  bool
}

var enumCache = map[uint64][]enumEntry{}

// enumeration of (fixture, leaf) pairs covering every leaf path once for OSS and once for Plus
func enumerate(seed uint64) []enumEntry {
	if e, ok := enumCache[seed]; ok {
		return e
	}
	var out []enumEntry
	for _, fs := range fixtureSeeds {
		for _, plus := range []bool{false, true} {
			seen := map[string]bool{}
			for ki, kind := range fixtureKinds {
				for j := 0; j < 120; j++ {
					r := vh.NewRng(fs).Fork(uint64(900000 + 1000*ki + j))
					_, targets := genFixture(r, kind, plus)
					for oi, o := range targets {
						for li, l := range leavesOf(o) {
							if !seen[l.path] {
								seen[l.path] = true
								out = append(out, enumEntry{fseed: fs, kind: kind, cand: 1000*ki + j, obj: oi, leaf: li, path: l.path, plus: plus})
							}
						}
					}
				}
			}
		}
	}
	enumCache[seed] = out
	return out
}

// quickPayloads: the payloads of the quick tier (a fixed subset, so that what the quick tier hits on an
// unchanged tree is a subset of what the thorough tier hits); the thorough tier uses all of them.
var quickPayloads = map[string]bool{"": true, " 30m": true, "\"": true, "\\": true, "'": true, "{": true, ";": true, " x": true, "$": true,
	"\n": true, ", ": true, "\\ ": true, prepend + "\\ ": true}

// payloadKs: the enumeration indexes (leaf + len(leaves) * payload) of a tier
func payloadKs(seed uint64, tier string) []int {
	n := len(enumerate(seed))
	var ks []int
	for pi, p := range payloads {
		if tier != "thorough" && !quickPayloads[p] {
			continue
		}
		for l := 0; l < n; l++ {
			ks = append(ks, pi*n+l)
		}
	}
	return ks
}

func runPayload(seed uint64, id int, k int) (c Case) {
	en := enumerate(seed)
	e := en[k%len(en)]
	pi := (k / len(en)) % len(payloads)
	kind := e.kind
	r := vh.NewRng(e.fseed).Fork(uint64(900000 + e.cand))
	w, targets := genFixture(r, kind, e.plus)
	c = Case{ID: id, Class: "payload", Seed: seed, K: k, Flags: w.flags, Res: w.res}
	defer func() {
		if p := recover(); p != nil {
			c.Obs.Panic = fmt.Sprint(p)
		}
	}()
	o := targets[e.obj]
	l := leavesOf(o)[e.leaf]
	nv := l.get() + payloads[pi]
	if strings.HasPrefix(payloads[pi], prepend) {
		nv = payloads[pi][len(prepend):] + l.get()
	}
	l.set(nv)
	c.Payload = &Payload{Field: e.path, Add: vh.Bytes(payloads[pi]), Value: vh.Bytes(nv), Target: objKey(o)}
	if !validateObj(o, w.flags) {
		return c
	}
	c.Payload.Accepted = true
	c.Deps = nil
	c.Obs = runWorld(w)
	c.Obs.Old, c.Obs.Snaps = nil, nil // the payload class judges the end state only
	// the resource summary of the mutated object keeps the original strings; the truth is Payload
	_ = strings.TrimSpace
	return c
}
