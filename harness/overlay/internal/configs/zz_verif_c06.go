//go:build verif

package configs

import "regexp"

// VerifC06Regexps exposes the validator regular expressions of this package whose hand
// transcriptions in coq/Tmpl/Validators.v are compared with them on a corpus on every run.
func VerifC06Regexps() map[string]*regexp.Regexp {
	return map[string]*regexp.Regexp{
		"ing_rewrite@configs.pathRegexp":          pathRegexp,
		"realm@configs.stickyCookieRegex":         stickyCookieRegex,
		"size@configs.sizeRegexp":                 sizeRegexp,
		"offset@configs.offsetRegexp":             offsetRegexp,
		"proxy_buffers@configs.proxyBuffersRegexp": proxyBuffersRegexp,
		"time@configs.timeRegexp":                 timeRegexp,
		"ing_rate@configs.rateRegexp":             rateRegexp,
	}
}

// VerifC06ConfigStructs regenerates, for every resource the Configurator currently holds, the
// template data struct exactly as addOrUpdateIngress / addOrUpdateMergeableIngress /
// addOrUpdateVirtualServer / addOrUpdateTransportServer build it (same calls, same parameters), so
// that the harness can check the strings that reach the templates against their declared classes.
// Result: *version1.IngressNginxConfig | *version2.VirtualServerConfig | *version2.TransportServerConfig.
func (cnf *Configurator) VerifC06ConfigStructs() []any {
	var out []any
	var names []string
	for n := range cnf.ingresses {
		names = append(names, n)
	}
	sortStrings(names)
	for _, n := range names {
		if m, ok := cnf.mergeableIngresses[n]; ok {
			cfg, _ := generateNginxCfgForMergeableIngresses(NginxCfgParams{
				mergeableIngs:             m,
				apResources:               cnf.updateApResources(m.Master),
				dosResource:               getAppProtectDosResource(m.Master.DosEx),
				BaseCfgParams:             cnf.CfgParams,
				isPlus:                    cnf.isPlus,
				isResolverConfigured:      cnf.IsResolverConfigured(),
				staticParams:              cnf.staticCfgParams,
				isWildcardEnabled:         cnf.isWildcardEnabled,
				ingressControllerReplicas: cnf.ingressControllerReplicas,
			})
			out = append(out, &cfg)
			continue
		}
		ingEx := cnf.ingresses[n]
		cfg, _ := generateNginxCfg(NginxCfgParams{
			staticParams:              cnf.staticCfgParams,
			ingEx:                     ingEx,
			apResources:               cnf.updateApResources(ingEx),
			dosResource:               getAppProtectDosResource(ingEx.DosEx),
			isMinion:                  false,
			isPlus:                    cnf.isPlus,
			BaseCfgParams:             cnf.CfgParams,
			isResolverConfigured:      cnf.IsResolverConfigured(),
			isWildcardEnabled:         cnf.isWildcardEnabled,
			ingressControllerReplicas: cnf.ingressControllerReplicas,
		})
		out = append(out, &cfg)
	}
	names = nil
	for n := range cnf.virtualServers {
		names = append(names, n)
	}
	sortStrings(names)
	for _, n := range names {
		vsEx := cnf.virtualServers[n]
		dosResources := map[string]*appProtectDosResource{}
		vsc := newVirtualServerConfigurator(cnf.CfgParams, cnf.isPlus, cnf.IsResolverConfigured(), cnf.staticCfgParams, cnf.isWildcardEnabled, nil)
		vsc.IngressControllerReplicas = cnf.ingressControllerReplicas
		cfg, _ := vsc.GenerateVirtualServerConfig(vsEx, cnf.updateApResourcesForVs(vsEx), dosResources)
		out = append(out, &cfg)
	}
	names = nil
	for n := range cnf.transportServers {
		names = append(names, n)
	}
	sortStrings(names)
	for _, n := range names {
		tsEx := cnf.transportServers[n]
		cfg, _ := generateTransportServerConfig(transportServerConfigParams{
			transportServerEx:      tsEx,
			listenerPort:           tsEx.ListenerPort,
			isPlus:                 cnf.isPlus,
			isResolverConfigured:   cnf.IsResolverConfigured(),
			isDynamicReloadEnabled: cnf.staticCfgParams.DynamicSSLReload,
			staticSSLPath:          cnf.staticCfgParams.StaticSSLPath,
		})
		out = append(out, cfg)
	}
	return out
}

func sortStrings(a []string) {
	for i := 1; i < len(a); i++ {
		for j := i; j > 0 && a[j] < a[j-1]; j-- {
			a[j], a[j-1] = a[j-1], a[j]
		}
	}
}

// VerifC06GeneratePath is generatePath (how a VirtualServer route path is written after  location ).
func VerifC06GeneratePath(path string) string { return generatePath(path) }
