(* C11 -- executable model of the secret store automaton.  No proofs in this file.

   What is modelled (all of it hand-written from the Go source, tied to it by harness c11):
     internal/k8s/secrets/store.go      LocalSecretStore.AddOrUpdateSecret / DeleteSecret / GetSecret
     internal/configs/configurator.go   Configurator.AddOrUpdateSecret / DeleteSecret (the
                                        SecretFileManager of the store), objectMetaToFileName,
                                        keyToFileName, and addOrUpdateIngress overwriting
                                        SecretReference.Path for the JWT / basic-auth annotations
     internal/nginx/manager.go          LocalManager.CreateSecret / DeleteSecret (one file per name
                                        in the secrets directory, mode given by the caller)

   Oracles (explicit data of every Upsert, universally quantified in the theorems):
     vvalid   the verdict of secrets.ValidateSecret on that version (crypto is not modelled)
     vmain / vcrt / vcrl   the bytes the version derives to (TLS: crt, newline, key; JWK: data[jwk];
              htpasswd: data[htpasswd]; CA: data[ca.crt] and data[ca.crl]); in the cases files these
              are hashes computed by the harness independently of the Configurator.

   Paths are relative to the secrets directory (the harness strips the directory prefix). *)
From Coq Require Import List String Ascii Bool ZArith.
From NIC Require Import Base.SMap.
Import ListNotations.
Open Scope string_scope.

(* ---- secret types and what the Configurator writes for them ---- *)

Definition type_tls      : string := "kubernetes.io/tls".
Definition type_ca       : string := "nginx.org/ca".
Definition type_jwk      : string := "nginx.org/jwk".
Definition type_oidc     : string := "nginx.org/oidc".
Definition type_htpasswd : string := "nginx.org/htpasswd".
Definition type_apikey   : string := "nginx.org/apikey".
Definition type_license  : string := "nginx.com/license".

(* 0o600 and 0o644 *)
Definition mode_rw_only : Z := 384.
Definition mode_jwk : Z := 420.
Definition mode_htpasswd : Z := 420.

Inductive kind :=
| KFile (mode : Z)   (* one file  ns-name *)
| KCA                (* two files ns-name-ca.crt and ns-name-ca.crl *)
| KNone.             (* nothing on disk; AddOrUpdateSecret returns the empty path *)

(* the switch of Configurator.AddOrUpdateSecret; [default:] is the TLS writer *)
Definition kind_of_type (t : string) : kind :=
  if String.eqb t type_ca then KCA
  else if String.eqb t type_jwk then KFile mode_jwk
  else if String.eqb t type_htpasswd then KFile mode_htpasswd
  else if String.eqb t type_oidc then KNone
  else if String.eqb t type_apikey then KNone
  else if String.eqb t type_license then KNone
  else KFile mode_rw_only.

Record ver := mkver {
  vtype : string;     (* Secret.Type *)
  vvalid : bool;      (* ValidateSecret(secret) == nil *)
  vmain : string;     (* derived bytes of the single file *)
  vcrt : string;      (* data[ca.crt] *)
  vcrl : string       (* data[ca.crl] *)
}.

(* ---- names ---- *)

Definition key_of (ns name : string) : string := ns ++ "/" ++ name.     (* getResourceKey *)
Definition fname (ns name : string) : string := ns ++ "-" ++ name.      (* objectMetaToFileName *)

(* keyToFileName: strings.Replace(key, "/", "-", -1) *)
Fixpoint key_to_fname (k : string) : string :=
  match k with
  | EmptyString => EmptyString
  | String c r => String (if Ascii.eqb c "/" then "-"%char else c) (key_to_fname r)
  end.

Definition ca_crt_suffix : string := "-ca.crt".
Definition ca_crl_suffix : string := "-ca.crl".

(* every file name the Configurator can derive from a secret whose file name is n *)
Definition names_of (n : string) : list string := [n; n ++ ca_crt_suffix; n ++ ca_crl_suffix].
Definition names_of_key (k : string) : list string := names_of (key_to_fname k).

(* ---- state ---- *)

Record entry := mkentry {
  e_ns : string; e_name : string;   (* ObjectMeta of SecretReference.Secret *)
  e_ver : ver;                      (* SecretReference.Secret *)
  e_err : bool;                     (* SecretReference.Error != nil *)
  e_path : string                   (* SecretReference.Path *)
}.

Definition file := (Z * string)%type.     (* mode, content *)
Definition disk := smap file.

Record state := mkstate { store : smap entry; files : disk }.
Definition init : state := mkstate [] [].

(* the files a version derives to, under file name n *)
Definition derived (n : string) (v : ver) : list (string * file) :=
  match kind_of_type (vtype v) with
  | KFile m => [(n, (m, vmain v))]
  | KCA => [(n ++ ca_crt_suffix, (mode_rw_only, vcrt v)); (n ++ ca_crl_suffix, (mode_rw_only, vcrl v))]
  | KNone => []
  end.

(* Configurator.AddOrUpdateSecret over LocalManager.CreateSecret: new disk and returned path *)
Definition mgr_add (ns name : string) (v : ver) (d : disk) : disk * string :=
  let n := fname ns name in
  match kind_of_type (vtype v) with
  | KFile m => (insert n (m, vmain v) d, n)
  | KCA =>
      let p1 := n ++ ca_crt_suffix in
      let p2 := n ++ ca_crl_suffix in
      (insert p2 (mode_rw_only, vcrl v) (insert p1 (mode_rw_only, vcrt v) d), p1 ++ " " ++ p2)
  | KNone => (d, "")
  end.

(* Configurator.DeleteSecret over LocalManager.DeleteSecret (a missing file is only logged).
   [cadel = false] is the code as it stands: only ns-name is removed.
   [cadel = true] is the repaired code (fixes/F34.diff): the two CA files are removed too. *)
Definition mgr_del (cadel : bool) (key : string) (d : disk) : disk :=
  let n := key_to_fname key in
  let d1 := remove n d in
  if cadel then remove (n ++ ca_crl_suffix) (remove (n ++ ca_crt_suffix) d1) else d1.

(* ---- operations ---- *)

Inductive op :=
| Upsert (ns name : string) (v : ver)      (* LocalSecretStore.AddOrUpdateSecret *)
| Delete (key : string)                    (* LocalSecretStore.DeleteSecret *)
| Get (key : string)                       (* LocalSecretStore.GetSecret *)
| ForcePath (ns name : string).            (* an Ingress in ns with jwt-key / basic-auth-secret = name
                                              is configured: GetSecret, then the Configurator
                                              overwrites Path in the very reference it was given *)

(* what a reference shows: Path and Error != nil *)
Definition refobs := (string * bool)%type.

Definition set_path (e : entry) (p : string) : entry :=
  mkentry (e_ns e) (e_name e) (e_ver e) (e_err e) p.

Definition is_empty (s : string) : bool := match s with EmptyString => true | _ => false end.

Definition do_upsert (cadel : bool) (st : state) (ns name : string) (v : ver) : state :=
  let k := key_of ns name in
  let path0 := match lookup k (store st) with Some e => e_path e | None => "" end in
  let err := negb (vvalid v) in
  if is_empty path0 then
    mkstate (insert k (mkentry ns name v err "") (store st)) (files st)
  else if err then
    mkstate (insert k (mkentry ns name v err "") (store st)) (mgr_del cadel k (files st))
  else
    let '(d, p) := mgr_add ns name v (files st) in
    mkstate (insert k (mkentry ns name v err p) (store st)) d.

Definition do_delete (cadel : bool) (st : state) (k : string) : state :=
  match lookup k (store st) with
  | None => st
  | Some e =>
      if is_empty (e_path e) then mkstate (remove k (store st)) (files st)
      else mkstate (remove k (store st)) (mgr_del cadel k (files st))
  end.

Definition do_get (st : state) (k : string) : state * refobs :=
  match lookup k (store st) with
  | None => (st, ("", true))
  | Some e =>
      if negb (e_err e) && is_empty (e_path e) then
        let '(d, p) := mgr_add (e_ns e) (e_name e) (e_ver e) (files st) in
        (mkstate (insert k (set_path e p) (store st)) d, (p, false))
      else (st, (e_path e, e_err e))
  end.

Definition do_force (st : state) (ns name : string) : state * refobs :=
  let k := key_of ns name in
  let '(st1, _) := do_get st k in
  let forced := fname ns name in
  match lookup k (store st1) with
  | None => (st1, (forced, true))            (* a fresh reference, not in the store *)
  | Some e => (mkstate (insert k (set_path e forced) (store st1)) (files st1), (forced, e_err e))
  end.

Definition step (cadel : bool) (st : state) (o : op) : state * option refobs :=
  match o with
  | Upsert ns name v => (do_upsert cadel st ns name v, None)
  | Delete k => (do_delete cadel st k, None)
  | Get k => let '(s, r) := do_get st k in (s, Some r)
  | ForcePath ns name => let '(s, r) := do_force st ns name in (s, Some r)
  end.

Definition step_st (cadel : bool) (st : state) (o : op) : state := fst (step cadel st o).

(* the state after a whole history *)
Definition run (cadel : bool) (h : list op) : state := fold_left (step_st cadel) h init.

(* ---- what the history says, independently of the automaton (ghost) ----
   cur h k    the current version of k: the last Upsert for k not followed by Delete k
   asked h k  some lookup of k happened since k was last invalid or absent: set by Get k while the
              current version is valid and by ForcePath while k exists; cleared by an invalid Upsert
              and by Delete *)

Definition ghost := string -> option (ver * bool).
Definition gempty : ghost := fun _ => None.
Definition gset (g : ghost) (k : string) (x : option (ver * bool)) : ghost :=
  fun k' => if String.eqb k' k then x else g k'.

Definition gstep (g : ghost) (o : op) : ghost :=
  match o with
  | Upsert ns name v =>
      let k := key_of ns name in
      let a := match g k with Some (_, a) => a | None => false end in
      gset g k (Some (v, vvalid v && a))
  | Delete k => gset g k None
  | Get k =>
      match g k with
      | Some (v, a) => gset g k (Some (v, a || vvalid v))
      | None => g
      end
  | ForcePath ns name =>
      let k := key_of ns name in
      match g k with
      | Some (v, _) => gset g k (Some (v, true))
      | None => g
      end
  end.

Definition grun (h : list op) : ghost := fold_left gstep h gempty.
Definition cur (h : list op) (k : string) : option ver := option_map fst (grun h k).
Definition asked (h : list op) (k : string) : bool :=
  match grun h k with Some (_, a) => a | None => false end.

(* ---- the controller in front of the store (internal/k8s/handlers.go createSecretHandlers,
   task_queue.go, controller.go syncSecret) ----
   Cluster-level events reach the store only through the work queue: a handler enqueues the KEY
   of the object (nothing for Secrets of an unsupported type), the worker later re-reads the
   object from the informer store and
       object present  -> LocalSecretStore.AddOrUpdateSecret(object)   (whatever its type)
       object absent   -> LocalSecretStore.DeleteSecret(key)
   so several events on one key between two runs of the worker coalesce into one operation on
   the final object. *)

Definition supported_type (t : string) : bool :=      (* secrets.IsSupportedSecretType *)
  existsb (String.eqb t) [type_tls; type_ca; type_jwk; type_oidc; type_htpasswd; type_apikey; type_license].

Definition objects := string -> option ver.           (* the informer store, by key *)
Definition oset (o : objects) (k : string) (x : option ver) : objects :=
  fun k' => if String.eqb k' k then x else o k'.

Definition qtask := (string * string)%type.            (* namespace, name of a queued Secret task *)
Definition task_key (t : qtask) : string := key_of (fst t) (snd t).

(* the work queue holds a key at most once, in the order of first insertion *)
Fixpoint enq (t : qtask) (q : list qtask) : list qtask :=
  match q with
  | [] => [t]
  | t' :: r => if String.eqb (task_key t) (task_key t') then q else t' :: enq t r
  end.

(* syncSecret *)
Definition sync_op (o : objects) (t : qtask) : op :=
  match o (task_key t) with
  | Some v => Upsert (fst t) (snd t) v
  | None => Delete (task_key t)
  end.

(* c_api   the objects in the API server (all namespaces)
   c_seen  the informer caches: the objects of the namespaces that are watched
   c_pend  the work queue (Secret tasks)
   c_keys  every namespace/name that ever existed, in order of first appearance (to enumerate)
   c_unw   the namespaces that are NOT watched (lost the watch label) *)
Record cstate := mkc {
  c_api : objects; c_seen : objects; c_pend : list qtask; c_keys : list qtask; c_unw : list string }.
Definition cinit : cstate := mkc (fun _ => None) (fun _ => None) [] [] [].

Inductive cev :=
| CPut (ns name : string) (v : ver)   (* the API object ns/name is created, or updated, to v *)
| CDel (ns name : string)             (* the API object is deleted *)
| CDrain                              (* the worker processes every queued task *)
| CGet (key : string)                 (* a resource being configured looks the Secret up *)
| CStart                              (* start-up: Run() after the caches are synced: preSyncSecrets *)
| CUnwatch (ns : string)              (* the namespace loses the watch label: syncNamespace ->
                                         cleanupUnwatchedNamespacedResources *)
| CWatch (ns : string).               (* the namespace gets the watch label: new informers list it *)

Definition mem_s (x : string) (l : list string) : bool := existsb (String.eqb x) l.
Definition in_ns (ns : string) (t : qtask) : bool := String.eqb (fst t) ns.
Definition ns_key (ns : string) (keys : list qtask) (k : string) : bool :=
  existsb (fun t => in_ns ns t && String.eqb (task_key t) k) keys.
Definition supported_obj (x : option ver) : bool :=
  match x with Some v => supported_type (vtype v) | None => false end.
Definition is_some {A} (x : option A) : bool := match x with Some _ => true | None => false end.

(* one cluster-level step: new cluster state, and the store operations it causes *)
Definition cstep (c : cstate) (e : cev) : cstate * list op :=
  match e with
  | CPut ns name v =>        (* AddFunc / UpdateFunc: ignored unless the type is supported *)
      let k := key_of ns name in
      let api := oset (c_api c) k (Some v) in
      let keys := enq (ns, name) (c_keys c) in
      if mem_s ns (c_unw c) then (mkc api (c_seen c) (c_pend c) keys (c_unw c), [])
      else (mkc api (oset (c_seen c) k (Some v))
                (if supported_type (vtype v) then enq (ns, name) (c_pend c) else c_pend c) keys (c_unw c), [])
  | CDel ns name =>          (* DeleteFunc, with the deleted object: same filter *)
      let k := key_of ns name in
      let api := oset (c_api c) k None in
      if mem_s ns (c_unw c) then (mkc api (c_seen c) (c_pend c) (c_keys c) (c_unw c), [])
      else match c_seen c k with
           | Some v0 => (mkc api (oset (c_seen c) k None)
                             (if supported_type (vtype v0) then enq (ns, name) (c_pend c) else c_pend c)
                             (c_keys c) (c_unw c), [])
           | None => (mkc api (c_seen c) (c_pend c) (c_keys c) (c_unw c), [])
           end
  | CDrain => (mkc (c_api c) (c_seen c) [] (c_keys c) (c_unw c), map (sync_op (c_seen c)) (c_pend c))
  | CGet k => (c, [Get k])
  | CStart =>                (* preSyncSecrets: AddOrUpdateSecret for every cached Secret of a supported type *)
      (c, map (sync_op (c_seen c)) (filter (fun t => supported_obj (c_seen c (task_key t))) (c_keys c)))
  | CUnwatch ns =>           (* DeleteSecret for every Secret in the namespace's cache, whatever its type *)
      if mem_s ns (c_unw c) then (c, [])
      else (mkc (c_api c) (fun k => if ns_key ns (c_keys c) k then None else c_seen c k)
                (c_pend c) (c_keys c) (ns :: c_unw c),
            map (fun t => Delete (task_key t))
                (filter (fun t => in_ns ns t && is_some (c_seen c (task_key t))) (c_keys c)))
  | CWatch ns =>             (* Add events for every object of the namespace *)
      if mem_s ns (c_unw c) then
        (mkc (c_api c) (fun k => if ns_key ns (c_keys c) k then c_api c k else c_seen c k)
             (fold_left (fun q t => if in_ns ns t && supported_obj (c_api c (task_key t)) then enq t q else q)
                        (c_keys c) (c_pend c))
             (c_keys c) (filter (fun n => negb (String.eqb n ns)) (c_unw c)), [])
      else (c, [])
  end.

(* the store-level history a cluster-level history amounts to, and the final cluster state *)
Fixpoint crun (c : cstate) (h : list cev) : cstate * list op :=
  match h with
  | [] => (c, [])
  | e :: r => let '(c1, ops) := cstep c e in
              let '(c2, ops') := crun c1 r in (c2, (ops ++ ops')%list)
  end.

Definition compile (h : list cev) : list op := snd (crun cinit h).

(* the process dies and a new one starts over the same directory: the store is empty again, the
   files stay (nothing sweeps the secrets directory), the new informers list the watched
   namespaces (an Add event per object).  CStart follows. *)
Definition crestart (c : cstate) : cstate :=
  mkc (c_api c) (c_seen c)
      (fold_left (fun q t => if supported_obj (c_seen c (task_key t)) then enq t q else q) (c_keys c) [])
      (c_keys c) (c_unw c).
Definition restart_state (st : state) : state := mkstate [] (files st).
