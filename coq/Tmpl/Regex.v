(* Tmpl/Regex.v -- regular expressions over BYTES with Brzozowski derivatives, and the certificate
   checker for  L(R) is neutral for the tokenizer DFA from state q.  DEFINITIONS ONLY.

   INTERFACE
     charset := CS (neg : bool) (ranges : list (nat * nat))     inclusive byte ranges, optionally negated
     cs_mem : charset -> ascii -> bool
     re := REmpty | REps | RChr c | RCls f | RCat a b | RAlt a b | RStar a
           (the constructors carry the prefix R because Syntax.tmpl already owns Star / Seq / Text)
     derived forms: RPlus ROpt RStr RSeq, cs_dot (any byte except LF: Go's default), cs_space (Go \s =
           TAB LF FF CR space), cs_nspace (\S), cs_digit (\d), cs_not / cs_of (a list of bytes)
     nullable, deriv (with the smart constructors mkCat mkAlt), re_eqb
     matches : re -> string -> bool       FULL match (the Go regexes are anchored ^...$ and Go's $
                                          without the m flag is end of text)
     closed_ok ok V                       THE CHECK: V, a list of product states (r, q), is closed under
                                          all 256 bytes (ignoring bytes whose derivative is REmpty), no
                                          step out of V emits a structural event or enters QErr, and
                                          every nullable state satisfies ok
     explore fuel R q                     UNTRUSTED worklist search proposing V
     incl_check R q ok : bool             explore + closed_ok; sound by RegexProofs.incl_check_sound
     incl_check_strict R q ok : bool      the same, but NO event at all may be emitted (no TokEnd)
     find_witness fuel R q ok : option string    UNTRUSTED breadth-first search for a string matched by R
                                          that emits a structural event / reaches QErr / ends in a
                                          state refused by ok, when read from q.  The refutation
                                          theorems re-check the witness by vm_compute.
     bytes_in f r                         every byte a string of L(r) can contain satisfies f
                                          (syntactic, sound by RegexProofs.bytes_in_sound)

   BYTES vs RUNES.  Go's regexp works on UTF-8 runes.  Every class used in Validators.v is either a
   set of ASCII bytes or the complement of one, so a multi-byte rune (or an invalid byte, which Go
   treats as U+FFFD of width 1) is matched by a negated class / dot exactly when each of its bytes
   is; the byte-wise reading has the same language. *)
From Coq Require Import List String Ascii Bool Arith.
From NIC Require Import Lex.Lexer Tmpl.LexAux.
Import ListNotations.
Open Scope string_scope.
Open Scope list_scope.
Open Scope nat_scope.

(* ---------------------------------------------------------------- character sets *)

Inductive charset := CS (neg : bool) (ranges : list (nat * nat)).

Definition in_ranges (n : nat) (rs : list (nat * nat)) : bool :=
  existsb (fun p => (fst p <=? n) && (n <=? snd p)) rs.

Definition cs_mem (f : charset) (c : ascii) : bool :=
  match f with CS neg rs => xorb neg (in_ranges (nat_of_ascii c) rs) end.

Definition byte_ranges (l : list ascii) : list (nat * nat) :=
  map (fun c => (nat_of_ascii c, nat_of_ascii c)) l.

Definition cs_of (l : list ascii) : charset := CS false (byte_ranges l).
Definition cs_not (l : list ascii) : charset := CS true (byte_ranges l).

Definition ws_ranges : list (nat * nat) := [(9, 10); (12, 13); (32, 32)].
Definition cs_space : charset := CS false ws_ranges.          (* \s *)
Definition cs_nspace : charset := CS true ws_ranges.          (* \S *)
Definition cs_digit : charset := CS false [(48, 57)].         (* \d *)
Definition cs_dot : charset := CS true [(10, 10)].            (* .  *)
Definition cs_any : charset := CS true [].

(* [^ \s x y z]: a negated class containing \s and the listed bytes *)
Definition cs_not_ws (l : list ascii) : charset := CS true (ws_ranges ++ byte_ranges l).

Fixpoint ranges_eqb (a b : list (nat * nat)) : bool :=
  match a, b with
  | [], [] => true
  | x :: a', y :: b' => (fst x =? fst y) && (snd x =? snd y) && ranges_eqb a' b'
  | _, _ => false
  end.

Definition cs_eqb (f g : charset) : bool :=
  match f, g with CS n1 r1, CS n2 r2 => Bool.eqb n1 n2 && ranges_eqb r1 r2 end.

(* ---------------------------------------------------------------- regular expressions *)

Inductive re :=
| REmpty
| REps
| RChr (c : ascii)
| RCls (f : charset)
| RCat (a b : re)
| RAlt (a b : re)
| RStar (a : re).

Definition RPlus (r : re) : re := RCat r (RStar r).
Definition ROpt (r : re) : re := RAlt REps r.

Fixpoint RStr (s : string) : re :=
  match s with
  | EmptyString => REps
  | String c EmptyString => RChr c
  | String c r => RCat (RChr c) (RStr r)
  end.

Definition RSeq (l : list re) : re := fold_right RCat REps l.

Fixpoint re_eqb (a b : re) : bool :=
  match a, b with
  | REmpty, REmpty => true
  | REps, REps => true
  | RChr c, RChr d => Ascii.eqb c d
  | RCls f, RCls g => cs_eqb f g
  | RCat a1 a2, RCat b1 b2 => re_eqb a1 b1 && re_eqb a2 b2
  | RAlt a1 a2, RAlt b1 b2 => re_eqb a1 b1 && re_eqb a2 b2
  | RStar a1, RStar b1 => re_eqb a1 b1
  | _, _ => false
  end.

Fixpoint nullable (r : re) : bool :=
  match r with
  | REmpty => false
  | REps => true
  | RChr _ => false
  | RCls _ => false
  | RCat a b => nullable a && nullable b
  | RAlt a b => nullable a || nullable b
  | RStar _ => true
  end.

(* smart constructors: REmpty and REps are absorbed; alternatives are flattened and de-duplicated
   (associativity, idempotence), which keeps the set of derivatives finite and small *)
Definition mkCat (a b : re) : re :=
  match a with
  | REmpty => REmpty
  | REps => b
  | _ => match b with REmpty => REmpty | REps => a | _ => RCat a b end
  end.

Fixpoint alts (r : re) : list re :=
  match r with
  | RAlt a b => alts a ++ alts b
  | REmpty => []
  | _ => [r]
  end.

Definition mem_re (r : re) (l : list re) : bool := existsb (re_eqb r) l.

Fixpoint nodup_re (l : list re) : list re :=
  match l with
  | [] => []
  | r :: t => if mem_re r t then nodup_re t else r :: nodup_re t
  end.

Fixpoint mk_alts (l : list re) : re :=
  match l with
  | [] => REmpty
  | r :: t => match t with [] => r | _ => RAlt r (mk_alts t) end
  end.

Definition mkAlt (a b : re) : re := mk_alts (nodup_re (alts a ++ alts b)).

Fixpoint deriv (r : re) (c : ascii) : re :=
  match r with
  | REmpty => REmpty
  | REps => REmpty
  | RChr d => if Ascii.eqb c d then REps else REmpty
  | RCls f => if cs_mem f c then REps else REmpty
  | RCat a b =>
      if nullable a then mkAlt (mkCat (deriv a c) b) (deriv b c) else mkCat (deriv a c) b
  | RAlt a b => mkAlt (deriv a c) (deriv b c)
  | RStar a => mkCat (deriv a c) (RStar a)
  end.

Fixpoint matches (r : re) (s : string) : bool :=
  match s with
  | EmptyString => nullable r
  | String c s' => matches (deriv r c) s'
  end.

Definition is_empty (r : re) : bool := match r with REmpty => true | _ => false end.

(* ---------------------------------------------------------------- bytes of a language *)

Fixpoint bytes_in (f : ascii -> bool) (r : re) : bool :=
  match r with
  | REmpty => true
  | REps => true
  | RChr c => f c
  | RCls g => forallb (fun c => negb (cs_mem g c) || f c) all_bytes
  | RCat a b => bytes_in f a && bytes_in f b
  | RAlt a b => bytes_in f a && bytes_in f b
  | RStar a => bytes_in f a
  end.

(* ---------------------------------------------------------------- product with the lexer DFA *)

Definition pstate := (re * lstate)%type.

Definition ps_eqb (a b : pstate) : bool := lstate_eqb (snd a) (snd b) && re_eqb (fst a) (fst b).

Definition mem_ps (x : pstate) (V : list pstate) : bool := existsb (ps_eqb x) V.

(* THE CHECK.  [keep] selects the events that must not occur: is_struct for the C06 notion of
   structure (closed_ok), all events for the strict variant (no TokEnd either, closed_strict). *)
Definition closed_row_gen (keep : ev -> bool) (ok : lstate -> bool) (V : list pstate) (x : pstate) : bool :=
  let (r, q) := x in
  (negb (nullable r) || ok q) &&
  forallb (fun c =>
    let r' := deriv r c in
    if is_empty r' then true
    else
      let (q', evs) := step q c in
      is_nil (filter keep evs) && negb (lstate_eqb q' QErr) && mem_ps (r', q') V) all_bytes.

Definition closed_gen (keep : ev -> bool) (ok : lstate -> bool) (V : list pstate) : bool :=
  forallb (closed_row_gen keep ok V) V.

Definition keep_all (e : ev) : bool := true.

Definition closed_ok (ok : lstate -> bool) (V : list pstate) : bool := closed_gen is_struct ok V.
Definition closed_strict (ok : lstate -> bool) (V : list pstate) : bool := closed_gen keep_all ok V.

(* untrusted search *)
Fixpoint succs_ps (bytes : list ascii) (r : re) (q : lstate) (acc : list pstate) : list pstate :=
  match bytes with
  | [] => acc
  | c :: t =>
      let r' := deriv r c in
      if is_empty r' then succs_ps t r q acc
      else
        let x := (r', fst (step q c)) in
        succs_ps t r q (if mem_ps x acc then acc else x :: acc)
  end.

Fixpoint add_new (l todo seen : list pstate) : list pstate :=
  match l with
  | [] => todo
  | x :: t =>
      if mem_ps x seen || mem_ps x todo then add_new t todo seen
      else add_new t (todo ++ [x]) seen
  end.

Fixpoint explore_loop (fuel : nat) (todo seen : list pstate) : option (list pstate) :=
  match fuel with
  | O => None
  | S n =>
      match todo with
      | [] => Some seen
      | x :: rest =>
          let seen' := x :: seen in
          explore_loop n (add_new (succs_ps all_bytes (fst x) (snd x) []) rest seen') seen'
      end
  end.

Definition explore (fuel : nat) (R : re) (q : lstate) : option (list pstate) :=
  explore_loop fuel [(R, q)] [].

Definition check_cert (keep : ev -> bool) (R : re) (q : lstate) (ok : lstate -> bool)
           (o : option (list pstate)) : bool :=
  match o with
  | Some V => mem_ps (R, q) V && closed_gen keep ok V
  | None => false
  end.

Definition incl_check (R : re) (q : lstate) (ok : lstate -> bool) : bool :=
  check_cert is_struct R q ok (explore 200 R q).

(* no event at all, not even TokEnd: the value stays inside the token it was printed in *)
Definition incl_check_strict (R : re) (q : lstate) (ok : lstate -> bool) : bool :=
  check_cert keep_all R q ok (explore 200 R q).

(* conversion hint only, see the note in Classes.v *)
Strategy 100 [explore explore_loop check_cert].

(* the usual acceptance predicates *)
Definition ok_in (l : list lstate) (q : lstate) : bool := mem_st q l.

(* ---------------------------------------------------------------- witness search (untrusted) *)

(* all 256 bytes, harmless-looking ones first so that witnesses are readable *)
Definition pref_bytes : list ascii :=
  map ascii_of_nat
      (seq 97 26 ++ seq 48 10 ++ seq 33 15 ++ seq 58 7 ++ seq 65 26 ++ seq 91 6 ++ seq 123 4
       ++ [32; 9; 10; 13] ++ seq 0 9 ++ [11; 12] ++ seq 14 18 ++ seq 127 129).

(* shortest completion: a string (reversed path) leading r to a nullable expression *)
Fixpoint complete_succs (bytes : list ascii) (r : re) (p : list ascii) (todo : list (re * list ascii))
         (seen : list re) : list (re * list ascii) :=
  match bytes with
  | [] => todo
  | c :: t =>
      let r' := deriv r c in
      if is_empty r' || mem_re r' seen || mem_re r' (map fst todo) then complete_succs t r p todo seen
      else complete_succs t r p (todo ++ [(r', c :: p)]) seen
  end.

Fixpoint complete_loop (fuel : nat) (todo : list (re * list ascii)) (seen : list re)
  : option (list ascii) :=
  match fuel with
  | O => None
  | S n =>
      match todo with
      | [] => None
      | (r, p) :: rest =>
          if nullable r then Some (rev p)
          else complete_loop n (complete_succs pref_bytes r p rest (r :: seen)) (r :: seen)
      end
  end.

Definition complete (fuel : nat) (r : re) : option (list ascii) := complete_loop fuel [(r, [])] [].

Definition wstate := (re * lstate * list ascii)%type.

(* a byte whose step from (r, q) is bad, together with a completion *)
Fixpoint bad_step (fuel : nat) (bytes : list ascii) (r : re) (q : lstate) : option (list ascii) :=
  match bytes with
  | [] => None
  | c :: t =>
      let r' := deriv r c in
      if is_empty r' then bad_step fuel t r q
      else
        let (q', evs) := step q c in
        if is_nil (structural evs) && negb (lstate_eqb q' QErr) then bad_step fuel t r q
        else match complete fuel r' with
             | Some w => Some (c :: w)
             | None => bad_step fuel t r q
             end
  end.

Fixpoint w_succs (bytes : list ascii) (r : re) (q : lstate) (p : list ascii)
         (todo : list wstate) (seen : list pstate) : list wstate :=
  match bytes with
  | [] => todo
  | c :: t =>
      let r' := deriv r c in
      let x := (r', fst (step q c)) in
      if is_empty r' || mem_ps x seen || mem_ps x (map fst todo) then w_succs t r q p todo seen
      else w_succs t r q p (todo ++ [(x, c :: p)]) seen
  end.

Fixpoint witness_loop (fuel : nat) (ok : lstate -> bool) (todo : list wstate) (seen : list pstate)
  : option (list ascii) :=
  match fuel with
  | O => None
  | S n =>
      match todo with
      | [] => None
      | (r, q, p) :: rest =>
          if nullable r && negb (ok q) then Some (rev p)
          else match bad_step fuel pref_bytes r q with
               | Some w => Some (rev p ++ w)
               | None =>
                   let seen' := (r, q) :: seen in
                   witness_loop n ok (w_succs pref_bytes r q p rest seen') seen'
               end
      end
  end.

Definition find_witness (fuel : nat) (R : re) (q : lstate) (ok : lstate -> bool) : option string :=
  match witness_loop fuel ok [(R, q, [])] [] with
  | Some l => Some (string_of_list_ascii l)
  | None => None
  end.

(* the verdict a witness must reproduce: R matches s, and from q the string emits a structural
   event or ends in a state refused by ok *)
Definition violates (R : re) (q : lstate) (ok : lstate -> bool) (s : string) : bool :=
  matches R s &&
  (let (q', e) := run q s in negb (is_nil (structural e)) || negb (ok q')).
