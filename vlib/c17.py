"""C17 -- no object the API server can admit makes the controller panic."""
import os, json, re
from . import common as C

FAMS = ("ing", "vs", "vsr", "ts", "pol", "gc")
CASE_FN = {"ing": "ing_case", "vs": "vs_case", "vsr": "vsr_case", "ts": "ts_case", "pol": "pol_case", "gc": "gc_case"}
SHARD = 6000

TRUSTED = [
    "Rocq 8.16.1 kernel incl. vm_compute (no native_compute); no axioms (Print Assumptions: closed); primitive 63-bit integers are used only in "
    "Shapes/Cases.v to decode shape codes (never in a theorem)",
    "hand-written nil-shape model coq/Shapes/Model.v of internal/k8s/validation.go (validateIngress and callees), configuration.go (AddOrUpdateIngress, "
    "rebuildHosts, convertIngressToVSR, buildMinionConfigs, DeleteIngress), controller.go (createIngressEx, createMergeableIngresses), "
    "configs/ingress.go (generateNginxCfg walk, Servers[0]), and of the CRD validators + the generator's dereference sites "
    "(virtualserver.go, transportserver.go, policy.go); tied by the correspondence harness harness/overlay/internal/verifh/c17, which materialises EVERY "
    "shape of the model's enumerations and compares Ok/Rejected/Panic stage by stage with the real code (real Configuration, real Configurator over the "
    "real templates, real LocalSecretStore, FakeManager, listers = plain cache stores)",
    "the transcription of the API server's built-in validation of Ingress (exactly one of service/resource per backend, pathType required, absolute path "
    "for Exact/Prefix, at least one path per http block, a default backend or a rule) into Model.ing_admissible and into the generators; of Service, "
    "EndpointSlice and Secret into the random generators",
    "CRD admissibility: k8s.io/apiextensions-apiserver cannot be compiled offline (github.com/google/cel-go is not in the module cache and importing an "
    "indirect dependency would rewrite /repo/go.mod), so config/crd/bases/k8s.nginx.org_*.yaml is read with k8s.io/apimachinery/pkg/util/yaml on every "
    "run and interpreted by a ~120-line validator in the harness (type, properties, items, additionalProperties, required, pattern, enum, minimum, "
    "maximum, nullable; null object properties pruned; any other keyword aborts the run)",
    "the fixtures of the harness: hosts, service/endpoint-slice/pod/secret objects, and the four (Ingress) / two or three (CRD) prior states",
]


def pack(obs):
    """digit string -> five primitive integers, base 4, 30 digits each, first digit lowest"""
    out = []
    for k in (0, 30, 60, 90, 120):
        v = 0
        for j, ch in enumerate(obs[k:k + 30]):
            v += int(ch) << (2 * j)
        out.append(str(v))
    if len(obs) > 150 or any(ch not in "0123" for ch in obs):
        raise C.TieBroken("digit string not packable: %r" % obs)
    return " ".join(out)


# Optional (nil-able) fields of the custom-resource specs, as reflection over pkg/apis/configuration/v1 lists them,
# and where each is exercised: "shape" = varied by the exhaustive shape spaces of Shapes/Model.v, "random" = only by
# the random stream.  A field the code has and this table lacks (or the reverse) means the model is stale.
INVENTORY = {f: "shape" for f in """APIKey.SuppliedIn Action.Proxy Action.Redirect Action.Return ActionProxy.RequestHeaders
 ActionProxy.ResponseHeaders EgressMTLS.VerifyDepth ErrorPage.Redirect ErrorPage.Return HealthCheck.TLS IngressMTLS.VerifyDepth
 Match.Action OIDC.ZoneSyncLeeway PolicySpec.APIKey PolicySpec.AccessControl PolicySpec.BasicAuth PolicySpec.EgressMTLS
 PolicySpec.IngressMTLS PolicySpec.JWTAuth PolicySpec.OIDC PolicySpec.RateLimit PolicySpec.WAF ProxyRequestHeaders.Pass
 RateLimit.Burst RateLimit.Condition RateLimit.Delay RateLimit.DryRun RateLimit.RejectCode RateLimitCondition.JWT Route.Action
 Split.Action TLS.CertManager TLS.Redirect TLSRedirect.Code TransportServerHealthCheck.Match TransportServerSpec.Action
 TransportServerSpec.SessionParameters TransportServerSpec.TLS TransportServerSpec.UpstreamParameters
 TransportServerUpstream.HealthCheck Upstream.BackupPort Upstream.HealthCheck Upstream.Keepalive Upstream.MaxConns
 Upstream.MaxFails Upstream.ProxyBuffering Upstream.ProxyBuffers Upstream.Queue Upstream.SessionCookie
 UpstreamParameters.UDPRequests UpstreamParameters.UDPResponses VirtualServerSpec.Listener VirtualServerSpec.TLS
 WAF.SecurityLog WAF.SecurityLogs[]*""".split()}
INVENTORY.update({f: "random" for f in """ExternalDNS.Labels{} EgressMTLS.SessionReuse HealthCheck.GRPCStatus RateLimit.NoDelay
 Upstream.Subselector{} TransportServerUpstream.BackupPort TransportServerUpstream.MaxConns TransportServerUpstream.MaxFails""".split()})


def judge_inventory(run, inv):
    if not inv:
        raise C.TieBroken("the harness did not report the inventory of optional fields")
    got = set(inv[0].get("ptr_fields") or [])
    new, gone = sorted(got - set(INVENTORY)), sorted(set(INVENTORY) - got)
    run.add_obligation(not new and not gone, "inventory of optional CRD fields (reflection over pkg/apis/configuration/v1) = the inventory the model was written against",
                       "fields the model does not know: %s; fields that no longer exist: %s" % (new, gone))
    run.cov["optional_crd_fields"] = {"total": len(got), "varied_by_shape_spaces": sum(1 for f in got if INVENTORY.get(f) == "shape"),
                                      "random_stream_only": sorted(f for f in got if INVENTORY.get(f) == "random")}


def shapes_cases_v(cases, tag):
    body = "From Coq Require Import Uint63.\nFrom NIC Require Import Shapes.Model Shapes.Cases.\nOpen Scope uint63_scope.\n"
    lines = []
    for c in cases:
        lines.append("%s %d %s %s" % (CASE_FN[c["fam"]], c["id"], c["shape"], pack(c["obs"])))
    body += "Definition results : list (list Z) := Eval vm_compute in\n  [" + ";\n   ".join(lines) + "].\nPrint results.\n"
    path = os.path.join(C.WORK, "cases", "C17_%s.v" % tag)
    C.write_cases_v(path, body)
    return path


def evaluate(cases, tag):
    """returns {id: row} for the shape cases; shards are evaluated by parallel coqc processes"""
    from concurrent.futures import ThreadPoolExecutor
    rows = {}
    good = [c for c in cases if not c.get("error")]
    parts = [good[k:k + SHARD] for k in range(0, len(good), SHARD)]
    paths = [shapes_cases_v(part, "%s_%d" % (tag, i)) for i, part in enumerate(parts)]
    with ThreadPoolExecutor(max_workers=8) as ex:
        outs = list(ex.map(C.coqc, paths))
    for part, path, (rc, out) in zip(parts, paths, outs):
        res = C.parse_z_lists(out, "results")
        if rc != 0 or res is None or len(res) != len(part):
            raise C.TieBroken("coqc could not evaluate the C17 cases file (%s): %s" % (path, out[-1500:]))
        for r in res:
            rows[r[0]] = r
    return rows


def model_counts():
    """sizes of the model's enumerations, printed by Rocq"""
    body = "From NIC Require Import Shapes.Model Shapes.Cases.\n"
    body += "Definition counts : list (list Z) := Eval vm_compute in [map (fun n => Z.of_nat n) shape_counts; [if codes_roundtrip then 1 else 0]%Z].\nPrint counts.\n"
    path = os.path.join(C.WORK, "cases", "C17_counts.v")
    C.write_cases_v(path, body)
    rc, out = C.coqc(path)
    res = C.parse_z_lists(out, "counts")
    if rc != 0 or not res:
        raise C.TieBroken("coqc could not evaluate Shapes.Cases.shape_counts: %s" % out[-1500:])
    return dict(zip(FAMS, res[0])), bool(res[1][0])


KIND_FAM = {"Ingress": "ing", "VirtualServer": "vs", "VirtualServerRoute": "vsr", "TransportServer": "ts", "Policy": "pol",
            "GlobalConfiguration": "gc", "Service": "svc", "EndpointSlice": "eps", "Secret": "secret"}


LOGDST_ANCHORED = re.compile(r'(?:(?:syslog:server=((?:\d{1,3}\.){3}\d{1,3}|localhost|[a-zA-Z0-9._-]+):\d{1,5})|stderr|(?:/[\S]+)+)')
LOGDST_ANN = "appprotect.f5.com/app-protect-security-log-destination"


def _logdst_near_miss(v):
    """contains a valid fragment (passes the unanchored format check) without being a valid destination"""
    return isinstance(v, str) and LOGDST_ANCHORED.search(v) is not None and LOGDST_ANCHORED.fullmatch(v) is None


def input_class(c, p=None):
    """the input class of a panicking case, so that a known finding only covers its own class"""
    fam = c["fam"]
    if fam == "sec":            # <name>|<type>|<key states>|<order>|<data nil>
        return "|".join(c["shape"].split("|")[:3])
    if fam == "sub":            # the sequence of VirtualServer shapes itself
        return c["shape"]
    if fam == "tref":           # <watch>|<targetRef namespace>|<order>
        return "|".join(c["shape"].split("|")[:2])
    if fam == "adv":
        is_logdst = c["shape"].startswith("ann|" + LOGDST_ANN + "|") or (c["shape"].startswith("crd|pol-waf|") and c.get("kind", "").endswith(".logDest"))
        if is_logdst:
            m = re.search(r'value=("(?:[^"\\]|\\.)*")', (p or {}).get("combo", ""))
            try:
                vals = json.loads(m.group(1)).split(",") if m else None
            except Exception:
                vals = None
            if vals is None or any(_logdst_near_miss(v) for v in vals):
                return "log-destination-with-valid-fragment"
        return "other"
    if fam == "ing":
        d = c["shape"]          # 1 d t m c a n h s k k2 r2
        if d[4] == "1" and d[6] == "1" and d[7] == "2" and d[9] in "23":
            return "challenge-label/one-rule/one-path/backend-without-service"
        return "other"
    if fam == "ts":
        d = c["shape"]          # 1 l h t u p s a
        if d[3] == "1" and d[2] == "0":
            return "tls-block-without-secret/no-host"
        return "other"
    if fam == "rnd":
        try:
            o = json.loads(json.dumps(c.get("object")))
            spec = o.get("spec") or {}
            if c.get("kind") == "Ingress":
                rules = spec.get("rules") or []
                lab = (o.get("metadata") or {}).get("labels") or {}
                if lab.get("acme.cert-manager.io/http01-solver") == "true" and len(rules) == 1:
                    paths = ((rules[0].get("http") or {}).get("paths")) or []
                    if len(paths) == 1 and not (paths[0].get("backend") or {}).get("service"):
                        return "challenge-label/one-rule/one-path/backend-without-service"
            if c.get("kind") == "TransportServer":
                tls = spec.get("tls")
                if tls is not None and not tls.get("secret") and not spec.get("host"):
                    return "tls-block-without-secret/no-host"
            if c.get("kind") == "Ingress":
                v = ((o.get("metadata") or {}).get("annotations") or {}).get(LOGDST_ANN)
                if v is not None and any(_logdst_near_miss(x) for x in v.split(",")):
                    return "log-destination-with-valid-fragment"
            if c.get("kind") == "Policy":
                waf = spec.get("waf") or {}
                logs = [waf.get("securityLog")] + list(waf.get("securityLogs") or [])
                if any(_logdst_near_miss((l or {}).get("logDest")) for l in logs):
                    return "log-destination-with-valid-fragment"
        except Exception:
            pass
        return "other"
    return "other"


def panic_sig(c, p):
    fam = c["fam"] if c["fam"] != "rnd" else KIND_FAM.get(c.get("kind"), "rnd")
    return {"kind": "panic", "fam": fam, "stage": p["stage"], "site": p["site"], "class": input_class(c, p)}


def judge_shapes(run, cases, rows, counts=None):
    seen = {f: set() for f in FAMS}
    tags = {}
    for c in cases:
        fam = c["fam"]
        if c.get("error"):
            run.failing({"kind": "harness-case-error", "fam": fam}, [c],
                        "the harness could not run shape %s of family %s: %s" % (c.get("shape"), fam, c["error"][:300]),
                        theorem="correspondence harness c17", found_input=False)
            continue
        row = rows.get(c["id"])
        if row is None:
            continue
        cid, agree, spec, nontrivial, tag = row
        if tag < 0:
            run.failing({"kind": "descriptor", "fam": fam}, [c], "Rocq does not parse the shape descriptor %s (family %s)" % (c["shape"], fam),
                        theorem="Shapes.Cases.parse_*", found_input=False)
            continue
        seen[fam].add(c["shape"])
        if fam != "ing" and c.get("admitted") is not True:
            run.failing({"kind": "schema", "fam": fam}, [c], "%s shape %s is not admitted by the published CRD schema (config/crd/bases) although the model "
                        "assumes every shape of this space is" % (fam, c["shape"]), theorem="admissibility of the CRD shape spaces", found_input=False)
        run.count_case({"fam": fam, "shape": c["shape"]}, bool(nontrivial))
        run.cov["traces_validated_against_impl"] += 1
        k = "%s:%s" % (fam, {0: "inadmissible", 1: "admissible"}[tag // 10] + "/" + {0: "ok", 1: "rejected", 2: "panic"}[tag % 10])
        tags[k] = tags.get(k, 0) + 1
        if not spec:
            ps = c.get("panics") or [{"stage": "?", "site": "?", "msg": "?", "combo": "?"}]
            p = ps[0]
            run.failing(panic_sig(c, p), [c],
                        "an admissible %s shape makes the real code panic: shape %s, stage %s (%s), in %s: %s"
                        % (fam, c["shape"], p["stage"], p["combo"], p["site"], p["msg"][:160]), theorem="Shapes.Cases spec (no panic digit)")
        elif c.get("flagdiff"):
            run.failing({"kind": "flag-dependence", "fam": fam}, [c],
                        "the outcome for %s shape %s depends on a feature flag the model does not read: %s" % (fam, c["shape"], json.dumps(c["flagdiff"][:2])),
                        theorem="correspondence Shapes.Model ~ real code (flags)", found_input=False)
        elif not agree and c.get("panics") and all(C.match_known(run.pid, panic_sig(c, p)) for p in c["panics"]):
            # the disagreement is a panic at the site of an open known finding, on an inadmissible shape
            run.failing(panic_sig(c, c["panics"][0]), [c], "panic at the site of a known finding (inadmissible shape %s)" % c["shape"])
        elif not agree:
            run.failing({"kind": "correspondence", "fam": fam}, [c],
                        "model and implementation disagree on %s shape %s (and the specification still holds on it): obs=%s"
                        % (fam, c["shape"], c["obs"]), theorem="correspondence Shapes.Model ~ real code", found_input=False)
    run.cov.setdefault("by_class", {}).update(tags)
    run.cov["stage_observations_compared"] = run.cov.get("stage_observations_compared", 0) + sum(
        len(c.get("obs", "")) * max(1, c.get("others", 1)) for c in cases if not c.get("error"))
    if counts is not None:
        ex = {}
        for fam in FAMS:
            ex[fam] = {"model_enumeration": counts.get(fam, 0), "distinct_shapes_run": len(seen[fam])}
            if len(seen[fam]) != counts.get(fam, 0):
                run.failing({"kind": "not-exhaustive", "fam": fam}, [],
                            "family %s: the harness ran %d distinct shapes but the model's enumeration has %d" % (fam, len(seen[fam]), counts.get(fam, 0)),
                            theorem="exhaustive shape sweep", found_input=False)
        run.cov["shape_sweep"] = ex
        run.cov["exhaustive"] = all(v["model_enumeration"] == v["distinct_shapes_run"] and v["model_enumeration"] > 0 for v in ex.values())


def judge_adversarial(run, cases):
    """family adv: near-miss values on every annotation and on every string leaf of rich custom resources; S only"""
    tot = {"fields": 0, "values": 0, "validations": 0, "accepted_and_run_through_store_extend_generate": 0}
    for c in cases:
        if c.get("error"):
            run.failing({"kind": "harness-case-error", "fam": "adv"}, [c], "the harness could not run adversarial job %s: %s" % (c.get("shape"), c["error"][:300]),
                        theorem="correspondence harness c17", found_input=False)
            continue
        tot["fields"] += 1
        tot["values"] += c.get("values", 0)
        tot["validations"] += c.get("tried", 0)
        tot["accepted_and_run_through_store_extend_generate"] += c.get("acc_runs", 0)
        run.count_case({"fam": "adv", "shape": c["shape"]}, c.get("acc_runs", 0) > 0)
        seen = set()
        for p in c.get("panics") or []:
            sig = panic_sig(c, p)
            key = json.dumps(sig, sort_keys=True)
            if key in seen:
                continue
            seen.add(key)
            one = dict(c)
            one["panics"] = [p]
            run.failing(sig, [one], "an admissible object with a near-miss value on %s makes the real code panic (%s) at stage %s in %s: %s"
                        % (c["shape"] + (" " + c["kind"] if c.get("kind") else ""), p["combo"][:120], p["stage"], p["site"], p["msg"][:120]),
                        theorem="S: no panic on admissible objects (adversarial values)")
    run.cov["adversarial_values"] = tot


def judge_secrets(run, cases):
    """family sec: every type / key-state shape of the Secrets the fixtures' resources reference, both arrival orders; S only"""
    n_adm = 0
    for c in cases:
        if c.get("error"):
            run.failing({"kind": "harness-case-error", "fam": "sec"}, [c], "the harness could not run secret shape %s: %s" % (c.get("shape"), c["error"][:300]),
                        theorem="correspondence harness c17", found_input=False)
            continue
        adm = bool(c.get("admitted"))
        n_adm += adm
        run.count_case({"fam": "sec", "shape": c["shape"]}, adm)
        if adm and c.get("panics"):
            p = c["panics"][0]
            run.failing(panic_sig(c, p), [c], "an admissible Secret (shape %s) makes the real code panic (%s) in %s: %s" % (c["shape"], p["combo"], p["site"], p["msg"][:120]),
                        theorem="S: no panic on admissible objects (Secret shapes)")
    run.cov["secret_shapes"] = {"shapes": len(cases), "admissible": n_adm}


def judge_subcontrollers(run, cases):
    """family sub: the real cert-manager / external-dns SyncFnFor over every 3-step sequence of VirtualServer shapes of one instance; S only"""
    n_adm = 0
    for c in cases:
        if c.get("error"):
            run.failing({"kind": "harness-case-error", "fam": "sub"}, [c], "the harness could not run the sequence %s: %s" % (c.get("shape"), c["error"][:300]),
                        theorem="correspondence harness c17", found_input=False)
            continue
        adm = bool(c.get("admitted"))
        n_adm += adm
        run.count_case({"fam": "sub", "shape": c["shape"]}, adm)
        if adm and c.get("panics"):
            p = c["panics"][0]
            sig = panic_sig(c, p)
            sig["class"] = "shape-sequence"     # grouped by entry point and site; the replay carries the sequences
            run.failing(sig, [c], "a sequence of admissible versions of one VirtualServer (%s) makes %s panic in %s: %s"
                        % (p["combo"], p["stage"], p["site"], p["msg"][:120]), theorem="S: no panic on admissible objects (sub-controller shape sequences)")
    run.cov["subcontroller_sequences"] = {"sequences": len(cases), "admissible": n_adm, "steps": sum(c.get("tried", 0) for c in cases)}


def judge_targetref(run, cases):
    """family tref: EndpointSlices whose ready endpoint has no / a watched / an empty / an unwatched targetRef namespace, with and without -watch-namespace; S only"""
    for c in cases:
        if c.get("error"):
            run.failing({"kind": "harness-case-error", "fam": "tref"}, [c], "the harness could not run targetRef case %s: %s" % (c.get("shape"), c["error"][:300]),
                        theorem="correspondence harness c17", found_input=False)
            continue
        adm = bool(c.get("admitted"))
        run.count_case({"fam": "tref", "shape": c["shape"]}, adm)
        if adm and c.get("panics"):
            p = c["panics"][0]
            run.failing(panic_sig(c, p), [c], "an admissible EndpointSlice (case %s: watch-namespace | targetRef.namespace | order) makes the real code panic (%s) in %s: %s"
                        % (c["shape"], p["combo"], p["site"], p["msg"][:120]), theorem="S: no panic on admissible objects (EndpointSlice targetRef namespaces)")
    run.cov["endpointslice_targetref_cases"] = len(cases)


def judge_random(run, cases):
    n_adm = 0
    n_acc = 0
    kinds = {}
    for c in cases:
        if c.get("error"):
            run.failing({"kind": "harness-case-error", "fam": "rnd"}, [c], "the harness could not run random case %d: %s" % (c["id"], c["error"][:300]),
                        theorem="correspondence harness c17", found_input=False)
            continue
        adm = c.get("admitted")
        kinds[c.get("kind", "?")] = kinds.get(c.get("kind", "?"), 0) + 1
        if adm:
            n_adm += 1
            if c.get("accepted"):
                n_acc += 1
                kinds[c.get("kind", "?") + ":admitted+accepted"] = kinds.get(c.get("kind", "?") + ":admitted+accepted", 0) + 1
        run.count_case({"kind": c.get("kind"), "object": c.get("object"), "flags": c.get("flags"), "ctx": c.get("ctx")}, bool(adm))
        if adm and c.get("panics"):
            p = c["panics"][0]
            run.failing(panic_sig(c, p), [c], "a schema-admissible %s makes the real code panic at stage %s in %s: %s"
                        % (c.get("kind"), p["stage"], p["site"], p["msg"][:160]), theorem="S: no panic on admissible objects")
    run.cov["random_stream"] = {"cases": len(cases), "admitted": n_adm, "admitted_and_accepted_by_the_validator": n_acc, "by_kind": kinds}


def check(run):
    n = 1500 if run.tier == "quick" else 30000
    rc, mk = C.coq_make(only=["Base", "Shapes", "Properties/C17.v"], tag="c17")
    if rc != 0:
        run.failing({"kind": "proof-broken"}, [], "the Shapes development no longer builds: %s" % mk[-1200:], theorem="coq/Shapes", found_input=False)
        return
    run.proof_obligations()
    binary = C.go_build("c17")
    out = os.path.join(C.WORK, "cases", "c17_%s.jsonl" % run.tier)
    rc, log = C.run_harness(binary, ["-seed", str(run.seed), "-n", str(n), "-out", out, "-tier", run.tier], timeout=6000)
    if rc != 0:
        raise C.TieBroken("c17 harness failed rc=%d: %s" % (rc, log[-1500:]))
    cases = C.read_jsonl(out)
    shapes = [c for c in cases if c["fam"] not in ("rnd", "inv", "adv", "sec", "sub", "tref")]
    rnd = [c for c in cases if c["fam"] == "rnd"]
    judge_inventory(run, [c for c in cases if c["fam"] == "inv"])
    judge_adversarial(run, [c for c in cases if c["fam"] == "adv"])
    judge_secrets(run, [c for c in cases if c["fam"] == "sec"])
    judge_subcontrollers(run, [c for c in cases if c["fam"] == "sub"])
    judge_targetref(run, [c for c in cases if c["fam"] == "tref"])
    counts, roundtrip = model_counts()
    run.add_obligation(roundtrip, "Shapes.Cases.codes_roundtrip", "a shape code does not decode back to its shape")
    rows = evaluate(shapes, run.tier)
    judge_shapes(run, shapes, rows, counts)
    judge_random(run, rnd)
    for fam in FAMS:
        for c in shapes:
            if c["fam"] == fam and "2" not in c.get("obs", "") and "1" in c.get("obs", "") and "0" in c.get("obs", ""):
                run.sample({k: c[k] for k in ("fam", "shape", "obs")}, limit=8)
                break
    run.cov["rule"] = ("X: every shape of the finite shape spaces of coq/Shapes/Model.v (Ingress: default backend none/service/resource/neither, tls, 0-2 rules, "
                       "http nil or 0-2 paths, pathType nil/ImplementationSpecific+empty path/Prefix, backend service/resource/neither, mergeable-type annotation "
                       "none/master/minion/garbage, cert-manager challenge label, use-cluster-ip/health-check annotations; CRDs: see Model.v) is materialised as a "
                       "concrete object and run through validator, Configuration.AddOrUpdate* against 4 prior states, createExtendedResources + Configurator with the "
                       "real templates, Delete*, and the worker's sync function, for every setting of the flags the model reads; the remaining flags rotate per shape "
                       "(quick) or are swept (thorough).  A shape counts as nontrivial when it is API-admissible.  S: random schema-admissible objects with values; "
                       "only objects accepted by the structural-schema validator (CRDs) / the transcribed built-in rules count.  "
                       "S, adversarial values (family adv): every annotation of the validator's table and every string leaf of rich valid VirtualServer / VirtualServerRoute / "
                       "TransportServer / Policy (one per kind) / GlobalConfiguration objects gets every value of a near-miss grammar of its valid value (junk prefix/suffix, "
                       "separator removed / doubled / alone, part emptied, truncation at each separator, only separators, out-of-range numbers, 5000-byte, non-ASCII, control "
                       "characters, quotes, braces, backslashes); validators run under Plus/AppProtect/DoS on and off x the other four flags all on / all off; accepted values go "
                       "through store, createExtendedResources, the Configurator and the sync function (also as master and as minion annotations).  "
                       "S, Secret shapes (family sec): each Secret the fixtures reference x type right / Opaque / wrong / empty x every key absent / empty / valid / garbage "
                       "(and data nil) x both arrival orders, synced through syncSecret against VirtualServers with IngressMTLS / EgressMTLS / JWT / BasicAuth / OIDC / APIKey "
                       "policies, TLS-terminating VirtualServer / Ingress / TransportServer and an Ingress with basic-auth and JWT annotations.")
    run.cov["trusted_base"] = TRUSTED
    run.assumptions += [
        "built-in kinds: the API server's validation of Ingress/Service/Secret/EndpointSlice is transcribed (not executed): exactly one of service/resource per "
        "backend; pathType required; Exact/Prefix paths absolute; an http block has >= 1 path; a default backend or >= 1 rule; list items are never null",
        "panics that depend on values rather than shapes (crafted strings, regexp2 corner cases) are only searched by the random stream, not proved absent",
        "custom resources: the theorems cover validation, arbitration and the generator's dereference sites of the modelled optional fields; the rest of "
        "internal/configs/virtualserver.go / transportserver.go and the templates is exercised (every shape, real templates) but not modelled",
        "App Protect / DoS resources (unstructured), IngressLink, ConfigMap parsing and the status updater are not driven",
        "the prior states are those of Model.all_ctx (Ingress: empty; a VirtualServer owning the host; master+minion on the host; a lone minion), "
        "Model.all_vctx (VirtualServer: empty; an older VirtualServer on the host; a GlobalConfiguration; the referenced VirtualServerRoute stored with 0, 1 "
        "agreeing, 1 other, 2 subroutes), Model.all_rctx (VirtualServerRoute: orphan; a VirtualServer referencing it from a prefix, exact or regex path) "
        "and Model.all_tctx; the objects of the prior states are older than the object under test",
    ]


def replay(run, path):
    binary = C.go_build("c17")
    out = os.path.join(C.WORK, "cases", "c17_replay.jsonl")
    rc, log = C.run_harness(binary, ["-replay", path, "-out", out], timeout=1200)
    if rc != 0:
        raise C.TieBroken("c17 harness failed on replay: %s" % log[-1500:])
    cases = C.read_jsonl(out)
    shapes = [c for c in cases if c["fam"] not in ("rnd", "inv", "adv", "sec", "sub", "tref")]
    rnd = [c for c in cases if c["fam"] == "rnd"]
    adv = [c for c in cases if c["fam"] == "adv"]
    sec = [c for c in cases if c["fam"] == "sec"]
    rows = evaluate(shapes, "replay")
    for c in shapes:
        r = rows.get(c["id"])
        print("replay %s shape %s: impl digits=%s panics=%s  model-agrees=%s spec=%s" % (
            c["fam"], c["shape"], c.get("obs"), json.dumps(c.get("panics", [])[:2]), r and r[1], r and r[2]))
    for c in rnd:
        print("replay random %s: admitted=%s panics=%s" % (c.get("kind"), c.get("admitted"), json.dumps(c.get("panics", [])[:2])))
    for c in adv:
        print("replay adversarial job %s %s: values=%s validations=%s panics=%s" % (c["shape"], c.get("kind", ""), c.get("values"), c.get("tried"), json.dumps(c.get("panics", [])[:3])))
    judge_shapes(run, shapes, rows)
    judge_random(run, rnd)
    judge_adversarial(run, adv)
    for c in sec:
        print("replay secret shape %s: admitted=%s panics=%s" % (c["shape"], c.get("admitted"), json.dumps(c.get("panics", [])[:2])))
    judge_secrets(run, sec)
    sub = [c for c in cases if c["fam"] == "sub"]
    for c in sub:
        print("replay sub-controller sequence %s: admitted=%s panics=%s" % (c["shape"], c.get("admitted"), json.dumps(c.get("panics", [])[:2])))
    judge_subcontrollers(run, sub)
    tref = [c for c in cases if c["fam"] == "tref"]
    for c in tref:
        print("replay targetRef case %s: admitted=%s panics=%s" % (c["shape"], c.get("admitted"), json.dumps(c.get("panics", [])[:2])))
    judge_targetref(run, tref)
