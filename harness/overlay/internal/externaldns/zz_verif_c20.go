//go:build verif

package externaldns

import (
	clientset "github.com/nginx/kubernetes-ingress/pkg/client/clientset/versioned"
	extdnslisters "github.com/nginx/kubernetes-ingress/pkg/client/listers/externaldns/v1"
	"k8s.io/client-go/tools/record"
)

// VerifSyncFn returns the production reconciliation function (SyncFnFor) wired to the given
// client and DNSEndpoint lister the way NewController wires it, with one informer group entry
// that watches every namespace.  Add-only export for the C20 correspondence harness.
func VerifSyncFn(rec record.EventRecorder, cl clientset.Interface, lister extdnslisters.DNSEndpointLister) SyncFn {
	ig := map[string]*namespacedInformer{"": {extdnslister: lister}}
	return SyncFnFor(rec, cl, ig)
}
