(* C17 -- nil-shape models.  Executable Gallina, NO proofs.

   Every Go dereference of an optional pointer ([x.F.G] with [F] a pointer) and every index
   into a possibly empty slice ([xs[0]]) is an explicit [deref] / [index0] that yields [Pan]
   (the process panics) on nil / empty -- in the same order as the Go code, with the guards
   (early returns, nil checks, len checks) of the code modelled as they are written.

   Values (strings, numbers) are not modelled beyond what switches a code path: whether a
   path string is empty, which of the two hosts a rule names, whether an annotation is there. *)
From Coq Require Import List Bool Arith.
Import ListNotations.

(* ------------------------------------------------------------------ the panic monad *)

Inductive R (A : Type) : Type :=
| Val (a : A)
| Pan.
Arguments Val {A} a.
Arguments Pan {A}.

Definition bind {A B} (m : R A) (f : A -> R B) : R B :=
  match m with Val a => f a | Pan => Pan end.

Notation "x <- m ;; k" := (bind m (fun x => k)) (at level 61, m at next level, right associativity).
Notation "m ;;; k" := (bind m (fun _ => k)) (at level 61, right associativity).

(* Go: [*p] / [p.f] for a pointer p *)
Definition deref {A} (o : option A) : R A :=
  match o with Some a => Val a | None => Pan end.

(* Go: [xs[0]] *)
Definition index0 {A} (l : list A) : R A :=
  match l with a :: _ => Val a | [] => Pan end.

(* a Go [for _, x := range xs { body }] whose body may panic and accumulates a flag *)
Fixpoint for_each {A} (f : A -> R bool) (l : list A) : R bool :=
  match l with
  | [] => Val false
  | a :: t => e <- f a ;; e' <- for_each f t ;; Val (e || e')
  end.

Inductive outcome := OOk | ORejected | OPanic.

Definition is_panic (o : outcome) : bool := match o with OPanic => true | _ => false end.

Definition outcome_eqb (a b : outcome) : bool :=
  match a, b with OOk, OOk | ORejected, ORejected | OPanic, OPanic => true | _, _ => false end.

(* a validator returns "has errors"; [true] = rejected with a report *)
Definition verdict (r : R bool) : outcome :=
  match r with Val false => OOk | Val true => ORejected | Pan => OPanic end.

(* ------------------------------------------------------------------ feature flags *)

Record flags := {
  f_plus : bool;          (* -nginx-plus *)
  f_approtect : bool;     (* -enable-app-protect *)
  f_dos : bool;           (* -enable-app-protect-dos *)
  f_internal : bool;      (* -enable-internal-routes *)
  f_snippets : bool;      (* -enable-snippets *)
  f_certmgr : bool;       (* -enable-cert-manager *)
  f_tlspass : bool        (* -enable-tls-passthrough *)
}.

(* the two flags the Ingress pipeline reads (validateIngress: isPlus; Configuration:
   isCertManagerEnabled); the other five do not occur in the modelled functions *)
Record iflags := { if_plus : bool; if_certmgr : bool }.
Definition iflags_of (fl : flags) : iflags := {| if_plus := f_plus fl; if_certmgr := f_certmgr fl |}.

(* ================================================================== Ingress *)

(* networking.IngressBackend{Service *IngressServiceBackend; Resource *TypedLocalObjectReference} *)
Record backend := { b_svc : option unit; b_res : option unit }.

Inductive ptype := PTImpl | PTPrefix | PTExact.

(* networking.HTTPIngressPath{Path string; PathType *PathType; Backend IngressBackend};
   p_id distinguishes the path strings of one rule *)
Record path := { p_id : nat; p_empty : bool; p_type : option ptype; p_backend : backend }.

(* networking.IngressRule{Host; HTTP *HTTPIngressRuleValue{Paths []HTTPIngressPath}} *)
Record rule := { r_host : nat; r_http : option (list path) }.

(* value of the annotation nginx.org/mergeable-ingress-type *)
Inductive merge := MNone | MMaster | MMinion | MGarbage.

(* other annotations that switch code paths:
   AClusterIP = nginx.org/use-cluster-ip: true
   AHealth    = nginx.com/health-checks: true (Plus only) + use-cluster-ip *)
Inductive annots := ANone | AClusterIP | AHealth.

Record ingress := {
  i_key : nat;                       (* namespace/name, ordered *)
  i_created : nat;                   (* creationTimestamp; smaller = older *)
  i_default : option backend;        (* spec.defaultBackend *)
  i_tls : nat;                       (* len(spec.tls) *)
  i_rules : list rule;
  i_merge : merge;
  i_chal : bool;                     (* label acme.cert-manager.io/http01-solver=true *)
  i_ann : annots
}.

Definition is_minion (i : ingress) : bool := match i_merge i with MMinion => true | _ => false end.
Definition is_master (i : ingress) : bool := match i_merge i with MMaster => true | _ => false end.

(* --- internal/k8s/validation.go *)

(* validateBackend: resource backends are not supported *)
Definition validate_backend (b : backend) : bool :=
  match b_res b with Some _ => true | None => false end.

(* validatePath: [path == "" && pathType != nil && *pathType == ImplementationSpecific] -> ok;
   [path == ""] -> Required; the generated non-empty paths are valid strings *)
Definition validate_path (p : path) : bool :=
  if p_empty p then
    match p_type p with Some PTImpl => false | _ => true end
  else false.

Definition validate_rule_paths (r : rule) : bool :=
  match r_http r with
  | None => false                                     (* if r.HTTP == nil { continue } *)
  | Some ps => existsb (fun p => validate_path p || validate_backend (p_backend p)) ps
  end.

Fixpoint dup_hosts (seen : list nat) (rs : list rule) : bool :=
  match rs with
  | [] => false
  | r :: t => existsb (Nat.eqb (r_host r)) seen || dup_hosts (r_host r :: seen) t
  end.

(* validateIngressSpec *)
Definition validate_spec (i : ingress) : bool :=
  let e0 := match i_default i with Some b => validate_backend b | None => false end in
  match i_rules i with
  | [] => true                                        (* Required(rules) *)
  | rs => e0 || dup_hosts [] rs || existsb validate_rule_paths rs
  end.

(* validateMasterSpec: [len(spec.Rules) != 1] returns before [spec.Rules[0]] *)
Definition validate_master (i : ingress) : R bool :=
  if negb (Nat.eqb (List.length (i_rules i)) 1) then Val true
  else
    r0 <- index0 (i_rules i) ;;
    match r_http r0 with
    | Some (_ :: _) => Val true
    | _ => Val false
    end.

(* validateMinionSpec *)
Definition validate_minion (i : ingress) : R bool :=
  let e_tls := Nat.ltb 0 (i_tls i) in
  if negb (Nat.eqb (List.length (i_rules i)) 1) then Val true
  else
    r0 <- index0 (i_rules i) ;;
    match r_http r0 with
    | None | Some [] => Val true
    | Some _ => Val e_tls
    end.

(* validateChallengeIngress as REPAIRED by fixes/F05.diff: return after the Required error *)
Definition validate_challenge (i : ingress) : R bool :=
  if negb (Nat.eqb (List.length (i_rules i)) 1) then Val true
  else
    r <- index0 (i_rules i) ;;
    match r_http r with
    | None => Val true
    | Some ps =>
        if negb (Nat.eqb (List.length ps) 1) then Val true
        else
          p <- index0 ps ;;
          match b_svc (p_backend p) with
          | None => Val true                          (* Required(...Backend.Service); return *)
          | Some _ =>
              _ <- deref (b_svc (p_backend p)) ;;     (* p.Backend.Service.Port.Name *)
              Val false
          end
    end.

(* validateChallengeIngress as it is in the unpatched tree (finding F05): the Required error
   is appended and execution continues into [p.Backend.Service.Port.Name] *)
Definition validate_challenge_old (i : ingress) : R bool :=
  if negb (Nat.eqb (List.length (i_rules i)) 1) then Val true
  else
    r <- index0 (i_rules i) ;;
    match r_http r with
    | None => Val true
    | Some ps =>
        if negb (Nat.eqb (List.length ps) 1) then Val true
        else
          p <- index0 ps ;;
          let e := match b_svc (p_backend p) with None => true | Some _ => false end in
          _ <- deref (b_svc (p_backend p)) ;;
          Val e
    end.

(* validateIngressAnnotations for the annotations of the shape space *)
Definition validate_annotations (fl : iflags) (i : ingress) : bool :=
  (match i_merge i with MGarbage => true | _ => false end) ||
  (match i_ann i with AHealth => negb (if_plus fl) | _ => false end).

(* validateIngress; [chal] is the challenge validator in force (repaired or old) *)
Definition validate_ingress_with (chal : ingress -> R bool) (fl : iflags) (i : ingress) : R bool :=
  let e1 := validate_annotations fl i in
  let e2 := validate_spec i in
  e3 <- (if is_master i then validate_master i
         else if is_minion i then validate_minion i else Val false) ;;
  e4 <- (if i_chal i then chal i else Val false) ;;
  Val (e1 || e2 || e3 || e4).

Definition validate_ingress := validate_ingress_with validate_challenge.
Definition validate_ingress_old := validate_ingress_with validate_challenge_old.

(* --- internal/k8s/configuration.go *)

(* the arbitrated state as far as Ingress processing looks at it *)
Record vserver := { v_host : nat; v_created : nat }.
Record state := { s_ings : list ingress;        (* c.ingresses, sorted by key *)
                  s_vss : list vserver }.       (* c.virtualServers (hosts only) *)

Definition empty_state := {| s_ings := []; s_vss := [] |}.

Fixpoint remove_key (k : nat) (l : list ingress) : list ingress :=
  match l with
  | [] => []
  | i :: t => if Nat.eqb (i_key i) k then remove_key k t else i :: remove_key k t
  end.

Fixpoint insert_key (x : ingress) (l : list ingress) : list ingress :=
  match l with
  | [] => [x]
  | i :: t => if Nat.ltb (i_key x) (i_key i) then x :: i :: t
              else if Nat.eqb (i_key x) (i_key i) then x :: t
              else i :: insert_key x t
  end.

(* isChallengeIngressOwnerVs *)
Definition vs_owns (st : state) (h : nat) : bool :=
  existsb (fun v => Nat.eqb (v_host v) h) (s_vss st).

(* convertIngressToVSR: [rule := ing.Spec.Rules[0]]; not the owner -> nil; then
   rule.HTTP.Paths[0].Backend.Service.Name.  Returns whether a VSR was produced. *)
Definition convert_to_vsr (st : state) (i : ingress) : R bool :=
  r <- index0 (i_rules i) ;;
  if negb (vs_owns st (r_host r)) then Val false
  else
    ps <- deref (r_http r) ;;
    p <- index0 ps ;;
    _ <- deref (b_svc (p_backend p)) ;;
    Val true.

(* buildMinionConfigs(masterHost): for every stored minion:
   [ingress.Spec.Rules[0].Host], then [range ingress.Spec.Rules[0].HTTP.Paths].
   Returns the minions attached to the master. *)
Fixpoint build_minions (master_host : nat) (ings : list ingress) : R (list ingress) :=
  match ings with
  | [] => Val []
  | m :: t =>
      if negb (is_minion m) then build_minions master_host t
      else
        r0 <- index0 (i_rules m) ;;
        if negb (Nat.eqb master_host (r_host r0)) then build_minions master_host t
        else
          _ <- deref (r_http r0) ;;
          rest <- build_minions master_host t ;;
          Val (m :: rest)
  end.

(* who holds a host: an Ingress (by key) or a VirtualServer; with its creation time *)
Inductive holder := HIng (key created : nat) | HVs (created : nat).
Definition holder_created (h : holder) : nat :=
  match h with HIng _ c => c | HVs c => c end.

Fixpoint lookup_host (h : nat) (m : list (nat * holder)) : option holder :=
  match m with
  | [] => None
  | (h', x) :: t => if Nat.eqb h h' then Some x else lookup_host h t
  end.

Fixpoint set_host (h : nat) (x : holder) (m : list (nat * holder)) : list (nat * holder) :=
  match m with
  | [] => [(h, x)]
  | (h', y) :: t => if Nat.eqb h h' then (h, x) :: t else (h', y) :: set_host h x t
  end.

(* claim a host: the older resource wins (chooseObjectMetaWinner; creation times are distinct) *)
Definition claim (h : nat) (x : holder) (m : list (nat * holder)) : list (nat * holder) :=
  match lookup_host h m with
  | None => set_host h x m
  | Some y => if Nat.ltb (holder_created y) (holder_created x) then m else set_host h x m
  end.

(* a resource built by buildHostsAndResources: the Ingress and, for a master, its minions *)
Record ing_resource := { ir_ing : ingress; ir_minions : list ingress }.

(* buildHostsAndResources, steps 1 and 2 *)
Fixpoint build_hosts_ings (fl : iflags) (st : state) (ings : list ingress)
         (hosts : list (nat * holder)) (res : list ing_resource)
  : R (list (nat * holder) * list ing_resource) :=
  match ings with
  | [] => Val (hosts, res)
  | i :: t =>
      if is_minion i then build_hosts_ings fl st t hosts res
      else
        converted <- (if if_certmgr fl && i_chal i then convert_to_vsr st i else Val false) ;;
        if (converted : bool) then build_hosts_ings fl st t hosts res
        else
          minions <- (if is_master i then
                        r0 <- index0 (i_rules i) ;; build_minions (r_host r0) (s_ings st)
                      else Val []) ;;
          let hosts' := fold_left (fun m r => claim (r_host r) (HIng (i_key i) (i_created i)) m)
                                  (i_rules i) hosts in
          build_hosts_ings fl st t hosts' (res ++ [{| ir_ing := i; ir_minions := minions |}])
  end.

Definition build_hosts (fl : iflags) (st : state) : R (list (nat * holder) * list ing_resource) :=
  hr <- build_hosts_ings fl st (s_ings st) [] [] ;;
  let '(hosts, res) := hr in
  Val (fold_left (fun m v => claim (v_host v) (HVs (v_created v)) m) (s_vss st) hosts, res).

(* addProblemsForOrphanMinions: [c.hosts[ing.Spec.Rules[0].Host]] for every stored minion *)
Fixpoint orphan_minions (ings : list ingress) : R unit :=
  match ings with
  | [] => Val tt
  | m :: t => if is_minion m then (_ <- index0 (i_rules m) ;; orphan_minions t)
              else orphan_minions t
  end.

(* rebuildHosts *)
Definition rebuild_hosts (fl : iflags) (st : state) : R (list (nat * holder) * list ing_resource) :=
  hr <- build_hosts fl st ;;
  _ <- orphan_minions (s_ings st) ;;
  Val hr.

(* Configuration.AddOrUpdateIngress: validate, then store or drop, then rebuild.
   Result: new state and "rejected". *)
Definition add_or_update_with (chal : ingress -> R bool) (fl : iflags) (st : state) (i : ingress)
  : R (state * bool) :=
  rejected <- validate_ingress_with chal fl i ;;
  let ings := if (rejected : bool) then remove_key (i_key i) (s_ings st)
              else insert_key i (s_ings st) in
  let st' := {| s_ings := ings; s_vss := s_vss st |} in
  _ <- rebuild_hosts fl st' ;;
  Val (st', rejected).

Definition add_or_update := add_or_update_with validate_challenge.

(* Configuration.DeleteIngress *)
Definition delete_ingress (fl : iflags) (st : state) (k : nat) : R state :=
  if existsb (fun i => Nat.eqb (i_key i) k) (s_ings st) then
    let st' := {| s_ings := remove_key k (s_ings st); s_vss := s_vss st |} in
    _ <- rebuild_hosts fl st' ;; Val st'
  else Val st.

(* --- internal/k8s/controller.go createIngressEx + internal/configs/ingress.go generateNginxCfg *)

Definition holds (hosts : list (nat * holder)) (key h : nat) : bool :=
  match lookup_host h hosts with Some (HIng k _) => Nat.eqb k key | _ => false end.

(* one backend: getServiceForIngressBackend starts with [backend.Service.Name] *)
Definition use_backend (b : backend) : R unit := _ <- deref (b_svc b) ;; Val tt.

Fixpoint use_paths (ps : list path) : R unit :=
  match ps with
  | [] => Val tt
  | p :: t => _ <- use_backend (p_backend p) ;; use_paths t
  end.

(* createIngressEx / generateNginxCfg walk the object in the same way: the default backend
   unconditionally, then the paths of every rule whose host this resource holds
   (every path of a minion of this shape space is valid: its path strings are its own) *)
Fixpoint use_rules (valid_host : nat -> bool) (rs : list rule) : R unit :=
  match rs with
  | [] => Val tt
  | r :: t =>
      _ <- (if valid_host (r_host r) then
              match r_http r with None => Val tt | Some ps => use_paths ps end
            else Val tt) ;;
      use_rules valid_host t
  end.

Definition create_ingress_ex (valid_host : nat -> bool) (i : ingress) : R unit :=
  _ <- (match i_default i with Some b => use_backend b | None => Val tt end) ;;
  use_rules valid_host (i_rules i).

(* generateNginxCfgForMergeableIngresses: [masterNginxCfg.Servers[0]]; one server per rule
   with a valid host *)
Definition master_server (valid_host : nat -> bool) (i : ingress) : R unit :=
  _ <- index0 (filter (fun r => valid_host (r_host r)) (i_rules i)) ;; Val tt.

Fixpoint for_all_unit {A} (f : A -> R unit) (l : list A) : R unit :=
  match l with [] => Val tt | a :: t => _ <- f a ;; for_all_unit f t end.

(* createExtendedResources(GetResources()) followed by Configurator.AddOrUpdate(Mergeable)Ingress
   for every Ingress resource that holds at least one host *)
Definition extend_resource (hosts : list (nat * holder)) (r : ing_resource) : R unit :=
  let i := ir_ing r in
  let vh := holds hosts (i_key i) in
  if negb (existsb (fun ru => vh (r_host ru)) (i_rules i)) then Val tt   (* not in c.hosts *)
  else if is_master i then
    _ <- create_ingress_ex vh i ;;
    _ <- for_all_unit (fun m => create_ingress_ex vh m) (ir_minions r) ;;
    (* generation: master, Servers[0], then each minion without its default backend *)
    _ <- create_ingress_ex vh i ;;
    _ <- master_server vh i ;;
    for_all_unit (fun m => use_rules vh (i_rules m)) (ir_minions r)
  else
    _ <- create_ingress_ex vh i ;;
    create_ingress_ex vh i.

Definition extend_all (fl : iflags) (st : state) : R unit :=
  hr <- rebuild_hosts fl st ;;
  let '(hosts, res) := hr in
  for_all_unit (extend_resource hosts) res.

(* ------------------------------------------------------------------ the Ingress pipeline *)

(* what the harness observes for one Ingress against one prior state, stage by stage *)
Record ing_obs := {
  o_validate : outcome;      (* validateIngress *)
  o_config : outcome;        (* Configuration.AddOrUpdateIngress *)
  o_extend : outcome;        (* createExtendedResources + Configurator, if the store did not panic *)
  o_delete : outcome         (* Configuration.DeleteIngress afterwards *)
}.

Definition unit_outcome {A} (r : R A) : outcome := match r with Val _ => OOk | Pan => OPanic end.

Definition ing_observe_with (chal : ingress -> R bool) (fl : iflags) (st : state) (i : ingress) : ing_obs :=
  let v := verdict (validate_ingress_with chal fl i) in
  match add_or_update_with chal fl st i with
  | Pan => {| o_validate := v; o_config := OPanic; o_extend := OOk; o_delete := OOk |}
  | Val (st', rej) =>
      {| o_validate := v;
         o_config := if rej then ORejected else OOk;
         o_extend := unit_outcome (extend_all fl st');
         o_delete := unit_outcome (delete_ingress fl st' (i_key i)) |}
  end.

Definition ing_observe := ing_observe_with validate_challenge.

Definition worst (a b : outcome) : outcome :=
  match a, b with
  | OPanic, _ | _, OPanic => OPanic
  | ORejected, _ | _, ORejected => ORejected
  | _, _ => OOk
  end.

Definition ing_pipeline_with chal (fl : iflags) (st : state) (i : ingress) : outcome :=
  let o := ing_observe_with chal fl st i in
  worst (o_validate o) (worst (o_config o) (worst (o_extend o) (o_delete o))).

Definition ing_pipeline := ing_pipeline_with validate_challenge.

(* API-server admissibility of an Ingress (k8s.io/kubernetes pkg/apis/networking/validation,
   transcribed): every backend has exactly one of service/resource; pathType is required;
   an http block has at least one path; there is a default backend or at least one rule. *)
Definition backend_admissible (b : backend) : bool :=
  match b_svc b, b_res b with Some _, None | None, Some _ => true | _, _ => false end.

Definition path_admissible (p : path) : bool :=
  backend_admissible (p_backend p) &&
  match p_type p with
  | None => false
  | Some PTImpl => true
  | Some _ => negb (p_empty p)          (* Exact/Prefix paths must be absolute *)
  end.

Definition rule_admissible (r : rule) : bool :=
  match r_http r with
  | None => true
  | Some [] => false
  | Some ps => forallb path_admissible ps
  end.

Definition ing_admissible (i : ingress) : bool :=
  (match i_default i with Some b => backend_admissible b | None => true end) &&
  forallb rule_admissible (i_rules i) &&
  (match i_default i, i_rules i with None, [] => false | _, _ => true end).

(* ------------------------------------------------------------------ the finite Ingress shape space *)

Inductive bk := KSvc | KRes | KNeither.
Definition backend_of (k : bk) : backend :=
  match k with
  | KSvc => {| b_svc := Some tt; b_res := None |}
  | KRes => {| b_svc := None; b_res := Some tt |}
  | KNeither => {| b_svc := None; b_res := None |}
  end.

(* pathType/path combinations: no pathType + "/p"; ImplementationSpecific + "";  Prefix + "/p" *)
Inductive pspec := PNil | PImplEmpty | PPrefix.

Definition path_of (id : nat) (s : pspec) (k : bk) : path :=
  match s with
  | PNil => {| p_id := id; p_empty := false; p_type := None; p_backend := backend_of k |}
  | PImplEmpty => {| p_id := id; p_empty := true; p_type := Some PTImpl; p_backend := backend_of k |}
  | PPrefix => {| p_id := id; p_empty := false; p_type := Some PTPrefix; p_backend := backend_of k |}
  end.

(* paths of the first rule: none, one (any pathType shape, any backend), or two (the second
   is a Prefix path with any backend) *)
Inductive paths_sh := Ps0 | Ps1 (s : pspec) (k : bk) | Ps2 (s : pspec) (k : bk) (k2 : bk).
Definition paths_of (p : paths_sh) : list path :=
  match p with
  | Ps0 => []
  | Ps1 s k => [path_of 1 s k]
  | Ps2 s k k2 => [path_of 1 s k; path_of 2 PPrefix k2]
  end.

Inductive http_sh := HNil | HPaths (p : paths_sh).
(* the second rule: no http block, or one Prefix path with any backend *)
Inductive rule2_sh := R2Nil | R2Path (k : bk).
Inductive rules_sh := Rs0 | Rs1 (h : http_sh) | Rs2 (h : http_sh) (r2 : rule2_sh).

Definition rules_of (r : rules_sh) : list rule :=
  let r1 h := {| r_host := 1; r_http := match h with HNil => None | HPaths p => Some (paths_of p) end |} in
  let r2 x := {| r_host := 2; r_http := match x with R2Nil => None | R2Path k => Some [path_of 1 PPrefix k] end |} in
  match r with
  | Rs0 => []
  | Rs1 h => [r1 h]
  | Rs2 h x => [r1 h; r2 x]
  end.

Record ing_shape := {
  sh_default : option bk;
  sh_tls : bool;
  sh_rules : rules_sh;
  sh_merge : merge;
  sh_chal : bool;
  sh_ann : annots
}.

(* the object under test is the youngest and sorts last: key 9, created 9 *)
Definition ingress_of (s : ing_shape) : ingress :=
  {| i_key := 9; i_created := 9;
     i_default := option_map backend_of (sh_default s);
     i_tls := if sh_tls s then 1 else 0;
     i_rules := rules_of (sh_rules s);
     i_merge := sh_merge s; i_chal := sh_chal s; i_ann := sh_ann s |}.

(* prior states ("arbitrating it against any existing state"): the objects of the populated
   states are older than the object under test and are stored through [add_or_update] *)
Inductive ctx := CEmpty | CVs | CMasterMinion | CMinion.

Definition svc_path := path_of 1 PPrefix KSvc.
Definition ctx_master : ingress :=
  {| i_key := 1; i_created := 1; i_default := None; i_tls := 0;
     i_rules := [{| r_host := 1; r_http := None |}];
     i_merge := MMaster; i_chal := false; i_ann := ANone |}.
Definition ctx_minion : ingress :=
  {| i_key := 2; i_created := 2; i_default := None; i_tls := 0;
     i_rules := [{| r_host := 1; r_http := Some [{| p_id := 7; p_empty := false; p_type := Some PTPrefix;
                                                   p_backend := backend_of KSvc |}] |}];
     i_merge := MMinion; i_chal := false; i_ann := ANone |}.

Definition add_all (fl : iflags) (l : list ingress) (st : state) : R state :=
  fold_left (fun acc i => st <- acc ;; sr <- add_or_update fl st i ;; Val (fst sr)) l (Val st).

Definition ctx_state (fl : iflags) (c : ctx) : R state :=
  match c with
  | CEmpty => Val empty_state
  | CVs => Val {| s_ings := []; s_vss := [{| v_host := 1; v_created := 0 |}] |}
  | CMasterMinion => add_all fl [ctx_master; ctx_minion] empty_state
  | CMinion => add_all fl [ctx_minion] empty_state
  end.

Record ing_scenario := { sc_flags : iflags; sc_ctx : ctx; sc_shape : ing_shape }.

Definition scenario_observe_with chal (s : ing_scenario) : option ing_obs :=
  match ctx_state (sc_flags s) (sc_ctx s) with
  | Pan => None
  | Val st => Some (ing_observe_with chal (sc_flags s) st (ingress_of (sc_shape s)))
  end.

Definition scenario_pipeline_with chal (s : ing_scenario) : outcome :=
  match ctx_state (sc_flags s) (sc_ctx s) with
  | Pan => OPanic
  | Val st => ing_pipeline_with chal (sc_flags s) st (ingress_of (sc_shape s))
  end.

Definition scenario_pipeline := scenario_pipeline_with validate_challenge.
Definition scenario_pipeline_old := scenario_pipeline_with validate_challenge_old.

Definition shape_admissible (s : ing_shape) : bool := ing_admissible (ingress_of s).

(* --- enumeration of the shape space *)

Definition all_bool := [false; true].
Definition all_bk := [KSvc; KRes; KNeither].
Definition all_pspec := [PNil; PImplEmpty; PPrefix].
Definition all_merge := [MNone; MMaster; MMinion; MGarbage].
Definition all_annots := [ANone; AClusterIP; AHealth].
Definition all_ctx := [CEmpty; CVs; CMasterMinion; CMinion].

Definition all_paths_sh : list paths_sh :=
  Ps0 :: flat_map (fun s => map (Ps1 s) all_bk) all_pspec
      ++ flat_map (fun s => flat_map (fun k => map (Ps2 s k) all_bk) all_bk) all_pspec.
Definition all_http_sh : list http_sh := HNil :: map HPaths all_paths_sh.
Definition all_rule2_sh : list rule2_sh := R2Nil :: map R2Path all_bk.
Definition all_rules_sh : list rules_sh :=
  Rs0 :: map Rs1 all_http_sh ++ flat_map (fun h => map (Rs2 h) all_rule2_sh) all_http_sh.
Definition all_default : list (option bk) := None :: map Some all_bk.

Definition all_ing_shapes : list ing_shape :=
  flat_map (fun d => flat_map (fun t => flat_map (fun r => flat_map (fun m => flat_map (fun c =>
    map (fun a => {| sh_default := d; sh_tls := t; sh_rules := r; sh_merge := m; sh_chal := c; sh_ann := a |})
        all_annots) all_bool) all_merge) all_rules_sh) all_bool) all_default.

Definition all_iflags : list iflags :=
  [{| if_plus := false; if_certmgr := false |}; {| if_plus := false; if_certmgr := true |};
   {| if_plus := true; if_certmgr := false |}; {| if_plus := true; if_certmgr := true |}].

Definition all_ing_scenarios : list ing_scenario :=
  flat_map (fun fl => flat_map (fun c => map (fun s => {| sc_flags := fl; sc_ctx := c; sc_shape := s |})
                                             all_ing_shapes) all_ctx) all_iflags.
