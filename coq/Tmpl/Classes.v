(* Tmpl/Classes.v -- the language of every site class of Tmpl/Syntax.v and its transfer function on
   the tokenizer DFA.  DEFINITIONS ONLY (everything here must evaluate by vm_compute even when a proof
   of ClassesProofs.v breaks).

   INTERFACE (what the driver and Analyze.v call)
     in_class_b : cls -> string -> bool      decidable membership, following the header of Syntax.v
     in_class c s := in_class_b c s = true
     set_transfer f q : option (list lstate) the states reachable from q under bytes satisfying f, or
                                             None when such a byte can emit a structural event or
                                             enter QErr (certificate style: an untrusted search
                                             proposes the set, [closed_under] checks it over all 256
                                             bytes; soundness ClassesProofs.set_transfer_sound)
     transfer c q : option (list lstate)     Some qs = every value of class c, read from state q,
                                             emits NO structural event (TokEnd allowed) and leaves
                                             the DFA in one of qs;  None = not neutral there.
                                             transfer CLines _ = None (its values carry structure:
                                             they are control, see lines_transfer).
     lines_transfer q                        CLines is legal at QBetween only and returns there
     site_transfer c q                       transfer, plus the CLines rule (what Analyze uses for
                                             classes other than CLit)
     site_transfer_fast c q                  = site_transfer c q, with the byte-set classes tabulated
     go_quote : string -> string             model of strconv.Quote / printf %q on byte strings

   LANGUAGES (bytes; dq = double quote, bs = backslash)
     CWord      word_byte*          word_byte c := code > 32, code <> 127, c none of ; { } bs dq ' # $
                                    (bytes >= 128 are word bytes)
     CWordVar   (word_byte | $)*
     CBareTok   empty, or first rest*   rest c := not whitespace, none of ; { bs
                                        first c := rest c and none of dq ' # }
                (the header of Syntax.v does not exclude the empty string, so it is a member; the
                 theorems are therefore about a larger language)
     CDQ        ([^dq bs] | bs any)*   recognised by dq_scan (a two-state scanner, independent of the
                                        lexer: ClassesProofs.dq_neutral / dq_complete tie the two)
     CSQ        the same with the single quote
     CQuoted    dq body dq with body in CDQ   (q_scan)
     CInt       -? digit+
     CLit l     member of l
     CLines     run QBetween s ends in QBetween without Err
     CEmpty     the empty string
     CUnknown   nothing *)
From Coq Require Import List String Ascii Bool Arith.
From NIC Require Import Lex.Lexer Tmpl.Syntax Tmpl.LexAux.
Import ListNotations.
Open Scope string_scope.
Open Scope list_scope.
Open Scope nat_scope.

(* ---------------------------------------------------------------- byte sets *)

Definition word_byte (c : ascii) : bool :=
  let n := nat_of_ascii c in
  (32 <? n) && negb (n =? 127) &&
  negb (Ascii.eqb c ch_semi || Ascii.eqb c ch_open || Ascii.eqb c ch_close || Ascii.eqb c ch_bs
        || Ascii.eqb c ch_dq || Ascii.eqb c ch_sq || Ascii.eqb c ch_hash || Ascii.eqb c ch_dollar).

Definition wordvar_byte (c : ascii) : bool := word_byte c || Ascii.eqb c ch_dollar.

Definition bare_rest (c : ascii) : bool :=
  negb (is_ws c || Ascii.eqb c ch_semi || Ascii.eqb c ch_open || Ascii.eqb c ch_bs).

Definition bare_first (c : ascii) : bool :=
  bare_rest c && negb (Ascii.eqb c ch_dq || Ascii.eqb c ch_sq || Ascii.eqb c ch_hash || Ascii.eqb c ch_close).

Definition digit_byte (c : ascii) : bool :=
  let n := nat_of_ascii c in (48 <=? n) && (n <=? 57).

Definition int_first (c : ascii) : bool := digit_byte c || Ascii.eqb c "-"%char.

(* first byte in [first], all further bytes in [rest]; the empty string iff [empty_ok] *)
Definition first_rest (empty_ok : bool) (first rest : ascii -> bool) (s : string) : bool :=
  match s with
  | EmptyString => empty_ok
  | String c r => first c && str_forall rest r
  end.

(* ---------------------------------------------------------------- quoted-string scanners *)

(* the language ([^quote bs] | bs any)* as a two-state scanner: [esc] = an escape is pending.
   Returns the state after s, or None if an unescaped quote was met. *)
Fixpoint q_st (quote : ascii) (esc : bool) (s : string) : option bool :=
  match s with
  | EmptyString => Some esc
  | String c r =>
      if esc then q_st quote false r
      else if Ascii.eqb c ch_bs then q_st quote true r
      else if Ascii.eqb c quote then None
      else q_st quote false r
  end.

Definition q_frag (quote : ascii) (s : string) : bool :=
  match q_st quote false s with Some false => true | _ => false end.

Definition dq_scan (s : string) : bool := q_frag ch_dq s.
Definition sq_scan (s : string) : bool := q_frag ch_sq s.

(* after the opening double quote: a CDQ body, the closing double quote, and nothing more *)
Fixpoint q_scan (esc : bool) (s : string) : bool :=
  match s with
  | EmptyString => false
  | String c r =>
      if esc then q_scan false r
      else if Ascii.eqb c ch_bs then q_scan true r
      else if Ascii.eqb c ch_dq then (match r with EmptyString => true | _ => false end)
      else q_scan false r
  end.

Definition quoted_b (s : string) : bool :=
  match s with
  | EmptyString => false
  | String c r => Ascii.eqb c ch_dq && q_scan false r
  end.

Definition int_b (s : string) : bool :=
  match s with
  | String c r =>
      if Ascii.eqb c "-"%char then first_rest false digit_byte digit_byte r
      else digit_byte c && str_forall digit_byte r
  | EmptyString => false
  end.

Definition lines_b (s : string) : bool :=
  let (q, e) := run QBetween s in lstate_eqb q QBetween && no_err e.

(* ---------------------------------------------------------------- membership *)

Definition in_class_b (c : cls) (s : string) : bool :=
  match c with
  | CWord => str_forall word_byte s
  | CWordVar => str_forall wordvar_byte s
  | CBareTok => first_rest true bare_first bare_rest s
  | CDQ => dq_scan s
  | CSQ => sq_scan s
  | CQuoted => quoted_b s
  | CInt => int_b s
  | CLit alts => existsb (String.eqb s) alts
  | CLines => lines_b s
  | CEmpty => match s with EmptyString => true | _ => false end
  | CUnknown _ => false
  end.

Definition in_class (c : cls) (s : string) : Prop := in_class_b c s = true.

(* ---------------------------------------------------------------- the generic byte-set transfer *)

(* one DFA step that is allowed inside a neutral value: no structural event, not into QErr *)
Definition step_ok (q : lstate) (c : ascii) : option lstate :=
  let (q', e) := step q c in
  if is_nil (structural e) && negb (lstate_eqb q' QErr) then Some q' else None.

(* THE CHECK (trusted through set_transfer_sound): Qs is closed under every byte satisfying f,
   all 256 of them, and every such step is allowed *)
Definition closed_under (f : ascii -> bool) (Qs : list lstate) : bool :=
  forallb (fun q =>
    forallb (fun c =>
      negb (f c) ||
      match step_ok q c with Some q' => mem_st q' Qs | None => false end) all_bytes) Qs.

(* untrusted search: the successors of the states of Q under the bytes of [bytes];
   None as soon as a step is not allowed *)
Fixpoint succs_of (bytes : list ascii) (q : lstate) (acc : list lstate) : option (list lstate) :=
  match bytes with
  | [] => Some acc
  | c :: r =>
      match step_ok q c with
      | Some q' => succs_of r q (if mem_st q' acc then acc else q' :: acc)
      | None => None
      end
  end.

Fixpoint succs_all (bytes : list ascii) (Q : list lstate) (acc : list lstate) : option (list lstate) :=
  match Q with
  | [] => Some acc
  | q :: r =>
      match succs_of bytes q acc with
      | Some acc' => succs_all bytes r acc'
      | None => None
      end
  end.

Fixpoint closure (fuel : nat) (bytes : list ascii) (Q : list lstate) : option (list lstate) :=
  match fuel with
  | O => None
  | S n =>
      match succs_all bytes Q Q with
      | Some Q' => if subset_st Q' Q then Some Q else closure n bytes Q'
      | None => None
      end
  end.

(* accept the proposed set only if it passes the check *)
Definition check_set (f : ascii -> bool) (q : lstate) (o : option (list lstate)) : option (list lstate) :=
  match o with
  | Some Qs =>
      let Qn := norm_st Qs in
      if mem_st q Qn && closed_under f Qn then Some Qn else None
  | None => None
  end.

Definition propose_set (f : ascii -> bool) (q : lstate) : option (list lstate) :=
  closure 12 (filter f all_bytes) [q].

Definition set_transfer (f : ascii -> bool) (q : lstate) : option (list lstate) :=
  check_set f q (propose_set f q).

(* union of the transfers from each state of a list; None if one of them is None *)
Fixpoint transfer_all (g : lstate -> option (list lstate)) (Q : list lstate) : option (list lstate) :=
  match Q with
  | [] => Some []
  | q :: r =>
      match g q, transfer_all g r with
      | Some a, Some b => Some (union_st a b)
      | _, _ => None
      end
  end.

(* the states after ONE byte of [first] read in q; None if such a byte is not allowed there *)
Definition first_states (first : ascii -> bool) (q : lstate) : option (list lstate) :=
  match succs_of (filter first all_bytes) q [] with
  | Some l => Some (norm_st l)
  | None => None
  end.

(* THE CHECK for the first byte *)
Definition first_ok_b (first : ascii -> bool) (q : lstate) (Qs : list lstate) : bool :=
  forallb (fun c =>
    negb (first c) || match step_ok q c with Some q' => mem_st q' Qs | None => false end) all_bytes.

(* values  first rest*  (and the empty string iff empty_ok); oF = the proposed set of states after
   the first byte (untrusted, checked by first_ok_b) *)
Definition first_rest_check (empty_ok : bool) (first rest : ascii -> bool) (q : lstate)
           (oF : option (list lstate)) : option (list lstate) :=
  match oF with
  | Some F =>
      if first_ok_b first q F then
        match transfer_all (set_transfer rest) F with
        | Some R => Some (if empty_ok then union_st [q] R else R)
        | None => None
        end
      else None
  | None => None
  end.

Definition first_rest_transfer (empty_ok : bool) (first rest : ascii -> bool) (q : lstate)
  : option (list lstate) :=
  first_rest_check empty_ok first rest q (first_states first q).

(* every literal is run from q *)
Fixpoint lit_transfer (alts : list string) (q : lstate) : option (list lstate) :=
  match alts with
  | [] => Some []
  | a :: r =>
      let (q', e) := run q a in
      if is_nil (structural e) && negb (lstate_eqb q' QErr) then
        match lit_transfer r q with
        | Some l => Some (union_st [q'] l)
        | None => None
        end
      else None
  end.

Definition transfer (c : cls) (q : lstate) : option (list lstate) :=
  match c with
  | CWord => set_transfer word_byte q
  | CWordVar => set_transfer wordvar_byte q
  | CBareTok => first_rest_transfer true bare_first bare_rest q
  | CDQ => match q with QDQ => Some [QDQ] | _ => None end
  | CSQ => match q with QSQ => Some [QSQ] | _ => None end
  | CQuoted => match q with QBetween => Some [QNeedSpace] | _ => None end
  | CInt => first_rest_transfer false int_first digit_byte q
  | CLit alts => lit_transfer alts q
  | CLines => None
  | CEmpty => Some [q]
  | CUnknown _ => None
  end.

(* Conversion hint only (no logical content): when the type checker compares [transfer c q] with
   one of the searches below it must unfold [transfer] first.  Two separately reduced copies of a
   search that is stuck on an abstract state or byte set are exponentially expensive to compare. *)
Strategy 100 [closure propose_set check_set set_transfer first_states first_rest_check
              first_rest_transfer lit_transfer].

Definition lines_transfer (q : lstate) : option (list lstate) :=
  match q with QBetween => Some [QBetween] | _ => None end.

Definition site_transfer (c : cls) (q : lstate) : option (list lstate) :=
  match c with CLines => lines_transfer q | _ => transfer c q end.

(* the same function with the four byte-set classes read from tables computed once (an analysis of
   a real template asks for them thousands of times); ClassesProofs.site_transfer_fast_eq *)
Definition st_index (q : lstate) : nat :=
  match q with
  | QBetween => 0 | QBare => 1 | QBareEsc => 2 | QVar => 3 | QDQ => 4 | QDQEsc => 5
  | QSQ => 6 | QSQEsc => 7 | QComment => 8 | QNeedSpace => 9 | QErr => 10
  end.

Definition word_tbl : list (option (list lstate)) :=
  Eval vm_compute in map (transfer CWord) all_states.
Definition wordvar_tbl : list (option (list lstate)) :=
  Eval vm_compute in map (transfer CWordVar) all_states.
Definition baretok_tbl : list (option (list lstate)) :=
  Eval vm_compute in map (transfer CBareTok) all_states.
Definition int_tbl : list (option (list lstate)) :=
  Eval vm_compute in map (transfer CInt) all_states.

Definition site_transfer_fast (c : cls) (q : lstate) : option (list lstate) :=
  match c with
  | CWord => nth (st_index q) word_tbl None
  | CWordVar => nth (st_index q) wordvar_tbl None
  | CBareTok => nth (st_index q) baretok_tbl None
  | CInt => nth (st_index q) int_tbl None
  | _ => site_transfer c q
  end.

(* ---------------------------------------------------------------- Go's %q on byte strings *)

Definition hex_digit (n : nat) : ascii :=
  if n <? 10 then ascii_of_nat (48 + n) else ascii_of_nat (87 + n).

(* strconv.Quote, restricted to a byte-wise reading: printable ASCII is copied, dq and bs are
   escaped, the seven C escapes, everything else as bs x H H (lower-case hex).  Real Go prints valid
   multi-byte UTF-8 runes unescaped (printable ones) or as bs u HHHH / bs U HHHHHHHH; both forms are
   sequences of non-quote non-backslash bytes or backslash pairs followed by hex digits, hence in
   CDQ as well.  The model is compared with real Go on a corpus by the driver (not here). *)
Definition gq_byte (c : ascii) : string :=
  let n := nat_of_ascii c in
  if Ascii.eqb c ch_dq then String ch_bs (String ch_dq EmptyString)
  else if Ascii.eqb c ch_bs then String ch_bs (String ch_bs EmptyString)
  else if (32 <=? n) && (n <=? 126) then String c EmptyString
  else if n =? 7 then String ch_bs "a"
  else if n =? 8 then String ch_bs "b"
  else if n =? 12 then String ch_bs "f"
  else if n =? 10 then String ch_bs "n"
  else if n =? 13 then String ch_bs "r"
  else if n =? 9 then String ch_bs "t"
  else if n =? 11 then String ch_bs "v"
  else String ch_bs (String "x"%char (String (hex_digit (n / 16)) (String (hex_digit (n mod 16)) EmptyString))).

Fixpoint gq_body (s : string) : string :=
  match s with
  | EmptyString => EmptyString
  | String c r => (gq_byte c ++ gq_body r)%string
  end.

Definition go_quote (s : string) : string :=
  String ch_dq (gq_body s ++ String ch_dq EmptyString)%string.
