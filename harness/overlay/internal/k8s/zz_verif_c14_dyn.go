//go:build verif

package k8s

// Add-only hooks for the dynamic family of C14: a LoadBalancerController built by the
// production constructor (fake clientsets, informers never started; the harness fills the
// informer stores itself), its REAL informer event handlers and its REAL work queue and sync.

import (
	"fmt"

	"github.com/nginx/kubernetes-ingress/internal/configs"
	"github.com/nginx/kubernetes-ingress/internal/metrics/collectors"
	conf_v1 "github.com/nginx/kubernetes-ingress/pkg/apis/configuration/v1"
	"github.com/nginx/kubernetes-ingress/pkg/apis/configuration/validation"
	fake_v1 "github.com/nginx/kubernetes-ingress/pkg/client/clientset/versioned/fake"
	meta_v1 "k8s.io/apimachinery/pkg/apis/meta/v1"
	"k8s.io/client-go/kubernetes/fake"
	"k8s.io/client-go/tools/cache"
	"k8s.io/client-go/tools/record"
)

// VerifC14Dyn drives events through the real handlers and drains the real queue.
type VerifC14Dyn struct {
	lbc      *LoadBalancerController
	handlers map[string]cache.ResourceEventHandlerFuncs
}

// NewVerifC14Dyn builds the controller through NewLoadBalancerController.
func NewVerifC14Dyn(cnf *configs.Configurator, plus bool, listeners []conf_v1.Listener) (*VerifC14Dyn, error) {
	lbc := NewLoadBalancerController(NewLoadBalancerControllerInput{
		KubeClient:                   fake.NewSimpleClientset(),
		ConfClient:                   fake_v1.NewSimpleClientset(),
		Recorder:                     record.NewFakeRecorder(1 << 14),
		LoggerContext:                configs.VerifC14Context(),
		NginxConfigurator:            cnf,
		IsNginxPlus:                  plus,
		IngressClass:                 "nginx",
		Namespace:                    []string{""},
		SecretNamespace:              []string{""},
		ControllerNamespace:          "nginx-ingress",
		AreCustomResourcesEnabled:    true,
		MetricsCollector:             collectors.NewControllerFakeCollector(),
		GlobalConfigurationValidator: validation.NewGlobalConfigurationValidator(map[int]bool{}),
		TransportServerValidator:     validation.NewTransportServerValidator(false, false, plus),
		VirtualServerValidator:       validation.NewVirtualServerValidator(validation.IsPlus(plus)),
		ConfigMaps:                   "nginx-ingress/nginx-config",
	})
	gc := &conf_v1.GlobalConfiguration{
		ObjectMeta: meta_v1.ObjectMeta{Name: "nginx-configuration", Namespace: "nginx-ingress"},
		Spec:       conf_v1.GlobalConfigurationSpec{Listeners: listeners},
	}
	if _, _, err := lbc.configuration.AddOrUpdateGlobalConfiguration(gc); err != nil {
		return nil, err
	}
	return &VerifC14Dyn{lbc: lbc, handlers: map[string]cache.ResourceEventHandlerFuncs{
		"service":            createServiceHandlers(lbc),
		"endpointslice":      createEndpointSliceHandlers(lbc),
		"ingress":            createIngressHandlers(lbc),
		"virtualserver":      createVirtualServerHandlers(lbc),
		"virtualserverroute": createVirtualServerRouteHandlers(lbc),
		"transportserver":    createTransportServerHandlers(lbc),
	}}, nil
}

func (v *VerifC14Dyn) store(kind string) (cache.Store, error) {
	nsi := v.lbc.namespacedInformers[""]
	switch kind {
	case "service":
		return nsi.svcLister, nil
	case "endpointslice":
		return nsi.endpointSliceLister.Store, nil
	case "pod":
		return nsi.podLister.Indexer, nil
	case "ingress":
		return nsi.ingressLister.Store, nil
	case "virtualserver":
		return nsi.virtualServerLister, nil
	case "virtualserverroute":
		return nsi.virtualServerRouteLister, nil
	case "transportserver":
		return nsi.transportServerLister, nil
	}
	return nil, fmt.Errorf("unknown kind %q", kind)
}

// Put writes an object into the informer store of its kind without any event (initial state).
func (v *VerifC14Dyn) Put(kind string, obj interface{}) error {
	s, err := v.store(kind)
	if err != nil {
		return err
	}
	return s.Add(obj)
}

// Event does what a shared informer does on a watch event: update the store, then call the
// REAL handler of that kind.  op: add | update | delete.
func (v *VerifC14Dyn) Event(kind, op string, old, cur interface{}) error {
	s, err := v.store(kind)
	if err != nil {
		return err
	}
	h, ok := v.handlers[kind]
	if !ok {
		return fmt.Errorf("no handlers for kind %q", kind)
	}
	switch op {
	case "add":
		if err := s.Add(cur); err != nil {
			return err
		}
		h.AddFunc(cur)
	case "update":
		if err := s.Update(cur); err != nil {
			return err
		}
		h.UpdateFunc(old, cur)
	case "delete":
		if err := s.Delete(old); err != nil {
			return err
		}
		h.DeleteFunc(old)
	default:
		return fmt.Errorf("unknown op %q", op)
	}
	return nil
}

// QueueLen is the number of tasks waiting in the real work queue.
func (v *VerifC14Dyn) QueueLen() int { return v.lbc.syncQueue.queue.Len() }

// Drain does what taskQueue.worker does (Get, the real lbc.sync, Done) until the queue is empty.
func (v *VerifC14Dyn) Drain(limit int) (int, error) {
	q := v.lbc.syncQueue.queue
	n := 0
	for q.Len() > 0 {
		if n >= limit {
			return n, fmt.Errorf("queue not empty after %d syncs (requeue loop)", n)
		}
		t, quit := q.Get()
		if quit {
			return n, fmt.Errorf("queue shut down")
		}
		v.lbc.sync(t.(task))
		q.Done(t)
		n++
	}
	return n, nil
}
