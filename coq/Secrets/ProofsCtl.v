(* C11 -- the controller in front of the store: what the store believes to be the current
   version of a Secret is the object the cluster holds (or neither is valid), whenever no task
   for that Secret is outstanding; so the theorems about store histories speak about the cluster. *)
From Coq Require Import List String Ascii Bool ZArith Lia.
From NIC Require Import Base.SMap Secrets.Model Secrets.Spec Secrets.ProofsNames Secrets.Proofs Secrets.ProofsMore.
Import ListNotations.
Open Scope string_scope.
Open Scope list_scope.

Definition deadb (x : option ver) : bool := match x with None => true | Some v => negb (vvalid v) end.
Definition dead (x : option ver) : Prop := deadb x = true.
(* the store's view and the cluster's object agree: the same version, or no valid version on either side *)
Definition agree1 (cl gv : option ver) : Prop := cl = gv \/ (dead cl /\ dead gv).

(* ValidateSecret rejects every unsupported type (its final return) *)
Definition oracle_ok (v : ver) : Prop := supported_type (vtype v) = false -> vvalid v = false.

(* admissible cluster event: Kubernetes namespace names contain no slash, the oracle fact, and an
   update keeps the type (Secret.type is immutable; a type change is a delete followed by a create) *)
Definition cev_ok (c : cstate) (e : cev) : Prop :=
  match e with
  | CPut ns name v =>
      no_slash ns /\ oracle_ok v /\
      match c_api c (key_of ns name) with
      | Some v0 => supported_type (vtype v0) = supported_type (vtype v)
      | None => True
      end
  | CDel ns name => no_slash ns
  | _ => True
  end.

Fixpoint chist_ok (c : cstate) (h : list cev) : Prop :=
  match h with
  | [] => True
  | e :: r => cev_ok c e /\ chist_ok (fst (cstep c e)) r
  end.

Definition in_pendb (k : string) (q : list qtask) : bool := existsb (fun t => String.eqb (task_key t) k) q.

Lemma in_pendb_enq_self t q : in_pendb (task_key t) (enq t q) = true.
Proof.
  unfold in_pendb. induction q as [|t' r IH]; cbn.
  - rewrite String.eqb_refl. reflexivity.
  - destruct (String.eqb (task_key t) (task_key t')) eqn:E; cbn.
    + rewrite String.eqb_sym, E. reflexivity.
    + rewrite IH. apply orb_true_r.
Qed.

Lemma in_pendb_enq_mono k t q : in_pendb k q = true -> in_pendb k (enq t q) = true.
Proof.
  unfold in_pendb. induction q as [|t' r IH]; cbn; [discriminate|].
  destruct (String.eqb (task_key t) (task_key t')); cbn; [auto|].
  intros H. apply orb_true_iff in H. destruct H as [H|H]; [rewrite H; reflexivity|rewrite (IH H); apply orb_true_r].
Qed.

Lemma oset_eq o k x : oset o k x k = x.
Proof. unfold oset. rewrite String.eqb_refl. reflexivity. Qed.
Lemma oset_neq o k x k' : k' <> k -> oset o k x k' = o k'.
Proof. unfold oset. intros H. apply String.eqb_neq in H. rewrite H. reflexivity. Qed.

Lemma gver_sync_op objs t g k :
  gver (gstep g (sync_op objs t)) k = if String.eqb k (task_key t) then objs (task_key t) else gver g k.
Proof.
  unfold sync_op. destruct t as [ns name]. unfold task_key. cbn [fst snd].
  destruct (objs (key_of ns name)) as [v|] eqn:O; cbn [gstep].
  - destruct (String.eqb_spec k (key_of ns name)) as [->|N].
    + rewrite gver_gset_eq. reflexivity.
    + apply gver_gset_neq. exact N.
  - destruct (String.eqb_spec k (key_of ns name)) as [->|N].
    + rewrite gver_gset_eq. reflexivity.
    + apply gver_gset_neq. exact N.
Qed.

Lemma gver_sync_other objs q : forall g k,
  in_pendb k q = false -> gver (fold_left gstep (map (sync_op objs) q) g) k = gver g k.
Proof.
  induction q as [|t r IH]; intros g k H; cbn in *; [reflexivity|].
  apply orb_false_iff in H. destruct H as [H1 H2].
  rewrite IH by exact H2. rewrite gver_sync_op. rewrite String.eqb_sym, H1. reflexivity.
Qed.

Lemma gver_sync_pend objs q : forall g k,
  in_pendb k q = true -> gver (fold_left gstep (map (sync_op objs) q) g) k = objs k.
Proof.
  induction q as [|t r IH]; intros g k H; [discriminate|].
  cbn [map fold_left]. unfold in_pendb in H. cbn [existsb] in H. fold (in_pendb k r) in H.
  destruct (in_pendb k r) eqn:R.
  - apply IH. exact R.
  - rewrite orb_false_r in H. rewrite gver_sync_other by exact R.
    rewrite gver_sync_op. rewrite String.eqb_sym, H. apply String.eqb_eq in H. rewrite H. reflexivity.
Qed.

Lemma in_enq_old t t' q : In t q -> In t (enq t' q).
Proof.
  induction q as [|x r IH]; cbn; [tauto|].
  destruct (String.eqb (task_key t') (task_key x)); cbn; [auto|]. intros [->|H]; auto.
Qed.

Lemma in_enq_inv t t' q : In t (enq t' q) -> t = t' \/ In t q.
Proof.
  induction q as [|x r IH]; cbn; [intros [<-|[]]; auto|].
  destruct (String.eqb (task_key t') (task_key x)); cbn; [auto|].
  intros [->|H]; [auto|]. destruct (IH H); auto.
Qed.

Lemma enq_has t q : exists t', In t' (enq t q) /\ task_key t' = task_key t.
Proof.
  induction q as [|x r IH]; cbn; [exists t; auto|].
  destruct (String.eqb (task_key t) (task_key x)) eqn:E.
  - exists x. split; [cbn; auto|]. apply String.eqb_eq in E. auto.
  - destruct IH as (t' & I & K). exists t'. cbn. auto.
Qed.

Lemma in_pendb_true k q : in_pendb k q = true <-> exists t, In t q /\ task_key t = k.
Proof.
  unfold in_pendb. rewrite existsb_exists. split; intros (t & I & H); exists t; split; auto.
  - apply String.eqb_eq. exact H.
  - apply String.eqb_eq in H. exact H.
Qed.

Lemma ns_key_true ns keys k : ns_key ns keys k = true <-> exists t, In t keys /\ fst t = ns /\ task_key t = k.
Proof.
  unfold ns_key, in_ns. rewrite existsb_exists. split.
  - intros (t & I & H). apply andb_true_iff in H. destruct H as [A B].
    apply String.eqb_eq in A. apply String.eqb_eq in B. eauto.
  - intros (t & I & A & B). exists t. split; [exact I|]. rewrite A, B, !String.eqb_refl. reflexivity.
Qed.

Lemma mem_s_true x l : mem_s x l = true <-> In x l.
Proof.
  unfold mem_s. rewrite existsb_exists. split.
  - intros (y & I & H). apply String.eqb_eq in H. subst. exact I.
  - intros I. exists x. split; [exact I|apply String.eqb_refl].
Qed.

(* the queue after the Add events of a namespace *)
Lemma fold_enq_mono (P : qtask -> bool) l : forall q k,
  in_pendb k q = true -> in_pendb k (fold_left (fun q t => if P t then enq t q else q) l q) = true.
Proof.
  induction l as [|x r IH]; intros q k H; cbn; [exact H|].
  apply IH. destruct (P x); [apply in_pendb_enq_mono|]; exact H.
Qed.

Lemma fold_enq_in (P : qtask -> bool) l : forall q t,
  In t l -> P t = true -> in_pendb (task_key t) (fold_left (fun q t => if P t then enq t q else q) l q) = true.
Proof.
  induction l as [|x r IH]; intros q t I H; cbn; [destruct I|].
  destruct I as [->|I].
  - apply fold_enq_mono. rewrite H. apply in_pendb_enq_self.
  - apply IH; assumption.
Qed.

Lemma task_key_inj t1 t2 : no_slash (fst t1) -> no_slash (fst t2) -> task_key t1 = task_key t2 -> fst t1 = fst t2.
Proof.
  unfold task_key. intros A B E. destruct (key_of_inj _ _ _ _ A B E). assumption.
Qed.

(* The invariant.
     KO  every object of the cluster satisfies the oracle fact
     V   what an informer cache holds is an object of the cluster, of a known key in a watched namespace
     NS  the known keys have Kubernetes namespace names
     KA  for every key: a task is queued, or the store's view agrees with the informer cache *)
Record Kinv (c : cstate) (g : ghost) : Prop := mkK {
  k_o : forall k v, c_api c k = Some v -> oracle_ok v;
  k_v : forall k v, c_seen c k = Some v ->
          c_api c k = Some v /\ exists t, In t (c_keys c) /\ task_key t = k /\ mem_s (fst t) (c_unw c) = false;
  k_ns : forall t, In t (c_keys c) -> no_slash (fst t);
  k_a : forall k, in_pendb k (c_pend c) = true \/ agree1 (c_seen c k) (gver g k) }.

Lemma agree1_dead_l cl gv v :
  agree1 cl gv -> cl = Some v -> vvalid v = false -> dead gv.
Proof.
  intros [E|[_ D]] C V; [|exact D]. subst. unfold dead. cbn. rewrite V. reflexivity.
Qed.

Lemma agree1_none gv : agree1 None gv -> dead gv.
Proof. intros [<-|[_ D]]; [reflexivity|exact D]. Qed.

(* a cached object under key_of ns name belongs to namespace ns, which is therefore watched *)
Lemma seen_watched c g ns name v :
  Kinv c g -> no_slash ns -> c_seen c (key_of ns name) = Some v -> mem_s ns (c_unw c) = false.
Proof.
  intros K S H. destruct (k_v c g K _ _ H) as (_ & t & I & E & W).
  assert (fst t = ns) as <-; [|exact W].
  apply (task_key_inj t (ns, name)); [apply (k_ns c g K); exact I|exact S|exact E].
Qed.

Lemma kinv_step c g e :
  Kinv c g -> cev_ok c e ->
  Kinv (fst (cstep c e)) (fold_left gstep (snd (cstep c e)) g).
Proof.
  intros K OK. pose proof K as [KO KV KN KA].
  destruct e as [ns name v|ns name| |k0| |ns|ns]; cbn [cstep].
  - (* CPut *)
    destruct OK as (SL & OV & OT).
    assert (KN' : forall t, In t (enq (ns, name) (c_keys c)) -> no_slash (fst t)).
    { intros t I. destruct (in_enq_inv _ _ _ I) as [->|I']; [exact SL|auto]. }
    assert (KO' : forall k v', oset (c_api c) (key_of ns name) (Some v) k = Some v' -> oracle_ok v').
    { intros k v' H. destruct (string_dec k (key_of ns name)) as [->|N].
      - rewrite oset_eq in H. injection H as <-. exact OV.
      - rewrite oset_neq in H by exact N. eapply KO; eauto. }
    destruct (mem_s ns (c_unw c)) eqn:UN; cbn [fst snd fold_left].
    + (* the namespace is not watched: only the API object changes *)
      constructor; cbn [c_api c_seen c_pend c_keys c_unw]; auto.
      intros k v' H. destruct (KV k v' H) as (A & t & I & E & W).
      assert (k <> key_of ns name).
      { intros ->. rewrite (seen_watched c g ns name v' K SL H) in UN. discriminate. }
      rewrite oset_neq by assumption. split; [exact A|]. exists t. split; [apply in_enq_old; exact I|auto].
    + constructor; cbn [c_api c_seen c_pend c_keys c_unw]; auto.
      * intros k v' H. destruct (string_dec k (key_of ns name)) as [->|N].
        -- rewrite oset_eq in *. split; [exact H|].
           destruct (enq_has (ns, name) (c_keys c)) as (t' & I & E). exists t'. split; [exact I|]. split; [exact E|].
           assert (fst t' = ns) as ->; [|exact UN].
           apply (task_key_inj t' (ns, name)); [apply KN'; exact I|exact SL|exact E].
        -- rewrite oset_neq in * by exact N. destruct (KV k v' H) as (A & t & I & E & W).
           split; [exact A|]. exists t. split; [apply in_enq_old; exact I|auto].
      * intros k. destruct (string_dec k (key_of ns name)) as [->|N].
        -- destruct (supported_type (vtype v)) eqn:S.
           ++ left. apply (in_pendb_enq_self (ns, name)).
           ++ destruct (KA (key_of ns name)) as [P|A]; [left; exact P|]. right.
              rewrite oset_eq. right. split; [unfold dead; cbn; rewrite (OV S); reflexivity|].
              destruct (c_seen c (key_of ns name)) as [v0|] eqn:O.
              ** eapply agree1_dead_l; [exact A|reflexivity|].
                 destruct (KV _ _ O) as (A0 & _). rewrite A0 in OT. apply (KO _ _ A0). exact OT.
              ** apply agree1_none. exact A.
        -- rewrite oset_neq by exact N. destruct (KA k) as [P|A]; [left|right; exact A].
           destruct (supported_type (vtype v)); [apply in_pendb_enq_mono|]; exact P.
  - (* CDel *)
    assert (KO' : forall k v', oset (c_api c) (key_of ns name) None k = Some v' -> oracle_ok v').
    { intros k v' H. destruct (string_dec k (key_of ns name)) as [->|N].
      - rewrite oset_eq in H. discriminate.
      - rewrite oset_neq in H by exact N. eapply KO; eauto. }
    destruct (mem_s ns (c_unw c)) eqn:UN; cbn [fst snd fold_left].
    + constructor; cbn [c_api c_seen c_pend c_keys c_unw]; auto.
      intros k v' H. destruct (KV k v' H) as (A & t & I & E & W).
      assert (k <> key_of ns name).
      { intros ->. rewrite (seen_watched c g ns name v' K OK H) in UN. discriminate. }
      rewrite oset_neq by assumption. eauto.
    + destruct (c_seen c (key_of ns name)) as [v0|] eqn:O; cbn [fst snd fold_left].
      * constructor; cbn [c_api c_seen c_pend c_keys c_unw]; auto.
        -- intros k v' H. destruct (string_dec k (key_of ns name)) as [->|N].
           ++ rewrite oset_eq in H. discriminate.
           ++ rewrite oset_neq in * by exact N. apply KV. exact H.
        -- intros k. destruct (string_dec k (key_of ns name)) as [->|N].
           ++ destruct (supported_type (vtype v0)) eqn:S.
              ** left. apply (in_pendb_enq_self (ns, name)).
              ** destruct (KA (key_of ns name)) as [P|A]; [left; exact P|]. right.
                 rewrite oset_eq. right. split; [reflexivity|].
                 eapply agree1_dead_l; [exact A|exact O|].
                 destruct (KV _ _ O) as (A0 & _). apply (KO _ _ A0). exact S.
           ++ rewrite oset_neq by exact N. destruct (KA k) as [P|A]; [left|right; exact A].
              destruct (supported_type (vtype v0)); [apply in_pendb_enq_mono|]; exact P.
      * constructor; cbn [c_api c_seen c_pend c_keys c_unw]; auto.
        intros k v' H. destruct (KV k v' H) as (A & W). split; [|exact W].
        assert (k <> key_of ns name) by (intros ->; congruence).
        rewrite oset_neq by assumption. exact A.
  - (* CDrain *)
    cbn [fst snd]. constructor; cbn [c_api c_seen c_pend c_keys c_unw]; auto.
    intros k. right. destruct (in_pendb k (c_pend c)) eqn:P.
    + left. symmetry. apply gver_sync_pend. exact P.
    + rewrite gver_sync_other by exact P. destruct (KA k) as [P'|A]; [congruence|exact A].
  - (* CGet *)
    cbn [fst snd fold_left]. constructor; auto. intros k. rewrite gver_get. apply KA.
  - (* CStart *)
    cbn [fst snd]. constructor; auto. intros k.
    destruct (in_pendb k (filter (fun t => supported_obj (c_seen c (task_key t))) (c_keys c))) eqn:P.
    + right. left. symmetry. apply gver_sync_pend. exact P.
    + rewrite gver_sync_other by exact P. apply KA.
  - (* CUnwatch *)
    destruct (mem_s ns (c_unw c)) eqn:UN; cbn [fst snd fold_left]; [exact K|].
    set (seen' := fun k => if ns_key ns (c_keys c) k then None else c_seen c k).
    set (ts := filter (fun t => in_ns ns t && is_some (c_seen c (task_key t))) (c_keys c)).
    assert (OPS : map (fun t => Delete (task_key t)) ts = map (sync_op seen') ts).
    { apply map_ext_in. intros t I. apply filter_In in I. destruct I as [I H].
      apply andb_true_iff in H. destruct H as [H _]. unfold sync_op, seen'.
      assert (ns_key ns (c_keys c) (task_key t) = true) as ->; [|reflexivity].
      apply ns_key_true. exists t. unfold in_ns in H. apply String.eqb_eq in H. auto. }
    rewrite OPS.
    constructor; cbn [c_api c_seen c_pend c_keys c_unw]; auto.
    + intros k v' H. fold seen' in H. unfold seen' in H.
      destruct (ns_key ns (c_keys c) k) eqn:NK; [discriminate|].
      destruct (KV k v' H) as (A & t & I & E & W). split; [exact A|]. exists t. split; [exact I|]. split; [exact E|].
      unfold mem_s in *. cbn [existsb]. rewrite W, orb_false_r. apply String.eqb_neq. intros F.
      assert (ns_key ns (c_keys c) k = true) by (apply ns_key_true; eauto). congruence.
    + intros k. fold seen'.
      destruct (in_pendb k ts) eqn:P.
      * right. left. symmetry. apply gver_sync_pend. exact P.
      * rewrite gver_sync_other by exact P.
        destruct (KA k) as [P'|A]; [left; exact P'|right].
        unfold seen'. destruct (ns_key ns (c_keys c) k) eqn:NK; [|exact A].
        destruct (c_seen c k) as [v0|] eqn:O; [|exact A]. exfalso.
        apply ns_key_true in NK. destruct NK as (t & I & F & E).
        assert (in_pendb k ts = true); [|congruence].
        apply in_pendb_true. exists t. split; [|exact E]. apply filter_In. split; [exact I|].
        unfold in_ns. rewrite F, String.eqb_refl, E, O. reflexivity.
  - (* CWatch *)
    destruct (mem_s ns (c_unw c)) eqn:UN; cbn [fst snd fold_left]; [|exact K].
    constructor; cbn [c_api c_seen c_pend c_keys c_unw]; auto.
    + intros k v' H. destruct (ns_key ns (c_keys c) k) eqn:NK.
      * split; [exact H|]. apply ns_key_true in NK. destruct NK as (t & I & F & E).
        exists t. split; [exact I|]. split; [exact E|]. rewrite F.
        destruct (mem_s ns (filter (fun n => negb (String.eqb n ns)) (c_unw c))) eqn:M; [|reflexivity].
        apply mem_s_true in M. apply filter_In in M. destruct M as [_ M]. rewrite String.eqb_refl in M. discriminate.
      * destruct (KV k v' H) as (A & t & I & E & W). split; [exact A|]. exists t. split; [exact I|]. split; [exact E|].
        destruct (mem_s (fst t) (filter (fun n => negb (String.eqb n ns)) (c_unw c))) eqn:M; [|reflexivity].
        apply mem_s_true in M. apply filter_In in M. destruct M as [M _]. apply mem_s_true in M. congruence.
    + intros k. destruct (KA k) as [P|A]; [left; apply fold_enq_mono; exact P|].
      destruct (ns_key ns (c_keys c) k) eqn:NK; [|right; exact A].
      pose proof NK as NK'. apply ns_key_true in NK'. destruct NK' as (t & I & F & E).
      destruct (supported_obj (c_api c k)) eqn:S.
      * left. rewrite <- E. apply fold_enq_in; [exact I|]. unfold in_ns. rewrite F, String.eqb_refl, E. exact S.
      * right. right.
        assert (SN : c_seen c k = None).
        { destruct (c_seen c k) as [v0|] eqn:O; [|reflexivity]. exfalso.
          destruct (KV k v0 O) as (_ & t' & I' & E' & W').
          assert (fst t' = fst t) by (apply task_key_inj; [apply KN; exact I'|apply KN; exact I|congruence]).
          rewrite H, F in W'. congruence. }
        rewrite SN in A. split; [|apply agree1_none; exact A].
        destruct (c_api c k) as [v0|] eqn:O; [|reflexivity].
        unfold dead. cbn. cbn in S. rewrite (KO _ _ O S). reflexivity.
Qed.

Lemma kinv_run h : forall c g,
  Kinv c g -> chist_ok c h -> Kinv (fst (crun c h)) (fold_left gstep (snd (crun c h)) g).
Proof.
  induction h as [|e r IH]; intros c g K OK; cbn [crun]; [exact K|].
  destruct OK as [O1 O2].
  pose proof (kinv_step c g e K O1) as K1.
  destruct (cstep c e) as [c1 ops]. cbn [fst snd] in *.
  specialize (IH c1 _ K1 O2). destruct (crun c1 r) as [c2 ops']. cbn [fst snd] in *.
  rewrite fold_left_app. exact IH.
Qed.

Lemma kinv_init : Kinv cinit gempty.
Proof.
  constructor; cbn; try (intros; discriminate); try tauto.
  intros k. right. left. reflexivity.
Qed.

(* After every admissible cluster-level history (events, worker runs, the start-up step,
   namespaces losing and getting the watch label), for every Secret without an outstanding task:
   the store's current version is the object in the informer cache (the cluster's object if its
   namespace is watched, nothing otherwise), or neither side has a valid version. *)
Theorem controller_agrees h k :
  chist_ok cinit h -> in_pendb k (c_pend (fst (crun cinit h))) = false ->
  agree1 (c_seen (fst (crun cinit h)) k) (cur (compile h) k).
Proof.
  intros OK P. destruct (kinv_run h cinit gempty kinv_init OK) as [_ _ _ KA].
  destruct (KA k) as [P'|A]; [congruence|]. exact A.
Qed.

(* what an informer cache holds is an object of the cluster *)
Theorem seen_is_cluster_object h k v :
  chist_ok cinit h -> c_seen (fst (crun cinit h)) k = Some v -> c_api (fst (crun cinit h)) k = Some v.
Proof.
  intros OK H. destruct (kinv_run h cinit gempty kinv_init OK) as [_ KV _ _]. apply (KV k v H).
Qed.

Section CtlClauses.
  Variable cadel : bool.
  Variable U : string -> Prop.
  Hypothesis U_disj : forall k1 k2, U k1 -> U k2 -> k1 <> k2 -> names_disjoint k1 k2.

  (* a file under one of k's names is the derivation of the object the CLUSTER holds now, which is valid *)
  Theorem controller_file_is_current h k f c :
    chist_ok cinit h -> hist_ok cadel U gempty (compile h) -> U k ->
    in_pendb k (c_pend (fst (crun cinit h))) = false ->
    In f (names_of_key k) -> lookup f (files (run cadel (compile h))) = Some c ->
    exists v, c_seen (fst (crun cinit h)) k = Some v /\ vvalid v = true /\
              assoc f (derived (key_to_fname k) v) = Some c.
  Proof.
    intros CO HO Uk P Hf L.
    destruct (file_only_if_valid_and_asked cadel U U_disj _ k f c HO Uk Hf L) as (v & C & V & _ & D).
    exists v. split; [|auto].
    destruct (controller_agrees h k CO P) as [E|[_ D2]]; [congruence|].
    rewrite C in D2. unfold dead in D2. cbn in D2. rewrite V in D2. discriminate.
  Qed.

  (* the cluster holds no valid object under k (deleted, invalid, replaced by an unsupported
     type ...) and the worker has caught up: none of k's files exists *)
  Theorem controller_gone_means_removed h k :
    chist_ok cinit h -> hist_ok cadel U gempty (compile h) -> U k ->
    in_pendb k (c_pend (fst (crun cinit h))) = false ->
    dead (c_seen (fst (crun cinit h)) k) ->
    forall f, In f (names_of_key k) -> lookup f (files (run cadel (compile h))) = None.
  Proof.
    intros CO HO Uk P D. apply (no_valid_no_files cadel U U_disj); auto.
    intros v C. destruct (controller_agrees h k CO P) as [E|[_ D2]].
    - rewrite E, C in D. unfold dead in D. cbn in D. apply negb_true_iff in D. exact D.
    - rewrite C in D2. unfold dead in D2. cbn in D2. apply negb_true_iff in D2. exact D2.
  Qed.
End CtlClauses.

(* and a reference then reports an error exactly when the cluster holds no valid object *)
Theorem controller_get_reports_error cadel h k st' p e :
  chist_ok cinit h -> in_pendb k (c_pend (fst (crun cinit h))) = false ->
  step cadel (run cadel (compile h)) (Get k) = (st', Some (p, e)) ->
  e = deadb (c_seen (fst (crun cinit h)) k).
Proof.
  intros CO P S. rewrite (get_reports_error cadel _ k st' p e S).
  unfold get_err_expected.
  pose proof (controller_agrees h k CO P) as A. unfold cur in A.
  destruct A as [E|[D1 D2]].
  - rewrite E. destruct (grun (compile h) k) as [[v a]|]; reflexivity.
  - unfold dead in *. rewrite D1. destruct (grun (compile h) k) as [[v a]|]; [exact D2|reflexivity].
Qed.

(* the seeded scenario, in the model of the unchanged code: TLS secret in use, deleted and
   re-created as Opaque before the worker runs -- the file goes and the reference reports the error *)
Definition vOpaque : ver := mkver "Opaque" false "A" "" "".
Definition ch_recreated : list cev :=
  [CPut "default" "x" vA; CDrain; CGet "default/x"; CDel "default" "x"; CPut "default" "x" vOpaque; CDrain].

Lemma ch_recreated_ok :
  chist_ok cinit ch_recreated /\
  compile ch_recreated = [Upsert "default" "x" vA; Get "default/x"; Upsert "default" "x" vOpaque] /\
  files (run false (compile (firstn 3 ch_recreated))) = [("default-x", (mode_rw_only, "A"))] /\
  files (run false (compile ch_recreated)) = [] /\
  snd (step false (run false (compile ch_recreated)) (Get "default/x")) = Some ("", true).
Proof.
  split; [cbn; repeat split; auto; try discriminate|].
  repeat split; vm_compute; reflexivity.
Qed.

(* ---------- nothing is written unless a resource asks: in particular at start-up ---------- *)

Definition is_lookup (o : op) : bool :=
  match o with Get _ => true | ForcePath _ _ => true | _ => false end.

(* a store history without any lookup leaves the secrets directory empty *)
Theorem no_lookup_no_files cadel U h :
  hist_ok cadel U gempty h -> forallb (fun o => negb (is_lookup o)) h = true ->
  files (run cadel h) = [].
Proof.
  intros OK NL.
  destruct (files (run cadel h)) as [|[f c] r] eqn:F; [reflexivity|]. exfalso.
  assert (L : lookup f (files (run cadel h)) = Some c) by (rewrite F; cbn; rewrite String.eqb_refl; reflexivity).
  destruct (every_file_justified cadel U h OK f c L) as (k & v & _ & _ & _ & A & _).
  destruct (asked_spec h k A) as (h1 & o & h2 & -> & _ & W).
  rewrite forallb_app in NL. apply andb_true_iff in NL. destruct NL as [_ NL]. cbn in NL.
  apply andb_true_iff in NL. destruct NL as [NL _].
  destruct W as [[-> _]|(ns & name & -> & _)]; discriminate.
Qed.

Definition is_cget (e : cev) : bool := match e with CGet _ => true | _ => false end.

Lemma cstep_no_lookup c e : is_cget e = false -> forallb (fun o => negb (is_lookup o)) (snd (cstep c e)) = true.
Proof.
  intros H. destruct e as [ns name v|ns name| |k0| |ns|ns]; cbn [cstep]; try discriminate.
  - destruct (mem_s ns (c_unw c)); reflexivity.
  - destruct (mem_s ns (c_unw c)); [reflexivity|]. destruct (c_seen c (key_of ns name)); reflexivity.
  - cbn [snd]. apply forallb_forall. intros o I. apply in_map_iff in I. destruct I as (t & <- & _).
    unfold sync_op. destruct (c_seen c (task_key t)); reflexivity.
  - cbn [snd]. apply forallb_forall. intros o I. apply in_map_iff in I. destruct I as (t & <- & _).
    unfold sync_op. destruct (c_seen c (task_key t)); reflexivity.
  - destruct (mem_s ns (c_unw c)); [reflexivity|]. cbn [snd]. apply forallb_forall. intros o I.
    apply in_map_iff in I. destruct I as (t & <- & _). reflexivity.
  - destruct (mem_s ns (c_unw c)); reflexivity.
Qed.

Lemma crun_no_lookup h : forall c,
  forallb (fun e => negb (is_cget e)) h = true -> forallb (fun o => negb (is_lookup o)) (snd (crun c h)) = true.
Proof.
  induction h as [|e r IH]; intros c H; cbn [crun]; [reflexivity|].
  cbn in H. apply andb_true_iff in H. destruct H as [H1 H2]. apply negb_true_iff in H1.
  pose proof (cstep_no_lookup c e H1) as S. destruct (cstep c e) as [c1 ops]. cbn [snd] in S.
  specialize (IH c1 H2). destruct (crun c1 r) as [c2 ops']. cbn [snd] in *.
  rewrite forallb_app, S, IH. reflexivity.
Qed.

(* Whatever the cluster looks like (any mix of valid, invalid, supported, unsupported Secrets in
   watched and unwatched namespaces), whatever events, worker runs, start-up steps and namespace
   changes happen: as long as no resource has looked a Secret up, the secrets directory is empty. *)
Theorem controller_writes_nothing_unasked cadel U h :
  hist_ok cadel U gempty (compile h) -> forallb (fun e => negb (is_cget e)) h = true ->
  files (run cadel (compile h)) = [].
Proof.
  intros OK H. apply (no_lookup_no_files cadel U); [exact OK|]. apply crun_no_lookup. exact H.
Qed.

(* a start-up over a cluster with a referenced and an unreferenced valid TLS Secret, an invalid one
   and an Opaque one: nothing on disk after preSyncSecrets; after the first lookup exactly that file *)
Definition ch_startup : list cev :=
  [CPut "team" "s1" vB; CPut "default" "x" vA; CPut "default" "s2" vAbad; CPut "default" "o" vOpaque; CStart].

Lemma ch_startup_ok :
  chist_ok cinit ch_startup /\
  compile ch_startup = [Upsert "team" "s1" vB; Upsert "default" "x" vA; Upsert "default" "s2" vAbad] /\
  files (run false (compile ch_startup)) = [] /\
  files (run false (compile (ch_startup ++ [CGet "default/x"]))) = [("default-x", (mode_rw_only, "A"))].
Proof.
  split; [cbn; repeat split; auto; try discriminate|].
  repeat split; vm_compute; reflexivity.
Qed.

(* REFUTED across a restart (finding F10): the new process starts with an empty store over the
   surviving directory and nothing sweeps it.  Secret default/x was materialised, is deleted while
   the process is down; after the restart and the start-up step its file is still there. *)
Lemma restart_leftover_refuted :
  let st0 := run false [Upsert "default" "x" vA; Get "default/x"] in
  let c1 := crestart (mkc (fun _ => None) (fun _ => None) [] [("default", "x")] []) in
  let st1 := fold_left (step_st false) (snd (cstep c1 CStart)) (restart_state st0) in
  c_seen c1 "default/x" = None /\ store st1 = [] /\
  files st1 = [("default-x", (mode_rw_only, "A"))].
Proof. vm_compute. repeat split; reflexivity. Qed.
