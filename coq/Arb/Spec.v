(* Order-free specification of host and listener ownership (C01, C02), and the object sets as a
   function of the history alone (last write per key).  No proofs in this file. *)
From Coq Require Import List ZArith String Ascii Bool.
From NIC Require Import Base.SMap Arb.Types Arb.Model.
Import ListNotations.
Open Scope string_scope.
Open Scope Z_scope.

(* the four object maps and the GlobalConfiguration after a history: last write per key *)
Record objs := mkObjs { o_ings : smap ingress; o_vss : smap vserver; o_vsrs : smap vsroute; o_tss : smap tserver;
                        o_gc : option (list listener) }.

Definition objs0 : objs := mkObjs [] [] [] [] None.

Definition upd {A} (accept : bool) (k : string) (v : A) (m : smap A) : smap A :=
  if accept then insert k v m else remove k m.

Definition apply_event (o : objs) (e : event) : objs :=
  match e with
  | EIng i cls valid => mkObjs (upd (cls && valid) (mkey (i_meta i)) i (o_ings o)) (o_vss o) (o_vsrs o) (o_tss o) (o_gc o)
  | EDelIng k => mkObjs (remove k (o_ings o)) (o_vss o) (o_vsrs o) (o_tss o) (o_gc o)
  | EVS v cls valid => mkObjs (o_ings o) (upd (cls && valid) (mkey (v_meta v)) v (o_vss o)) (o_vsrs o) (o_tss o) (o_gc o)
  | EDelVS k => mkObjs (o_ings o) (remove k (o_vss o)) (o_vsrs o) (o_tss o) (o_gc o)
  | EVSR r cls valid => mkObjs (o_ings o) (o_vss o) (upd (cls && valid) (mkey (r_meta r)) r (o_vsrs o)) (o_tss o) (o_gc o)
  | EDelVSR k => mkObjs (o_ings o) (o_vss o) (remove k (o_vsrs o)) (o_tss o) (o_gc o)
  | ETS t cls valid => mkObjs (o_ings o) (o_vss o) (o_vsrs o) (upd (cls && valid) (mkey (t_meta t)) t (o_tss o)) (o_gc o)
  | EDelTS k => mkObjs (o_ings o) (o_vss o) (o_vsrs o) (remove k (o_tss o)) (o_gc o)
  | EGC ls _ => mkObjs (o_ings o) (o_vss o) (o_vsrs o) (o_tss o) (Some ls)
  | EDelGC => mkObjs (o_ings o) (o_vss o) (o_vsrs o) (o_tss o) None
  end.

Definition objs_after (es : list event) : objs := fold_left apply_event es objs0.

Definition objs_of_state (s : state) : objs := mkObjs (ings s) (vss s) (vsrs s) (tss s) (gc s).

(* ---- ownership: the least claimant ---- *)

(* a precedes b: earlier creation time, ties broken by the greater UID (the code's fixed order) *)
Definition prec (a b : meta) : bool := wins a b.

Fixpoint least (l : list hold) : option hold :=
  match l with
  | [] => None
  | x :: r => match least r with
              | None => Some x
              | Some y => if prec (snd x) (snd y) then Some x else Some y
              end
  end.

Definition claimants (cs : list (string * hold)) (h : string) : list hold :=
  map snd (filter (fun c => String.eqb (fst c) h) cs).

Definition host_claims (c : cfg) (o : objs) : list (string * hold) :=
  all_claims c (o_ings o) (o_vss o) (o_tss o).

Definition spec_owner (c : cfg) (o : objs) (h : string) : option string :=
  option_map fst (least (claimants (host_claims c o) h)).

Definition listener_claims (o : objs) : list (string * hold) := lclaims (o_gc o) (o_tss o).

Definition spec_listener_owner (o : objs) (k : string) : option string :=
  option_map fst (least (claimants (listener_claims o) k)).

(* decidable: an observed host map agrees with the specification on every host that is claimed
   or observed *)
Definition opt_str_eqb (a b : option string) : bool :=
  match a, b with
  | Some x, Some y => String.eqb x y
  | None, None => true
  | _, _ => false
  end.

Definition owners_ok (owner_spec : string -> option string) (claimed : list string) (obs : list (string * string)) : bool :=
  forallb (fun h => opt_str_eqb (owner_spec h) (lookup h obs)) (claimed ++ map fst obs)%list.

Definition hosts_spec_ok (c : cfg) (o : objs) (obs : list (string * string)) : bool :=
  owners_ok (spec_owner c o) (map fst (host_claims c o)) obs.

Definition lhosts_spec_ok (o : objs) (obs : list (string * string)) : bool :=
  owners_ok (spec_listener_owner o) (map fst (listener_claims o)) obs.
