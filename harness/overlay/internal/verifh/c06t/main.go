//go:build verif

// Template translator for C06 (tie T).  It parses the six real NGINX configuration templates of the
// repository it is pointed at (plus the inline TLS-passthrough hosts template) with
// text/template/parse and emits them, in the abstract template language of coq/Tmpl/Syntax.v, as
// coq/gen/Templates.v.  Every output action becomes a `Site id cls`; the class is decided by
// walking reflect.Type of the template's real data struct (ints, bools: automatically) and, for
// string-typed values, by the class tables of package tab.  Anything the translator does not
// understand becomes `CUnknown "<why>"`, which is never neutral in Rocq (fail closed).
//
// The translator transcribes; it does not decide neutrality.  Whether a class is harmless at a
// site is decided by Tmpl/Analyze.v running the lexer DFA over the literal text around it.
//
//	c06t [-repo DIR] [-out coq/gen/Templates.v] [-sites sites.json] [-selfcheck] [-limit N] [-q]
//
//	-repo      repository root (default $VERIF_REPO, else /repo)
//	-out       the generated Coq file (rewritten only when its content changes)
//	-sites     JSON side file, one object per site (template, id, line, pipeline, Go type, field key,
//	           helper function, class, reason, parent/part/parts for expanded sites, quote context)
//	-selfcheck (a) the literal text of the abstract template equals, in order, the TextNodes of
//	           text/template/parse; (b) ROUND TRIP: each real template is executed by text/template on
//	           six data values built by reflection (strings sampled from their declared classes) and
//	           the real output must be derivable from the abstract template, decided exactly by an
//	           NFA simulation (Text literally, Site = any bytes in the structural run, = the language
//	           of its class in the class-aware run, Choice, Star).  Exit 1 when a check fails.
//	-limit     maximal number of nodes per Coq Definition (larger subterms are hoisted)
//
// Exit status: 0 also when there are CUnknown sites (the Rocq obligation fails closed), 2 on
// parse / IO errors.
//
// Control flow: {{if}}A{{end}} -> opt A; {{if}}A{{else}}B{{end}} -> Choice A B; {{with}} like if (dot
// and variable types change); {{range}}A{{end}} -> Star A; {{range}}A{{else}}B{{end}} -> Choice (Seq A
// (Star A)) B; declarations / assignments emit nothing; {{template}}, {{define}}, {{block}},
// {{break}}, {{continue}} -> Site (CUnknown ...).
//
// Classification of an output action (first match):
//  1. tab.Shape["pipe:<tmpl>|<pipeline>"] / tab.PipelineClass["<tmpl>|<pipeline>"] override;
//  2. the value cannot be resolved statically (unknown field, method with a non int/bool result,
//     unknown function, re-assigned variable, ...) -> CUnknown;
//  3. integer kinds -> CInt, bool -> CLit [true; false], pointers to those additionally <nil>;
//  4. variables assigned only from string literals -> CLit [the literals];
//  5. printf with a literal format: %q of a string -> CQuoted, %d/%v of an integer -> CInt, %s/%v of
//     a string -> the class of the operand, literal text around -> Text; other verbs -> CUnknown;
//     printf with the VALUE as format (X | printf): the class of X if it is closed under
//     Sprintf-without-operands (byte-set classes, CInt, CLines, %-free literals), else CUnknown;
//  6. helper functions: toLower / toUpper / trim preserve the class (CLit alternatives are
//     mapped); makeSecretPath = join of the byte-set classes of its path and variable arguments;
//     every other helper needs an entry in tab.FuncClass or tab.Shape["func:<name>"];
//  7. string fields: the elements of []string fields whose name contains Snippet -> CEmpty;
//     otherwise tab.Shape[key] (expanded into a sub-template, one site per class leaf) or
//     tab.FieldClass[key]; no entry -> CUnknown;
//  8. inside {{if X}} / {{with X}} the empty alternative of X's class is dropped.
package main

import (
	"bytes"
	"encoding/json"
	"flag"
	"fmt"
	"os"
	"path/filepath"
	"reflect"
	"regexp"
	"sort"
	"strings"
	"text/template"
	"text/template/parse"

	"github.com/nginx/kubernetes-ingress/internal/configs/version1"
	"github.com/nginx/kubernetes-ingress/internal/configs/version2"
	"github.com/nginx/kubernetes-ingress/internal/verifh/c06/tab"
)

// ------------------------------------------------------------------------------------------------
// abstract template tree
// ------------------------------------------------------------------------------------------------

type nkind int

const (
	nText nkind = iota
	nSite
	nSeq
	nChoice
	nStar
)

type node struct {
	kind nkind
	text string
	id   int
	cls  string
	kids []*node
	// synthetic: literal text that comes from a shape (tab.Pat), not from the template source
	synthetic bool
}

func mkText(s string) *node { return &node{kind: nText, text: s} }
func mkSeq(k []*node) *node {
	var flat []*node
	for _, x := range k {
		if x == nil {
			continue
		}
		if x.kind == nSeq {
			flat = append(flat, x.kids...)
		} else if x.kind == nText && x.text == "" {
			continue
		} else {
			flat = append(flat, x)
		}
	}
	if len(flat) == 1 {
		return flat[0]
	}
	return &node{kind: nSeq, kids: flat}
}
func mkChoice(a, b *node) *node { return &node{kind: nChoice, kids: []*node{a, b}} }
func mkStar(a *node) *node      { return &node{kind: nStar, kids: []*node{a}} }

func (n *node) size() int {
	s := 1
	for _, k := range n.kids {
		s += k.size()
	}
	return s
}

// ------------------------------------------------------------------------------------------------
// sites
// ------------------------------------------------------------------------------------------------

type siteInfo struct {
	Template string `json:"template"`
	ID       int    `json:"id"`
	Line     int    `json:"line"`
	Pipeline string `json:"pipeline"`
	Type     string `json:"type"`
	Field    string `json:"field"`
	Func     string `json:"func"`
	Class    string `json:"class"`
	Reason   string `json:"reason"`
	Parent   int    `json:"parent"` // id of the first part of the same output action (== ID when not expanded)
	Part     int    `json:"part"`   // index of this leaf inside an expanded (shaped) site; 0 when not expanded
	Parts    int    `json:"parts"`  // number of leaves of the expansion; 1 when not expanded
	// Ctx is a LINT hint only (the decision is taken by Tmpl/Analyze.v): how the action stands on
	// its source line, "dq" / "sq" when an odd number of double / single quotes precedes it on the
	// line (actions removed), else "bare".
	Ctx string `json:"ctx"`
}

var actionRe = regexp.MustCompile(`\{\{.*?\}\}`)

func quoteContext(text string, pos parse.Pos) string {
	p := int(pos)
	if p > len(text) {
		p = len(text)
	}
	start := strings.LastIndex(text[:p], "{{")
	if start < 0 {
		return "bare"
	}
	line := text[strings.LastIndex(text[:start], "\n")+1 : start]
	line = actionRe.ReplaceAllString(line, "")
	dq, sq := false, false
	for i := 0; i < len(line); i++ {
		switch {
		case line[i] == '"' && !sq:
			dq = !dq
		case line[i] == '\'' && !dq:
			sq = !sq
		case line[i] == '#' && !dq && !sq:
			return "comment"
		}
	}
	switch {
	case dq:
		return "dq"
	case sq:
		return "sq"
	}
	return "bare"
}

// ------------------------------------------------------------------------------------------------
// static values
// ------------------------------------------------------------------------------------------------

// val is what the translator knows statically about a template value.
type val struct {
	typ   reflect.Type // nil when unknown
	key   string       // FieldClass key of the last field selected ("" if none)
	fn    string       // helper function that produced the value
	isLit bool         // value is one of lits (string literals of the template)
	lits  []string
	pat   *tab.Pat // class already decided structurally (printf, helper rules)
	why   string   // non-empty: the value could not be resolved; reason
	note  string   // how the class was derived (goes into the site reason)
}

func unknown(format string, a ...any) val { return val{why: fmt.Sprintf(format, a...)} }

type binding struct{ v val }

type tmplCtx struct {
	name    string // Coq name, e.g. v2_vs_plus
	base    string // file base name, e.g. nginx-plus.virtualserver.tmpl
	text    string
	funcs   template.FuncMap
	root    reflect.Type
	scopes  []map[string]*binding
	sites   []siteInfo
	nextID  int
	census  map[string]int
	usedKey map[string]bool
	// non-empty refinement: inside {{if X}} / {{with X}} the value of X is not the empty string
	nonEmpty []neEntry
	dotEpoch int
	epochs   int
}

type neEntry struct {
	text  string
	epoch int
	b     *binding
}

// condKey returns the text of a condition that is a plain field / variable chain.
func condKey(p *parse.PipeNode) (string, bool) {
	if p == nil || len(p.Cmds) != 1 || len(p.Cmds[0].Args) != 1 {
		return "", false
	}
	switch p.Cmds[0].Args[0].(type) {
	case *parse.FieldNode, *parse.VariableNode:
		return p.Cmds[0].Args[0].String(), true
	}
	return "", false
}

func varOf(text string) string {
	if !strings.HasPrefix(text, "$") {
		return ""
	}
	if i := strings.Index(text, "."); i >= 0 {
		return text[:i]
	}
	return text
}

func (c *tmplCtx) pushNonEmpty(text string) {
	e := neEntry{text: text, epoch: c.dotEpoch}
	if v := varOf(text); v != "" {
		e.b = c.lookup(v)
		if e.b == nil || e.b.v.isLit {
			// unknown or re-assignable variable: no refinement
			e.text = ""
		}
	}
	c.nonEmpty = append(c.nonEmpty, e)
}

func (c *tmplCtx) popNonEmpty() { c.nonEmpty = c.nonEmpty[:len(c.nonEmpty)-1] }

func (c *tmplCtx) isNonEmpty(text string) bool {
	for _, e := range c.nonEmpty {
		if e.text == "" || e.text != text {
			continue
		}
		if strings.HasPrefix(text, ".") && e.epoch != c.dotEpoch {
			continue
		}
		if v := varOf(text); v != "" && c.lookup(v) != e.b {
			continue
		}
		return true
	}
	return false
}

// dropEmpty removes the empty string from the top-level alternatives of a shape.
func dropEmpty(p tab.Pat) tab.Pat {
	switch p.K {
	case "C":
		if alts, ok := tab.LitAlts(p.Class); ok {
			var keep []string
			for _, a := range alts {
				if a != "" {
					keep = append(keep, a)
				}
			}
			if len(keep) > 0 && len(keep) < len(alts) {
				return tab.C(tab.Lit(keep...))
			}
		}
	case "A":
		var kids []tab.Pat
		for _, k := range p.Kids {
			if (k.K == "T" && k.Text == "") || (k.K == "S" && len(k.Kids) == 0) {
				continue
			}
			kids = append(kids, dropEmpty(k))
		}
		switch len(kids) {
		case 0:
			return p
		case 1:
			return kids[0]
		}
		return tab.Pat{K: "A", Kids: kids}
	}
	return p
}

func (c *tmplCtx) push()                   { c.scopes = append(c.scopes, map[string]*binding{}) }
func (c *tmplCtx) pop()                    { c.scopes = c.scopes[:len(c.scopes)-1] }
func (c *tmplCtx) bind(name string, v val) { c.scopes[len(c.scopes)-1][name] = &binding{v: v} }
func (c *tmplCtx) lookup(name string) *binding {
	for i := len(c.scopes) - 1; i >= 0; i-- {
		if b, ok := c.scopes[i][name]; ok {
			return b
		}
	}
	return nil
}

func (c *tmplCtx) line(pos parse.Pos) int {
	p := int(pos)
	if p > len(c.text) {
		p = len(c.text)
	}
	return 1 + strings.Count(c.text[:p], "\n")
}

func pkgBase(t reflect.Type) string {
	p := t.PkgPath()
	if i := strings.LastIndex(p, "/"); i >= 0 {
		p = p[i+1:]
	}
	return p
}

func deref(t reflect.Type) reflect.Type {
	for t != nil && t.Kind() == reflect.Ptr {
		t = t.Elem()
	}
	return t
}

func isIntKind(k reflect.Kind) bool {
	switch k {
	case reflect.Int, reflect.Int8, reflect.Int16, reflect.Int32, reflect.Int64,
		reflect.Uint, reflect.Uint8, reflect.Uint16, reflect.Uint32, reflect.Uint64, reflect.Uintptr:
		return true
	}
	return false
}

// field resolves `.name` on a value.
func field(v val, name string) val {
	if v.why != "" {
		return v
	}
	if v.typ == nil {
		return unknown("field .%s of a value of unknown type", name)
	}
	t := deref(v.typ)
	switch t.Kind() {
	case reflect.Struct:
		if f, ok := t.FieldByName(name); ok {
			owner := t
			// promoted field: find the struct that really declares it
			for i := 0; i < len(f.Index)-1; i++ {
				owner = deref(owner.Field(f.Index[i]).Type)
			}
			return val{typ: f.Type, key: pkgBase(owner) + "." + owner.Name() + "." + name}
		}
		for _, mt := range []reflect.Type{t, reflect.PointerTo(t)} {
			if m, ok := mt.MethodByName(name); ok {
				if m.Type.NumOut() >= 1 {
					rt := m.Type.Out(0)
					if isIntKind(rt.Kind()) || rt.Kind() == reflect.Bool {
						return val{typ: rt, note: "method " + name}
					}
				}
				return unknown("method call .%s on %s (result not int/bool)", name, t)
			}
		}
		return unknown("no field or method %s in %s", name, t)
	case reflect.Map:
		if t.Key().Kind() == reflect.String {
			return val{typ: t.Elem(), key: v.key + "[val]"}
		}
		return unknown("field .%s on map with non-string key %s", name, t)
	}
	return unknown("field .%s on %s", name, t)
}

// ------------------------------------------------------------------------------------------------
// expression evaluation (static)
// ------------------------------------------------------------------------------------------------

func (c *tmplCtx) evalPipe(p *parse.PipeNode, dot val) val {
	if p == nil || len(p.Cmds) == 0 {
		return unknown("empty pipeline")
	}
	var v val
	for i, cmd := range p.Cmds {
		if i == 0 {
			v = c.evalCmd(cmd, dot, nil)
		} else {
			prev := v
			v = c.evalCmd(cmd, dot, &prev)
		}
	}
	return v
}

func (c *tmplCtx) evalCmd(cmd *parse.CommandNode, dot val, final *val) val {
	first := cmd.Args[0]
	switch n := first.(type) {
	case *parse.IdentifierNode:
		return c.evalFunc(n.Ident, cmd.Args[1:], dot, final)
	case *parse.PipeNode:
		if len(cmd.Args) > 1 || final != nil {
			return unknown("parenthesised pipeline used with arguments")
		}
		return c.evalPipe(n, dot)
	}
	v := c.evalArg(first, dot)
	if len(cmd.Args) > 1 || final != nil {
		if v.why != "" {
			return v
		}
		if v.typ != nil && (isIntKind(v.typ.Kind()) || v.typ.Kind() == reflect.Bool) && strings.HasPrefix(v.note, "method ") {
			return v
		}
		return unknown("non-function %s called with arguments", first.String())
	}
	return v
}

func (c *tmplCtx) evalArg(n parse.Node, dot val) val {
	switch n := n.(type) {
	case *parse.DotNode:
		return dot
	case *parse.FieldNode:
		v := dot
		for _, id := range n.Ident {
			v = field(v, id)
		}
		return v
	case *parse.VariableNode:
		b := c.lookup(n.Ident[0])
		if b == nil {
			return unknown("undefined variable %s", n.Ident[0])
		}
		v := b.v
		for _, id := range n.Ident[1:] {
			v = field(v, id)
		}
		return v
	case *parse.ChainNode:
		v := c.evalArg(n.Node, dot)
		for _, id := range n.Field {
			v = field(v, id)
		}
		return v
	case *parse.PipeNode:
		return c.evalPipe(n, dot)
	case *parse.StringNode:
		return val{typ: reflect.TypeOf(""), isLit: true, lits: []string{n.Text}}
	case *parse.NumberNode:
		if n.IsInt || n.IsUint {
			return val{typ: reflect.TypeOf(int(0))}
		}
		return val{typ: reflect.TypeOf(float64(0))}
	case *parse.BoolNode:
		return val{typ: reflect.TypeOf(true)}
	case *parse.IdentifierNode:
		return c.evalFunc(n.Ident, nil, dot, nil)
	}
	return unknown("unsupported operand %s (%T)", n.String(), n)
}

var boolFuncs = map[string]bool{"eq": true, "ne": true, "lt": true, "le": true, "gt": true, "ge": true, "not": true}

// byteSetJoin: least class of the chain CWord < CWordVar < CBareTok containing both.
var byteSetRank = map[string]int{"CWord": 1, "CWordVar": 2, "CBareTok": 3}

func leastByteSetClass(s string) string {
	for _, c := range []string{"CWord", "CWordVar", "CBareTok"} {
		if tab.InClass(c, s) {
			return c
		}
	}
	return ""
}

func (c *tmplCtx) evalFunc(name string, argNodes []parse.Node, dot val, final *val) val {
	var args []val
	for _, a := range argNodes {
		args = append(args, c.evalArg(a, dot))
	}
	if final != nil {
		args = append(args, *final)
	}
	for _, a := range args {
		if a.why != "" && name != "printf" {
			// a comparison of something unresolved is still a bool, but be strict: fail closed
			return unknown("argument of %s: %s", name, a.why)
		}
	}
	switch name {
	case "printf":
		return c.evalPrintf(args)
	case "index":
		if len(args) < 2 {
			return unknown("index with %d arguments", len(args))
		}
		v := args[0]
		for range args[1:] {
			t := deref(v.typ)
			if t == nil {
				return unknown("index of a value of unknown type")
			}
			switch t.Kind() {
			case reflect.Slice, reflect.Array:
				v = val{typ: t.Elem(), key: v.key + "[]"}
			case reflect.Map:
				v = val{typ: t.Elem(), key: v.key + "[val]"}
			default:
				return unknown("index of %s", t)
			}
		}
		return v
	case "len":
		return val{typ: reflect.TypeOf(int(0))}
	case "and", "or":
		for _, a := range args {
			if a.typ == nil || a.typ.Kind() != reflect.Bool {
				return unknown("%s returns one of its non-bool arguments", name)
			}
		}
		return val{typ: reflect.TypeOf(true)}
	}
	if boolFuncs[name] {
		return val{typ: reflect.TypeOf(true)}
	}
	f, ok := c.funcs[name]
	if !ok {
		return unknown("unknown function %s", name)
	}
	ft := reflect.TypeOf(f)
	if ft.Kind() != reflect.Func || ft.NumOut() < 1 {
		return unknown("function %s is not a function with a result", name)
	}
	rt := ft.Out(0)
	switch name {
	case "toLower", "toUpper", "trim":
		// RULE: strings.ToLower / ToUpper / TrimSpace preserve every class of Syntax.v when applied
		// to ASCII-structural bytes: they never create whitespace, separators, quotes, braces,
		// backslashes or $ (case mapping of a non-ASCII rune yields a non-ASCII rune or U+FFFD), and
		// TrimSpace only removes leading/trailing white space.  Exceptions handled here: CLit
		// alternatives are mapped through the function; CDQ/CSQ/CQuoted are NOT closed under
		// TrimSpace (a trailing `\ ` would lose its escaped byte) so trim of those is Unknown.
		if len(args) != 1 {
			return unknown("%s with %d arguments", name, len(args))
		}
		v := args[0]
		fn := map[string]func(string) string{"toLower": strings.ToLower, "toUpper": strings.ToUpper, "trim": strings.TrimSpace}[name]
		if v.isLit {
			var l []string
			for _, s := range v.lits {
				l = append(l, fn(s))
			}
			return val{typ: v.typ, isLit: true, lits: l, note: name + " of literals"}
		}
		cls, pat, why := c.classOfString(v)
		if why != "" {
			return unknown("%s", why)
		}
		if pat != nil {
			return unknown("%s applied to a shaped value", name)
		}
		if alts, ok := tab.LitAlts(cls); ok {
			var l []string
			for _, s := range alts {
				l = append(l, fn(s))
			}
			p := tab.C(tab.Lit(l...))
			return val{typ: rt, key: v.key, pat: &p, note: name + " mapped over the alternatives of " + v.key}
		}
		if name == "trim" && (cls == "CDQ" || cls == "CSQ" || cls == "CQuoted") {
			return unknown("trim of a %s value is not class preserving", cls)
		}
		p := tab.C(cls)
		return val{typ: rt, key: v.key, pat: &p, note: name + " preserves the class of " + v.key}
	case "makeSecretPath":
		// RULE (commonhelpers.MakeSecretPath = strings.Replace(path, defaultPath, variable, 1) or
		// path): the result consists of bytes of path and bytes of variable; when both are in one of
		// the byte-set classes CWord < CWordVar < CBareTok the result is in the larger of the two
		// (first-byte condition of CBareTok: the first byte of the result is the first byte of path
		// or of variable).  The variable must be a template literal.
		if len(args) != 4 {
			return unknown("makeSecretPath with %d arguments", len(args))
		}
		if !args[2].isLit || len(args[2].lits) != 1 {
			return unknown("makeSecretPath: variable argument is not a literal")
		}
		vc := leastByteSetClass(args[2].lits[0])
		if vc == "" {
			return unknown("makeSecretPath: literal %q is in no byte-set class", args[2].lits[0])
		}
		var pc string
		if args[0].isLit {
			pc = "CWord"
			for _, l := range args[0].lits {
				lc := leastByteSetClass(l)
				if lc == "" {
					return unknown("makeSecretPath: literal path %q is in no byte-set class", l)
				}
				if byteSetRank[lc] > byteSetRank[pc] {
					pc = lc
				}
			}
		} else {
			cls, pat, why := c.classOfString(args[0])
			if why != "" {
				return unknown("makeSecretPath: path argument: %s", why)
			}
			if pat != nil || byteSetRank[cls] == 0 {
				return unknown("makeSecretPath: path argument has class %s, not a byte-set class", cls)
			}
			pc = cls
		}
		if byteSetRank[vc] > byteSetRank[pc] {
			pc = vc
		}
		p := tab.C(pc)
		return val{typ: rt, fn: name, key: args[0].key, pat: &p, note: "makeSecretPath: join of the classes of path and of the literal " + args[2].lits[0]}
	}
	return val{typ: rt, fn: name}
}

// patOf returns the shape of an argument value for printf composition.
func (c *tmplCtx) patOf(v val) (tab.Pat, string) {
	if v.why != "" {
		return tab.Pat{}, v.why
	}
	if v.typ == nil {
		return tab.Pat{}, "value of unknown type"
	}
	t := v.typ
	if v.pat != nil {
		return *v.pat, ""
	}
	if t.Kind() == reflect.Ptr && !v.isLit {
		// text/template prints the pointee of a pointer, and <nil> for a nil pointer
		e := v
		e.typ = t.Elem()
		if e.typ.Kind() == reflect.Ptr {
			return tab.Pat{}, fmt.Sprintf("value of type %s", t)
		}
		p, why := c.patOf(e)
		if why != "" {
			return tab.Pat{}, why
		}
		return tab.Alt(p, tab.C(tab.Lit("<nil>"))), ""
	}
	switch {
	case isIntKind(t.Kind()):
		return tab.C("CInt"), ""
	case t.Kind() == reflect.Bool:
		return tab.C(tab.Lit("true", "false")), ""
	case t.Kind() == reflect.String:
		if v.isLit {
			return tab.C(tab.Lit(v.lits...)), ""
		}
		cls, pat, why := c.classOfString(v)
		if why != "" {
			return tab.Pat{}, why
		}
		if pat != nil {
			return *pat, ""
		}
		return tab.C(cls), ""
	}
	return tab.Pat{}, fmt.Sprintf("value of type %s", t)
}

func patLeaves(p tab.Pat, f func(tab.Pat)) {
	if p.K == "T" || p.K == "C" {
		f(p)
		return
	}
	for _, k := range p.Kids {
		patLeaves(k, f)
	}
}

func (c *tmplCtx) evalPrintf(args []val) val {
	str := reflect.TypeOf("")
	if len(args) == 0 {
		return unknown("printf without arguments")
	}
	f := args[0]
	if !(f.isLit && len(f.lits) == 1) {
		// `X | printf`: the VALUE is used as the format string.
		if len(args) != 1 {
			return unknown("printf with a non-literal format and arguments")
		}
		// RULE: fmt.Sprintf(v) with no operands rewrites every %-verb of v into %!verb(MISSING)
		// (or %!(NOVERB), (BADWIDTH), ...), dropping the flag/width characters between % and the
		// verb, and turns %% into %.  It adds only the bytes ! ( ) A-Z and removes bytes.  The byte
		// set classes CWord, CWordVar, CBareTok are closed under that (first byte: unchanged, or % stays
		// %).  CInt, CEmpty, CLines (built from integers and addresses) and CLit/Text without % are
		// unchanged.  CDQ, CSQ, CQuoted are NOT closed (removing bytes can split an escape pair).
		p, why := c.patOf(f)
		if why != "" {
			return unknown("printf format: %s", why)
		}
		bad := ""
		patLeaves(p, func(l tab.Pat) {
			switch {
			case l.K == "T":
				if strings.Contains(l.Text, "%") {
					bad = "literal text with %"
				}
			case l.Class == "CWord", l.Class == "CWordVar", l.Class == "CBareTok", l.Class == "CInt", l.Class == "CEmpty", l.Class == "CLines":
			default:
				if alts, ok := tab.LitAlts(l.Class); ok {
					for _, a := range alts {
						if strings.Contains(a, "%") {
							bad = "literal alternative with %"
						}
					}
				} else {
					bad = "class " + l.Class + " is not closed under Sprintf-as-format"
				}
			}
		})
		if bad != "" {
			return unknown("value used as printf FORMAT: %s", bad)
		}
		return val{typ: str, key: f.key, fn: f.fn, pat: &p, note: "value used as printf format; class closed under Sprintf with no operands" + noteSep(f.note)}
	}
	format := f.lits[0]
	rest := args[1:]
	var parts []tab.Pat
	lit := ""
	ai := 0
	for i := 0; i < len(format); i++ {
		if format[i] != '%' {
			lit += string(format[i])
			continue
		}
		if i+1 >= len(format) {
			return unknown("printf format %q ends in %%", format)
		}
		i++
		verb := format[i]
		if verb == '%' {
			lit += "%"
			continue
		}
		if ai >= len(rest) {
			return unknown("printf format %q has more verbs than operands", format)
		}
		a := rest[ai]
		ai++
		if a.why != "" {
			return unknown("printf operand: %s", a.why)
		}
		if a.typ == nil {
			return unknown("printf operand of unknown type")
		}
		var p tab.Pat
		k := a.typ.Kind()
		switch {
		case verb == 'q' && k == reflect.String:
			p = tab.C("CQuoted")
		case (verb == 'd' || verb == 'v') && isIntKind(k):
			p = tab.C("CInt")
		case verb == 'v' && k == reflect.Bool:
			p = tab.C(tab.Lit("true", "false"))
		case (verb == 's' || verb == 'v') && k == reflect.String:
			var why string
			p, why = c.patOf(a)
			if why != "" {
				return unknown("printf %%%c operand: %s", verb, why)
			}
		default:
			return unknown("printf verb %%%c applied to %s", verb, a.typ)
		}
		if lit != "" {
			parts = append(parts, tab.T(lit))
			lit = ""
		}
		parts = append(parts, p)
	}
	if ai != len(rest) {
		return unknown("printf format %q has fewer verbs than operands (EXTRA output)", format)
	}
	if lit != "" {
		parts = append(parts, tab.T(lit))
	}
	var p tab.Pat
	if len(parts) == 1 {
		p = parts[0]
	} else {
		p = tab.Seq(parts...)
	}
	key := ""
	if len(rest) == 1 {
		key = rest[0].key
	}
	return val{typ: str, key: key, pat: &p, note: fmt.Sprintf("printf %q", format)}
}

func noteSep(s string) string {
	if s == "" {
		return ""
	}
	return "; " + s
}

func isSnippetKey(key string) bool { return tab.SnippetKey(key) }

// resolve replaces the field references of a shape and records the keys as used.
func (c *tmplCtx) resolve(p tab.Pat) tab.Pat {
	var walk func(p tab.Pat)
	walk = func(p tab.Pat) {
		if p.K == "F" {
			c.usedKey[p.Text] = true
			if _, sh, ok := tab.Lookup(p.Text); ok && sh != nil {
				walk(*sh)
			}
		}
		for _, k := range p.Kids {
			walk(k)
		}
	}
	walk(p)
	return tab.Resolve(p)
}

// classOfString: class or shape of a string-typed, non-literal value; why != "" when unknown.
func (c *tmplCtx) classOfString(v val) (cls string, pat *tab.Pat, why string) {
	if v.why != "" {
		return "", nil, v.why
	}
	if v.pat != nil {
		if v.pat.K == "C" {
			return v.pat.Class, nil, ""
		}
		return "", v.pat, ""
	}
	if v.isLit {
		return tab.Lit(v.lits...), nil, ""
	}
	if v.fn != "" {
		if p, ok := tab.Shape["func:"+v.fn]; ok {
			rp := c.resolve(p)
			return "", &rp, ""
		}
		if cl, ok := tab.FuncClass[v.fn]; ok {
			return cl, nil, ""
		}
		return "", nil, "helper function " + v.fn + " has no entry in tab.FuncClass"
	}
	if v.key != "" {
		c.usedKey[v.key] = true
		if isSnippetKey(v.key) {
			return "CEmpty", nil, ""
		}
		cl, p, ok := tab.Lookup(v.key)
		if ok {
			if p != nil {
				rp := c.resolve(*p)
				return "", &rp, ""
			}
			return cl, nil, ""
		}
		return "", nil, "string field " + v.key + " has no entry in tab.FieldClass"
	}
	return "", nil, "string value of unknown origin"
}

// ------------------------------------------------------------------------------------------------
// sites
// ------------------------------------------------------------------------------------------------

func coqStr(s string) string {
	var b strings.Builder
	b.WriteByte('"')
	for i := 0; i < len(s); i++ {
		ch := s[i]
		switch {
		case ch == '"':
			b.WriteString(`""`)
		case ch == '\n' || ch == '\t' || (ch >= 32 && ch <= 126):
			b.WriteByte(ch)
		default:
			b.WriteByte('?')
		}
	}
	b.WriteByte('"')
	return b.String()
}

func (c *tmplCtx) newSite(si siteInfo) *node {
	si.Template = c.name
	si.ID = c.nextID
	c.nextID++
	c.sites = append(c.sites, si)
	return &node{kind: nSite, id: si.ID, cls: si.Class}
}

func (c *tmplCtx) unknownSite(pos parse.Pos, text, why string) *node {
	return c.newSite(siteInfo{Line: c.line(pos), Pipeline: text, Class: "CUnknown " + coqStr(why), Reason: why, Parts: 1, Parent: c.nextID})
}

// expand turns a leaf of a shape into a Text or a Site (inner nodes: expandPat).
func (c *tmplCtx) expand(p tab.Pat, base siteInfo, part *int, parent int) *node {
	switch p.K {
	case "T":
		return &node{kind: nText, text: p.Text, synthetic: true}
	case "C":
		si := base
		si.Class = p.Class
		si.Part = *part
		si.Parent = parent
		*part++
		return c.newSite(si)
	}
	return mkText("")
}

func countLeaves(p tab.Pat) int {
	n := 0
	patLeaves(p, func(l tab.Pat) {
		if l.K == "C" {
			n++
		}
	})
	return n
}

func (c *tmplCtx) expandPat(p tab.Pat, base siteInfo) *node {
	part := 0
	parent := c.nextID
	base.Parts = countLeaves(p)
	if base.Parts <= 1 {
		base.Parts = 1
	}
	var rec func(p tab.Pat) *node
	rec = func(p tab.Pat) *node {
		switch p.K {
		case "A":
			var k []*node
			for _, x := range p.Kids {
				k = append(k, rec(x))
			}
			if len(k) == 0 {
				return mkText("")
			}
			n := k[len(k)-1]
			for i := len(k) - 2; i >= 0; i-- {
				n = mkChoice(k[i], n)
			}
			return n
		case "S":
			var k []*node
			for _, x := range p.Kids {
				k = append(k, rec(x))
			}
			if len(k) == 0 {
				return mkText("")
			}
			return mkSeq(k)
		case "M":
			return mkStar(rec(p.Kids[0]))
		}
		return c.expand(p, base, &part, parent)
	}
	return rec(p)
}

func (c *tmplCtx) siteFor(a *parse.ActionNode, dot val) *node {
	pipeText := a.Pipe.String()
	base := siteInfo{Line: c.line(a.Pos), Pipeline: pipeText, Parts: 1, Ctx: quoteContext(c.text, a.Pos)}
	okey := c.base + "|" + pipeText
	if p, ok := tab.Shape["pipe:"+okey]; ok {
		p = c.resolve(p)
		base.Reason = "tab.Shape override for this pipeline"
		v := c.evalPipe(a.Pipe, dot)
		fillInfo(&base, v)
		return c.expandPat(p, base)
	}
	v := c.evalPipe(a.Pipe, dot)
	fillInfo(&base, v)
	if cl, ok := tab.PipelineClass[okey]; ok {
		base.Class = cl
		base.Reason = "tab.PipelineClass override for this pipeline"
		base.Parent = c.nextID
		return c.newSite(base)
	}
	if v.why != "" {
		return c.unknownSite(a.Pos, pipeText, v.why)
	}
	if v.typ == nil {
		return c.unknownSite(a.Pos, pipeText, "value of unknown type")
	}
	p, why := c.patOf(v)
	if why != "" {
		base.Class = "CUnknown " + coqStr(why)
		base.Reason = why
		base.Parent = c.nextID
		return c.newSite(base)
	}
	refined := false
	if c.isNonEmpty(pipeText) {
		q := dropEmpty(p)
		refined = !reflect.DeepEqual(p, q)
		p = q
	}
	switch {
	case v.note != "":
		base.Reason = v.note
	case v.isLit:
		base.Reason = "variable assigned only from string literals"
	case isIntKind(v.typ.Kind()):
		base.Reason = "integer type"
	case v.typ.Kind() == reflect.Bool:
		base.Reason = "bool type"
	case v.fn != "":
		base.Reason = "tab.FuncClass / tab.Shape of helper " + v.fn
	case isSnippetKey(v.key):
		base.Reason = "snippet field (snippets disabled)"
	default:
		base.Reason = "tab.FieldClass / tab.Shape of " + v.key
	}
	if refined {
		base.Reason += "; empty string excluded by the enclosing {{if}}/{{with}} on the same value"
	}
	if _, weak := tab.KnownWeak[v.key]; weak {
		base.Reason += "; KNOWN WEAK " + tab.KnownWeak[v.key]
	}
	if _, sus := tab.Suspect[v.key]; sus {
		base.Reason += "; SUSPECT (see tab.Suspect)"
	}
	return c.expandPat(p, base)
}

func fillInfo(si *siteInfo, v val) {
	if v.typ != nil {
		si.Type = v.typ.String()
	}
	si.Field = v.key
	si.Func = v.fn
}

// ------------------------------------------------------------------------------------------------
// walking the parse tree
// ------------------------------------------------------------------------------------------------

// collectAssigns finds the pipelines of all `$name = pipeline` assignments below the nodes.
func collectAssigns(nodes []parse.Node, name string, out *[]*parse.PipeNode) {
	var pipe func(p *parse.PipeNode)
	pipe = func(p *parse.PipeNode) {
		if p == nil {
			return
		}
		if p.IsAssign {
			for _, d := range p.Decl {
				if d.Ident[0] == name {
					*out = append(*out, p)
				}
			}
		}
	}
	for _, n := range nodes {
		switch n := n.(type) {
		case *parse.ActionNode:
			pipe(n.Pipe)
		case *parse.IfNode:
			pipe(n.Pipe)
			if n.List != nil {
				collectAssigns(n.List.Nodes, name, out)
			}
			if n.ElseList != nil {
				collectAssigns(n.ElseList.Nodes, name, out)
			}
		case *parse.WithNode:
			pipe(n.Pipe)
			if n.List != nil {
				collectAssigns(n.List.Nodes, name, out)
			}
			if n.ElseList != nil {
				collectAssigns(n.ElseList.Nodes, name, out)
			}
		case *parse.RangeNode:
			pipe(n.Pipe)
			if n.List != nil {
				collectAssigns(n.List.Nodes, name, out)
			}
			if n.ElseList != nil {
				collectAssigns(n.ElseList.Nodes, name, out)
			}
		case *parse.ListNode:
			collectAssigns(n.Nodes, name, out)
		}
	}
}

func pipeLiteral(p *parse.PipeNode) (string, bool) {
	if len(p.Cmds) != 1 || len(p.Cmds[0].Args) != 1 {
		return "", false
	}
	s, ok := p.Cmds[0].Args[0].(*parse.StringNode)
	if !ok {
		return "", false
	}
	return s.Text, true
}

// declare handles `$x := pipeline` at position i of nodes (the scope of $x is the rest of nodes).
func (c *tmplCtx) declare(p *parse.PipeNode, dot val, rest []parse.Node) {
	v := c.evalPipe(p, dot)
	for _, d := range p.Decl {
		name := d.Ident[0]
		var assigns []*parse.PipeNode
		collectAssigns(rest, name, &assigns)
		bv := v
		if len(assigns) > 0 {
			lits := []string{}
			all := true
			if l, ok := pipeLiteral(p); ok {
				lits = append(lits, l)
			} else {
				all = false
			}
			for _, a := range assigns {
				if l, ok := pipeLiteral(a); ok {
					dup := false
					for _, x := range lits {
						dup = dup || x == l
					}
					if !dup {
						lits = append(lits, l)
					}
				} else {
					all = false
				}
			}
			if all {
				bv = val{typ: reflect.TypeOf(""), isLit: true, lits: lits, note: "variable " + name + " assigned only from string literals"}
			} else {
				bv = unknown("variable %s is re-assigned from a non-literal pipeline", name)
			}
		}
		c.bind(name, bv)
	}
}

func (c *tmplCtx) walkList(l *parse.ListNode, dot val) *node {
	if l == nil {
		return mkText("")
	}
	var out []*node
	for i, n := range l.Nodes {
		c.census[nodeKind(n)]++
		switch n := n.(type) {
		case *parse.TextNode:
			out = append(out, mkText(string(n.Text)))
		case *parse.CommentNode:
		case *parse.ActionNode:
			if len(n.Pipe.Decl) > 0 {
				if n.Pipe.IsAssign {
					for _, d := range n.Pipe.Decl {
						if c.lookup(d.Ident[0]) == nil {
							out = append(out, c.unknownSite(n.Pos, n.String(), "assignment to undeclared variable "+d.Ident[0]))
						}
					}
					c.census["assign"]++
				} else {
					c.declare(n.Pipe, dot, l.Nodes[i+1:])
					c.census["declare"]++
				}
				continue
			}
			c.census["output action"]++
			out = append(out, c.siteFor(n, dot))
		case *parse.IfNode:
			c.census["control pipeline"]++
			c.push()
			if len(n.Pipe.Decl) > 0 && !n.Pipe.IsAssign {
				c.declare(n.Pipe, dot, n.List.Nodes)
			}
			ck, refine := condKey(n.Pipe)
			if refine {
				c.pushNonEmpty(ck)
			}
			a := c.walkList(n.List, dot)
			if refine {
				c.popNonEmpty()
			}
			c.pop()
			if n.ElseList != nil {
				c.push()
				b := c.walkList(n.ElseList, dot)
				c.pop()
				out = append(out, mkChoice(a, b))
			} else {
				out = append(out, mkChoice(a, mkText("")))
			}
		case *parse.WithNode:
			c.census["control pipeline"]++
			c.push()
			v := c.evalPipe(n.Pipe, dot)
			if len(n.Pipe.Decl) > 0 && !n.Pipe.IsAssign {
				c.declare(n.Pipe, dot, n.List.Nodes)
			}
			saveEpoch := c.dotEpoch
			c.epochs++
			c.dotEpoch = c.epochs
			pushed := 0
			if ck, ok := condKey(n.Pipe); ok {
				if !strings.HasPrefix(ck, ".") {
					c.pushNonEmpty(ck)
					pushed++
				}
				for _, d := range n.Pipe.Decl {
					if !n.Pipe.IsAssign {
						c.pushNonEmpty(d.Ident[0])
						pushed++
					}
				}
			}
			a := c.walkList(n.List, v)
			for ; pushed > 0; pushed-- {
				c.popNonEmpty()
			}
			c.dotEpoch = saveEpoch
			c.pop()
			if n.ElseList != nil {
				c.push()
				b := c.walkList(n.ElseList, dot)
				c.pop()
				out = append(out, mkChoice(a, b))
			} else {
				out = append(out, mkChoice(a, mkText("")))
			}
		case *parse.RangeNode:
			c.census["control pipeline"]++
			c.push()
			v := c.evalPipe(n.Pipe, dot)
			var kv, ev val
			if v.why != "" {
				kv, ev = v, v
			} else if t := deref(v.typ); t == nil {
				kv, ev = unknown("range over a value of unknown type"), unknown("range over a value of unknown type")
			} else {
				switch t.Kind() {
				case reflect.Slice, reflect.Array:
					kv = val{typ: reflect.TypeOf(int(0))}
					ev = val{typ: t.Elem(), key: v.key + "[]"}
				case reflect.Map:
					kv = val{typ: t.Key(), key: v.key + "[key]"}
					ev = val{typ: t.Elem(), key: v.key + "[val]"}
				default:
					kv = unknown("range over %s", t)
					ev = kv
				}
			}
			switch len(n.Pipe.Decl) {
			case 1:
				c.bind(n.Pipe.Decl[0].Ident[0], ev)
			case 2:
				c.bind(n.Pipe.Decl[0].Ident[0], kv)
				c.bind(n.Pipe.Decl[1].Ident[0], ev)
			}
			saveEpoch := c.dotEpoch
			c.epochs++
			c.dotEpoch = c.epochs
			a := c.walkList(n.List, ev)
			c.dotEpoch = saveEpoch
			c.pop()
			if n.ElseList != nil {
				// the body is walked a second time so that the copy gets its own site ids
				c.push()
				switch len(n.Pipe.Decl) {
				case 1:
					c.bind(n.Pipe.Decl[0].Ident[0], ev)
				case 2:
					c.bind(n.Pipe.Decl[0].Ident[0], kv)
					c.bind(n.Pipe.Decl[1].Ident[0], ev)
				}
				c.epochs++
				c.dotEpoch = c.epochs
				a2 := c.walkList(n.List, ev)
				c.dotEpoch = saveEpoch
				c.pop()
				c.push()
				b := c.walkList(n.ElseList, dot)
				c.pop()
				out = append(out, mkChoice(mkSeq([]*node{a, mkStar(a2)}), b))
			} else {
				out = append(out, mkStar(a))
			}
		default:
			// {{template}}, {{break}}, {{continue}}, anything new: fail closed
			out = append(out, c.unknownSite(n.Position(), n.String(), "unsupported template construct "+nodeKind(n)))
		}
	}
	if len(out) == 0 {
		return mkText("")
	}
	return mkSeq(out)
}

func nodeKind(n parse.Node) string {
	return strings.TrimPrefix(fmt.Sprintf("%T", n), "*parse.")
}

// ------------------------------------------------------------------------------------------------
// Coq emission
// ------------------------------------------------------------------------------------------------

func coqText(s string) string {
	if s == "" {
		return `""`
	}
	var parts []string
	i := 0
	for i < len(s) {
		j := i
		plain := func(b byte) bool { return b == '\n' || b == '\t' || (b >= 32 && b <= 126) }
		if plain(s[i]) {
			for j < len(s) && plain(s[j]) {
				j++
			}
			parts = append(parts, `"`+strings.ReplaceAll(s[i:j], `"`, `""`)+`"`)
		} else {
			var nums []string
			for j < len(s) && !plain(s[j]) {
				nums = append(nums, fmt.Sprint(int(s[j])))
				j++
			}
			parts = append(parts, "bs ["+strings.Join(nums, "; ")+"]%nat")
		}
		i = j
	}
	if len(parts) == 1 {
		return parts[0]
	}
	return "(" + strings.Join(parts, " ++ ") + ")"
}

type emitter struct {
	name   string
	defs   []string // hoisted definitions, in dependency order
	nhoist int
	limit  int
}

func (e *emitter) hoist(term string) string {
	e.nhoist++
	nm := fmt.Sprintf("tmpl_%s_p%d", e.name, e.nhoist)
	e.defs = append(e.defs, fmt.Sprintf("Definition %s : tmpl :=\n  %s.\n", nm, term))
	return nm
}

// term returns the Coq term of n and the number of nodes it contributes to the enclosing
// definition (a hoisted reference counts 1).
func (e *emitter) term(n *node) (string, int) {
	switch n.kind {
	case nText:
		return "Text " + coqText(n.text), 1
	case nSite:
		return fmt.Sprintf("Site %d (%s)", n.id, n.cls), 1
	case nStar:
		t, s := e.term(n.kids[0])
		if s > e.limit/2 {
			t, s = e.hoist(t), 1
		}
		return "Star (" + t + ")", s + 1
	case nChoice:
		a, sa := e.term(n.kids[0])
		b, sb := e.term(n.kids[1])
		if sa > e.limit/2 {
			a, sa = e.hoist(a), 1
		}
		if sb > e.limit/2 {
			b, sb = e.hoist(b), 1
		}
		if n.kids[1].kind == nText && n.kids[1].text == "" {
			return "opt (" + a + ")", sa + 2
		}
		return "Choice (" + a + ") (" + b + ")", sa + sb + 1
	case nSeq:
		var items []string
		total := 0
		var chunks []string
		flush := func() {
			if len(items) > 0 {
				chunks = append(chunks, e.hoist("seqs [\n    "+strings.Join(items, ";\n    ")+"]"))
				items = nil
				total = 0
			}
		}
		for _, k := range n.kids {
			t, s := e.term(k)
			if total+s+1 > e.limit && len(items) > 0 {
				flush()
			}
			items = append(items, t)
			total += s + 1
		}
		if len(chunks) == 0 {
			return "seqs [\n    " + strings.Join(items, ";\n    ") + "]", total + 1
		}
		flush()
		return "seqs [" + strings.Join(chunks, "; ") + "]", 2*len(chunks) + 1
	}
	return `Text ""`, 1
}

func emitTemplate(b *bytes.Buffer, c *tmplCtx, root *node, limit int) {
	e := &emitter{name: c.name, limit: limit}
	t, _ := e.term(root)
	fmt.Fprintf(b, "(* ---------------------------------------------------------------- %s  (%s) *)\n\n", c.name, c.base)
	for _, d := range e.defs {
		b.WriteString(d)
		b.WriteString("\n")
	}
	fmt.Fprintf(b, "Definition tmpl_%s : tmpl :=\n  %s.\n\n", c.name, t)
	fmt.Fprintf(b, "Definition sites_%s : list site_row := [\n", c.name)
	for i, s := range c.sites {
		sep := ";"
		if i == len(c.sites)-1 {
			sep = ""
		}
		desc := fmt.Sprintf("line %d: {{%s}}", s.Line, s.Pipeline)
		if s.Parts > 1 {
			desc += fmt.Sprintf(" part %d/%d", s.Part+1, s.Parts)
		}
		if s.Type != "" {
			desc += " : " + s.Type
		}
		if s.Field != "" {
			desc += " ; field " + s.Field
		}
		if s.Func != "" {
			desc += " ; func " + s.Func
		}
		if s.Reason != "" {
			desc += " ; " + s.Reason
		}
		fmt.Fprintf(b, "  (%d, %s, %s)%s\n", s.ID, s.Class, coqStr(desc), sep)
	}
	b.WriteString("].\n\n")
}

// ------------------------------------------------------------------------------------------------
// main
// ------------------------------------------------------------------------------------------------

type tmplSpec struct {
	name  string
	file  string // relative to the repository root; "" for inline
	text  string
	funcs template.FuncMap
	root  reflect.Type
}

type result struct {
	ctx  *tmplCtx
	root *node
	spec tmplSpec
}

func translate(sp tmplSpec) (*result, error) {
	base := filepath.Base(sp.file)
	if sp.file == "" {
		base = sp.name
	}
	builtins := map[string]any{}
	for _, n := range []string{"and", "call", "html", "index", "slice", "js", "len", "not", "or", "print", "printf", "println", "urlquery", "eq", "ge", "gt", "le", "lt", "ne"} {
		builtins[n] = true
	}
	fm := map[string]any{}
	for k, v := range sp.funcs {
		fm[k] = v
	}
	trees, err := parse.Parse(base, sp.text, "", "", fm, builtins)
	if err != nil {
		return nil, err
	}
	c := &tmplCtx{name: sp.name, base: base, text: sp.text, funcs: sp.funcs, root: sp.root, census: map[string]int{}, usedKey: map[string]bool{}}
	c.push()
	rootVal := val{typ: sp.root, key: pkgBase(deref(sp.root)) + "." + deref(sp.root).Name()}
	c.bind("$", rootVal)
	var pre []*node
	var names []string
	for n := range trees {
		names = append(names, n)
	}
	sort.Strings(names)
	for _, n := range names {
		if n != base && trees[n] != nil && trees[n].Root != nil && len(trees[n].Root.Nodes) > 0 {
			pre = append(pre, c.unknownSite(0, "define "+n, "template defines an associated template "+n+" ({{define}}/{{block}})"))
		}
	}
	main := trees[base]
	if main == nil || main.Root == nil {
		return nil, fmt.Errorf("no tree named %s", base)
	}
	body := c.walkList(main.Root, rootVal)
	root := mkSeq(append(pre, body))
	return &result{ctx: c, root: root, spec: sp}, nil
}

func countNodes(n *node, m map[string]int) {
	m[[]string{"Text", "Site", "Seq", "Choice", "Star"}[n.kind]]++
	for _, k := range n.kids {
		countNodes(k, m)
	}
}

func textBytes(n *node) int {
	t := 0
	if n.kind == nText {
		t = len(n.text)
	}
	for _, k := range n.kids {
		t += textBytes(k)
	}
	return t
}

func classHead(cl string) string {
	if i := strings.IndexAny(cl, " ["); i >= 0 {
		return cl[:i]
	}
	return cl
}

func main() {
	repo := flag.String("repo", "", "repository root (default $VERIF_REPO or /repo)")
	out := flag.String("out", "/verif/coq/gen/Templates.v", "output .v file")
	sitesOut := flag.String("sites", "", "JSON side file describing every site")
	selfcheck := flag.Bool("selfcheck", false, "run the text sanity check and the round trip on real renderings")
	limit := flag.Int("limit", 400, "maximal number of nodes per Coq Definition")
	quiet := flag.Bool("q", false, "do not print the census")
	flag.Parse()
	if *repo == "" {
		*repo = os.Getenv("VERIF_REPO")
	}
	if *repo == "" {
		*repo = "/repo"
	}
	f1 := version1.VerifC06THelperFunctions()
	f2 := version2.VerifC06THelperFunctions()
	specs := []tmplSpec{
		{name: "v1_ingress_oss", file: "internal/configs/version1/nginx.ingress.tmpl", funcs: f1, root: reflect.TypeOf(&version1.IngressNginxConfig{})},
		{name: "v1_ingress_plus", file: "internal/configs/version1/nginx-plus.ingress.tmpl", funcs: f1, root: reflect.TypeOf(&version1.IngressNginxConfig{})},
		{name: "v2_vs_oss", file: "internal/configs/version2/nginx.virtualserver.tmpl", funcs: f2, root: reflect.TypeOf(&version2.VirtualServerConfig{})},
		{name: "v2_vs_plus", file: "internal/configs/version2/nginx-plus.virtualserver.tmpl", funcs: f2, root: reflect.TypeOf(&version2.VirtualServerConfig{})},
		{name: "v2_ts_oss", file: "internal/configs/version2/nginx.transportserver.tmpl", funcs: f2, root: reflect.TypeOf(&version2.TransportServerConfig{})},
		{name: "v2_ts_plus", file: "internal/configs/version2/nginx-plus.transportserver.tmpl", funcs: f2, root: reflect.TypeOf(&version2.TransportServerConfig{})},
		{name: "v2_tls_passthrough_hosts", text: version2.VerifC06TTLSPassthroughHostsTemplate(), funcs: template.FuncMap{}, root: reflect.TypeOf(&version2.TLSPassthroughHostsConfig{})},
	}
	var results []*result
	for i := range specs {
		sp := &specs[i]
		if sp.file != "" {
			raw, err := os.ReadFile(filepath.Join(*repo, sp.file))
			if err != nil {
				fmt.Fprintf(os.Stderr, "c06t: %v\n", err)
				os.Exit(2)
			}
			sp.text = string(raw)
		}
		r, err := translate(*sp)
		if err != nil {
			fmt.Fprintf(os.Stderr, "c06t: parse of %s failed: %v\n", sp.name, err)
			os.Exit(2)
		}
		results = append(results, r)
	}

	var b bytes.Buffer
	b.WriteString("(* GENERATED by harness/overlay/internal/verifh/c06t from the configuration templates of the\n")
	b.WriteString("   repository under verification; regenerated on every run.  DO NOT EDIT.\n")
	b.WriteString("   One abstract template (Tmpl.Syntax.tmpl) and one site table per real template. *)\n")
	b.WriteString("From Coq Require Import List String Ascii.\nFrom NIC Require Import Base.Bytes Tmpl.Syntax.\nImport ListNotations.\nOpen Scope string_scope.\n\n")
	for _, r := range results {
		emitTemplate(&b, r.ctx, r.root, *limit)
	}
	b.WriteString("Definition all_templates : list (string * tmpl) := [\n")
	for i, r := range results {
		sep := ";"
		if i == len(results)-1 {
			sep = ""
		}
		fmt.Fprintf(&b, "  (\"%s\", tmpl_%s)%s\n", r.ctx.name, r.ctx.name, sep)
	}
	b.WriteString("].\n\n(* per template: number of sites and number of bytes of literal text, as counted by the translator on\n   its own tree (a check that the split into several Definitions lost nothing) *)\nDefinition template_stats : list (string * (nat * nat)) := [\n")
	for i, r := range results {
		sep := ";"
		if i == len(results)-1 {
			sep = ""
		}
		m := map[string]int{}
		countNodes(r.root, m)
		tb := textBytes(r.root)
		// numerals above 5000 in nat make Coq print a warning: write q * 1000 + r
		fmt.Fprintf(&b, "  (\"%s\", (%d, %d * 1000 + %d))%s\n", r.ctx.name, m["Site"], tb/1000, tb%1000, sep)
	}
	b.WriteString("].\n\nDefinition all_site_tables : list (string * list site_row) := [\n")
	for i, r := range results {
		sep := ";"
		if i == len(results)-1 {
			sep = ""
		}
		fmt.Fprintf(&b, "  (\"%s\", sites_%s)%s\n", r.ctx.name, r.ctx.name, sep)
	}
	b.WriteString("].\n")
	old, _ := os.ReadFile(*out)
	if !bytes.Equal(old, b.Bytes()) { // keep the mtime when nothing changed (incremental make)
		if err := os.WriteFile(*out, b.Bytes(), 0o644); err != nil {
			fmt.Fprintf(os.Stderr, "c06t: %v\n", err)
			os.Exit(2)
		}
	}
	if *sitesOut != "" {
		var all []siteInfo
		for _, r := range results {
			all = append(all, r.ctx.sites...)
		}
		j, _ := json.MarshalIndent(all, "", " ")
		if err := os.WriteFile(*sitesOut, j, 0o644); err != nil {
			fmt.Fprintf(os.Stderr, "c06t: %v\n", err)
			os.Exit(2)
		}
	}

	if !*quiet {
		printCensus(results)
	}
	if *selfcheck {
		ok := true
		for _, r := range results {
			ok = selfCheck(r) && ok
		}
		if ok {
			fmt.Println("SELFCHECK: all ok")
		} else {
			fmt.Println("SELFCHECK: FAILED")
			os.Exit(1)
		}
	}
}

func printCensus(results []*result) {
	usedKeys := map[string]bool{}
	for _, r := range results {
		c := r.ctx
		fmt.Printf("== %s (%s)\n", c.name, c.base)
		var ks []string
		for k := range c.census {
			ks = append(ks, k)
		}
		sort.Strings(ks)
		fmt.Printf("  parse nodes:")
		for _, k := range ks {
			fmt.Printf(" %s=%d", k, c.census[k])
		}
		fmt.Println()
		m := map[string]int{}
		countNodes(r.root, m)
		fmt.Printf("  abstract nodes: Text=%d Site=%d Seq=%d Choice=%d Star=%d (total %d)\n", m["Text"], m["Site"], m["Seq"], m["Choice"], m["Star"], r.root.size())
		by := map[string]int{}
		for _, s := range c.sites {
			by[classHead(s.Class)]++
		}
		ks = ks[:0]
		for k := range by {
			ks = append(ks, k)
		}
		sort.Strings(ks)
		fmt.Printf("  sites by class:")
		for _, k := range ks {
			fmt.Printf(" %s=%d", k, by[k])
		}
		fmt.Println()
		for _, s := range c.sites {
			if strings.HasPrefix(s.Class, "CUnknown") {
				fmt.Printf("  UNKNOWN site %d line %d {{%s}}: %s\n", s.ID, s.Line, s.Pipeline, s.Reason)
			}
		}
		for _, s := range c.sites {
			h := classHead(s.Class)
			switch {
			case s.Parts > 1:
				// expanded shapes bring their own quotes; not linted
			case (h == "CDQ") != (s.Ctx == "dq") && h != "CWord" && h != "CInt" && h != "CLit" && h != "CWordVar" && h != "CEmpty":
				fmt.Printf("  LINT site %d line %d {{%s}}: class %s in %s context\n", s.ID, s.Line, s.Pipeline, h, s.Ctx)
			case h == "CWordVar" && s.Ctx == "sq":
				fmt.Printf("  LINT site %d line %d {{%s}}: class %s in %s context\n", s.ID, s.Line, s.Pipeline, h, s.Ctx)
			}
		}
		for k := range c.usedKey {
			usedKeys[k] = true
		}
	}
	var unused []string
	for k := range tab.FieldClass {
		if !usedKeys[k] {
			unused = append(unused, k)
		}
	}
	for k := range tab.Shape {
		if !usedKeys[k] && !strings.HasPrefix(k, "func:") && !strings.HasPrefix(k, "pipe:") {
			unused = append(unused, k)
		}
	}
	sort.Strings(unused)
	if len(unused) > 0 {
		fmt.Printf("table entries not used by any site: %s\n", strings.Join(unused, " "))
	}
}

// ------------------------------------------------------------------------------------------------
// self check
// ------------------------------------------------------------------------------------------------

// parseText concatenates the TextNodes of a parse tree in the order (and multiplicity) the
// translator visits them.
func parseText(l *parse.ListNode, b *strings.Builder) {
	if l == nil {
		return
	}
	for _, n := range l.Nodes {
		switch n := n.(type) {
		case *parse.TextNode:
			b.Write(n.Text)
		case *parse.IfNode:
			parseText(n.List, b)
			parseText(n.ElseList, b)
		case *parse.WithNode:
			parseText(n.List, b)
			parseText(n.ElseList, b)
		case *parse.RangeNode:
			parseText(n.List, b)
			if n.ElseList != nil {
				parseText(n.List, b)
				parseText(n.ElseList, b)
			}
		}
	}
}

func abstractText(n *node, b *strings.Builder) {
	if n.kind == nText && !n.synthetic {
		b.WriteString(n.text)
	}
	for _, k := range n.kids {
		abstractText(k, b)
	}
}

// --- NFA (Thompson construction; simulation with state sets, so matching is linear in
// len(input) * active states and cannot blow up)

type nstate struct {
	eps []int
	set *[256]bool // nil: no byte edge
	to  int
}

type nfa struct{ st []nstate }

func (m *nfa) add() int     { m.st = append(m.st, nstate{}); return len(m.st) - 1 }
func (m *nfa) eps(a, b int) { m.st[a].eps = append(m.st[a].eps, b) }
func (m *nfa) edge(a int, set *[256]bool, b int) {
	if m.st[a].set != nil {
		// one byte edge per state: go through a fresh state
		x := m.add()
		m.eps(a, x)
		a = x
	}
	m.st[a].set = set
	m.st[a].to = b
}

var byteSets = map[byte]*[256]bool{}

func single(b byte) *[256]bool {
	if s, ok := byteSets[b]; ok {
		return s
	}
	var s [256]bool
	s[b] = true
	byteSets[b] = &s
	return &s
}

func setOf(f func(b byte) bool) *[256]bool {
	var s [256]bool
	for i := 0; i < 256; i++ {
		s[i] = f(byte(i))
	}
	return &s
}

var (
	anySet   = setOf(func(b byte) bool { return true })
	wordSet  = setOf(func(b byte) bool { return tab.InClass("CWord", string([]byte{b})) })
	wvarSet  = setOf(func(b byte) bool { return tab.InClass("CWordVar", string([]byte{b})) })
	bareSet  = setOf(func(b byte) bool { return tab.InClass("CBareTok", "x"+string([]byte{b})) })
	bare1Set = setOf(func(b byte) bool { return tab.InClass("CBareTok", string([]byte{b})) })
	dqSet    = setOf(func(b byte) bool { return b != '"' && b != '\\' })
	sqSet    = setOf(func(b byte) bool { return b != '\'' && b != '\\' })
	digitSet = setOf(func(b byte) bool { return b >= '0' && b <= '9' })
)

func (m *nfa) lit(from int, s string) int {
	cur := from
	for i := 0; i < len(s); i++ {
		nx := m.add()
		m.edge(cur, single(s[i]), nx)
		cur = nx
	}
	return cur
}

func (m *nfa) quotedBody(from int, set *[256]bool) int {
	// loop state
	l := m.add()
	m.eps(from, l)
	m.edge(l, set, l)
	e := m.add()
	x := m.add()
	m.eps(l, x)
	m.edge(x, single('\\'), e)
	m.edge(e, anySet, l)
	return l
}

// class builds the automaton of a class from state from and returns its end state.
func (m *nfa) class(from int, cls string, strict bool) int {
	loop := func(set *[256]bool) int {
		l := m.add()
		m.eps(from, l)
		m.edge(l, set, l)
		return l
	}
	if !strict {
		return loop(anySet)
	}
	switch cls {
	case "CWord":
		return loop(wordSet)
	case "CWordVar":
		return loop(wvarSet)
	case "CBareTok":
		end := m.add()
		m.eps(from, end)
		l := m.add()
		m.edge(from, bare1Set, l)
		m.edge(l, bareSet, l)
		m.eps(l, end)
		return end
	case "CDQ":
		return m.quotedBody(from, dqSet)
	case "CSQ":
		return m.quotedBody(from, sqSet)
	case "CQuoted":
		a := m.lit(from, `"`)
		b := m.quotedBody(a, dqSet)
		return m.lit(b, `"`)
	case "CInt":
		a := m.add()
		m.eps(from, a)
		x := m.add()
		m.eps(from, x)
		m.edge(x, single('-'), a)
		d := m.add()
		m.edge(a, digitSet, d)
		m.edge(d, digitSet, d)
		return d
	case "CEmpty":
		return from
	case "CLines":
		return loop(anySet)
	}
	if alts, ok := tab.LitAlts(cls); ok {
		end := m.add()
		for _, a := range alts {
			s := m.add()
			m.eps(from, s)
			m.eps(m.lit(s, a), end)
		}
		return end
	}
	return loop(anySet) // CUnknown
}

func (m *nfa) build(n *node, from int, strict bool) int {
	switch n.kind {
	case nText:
		return m.lit(from, n.text)
	case nSite:
		return m.class(from, n.cls, strict)
	case nSeq:
		cur := from
		for _, k := range n.kids {
			cur = m.build(k, cur, strict)
		}
		return cur
	case nChoice:
		end := m.add()
		for _, k := range n.kids {
			s := m.add()
			m.eps(from, s)
			m.eps(m.build(k, s, strict), end)
		}
		return end
	case nStar:
		h := m.add()
		m.eps(from, h)
		s := m.add()
		m.eps(h, s)
		e := m.build(n.kids[0], s, strict)
		m.eps(e, h)
		return h
	}
	return from
}

// run reports whether the automaton accepts input; when not, the position where the state set
// became empty (or len(input) if it ended in a non-accepting set) and the peak number of states.
func (m *nfa) run(start, accept int, input []byte) (bool, int, int) {
	mark := make([]int, len(m.st))
	gen := 0
	var cur, next, stack []int
	closure := func(seed []int, out *[]int) {
		gen++
		stack = stack[:0]
		for _, s := range seed {
			if mark[s] != gen {
				mark[s] = gen
				stack = append(stack, s)
			}
		}
		for len(stack) > 0 {
			s := stack[len(stack)-1]
			stack = stack[:len(stack)-1]
			*out = append(*out, s)
			for _, t := range m.st[s].eps {
				if mark[t] != gen {
					mark[t] = gen
					stack = append(stack, t)
				}
			}
		}
	}
	closure([]int{start}, &cur)
	peak := len(cur)
	var seed []int
	for i, b := range input {
		seed = seed[:0]
		for _, s := range cur {
			if st := &m.st[s]; st.set != nil && st.set[b] {
				seed = append(seed, st.to)
			}
		}
		if len(seed) == 0 {
			return false, i, peak
		}
		next = next[:0]
		closure(seed, &next)
		cur, next = next, cur
		if len(cur) > peak {
			peak = len(cur)
		}
	}
	for _, s := range cur {
		if s == accept {
			return true, len(input), peak
		}
	}
	return false, len(input), peak
}

// --- building data values by reflection

type filler struct {
	mode      int
	n         int
	ptrAlways bool              // never leave a pointer nil or a slice empty (second attempt when the template dereferences / indexes one unguarded)
	override  map[string]string // field key -> class, from the PipelineClass overrides of the template at hand
}

func sampleClass(cls string, n int) string {
	switch cls {
	case "CWord":
		return fmt.Sprintf("w%d", n)
	case "CWordVar":
		return fmt.Sprintf("$v%d", n)
	case "CBareTok":
		return fmt.Sprintf("/p%d/$x\"}#'", n)
	case "CDQ":
		return fmt.Sprintf(`d %d \" {;} # '`, n)
	case "CSQ":
		return fmt.Sprintf(`s %d \' {;} # "`, n)
	case "CQuoted":
		return fmt.Sprintf(`"q %d \" {;}"`, n)
	case "CInt":
		return fmt.Sprint(n)
	case "CLines":
		return "listen 80;\n"
	case "CEmpty":
		return ""
	}
	if alts, ok := tab.LitAlts(cls); ok && len(alts) > 0 {
		return alts[n%len(alts)]
	}
	return fmt.Sprintf("x%d", n)
}

func samplePat(p tab.Pat, n *int) string {
	switch p.K {
	case "T":
		return p.Text
	case "C":
		*n++
		return sampleClass(p.Class, *n)
	case "S":
		s := ""
		for _, k := range p.Kids {
			s += samplePat(k, n)
		}
		return s
	case "A":
		*n++
		return samplePat(p.Kids[*n%len(p.Kids)], n)
	case "M":
		*n++
		s := ""
		for i := 0; i < *n%3; i++ {
			s += samplePat(p.Kids[0], n)
		}
		return s
	}
	return ""
}

func (f *filler) str(key string) string {
	f.n++
	if f.mode == 2 {
		return ""
	}
	if isSnippetKey(key) {
		return ""
	}
	if c, ok := f.override[key]; ok {
		return sampleClass(c, f.n)
	}
	cls, pat, ok := tab.Lookup(key)
	if !ok {
		return fmt.Sprintf("x%d", f.n)
	}
	if pat != nil {
		return samplePat(*pat, &f.n)
	}
	return sampleClass(cls, f.n)
}

func (f *filler) boolean() bool {
	f.n++
	switch f.mode {
	case 0:
		return true
	case 1, 2:
		return false
	case 3:
		return f.n%2 == 0
	case 4:
		return f.n%3 != 0
	}
	return f.n%5 < 2
}

func (f *filler) fill(v reflect.Value, key string, depth int) {
	t := v.Type()
	switch t.Kind() {
	case reflect.String:
		v.SetString(f.str(key))
	case reflect.Bool:
		v.SetBool(f.boolean())
	case reflect.Int, reflect.Int8, reflect.Int16, reflect.Int32, reflect.Int64:
		f.n++
		if f.mode != 2 {
			v.SetInt(int64(f.n%90 + 1))
		}
	case reflect.Uint, reflect.Uint8, reflect.Uint16, reflect.Uint32, reflect.Uint64:
		f.n++
		if f.mode != 2 {
			v.SetUint(uint64(f.n%90 + 1))
		}
	case reflect.Float32, reflect.Float64:
		v.SetFloat(1.5)
	case reflect.Ptr:
		if f.mode == 2 || depth > 8 {
			return
		}
		if f.mode >= 3 && !f.ptrAlways && !f.boolean() {
			return
		}
		p := reflect.New(t.Elem())
		f.fill(p.Elem(), key, depth+1)
		v.Set(p)
	case reflect.Struct:
		for i := 0; i < t.NumField(); i++ {
			sf := t.Field(i)
			if !sf.IsExported() {
				continue
			}
			f.fill(v.Field(i), pkgBase(t)+"."+t.Name()+"."+sf.Name, depth+1)
		}
	case reflect.Slice:
		if f.mode == 2 || depth > 8 {
			return
		}
		n := 2
		if f.mode >= 3 {
			f.n++
			n = f.n % 3
			if f.ptrAlways && n == 0 {
				n = 1
			}
		}
		s := reflect.MakeSlice(t, n, n)
		for i := 0; i < n; i++ {
			f.fill(s.Index(i), key+"[]", depth+1)
		}
		v.Set(s)
	case reflect.Map:
		if f.mode == 2 || depth > 8 || t.Key().Kind() != reflect.String {
			return
		}
		m := reflect.MakeMap(t)
		for i := 0; i < 2; i++ {
			k := reflect.New(t.Key()).Elem()
			k.SetString(f.str(key + "[key]"))
			e := reflect.New(t.Elem()).Elem()
			f.fill(e, key+"[val]", depth+1)
			m.SetMapIndex(k, e)
		}
		v.Set(m)
	}
}

var pathRegexModes = []string{"", "case_sensitive", "case_insensitive", "exact", "", "case_sensitive"}

// fixups set the few values the helper functions inspect.
func fixup(root any, mode int) {
	switch r := root.(type) {
	case *version1.IngressNginxConfig:
		r.Ingress.Annotations = map[string]string{}
		if mode != 2 {
			r.Ingress.Annotations["nginx.org/proxy-set-headers"] = "X-Forwarded-ABC: some value,X-Other"
		}
		if pathRegexModes[mode] != "" {
			r.Ingress.Annotations["nginx.org/path-regex"] = pathRegexModes[mode]
		}
		for i := range r.Servers {
			for j := range r.Servers[i].Locations {
				l := &r.Servers[i].Locations[j]
				if mode != 2 {
					// the real validator makes a path an escaped string without white space, which is
					// what the quoted alternatives of makeLocationPath rely on; sample from
					// CBareTok and CDQ at the same time
					l.Path = fmt.Sprintf("/p%d/a.b$x}#'", i*10+j)
					if j%3 == 2 {
						l.Path = "= " + l.Path
					}
				}
				if l.MinionIngress != nil {
					l.MinionIngress.Annotations = map[string]string{"nginx.org/mergeable-ingress-type": "minion"}
					if j%2 == 0 {
						l.MinionIngress.Annotations["nginx.org/path-regex"] = "case_insensitive"
						l.MinionIngress.Annotations["nginx.org/proxy-set-headers"] = "X-Minion: m,X-Forwarded-ABC"
					}
				}
			}
		}
	}
}

func selfCheck(r *result) bool {
	c := r.ctx
	ok := true
	var a, b strings.Builder
	trees, _ := parse.Parse(c.base, c.text, "", "", map[string]any(c.funcs), map[string]any{"and": 1, "call": 1, "html": 1, "index": 1, "slice": 1, "js": 1, "len": 1, "not": 1, "or": 1, "print": 1, "printf": 1, "println": 1, "urlquery": 1, "eq": 1, "ge": 1, "gt": 1, "le": 1, "lt": 1, "ne": 1})
	parseText(trees[c.base].Root, &a)
	abstractText(r.root, &b)
	if a.String() != b.String() {
		fmt.Printf("SELFCHECK %s: TEXT MISMATCH (parse %d bytes, abstract %d bytes)\n", c.name, a.Len(), b.Len())
		ok = false
	} else {
		fmt.Printf("SELFCHECK %s: text ok (%d bytes of literal text in order)\n", c.name, a.Len())
	}
	tm, err := template.New(c.base).Funcs(c.funcs).Parse(c.text)
	if err != nil {
		fmt.Printf("SELFCHECK %s: text/template parse failed: %v\n", c.name, err)
		return false
	}
	var loose, strict nfa
	ls := loose.add()
	le := loose.build(r.root, ls, false)
	ss := strict.add()
	se := strict.build(r.root, ss, true)
	override := map[string]string{}
	for _, si := range c.sites {
		if si.Field != "" && strings.Contains(si.Reason, "tab.PipelineClass override") {
			override[si.Field] = si.Class
		}
	}
	for mode := 0; mode < 6; mode++ {
		var buf bytes.Buffer
		var rerr error
		for attempt := 0; attempt < 2; attempt++ {
			f := &filler{mode: mode, ptrAlways: attempt == 1, override: override}
			root := reflect.New(deref(r.spec.root))
			rt := deref(r.spec.root)
			f.fill(root.Elem(), pkgBase(rt)+"."+rt.Name(), 0)
			var data any = root.Interface()
			fixup(data, mode)
			buf.Reset()
			if rerr = tm.Execute(&buf, data); rerr == nil {
				break
			}
		}
		if rerr != nil {
			fmt.Printf("SELFCHECK %s mode %d: render error (skipped): %v\n", c.name, mode, rerr)
			continue
		}
		outb := buf.Bytes()
		report := func(kind string, m *nfa, s, e int) bool {
			acc, pos, peak := m.run(s, e, outb)
			if acc {
				fmt.Printf("SELFCHECK %s mode %d: %s round trip ok (%d output bytes, %d nfa states, peak %d active)\n", c.name, mode, kind, len(outb), len(m.st), peak)
				return true
			}
			lo, hi := pos-160, pos+80
			if lo < 0 {
				lo = 0
			}
			if hi > len(outb) {
				hi = len(outb)
			}
			fmt.Printf("SELFCHECK %s mode %d: %s round trip FAILED at output byte %d of %d:\n----\n%s<<<HERE>>>%s\n----\n", c.name, mode, kind, pos, len(outb), outb[lo:pos], outb[pos:hi])
			return false
		}
		ok = report("structural", &loose, ls, le) && ok
		ok = report("class-aware", &strict, ss, se) && ok
	}
	return ok
}
