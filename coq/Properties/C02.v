(* C02 -- One TransportServer per listener+host; active only on a valid matching listener;
   listener admission never reuses an ip:port for conflicting protocols, never uses a reserved
   port, and an invalid entry never disables the valid ones.
   Only statements, each closed by [exact] and followed by Print Assumptions. *)
From Coq Require Import List ZArith String Bool.
From NIC Require Import Base.SMap Arb.Types Arb.Model Arb.Spec Arb.WinsProofs Arb.InvProofs Arb.ListenerProofs
     Listeners.Admit Listeners.AdmitProofs.
Import ListNotations.
Open Scope Z_scope.

(* For EVERY history: each (listener, host) pair is owned by the least claimant among the TCP/UDP
   TransportServers of the current object set whose listener name and protocol are defined by the
   current GlobalConfiguration (K1: distinct UIDs among the claimants of that pair). *)
Theorem C02_listener_owner_is_least :
  forall c es key,
    uids_distinct (claimants (listener_claims (objs_after es)) key) ->
    option_map (fun cf => ts_rkey (tc_ts cf)) (lookup key (lhosts (run c es))) = spec_listener_owner (objs_after es) key.
Proof. exact listener_owner_is_least. Qed.
Print Assumptions C02_listener_owner_is_least.

(* independent of event order (statement shared with C01) *)
Theorem C02_order_independent :
  forall c es1 es2, objs_after es1 = objs_after es2 ->
    hosts (run c es1) = hosts (run c es2) /\ lhosts (run c es1) = lhosts (run c es2) /\
    get_resources (run c es1) = get_resources (run c es2).
Proof. exact order_independent. Qed.
Print Assumptions C02_order_independent.

(* For EVERY history: a TransportServer is in listenerHosts only while the current
   GlobalConfiguration contains a listener with its name AND protocol, and it is then bound to
   exactly that listener's port and addresses, under the key (that listener, its host). *)
Theorem C02_active_iff_listener :
  forall c es key cf,
    lookup key (lhosts (run c es)) = Some cf ->
    exists k l ls,
      In (k, tc_ts cf) (o_tss (objs_after es)) /\
      o_gc (objs_after es) = Some ls /\ In l ls /\
      l_name l = t_lname (tc_ts cf) /\ l_proto l = t_proto (tc_ts cf) /\
      tc_port cf = l_port l /\ tc_ipv4 cf = l_ipv4 l /\ tc_ipv6 cf = l_ipv6 l /\
      key = lkey (l_name l) (t_host (tc_ts cf)).
Proof. exact active_iff_listener. Qed.
Print Assumptions C02_active_iff_listener.

(* Listener admission, for ALL listener lists and all reserved-port sets. *)

(* the ip->port->protocols tables of the code, including the entries it records for listeners it
   rejects, decide exactly `conflicts with an already admitted listener` *)
Theorem C02_admit_refines_spec : forall f es, admitl f es = spec_admit f [] [] es.
Proof. exact admit_refines_spec. Qed.
Print Assumptions C02_admit_refines_spec.

Theorem C02_admit_no_conflict :
  forall f es a b, In a (admitl f es) -> In b (admitl f es) -> a <> b -> listeners_conflict a b = false.
Proof. exact admit_no_conflict. Qed.
Print Assumptions C02_admit_no_conflict.

Theorem C02_admit_names_unique : forall f es, NoDup (map l_name (admitl f es)).
Proof. exact admit_names_unique. Qed.
Print Assumptions C02_admit_names_unique.

Theorem C02_admit_no_reserved :
  forall f es a, In a (admitl f es) ->
    ~ In (l_port a) f /\ 1 <= l_port a <= 65535 /\ l_name a <> "tls-passthrough"%string /\ proto_allowed (l_proto a) = true.
Proof. exact admit_no_reserved. Qed.
Print Assumptions C02_admit_no_reserved.

Theorem C02_reserved_ports_wired :
  forall fl,
  In 80 (forbidden_of fl) /\ In 443 (forbidden_of fl) /\
  (f_status fl = true -> In (f_status_port fl) (forbidden_of fl)) /\
  (f_metrics fl = true -> In (f_metrics_port fl) (forbidden_of fl)) /\
  (f_insight fl = true -> In (f_insight_port fl) (forbidden_of fl)) /\
  (f_passthrough fl = true -> In (f_passthrough_port fl) (forbidden_of fl)).
Proof. exact reserved_ports_wired. Qed.
Print Assumptions C02_reserved_ports_wired.

(* an invalid entry never disables the valid ones: a malformed entry is inert wherever it stands, *)
Theorem C02_malformed_entry_inert :
  forall f x pre post, wellformed f x = false -> admitl f (pre ++ x :: post) = admitl f (pre ++ post).
Proof. exact malformed_entry_inert. Qed.
Print Assumptions C02_malformed_entry_inert.

(* and an entry that is well-formed, first of its name among the well-formed entries before it, and
   in conflict with no listener admitted before it, is admitted whatever surrounds it *)
Theorem C02_valid_entry_admitted :
  forall f pre e post,
    wellformed f e = true ->
    (forall e', In e' pre -> wellformed f e' = true -> l_name (e_l e') <> l_name (e_l e)) ->
    existsb (listeners_conflict (e_l e)) (admitl f pre) = false ->
    In (e_l e) (admitl f (pre ++ e :: post)).
Proof. exact valid_entry_admitted. Qed.
Print Assumptions C02_valid_entry_admitted.

(* Non-vacuity: a TCP listener, a conflicting HTTP listener on the same ip:port (rejected, yet
   recorded by the code), a UDP listener on the same port (admitted), a malformed one, a duplicate name. *)
Definition exL n p pr := mkE (mkL n p pr "" "" false) true true true.
Example C02_nonvacuous :
  map l_name (admitl [80; 443] [exL "a" 5353 "TCP"; exL "b" 5353 "HTTP"; exL "c" 5353 "UDP"; exL "d" 80 "TCP"; exL "a" 9000 "TCP"])
  = ["a"; "c"]%string.
Proof. vm_compute. reflexivity. Qed.
