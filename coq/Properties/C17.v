(* C17 -- No object the API server can admit makes the controller crash.
   Only statements, each closed by [exact], each followed by Print Assumptions.

   The models (Shapes/Model.v) are nil-shape models: every Go dereference of an optional
   pointer and every [xs[0]] is an explicit [deref]/[index0] that yields a panic on nil/empty,
   in the order of the code, behind the guards of the code.  The shape spaces are finite; the
   sweeps are done inside Rocq by the kernel's VM and lifted with the completeness of the
   enumerations.  BOUND (which fields): see the shape types of Model.v -- for an Ingress:
   spec.defaultBackend (absent / service / resource / neither), spec.tls (0/1), 0-2 rules,
   rule.http nil or 0-2 paths, pathType nil / ImplementationSpecific with empty path / Prefix,
   each path's backend service / resource / neither, nginx.org/mergeable-ingress-type none /
   master / minion / garbage, the cert-manager challenge label, use-cluster-ip and health-check
   annotations; 4 prior states; all feature flags. *)
From Coq Require Import List Bool Arith.
From NIC Require Import Shapes.Model Shapes.Proofs.
Import ListNotations.

(* The sweep itself, as a boolean computed over the whole Ingress shape space. *)
Theorem C17_no_panic_shapes_sweep :
  forallb (fun fl => forallb (fun c => forallb (fun sh =>
    negb (shape_admissible sh) ||
    negb (is_panic (scenario_pipeline {| sc_flags := fl; sc_ctx := c; sc_shape := sh |})))
    all_ing_shapes) all_ctx) all_iflags = true.
Proof. exact ing_sweep_no_panic. Qed.
Print Assumptions C17_no_panic_shapes_sweep.

(* Every inhabitant of the shape type is in the enumeration that was swept. *)
Theorem C17_enumeration_complete : forall s : ing_shape, In s all_ing_shapes.
Proof. exact all_ing_shapes_complete. Qed.
Print Assumptions C17_enumeration_complete.

(* Lifted: for every setting of the seven feature flags, every prior state and every
   API-admissible Ingress shape, validating it, arbitrating it against the prior state,
   extending/generating every resource that holds a host and deleting it again never panics:
   the outcome is Ok or Rejected. *)
Theorem C17_no_panic_shapes :
  forall (fl : flags) (c : ctx) (sh : ing_shape),
    shape_admissible sh = true ->
    scenario_pipeline {| sc_flags := iflags_of fl; sc_ctx := c; sc_shape := sh |} <> OPanic.
Proof. exact ing_no_panic_shapes. Qed.
Print Assumptions C17_no_panic_shapes.

(* Refuted for the unpatched tree (finding F05): with validateChallengeIngress as it stands
   before fixes/F05.diff, an API-admissible challenge Ingress whose only path has a resource
   backend panics. *)
Theorem C17_no_panic_unpatched_refuted :
  exists s, shape_admissible (sc_shape s) = true /\ scenario_pipeline_old s = OPanic.
Proof. exact no_panic_old_refuted. Qed.
Print Assumptions C17_no_panic_unpatched_refuted.

(* Non-vacuity: the space contains admissible shapes that are accepted, admissible shapes
   that are rejected, and the admissibility hypothesis is needed (a backend with neither
   service nor resource passes validation and panics in createIngressEx). *)
Example C17_nonvacuous_accepted :
  let sh := {| sh_default := Some KSvc; sh_tls := true;
               sh_rules := Rs2 (HPaths (Ps2 PImplEmpty KSvc KSvc)) (R2Path KSvc);
               sh_merge := MNone; sh_chal := false; sh_ann := AClusterIP |} in
  shape_admissible sh = true /\
  scenario_pipeline {| sc_flags := {| if_plus := true; if_certmgr := true |}; sc_ctx := CVs; sc_shape := sh |} = OOk.
Proof. vm_compute. split; reflexivity. Qed.

Example C17_nonvacuous_rejected : scenario_pipeline f05_scenario = ORejected.
Proof. vm_compute. reflexivity. Qed.

Example C17_hypothesis_needed :
  shape_admissible neither_shape = false /\
  scenario_pipeline {| sc_flags := {| if_plus := false; if_certmgr := false |}; sc_ctx := CEmpty;
                       sc_shape := neither_shape |} = OPanic.
Proof. exact inadmissible_can_panic. Qed.
