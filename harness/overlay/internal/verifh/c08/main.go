//go:build verif

// Harness for C08 (fail closed).  Every case is a small WORLD (Policies, Secrets, App Protect
// resources, one VirtualServer with at most one VirtualServerRoute, or one Ingress / master+minion)
// that is pushed through the REAL pipeline:
//
//	real Configuration (validation + attachment of VirtualServerRoutes / minions)
//	-> real createVirtualServerEx / createIngressEx / createMergeableIngresses
//	   (getPolicies, add*SecretRefs, addWAFPolicyRefs over the real LocalSecretStore and the real
//	    App Protect configuration)
//	-> real Configurator.AddOrUpdateVirtualServer / AddOrUpdateIngress / AddOrUpdateMergeableIngress
//	   with the real template files, over a recording nginx.Manager.
//
// Observables: the rendered bytes (for S) and, per scope, whether the template data carries
// PoliciesErrorReturn and which policy additions it carries (for X), read from the data structure
// that GenerateVirtualServerConfig / generateNginxCfg returned.
//
// Streams:  product  the exhaustive product kind x scope x failure mode x position x edition
//
//	vstls    VirtualServer host x every TLS secret state x edition
//	ing      Ingress regular / master(+minion) x TLS secret state, JWT / basic-auth secret state
//	random   longer random policy lists in every scope
package main

import (
	"bytes"
	"context"
	"fmt"
	"io"
	"log/slog"
	"os"
	"path/filepath"
	"runtime/debug"
	"sort"
	"strings"

	api_v1 "k8s.io/api/core/v1"
	networking "k8s.io/api/networking/v1"
	meta_v1 "k8s.io/apimachinery/pkg/apis/meta/v1"
	"k8s.io/apimachinery/pkg/apis/meta/v1/unstructured"

	"github.com/nginx/kubernetes-ingress/internal/configs"
	"github.com/nginx/kubernetes-ingress/internal/configs/version1"
	"github.com/nginx/kubernetes-ingress/internal/configs/version2"
	"github.com/nginx/kubernetes-ingress/internal/k8s"
	"github.com/nginx/kubernetes-ingress/internal/k8s/secrets"
	nl "github.com/nginx/kubernetes-ingress/internal/logger"
	"github.com/nginx/kubernetes-ingress/internal/nginx"
	"github.com/nginx/kubernetes-ingress/internal/verifh/vh"
	conf_v1 "github.com/nginx/kubernetes-ingress/pkg/apis/configuration/v1"
)

// ---------------------------------------------------------------- recording manager

type recMgr struct {
	*nginx.FakeManager
	files map[string][]byte
	// what NGINX RUNS: the files as they were at the last Reload (a configuration that was written but not
	// reloaded is not in effect)
	running map[string][]byte
	reloads int
}

// Reload snapshots the files: from now on NGINX runs them.
func (m *recMgr) Reload(_ bool) error {
	m.reloads++
	m.running = map[string][]byte{}
	for k, v := range m.files {
		m.running[k] = v
	}
	return nil
}

func newRecMgr() *recMgr {
	return &recMgr{FakeManager: nginx.NewFakeManager("/etc/nginx"), files: map[string][]byte{}}
}

func (m *recMgr) CreateConfig(name string, content []byte) bool {
	m.files[name] = append([]byte(nil), content...)
	return true
}

// ---------------------------------------------------------------- case (input part)

// PolIn describes a Policy object of the cluster.  Everything the model looks at is here; the
// real object is built from it by buildPolicy.
type PolIn struct {
	NS         string   `json:"ns"`
	Name       string   `json:"name"`
	Kind       string   `json:"kind"` // access rate jwt basic imtls emtls oidc apikey waf none
	Class      string   `json:"class"`
	Invalid    bool     `json:"invalid"` // built so that the real validator rejects it
	Secret     string   `json:"secret"`
	Secret2    string   `json:"secret2"`
	Jwks       bool     `json:"jwks"`
	ApPol      string   `json:"appol"`
	Bundle     string   `json:"bundle"`
	LogConfs   []string `json:"logconfs"`
	LogBundles []string `json:"logbundles"`
	RlGroup    string   `json:"rl_group"`
	RlDefault  bool     `json:"rl_default"`
	// outputs (verdicts of the real code)
	Valid   bool `json:"valid"`
	ClassOK bool `json:"class_ok"`
}

// SecIn describes a Secret of the cluster.
type SecIn struct {
	NS      string `json:"ns"`
	Name    string `json:"name"`
	Type    string `json:"type"` // tls ca jwk htpasswd oidc apikey opaque
	Invalid bool   `json:"invalid"`
	Empty   bool   `json:"empty,omitempty"` // data emptied
	// History "deleted": the Secret existed (valid or, with Invalid, invalid), was never referenced by
	// any resource, and was DELETED before the resource of the case arrived.  Driven through the real
	// LocalSecretStore.AddOrUpdateSecret / DeleteSecret; for the model the Secret does not exist.
	History string `json:"history,omitempty"`
	// outputs
	Valid  bool `json:"valid"`  // secrets.ValidateSecret == nil
	Stored bool `json:"stored"` // handed to the store (supported type)
}

// APIn describes an APPolicy / APLogConf.
type APIn struct {
	NS      string `json:"ns"`
	Name    string `json:"name"`
	Kind    string `json:"kind"` // pol | log
	Invalid bool   `json:"invalid"`
	Usable  bool   `json:"usable"` // output: GetAppResource succeeds
}

type RefIn struct {
	NS   string `json:"ns"`
	Name string `json:"name"`
}

type RouteIn struct {
	Path     string  `json:"path"`
	Shape    string  `json:"shape"` // pass splits matches return redirect
	VSR      string  `json:"vsr"`   // ns/name of the delegated VirtualServerRoute, or ""
	Policies []RefIn `json:"policies"`
}

type VSRIn struct {
	NS        string    `json:"ns"`
	Name      string    `json:"name"`
	Subroutes []RouteIn `json:"subroutes"`
}

type VSIn struct {
	NS       string    `json:"ns"`
	Name     string    `json:"name"`
	Host     string    `json:"host"`
	TLS      bool      `json:"tls"`
	TLSName  string    `json:"tls_secret"`
	Policies []RefIn   `json:"policies"`
	Routes   []RouteIn `json:"routes"`
	VSRs     []VSRIn   `json:"vsrs"`
	// InternalRoute is spec.internalRoute (NGINX Service Mesh): with -enable-internal-routes the server
	// terminates TLS with the mesh (SPIFFE) certificate
	InternalRoute bool `json:"internal_route,omitempty"`
}

type IngIn struct {
	NS       string `json:"ns"`
	Name     string `json:"name"`
	Host     string `json:"host"`
	Master   bool   `json:"master"`
	TLS      bool   `json:"tls"`
	TLSName  string `json:"tls_secret"`
	JWTKey   string `json:"jwt_key"`
	Basic    string `json:"basic"`
	OnMinion bool   `json:"on_minion"` // auth annotations on the minion instead of the ingress/master
	// InternalRoute is the annotation nsm.nginx.com/internal-route: "true"
	InternalRoute bool `json:"internal_route,omitempty"`
}

type Gen struct {
	Kind  string `json:"kind"`
	Scope string `json:"scope"`
	Mode  string `json:"mode"`
	Pos   string `json:"pos"`
}

type World struct {
	Plus           bool `json:"plus"`
	Wildcard       bool `json:"wildcard"`
	InternalRoutes bool `json:"internal_routes,omitempty"` // controller flag -enable-internal-routes
	// Special (history cases): the TLS Secret default/tls-x the resource names is ALSO a special secret of the
	// controller: "wildcard" (-wildcard-tls-secret) or "default-server" (-default-server-tls-secret)
	Special  string   `json:"special,omitempty"`
	Class    string   `json:"class"`
	Policies []PolIn  `json:"policies"`
	Secrets  []SecIn  `json:"secrets"`
	AP       []APIn   `json:"ap"`
	Bundles  []string `json:"bundles"`
	VS       *VSIn    `json:"vs,omitempty"`
	Ing      *IngIn   `json:"ing,omitempty"`
}

// ---------------------------------------------------------------- case (observed part)

type ScopeObs struct {
	ID    string   `json:"id"`    // spec | route:<path> | sub:<ns>/<name>:<path>
	Entry []string `json:"entry"` // words after `location` of the entry location ("" for spec)
	NLoc  int      `json:"nloc"`
	Err   bool     `json:"err"`
	Mixed bool     `json:"mixed"` // the locations of one scope disagree about PoliciesErrorReturn
	Flags []string `json:"flags"`
}

type SSLObs struct {
	Present bool   `json:"present"`
	Reject  bool   `json:"reject"`
	Cert    string `json:"cert"`
}

type AuthObs struct {
	Where string `json:"where"` // server | location:<path>
	JWT   bool   `json:"jwt"`
	Key   string `json:"key"`
	Basic bool   `json:"basic"`
	File  string `json:"file"`
}

type Obs struct {
	Accepted bool       `json:"accepted"`
	Scopes   []ScopeObs `json:"scopes,omitempty"`
	VSRs     []string   `json:"vsrs,omitempty"` // attached VirtualServerRoutes in the order the real code uses
	SSL      *SSLObs    `json:"ssl,omitempty"`
	Auth     []AuthObs  `json:"auth,omitempty"`
	Server   string     `json:"server,omitempty"`
	Spiffe   bool       `json:"spiffe,omitempty"`   // template data says SpiffeCerts
	Stale    bool       `json:"stale,omitempty"`    // history cases: the live file differs from a fresh generation
	PreOpen  bool       `json:"pre_open,omitempty"` // history cases: before the event nothing failed closed
	Reloads  int        `json:"reloads,omitempty"`  // history cases: reloads during the event(s)
	Unloaded bool       `json:"unloaded,omitempty"` // history cases: the file on disk was not loaded by a reload
	Queued   []int      `json:"queued,omitempty"`   // history cases: tasks queued by the real handler per event
	File     string     `json:"file,omitempty"`
	Panic    string     `json:"panic,omitempty"`
	Error    string     `json:"error,omitempty"`
}

type Case struct {
	ID    int    `json:"id"`
	Fam   string `json:"fam"`   // vs | ing
	Class string `json:"class"` // product | vstls | ing | random | witness
	Seed  uint64 `json:"seed"`
	Gen   *Gen   `json:"gen,omitempty"`
	World World  `json:"world"`
	// history cases: Init is the world the resource was first rendered in (everything usable), Event what
	// then happened to one dependency; World is the resulting cluster state (what the model is given)
	Init  *World   `json:"init,omitempty"`
	Event *EventIn `json:"event,omitempty"`
	Obs   Obs      `json:"obs"`
}

// EventIn is one change of a dependency after the resource was rendered.
type EventIn struct {
	Dep  string `json:"dep"` // policy | secret | appol | aplog
	NS   string `json:"ns"`
	Name string `json:"name"`
	Op   string `json:"op"` // delete | invalid | empty | class | retype:<type>
	// Batch > 0: the event reaches the worker inside a BATCH: Batch Secrets nobody uses (noise-<i>, valid TLS)
	// are created in the same burst, all tasks are queued before the worker runs; At is the position of the
	// event in the burst (0 = first).  The real sync then holds reloads back and reloads once at the end.
	Batch int `json:"batch,omitempty"`
	At    int `json:"at,omitempty"`
}

func ptr[T any](v T) *T { return &v }

// ---------------------------------------------------------------- building real objects

var secretTypes = map[string]api_v1.SecretType{
	"tls": api_v1.SecretTypeTLS, "ca": secrets.SecretTypeCA, "jwk": secrets.SecretTypeJWK,
	"htpasswd": secrets.SecretTypeHtpasswd, "oidc": secrets.SecretTypeOIDC, "apikey": secrets.SecretTypeAPIKey,
	"opaque": api_v1.SecretTypeOpaque,
}

var supportedTypes = []string{"tls", "ca", "jwk", "htpasswd", "oidc", "apikey"}

func buildSecret(s SecIn) *api_v1.Secret {
	sec := &api_v1.Secret{ObjectMeta: meta_v1.ObjectMeta{Name: s.Name, Namespace: s.NS}, Type: secretTypes[s.Type]}
	switch s.Type {
	case "tls":
		sec.Data = map[string][]byte{"tls.crt": validCert, "tls.key": validKey}
		if s.Invalid {
			sec.Data["tls.key"] = []byte("garbage")
		}
	case "ca":
		sec.Data = map[string][]byte{"ca.crt": validCert}
		if s.Invalid {
			sec.Data = map[string][]byte{"ca.crt": []byte("garbage")}
		}
	case "jwk":
		sec.Data = map[string][]byte{"jwk": []byte(`{"keys":[]}`)}
		if s.Invalid {
			sec.Data = map[string][]byte{"other": []byte("x")}
		}
	case "htpasswd":
		sec.Data = map[string][]byte{"htpasswd": []byte("u:$apr1$x$y\n")}
		if s.Invalid {
			sec.Data = map[string][]byte{"other": []byte("x")}
		}
	case "oidc":
		sec.Data = map[string][]byte{"client-secret": []byte("secret")}
		if s.Invalid {
			sec.Data = map[string][]byte{"client-secret": []byte("se cret$")}
		}
	case "apikey":
		// one client only: generateAPIKeyClients ranges over the map (rendering order is C09's subject)
		sec.Data = map[string][]byte{"client1": []byte("key1")}
		if s.Invalid {
			sec.Data = map[string][]byte{"client1": []byte("same"), "client2": []byte("same")}
		}
	default:
		sec.Data = map[string][]byte{"x": []byte("y")}
	}
	if s.Empty {
		sec.Data = map[string][]byte{}
	}
	return sec
}

func buildPolicy(p PolIn) *conf_v1.Policy {
	pol := &conf_v1.Policy{ObjectMeta: meta_v1.ObjectMeta{Name: p.Name, Namespace: p.NS}}
	pol.Spec.IngressClass = p.Class
	switch p.Kind {
	case "access":
		pol.Spec.AccessControl = &conf_v1.AccessControl{Allow: []string{"10.0.0.0/8"}}
		if p.Invalid {
			pol.Spec.AccessControl.Allow = []string{"not-an-ip"}
		}
	case "rate":
		pol.Spec.RateLimit = &conf_v1.RateLimit{Rate: "10r/s", Key: "${binary_remote_addr}", ZoneSize: "10M"}
		if p.RlGroup != "" {
			pol.Spec.RateLimit.Condition = &conf_v1.RateLimitCondition{JWT: &conf_v1.JWTCondition{Claim: p.RlGroup, Match: "m-" + p.Name}, Default: p.RlDefault}
		}
		if p.Invalid {
			pol.Spec.RateLimit.Rate = "fast"
		}
	case "jwt":
		pol.Spec.JWTAuth = &conf_v1.JWTAuth{Realm: "api"}
		if p.Jwks {
			pol.Spec.JWTAuth.JwksURI, pol.Spec.JWTAuth.KeyCache = "https://idp.example.com/keys", "1h"
		} else {
			pol.Spec.JWTAuth.Secret = p.Secret
		}
		if p.Invalid {
			pol.Spec.JWTAuth.Realm = "$bad\""
		}
	case "basic":
		pol.Spec.BasicAuth = &conf_v1.BasicAuth{Realm: "realm", Secret: p.Secret}
		if p.Invalid {
			pol.Spec.BasicAuth.Realm = "$bad\""
		}
	case "imtls":
		pol.Spec.IngressMTLS = &conf_v1.IngressMTLS{ClientCertSecret: p.Secret, VerifyClient: "on", VerifyDepth: ptr(2)}
		if p.Invalid {
			pol.Spec.IngressMTLS.VerifyClient = "maybe"
		}
	case "emtls":
		pol.Spec.EgressMTLS = &conf_v1.EgressMTLS{TLSSecret: p.Secret, TrustedCertSecret: p.Secret2, VerifyServer: p.Secret2 != "", SSLName: "up.example.com"}
		if p.Invalid {
			pol.Spec.EgressMTLS.SSLName = "bad name"
		}
	case "oidc":
		pol.Spec.OIDC = &conf_v1.OIDC{AuthEndpoint: "https://idp.example.com/auth", TokenEndpoint: "https://idp.example.com/token",
			JWKSURI: "https://idp.example.com/keys", ClientID: "client-" + p.Name, ClientSecret: p.Secret}
		if p.Invalid {
			pol.Spec.OIDC.AuthEndpoint = "no-scheme"
		}
	case "apikey":
		pol.Spec.APIKey = &conf_v1.APIKey{ClientSecret: p.Secret, SuppliedIn: &conf_v1.SuppliedIn{Header: []string{"X-API-Key"}}}
		if p.Invalid {
			pol.Spec.APIKey.SuppliedIn = &conf_v1.SuppliedIn{}
		}
	case "waf":
		pol.Spec.WAF = &conf_v1.WAF{Enable: true, ApPolicy: p.ApPol, ApBundle: p.Bundle}
		for _, lc := range p.LogConfs {
			pol.Spec.WAF.SecurityLogs = append(pol.Spec.WAF.SecurityLogs, &conf_v1.SecurityLog{Enable: true, ApLogConf: lc, LogDest: "stderr"})
		}
		for _, lb := range p.LogBundles {
			pol.Spec.WAF.SecurityLogs = append(pol.Spec.WAF.SecurityLogs, &conf_v1.SecurityLog{Enable: true, ApLogBundle: lb, LogDest: "stderr"})
		}
		if p.Invalid {
			pol.Spec.WAF.ApPolicy, pol.Spec.WAF.ApBundle = "Bad_Name/x/y", ""
		}
	case "none":
	}
	return pol
}

func buildAP(a APIn) *unstructured.Unstructured {
	obj := map[string]interface{}{"metadata": map[string]interface{}{"namespace": a.NS, "name": a.Name}}
	spec := map[string]interface{}{}
	if a.Kind == "pol" {
		obj["apiVersion"], obj["kind"] = "appprotect.f5.com/v1beta1", "APPolicy"
		if !a.Invalid {
			spec["policy"] = map[string]interface{}{"name": a.Name}
		}
	} else {
		obj["apiVersion"], obj["kind"] = "appprotect.f5.com/v1beta1", "APLogConf"
		spec["filter"] = map[string]interface{}{"request_type": "all"}
		if !a.Invalid {
			spec["content"] = map[string]interface{}{"format": "default"}
		}
	}
	obj["spec"] = spec
	return &unstructured.Unstructured{Object: obj}
}

func refs(in []RefIn) []conf_v1.PolicyReference {
	var out []conf_v1.PolicyReference
	for _, r := range in {
		out = append(out, conf_v1.PolicyReference{Name: r.Name, Namespace: r.NS})
	}
	return out
}

func upName(path, suffix string) string {
	return "u" + strings.ReplaceAll(strings.ReplaceAll(path, "/", "-"), "_", "-") + suffix
}

// buildRoute returns the route and the upstreams it needs.
func buildRoute(r RouteIn) (conf_v1.Route, []conf_v1.Upstream) {
	rt := conf_v1.Route{Path: r.Path, Policies: refs(r.Policies)}
	var ups []conf_v1.Upstream
	up := func(suffix string) string {
		n := upName(r.Path, suffix)
		ups = append(ups, conf_v1.Upstream{Name: n, Service: "svc" + n, Port: 80})
		return n
	}
	switch r.Shape {
	case "splits":
		rt.Splits = []conf_v1.Split{{Weight: 90, Action: &conf_v1.Action{Pass: up("-a")}}, {Weight: 10, Action: &conf_v1.Action{Pass: up("-b")}}}
	case "matches":
		rt.Matches = []conf_v1.Match{{Conditions: []conf_v1.Condition{{Header: "x-version", Value: "v2"}}, Action: &conf_v1.Action{Pass: up("-m")}}}
		rt.Action = &conf_v1.Action{Pass: up("-d")}
	case "return":
		rt.Action = &conf_v1.Action{Return: &conf_v1.ActionReturn{Code: 200, Type: "text/plain", Body: "hello"}}
	case "redirect":
		rt.Action = &conf_v1.Action{Redirect: &conf_v1.ActionRedirect{URL: "http://www.example.com", Code: 301}}
	case "grpc":
		n := upName(r.Path, "-g")
		ups = append(ups, conf_v1.Upstream{Name: n, Service: "svc" + n, Port: 50051, Type: "grpc"})
		rt.Action = &conf_v1.Action{Pass: n}
	case "errpage":
		// error pages for the very code the error return uses, once as a named location, once as a redirect
		rt.Action = &conf_v1.Action{Pass: up("")}
		rt.ErrorPages = []conf_v1.ErrorPage{
			{Codes: []int{500, 502}, Return: &conf_v1.ErrorPageReturn{ActionReturn: conf_v1.ActionReturn{Code: 200, Type: "text/plain", Body: "sorry"}}},
			{Codes: []int{503}, Redirect: &conf_v1.ErrorPageRedirect{ActionRedirect: conf_v1.ActionRedirect{URL: "http://www.example.com/err", Code: 301}}},
		}
	default:
		rt.Action = &conf_v1.Action{Pass: up("")}
	}
	return rt, ups
}

func nloc(shape string) int {
	switch shape {
	case "splits", "matches":
		return 2
	}
	return 1
}

func buildVS(in *VSIn) (*conf_v1.VirtualServer, []*conf_v1.VirtualServerRoute) {
	vs := &conf_v1.VirtualServer{ObjectMeta: meta_v1.ObjectMeta{Name: in.Name, Namespace: in.NS}}
	vs.Spec.Host = in.Host
	vs.Spec.InternalRoute = in.InternalRoute
	if in.TLS {
		vs.Spec.TLS = &conf_v1.TLS{Secret: in.TLSName}
	}
	vs.Spec.Policies = refs(in.Policies)
	for _, r := range in.Routes {
		if r.VSR != "" {
			vs.Spec.Routes = append(vs.Spec.Routes, conf_v1.Route{Path: r.Path, Route: r.VSR, Policies: refs(r.Policies)})
			continue
		}
		rt, ups := buildRoute(r)
		vs.Spec.Routes = append(vs.Spec.Routes, rt)
		vs.Spec.Upstreams = append(vs.Spec.Upstreams, ups...)
	}
	var vsrs []*conf_v1.VirtualServerRoute
	for _, v := range in.VSRs {
		vsr := &conf_v1.VirtualServerRoute{ObjectMeta: meta_v1.ObjectMeta{Name: v.Name, Namespace: v.NS}}
		vsr.Spec.Host = in.Host
		for _, sr := range v.Subroutes {
			rt, ups := buildRoute(sr)
			vsr.Spec.Subroutes = append(vsr.Spec.Subroutes, rt)
			vsr.Spec.Upstreams = append(vsr.Spec.Upstreams, ups...)
		}
		vsrs = append(vsrs, vsr)
	}
	return vs, vsrs
}

func buildIngresses(in *IngIn) []*networking.Ingress {
	pt := networking.PathTypePrefix
	be := networking.IngressBackend{Service: &networking.IngressServiceBackend{Name: "svc", Port: networking.ServiceBackendPort{Number: 80}}}
	auth := map[string]string{}
	if in.JWTKey != "" {
		auth["nginx.com/jwt-key"] = in.JWTKey
		auth["nginx.com/jwt-realm"] = "api"
	}
	if in.Basic != "" {
		auth["nginx.org/basic-auth-secret"] = in.Basic
		auth["nginx.org/basic-auth-realm"] = "realm"
	}
	internal := map[string]string{}
	if in.InternalRoute {
		internal["nsm.nginx.com/internal-route"] = "true"
	}
	mk := func(name string, ann map[string]string, paths []string) *networking.Ingress {
		ing := &networking.Ingress{ObjectMeta: meta_v1.ObjectMeta{Name: name, Namespace: in.NS, Annotations: ann}}
		ing.Spec.IngressClassName = ptr("nginx")
		rule := networking.IngressRule{Host: in.Host}
		rule.HTTP = &networking.HTTPIngressRuleValue{}
		for _, p := range paths {
			rule.HTTP.Paths = append(rule.HTTP.Paths, networking.HTTPIngressPath{Path: p, PathType: &pt, Backend: be})
		}
		if len(paths) == 0 {
			rule.HTTP = nil
		}
		ing.Spec.Rules = []networking.IngressRule{rule}
		return ing
	}
	merge := func(a, b map[string]string) map[string]string {
		out := map[string]string{}
		for k, v := range a {
			out[k] = v
		}
		for k, v := range b {
			out[k] = v
		}
		return out
	}
	tls := func(ing *networking.Ingress) {
		if in.TLS {
			ing.Spec.TLS = []networking.IngressTLS{{Hosts: []string{in.Host}, SecretName: in.TLSName}}
		}
	}
	if !in.Master {
		ing := mk(in.Name, merge(internal, auth), []string{"/a"})
		tls(ing)
		return []*networking.Ingress{ing}
	}
	mAnn := merge(internal, map[string]string{"nginx.org/mergeable-ingress-type": "master"})
	nAnn := map[string]string{"nginx.org/mergeable-ingress-type": "minion"}
	if in.OnMinion {
		nAnn = merge(nAnn, auth)
	} else {
		mAnn = merge(mAnn, auth)
	}
	master := mk(in.Name, mAnn, nil)
	tls(master)
	minion := mk(in.Name+"-minion", nAnn, []string{"/m"})
	return []*networking.Ingress{master, minion}
}

// ---------------------------------------------------------------- running a world on the real code

func repoDir() string {
	if d := os.Getenv("VERIF_REPO"); d != "" {
		return d
	}
	return "/repo"
}

func workDir() string {
	if d := os.Getenv("VERIF_WORK"); d != "" {
		return d
	}
	return "."
}

type tmpl struct {
	te1 *version1.TemplateExecutor
	te2 *version2.TemplateExecutor
}

var tmplCache = map[bool]*tmpl{}

func templates(plus bool) (*tmpl, error) {
	if t, ok := tmplCache[plus]; ok {
		return t, nil
	}
	base := filepath.Join(repoDir(), "internal", "configs")
	main1, ing1, vs2, ts2 := "version1/nginx.tmpl", "version1/nginx.ingress.tmpl", "version2/nginx.virtualserver.tmpl", "version2/nginx.transportserver.tmpl"
	if plus {
		main1, ing1, vs2, ts2 = "version1/nginx-plus.tmpl", "version1/nginx-plus.ingress.tmpl", "version2/nginx-plus.virtualserver.tmpl", "version2/nginx-plus.transportserver.tmpl"
	}
	te1, err := version1.NewTemplateExecutor(filepath.Join(base, main1), filepath.Join(base, ing1))
	if err != nil {
		return nil, err
	}
	te2, err := version2.NewTemplateExecutor(filepath.Join(base, vs2), filepath.Join(base, ts2))
	if err != nil {
		return nil, err
	}
	t := &tmpl{te1, te2}
	tmplCache[plus] = t
	return t, nil
}

func bundleDir() string { return filepath.Join(workDir(), "c08_bundles") }

func locFlags(l *version2.Location) []string {
	var f []string
	if len(l.Allow)+len(l.Deny) > 0 {
		f = append(f, "access")
	}
	if l.APIKey != nil {
		f = append(f, "apikey")
	}
	if l.BasicAuth != nil {
		f = append(f, "basic")
	}
	if l.EgressMTLS != nil {
		f = append(f, "emtls")
	}
	if l.JWTAuth != nil {
		f = append(f, "jwt")
	}
	if l.OIDC {
		f = append(f, "oidc")
	}
	if len(l.LimitReqs) > 0 {
		f = append(f, "rate")
	}
	if l.WAF != nil {
		f = append(f, "waf")
	}
	return f
}

func serverFlags(s *version2.Server) []string {
	var f []string
	if len(s.Allow)+len(s.Deny) > 0 {
		f = append(f, "access")
	}
	if s.APIKey != nil {
		f = append(f, "apikey")
	}
	if s.BasicAuth != nil {
		f = append(f, "basic")
	}
	if s.EgressMTLS != nil {
		f = append(f, "emtls")
	}
	if s.IngressMTLS != nil {
		f = append(f, "imtls")
	}
	if s.JWTAuth != nil {
		f = append(f, "jwt")
	}
	if s.OIDC != nil {
		f = append(f, "oidc")
	}
	if len(s.LimitReqs) > 0 {
		f = append(f, "rate")
	}
	if s.WAF != nil {
		f = append(f, "waf")
	}
	return f
}

// newConfigurator builds the real Configurator over a recording manager.
func newConfigurator(w *World) (*configs.Configurator, *recMgr, error) {
	t, err := templates(w.Plus)
	if err != nil {
		return nil, nil, err
	}
	bd := bundleDir()
	_ = os.MkdirAll(bd, 0o755)
	for _, b := range []string{"ok.tgz", "oklog.tgz"} {
		p := filepath.Join(bd, b)
		if _, err := os.Stat(p); err != nil {
			_ = os.WriteFile(p, []byte("bundle"), 0o644)
		}
	}
	mgr := newRecMgr()
	ver := "nginx version: nginx/1.27.2"
	if w.Plus {
		ver = "nginx version: nginx/1.27.2 (nginx-plus-r33)"
	}
	ctx := nl.ContextWithLogger(context.Background(), slog.New(slog.NewTextHandler(io.Discard, nil)))
	cfg := configs.NewDefaultConfigParams(ctx, w.Plus)
	cfg.HTTP2 = true // gRPC upstreams need it
	static := &configs.StaticConfigParams{
		DefaultHTTPListenerPort: 80, DefaultHTTPSListenerPort: 443, StaticSSLPath: "/etc/nginx/secrets",
		NginxVersion: nginx.NewVersion(ver), AppProtectBundlePath: bd, MainAppProtectLoadModule: w.Plus,
		EnableInternalRoutes: w.InternalRoutes, InternalRouteServerName: "nic.nginx-ingress.svc",
	}
	cnf := configs.NewConfigurator(configs.ConfiguratorParams{
		NginxManager: mgr, StaticCfgParams: static, Config: cfg, MGMTCfgParams: configs.NewDefaultMGMTConfigParams(ctx),
		TemplateExecutor: t.te1, TemplateExecutorV2: t.te2, IsPlus: w.Plus, IsWildcardEnabled: w.Wildcard,
		NginxVersion: nginx.NewVersion(ver),
	})
	return cnf, mgr, nil
}

func runWorld(w *World) (obs Obs) {
	defer func() {
		if p := recover(); p != nil {
			obs.Panic = fmt.Sprint(p)
		}
	}()
	cnf, mgr, err := newConfigurator(w)
	if err != nil {
		obs.Error = "templates: " + err.Error()
		return
	}
	v := k8s.NewVerifC08(k8s.VerifC08Opts{IsPlus: w.Plus, EnableOIDC: w.Plus, AppProtect: w.Plus, InternalRoutes: w.InternalRoutes, IngressClass: w.Class, Configurator: cnf})
	for i := range w.Secrets {
		s := buildSecret(w.Secrets[i])
		w.Secrets[i].Valid = secrets.ValidateSecret(s) == nil
		w.Secrets[i].Stored = v.AddSecret(s)
		if w.Secrets[i].History == "deleted" {
			v.DeleteSecret(s.Namespace + "/" + s.Name)
		}
	}
	for i := range w.Policies {
		p := buildPolicy(w.Policies[i])
		w.Policies[i].Valid = v.PolicyValid(p)
		w.Policies[i].ClassOK = v.PolicyClassOK(p)
		v.AddPolicy(p)
	}
	for i := range w.AP {
		u := buildAP(w.AP[i])
		if w.AP[i].Kind == "pol" {
			w.AP[i].Usable = v.AddAPPolicy(u)
		} else {
			w.AP[i].Usable = v.AddAPLogConf(u)
		}
	}
	if w.VS != nil {
		runVS(w, v, cnf, mgr, &obs)
	} else if w.Ing != nil {
		runIng(w, v, cnf, mgr, &obs)
	}
	return obs
}

func entryWords(path string) []string { return strings.Fields(path) }

func runVS(w *World, v *k8s.VerifC08, cnf *configs.Configurator, mgr *recMgr, obs *Obs) {
	vs, vsrs := buildVS(w.VS)
	var built k8s.VerifC08Built
	for _, vsr := range vsrs {
		v.AddVirtualServerRoute(vsr)
	}
	built = v.AddVirtualServer(vs)
	if len(built.VS) != 1 {
		obs.Accepted = false
		return
	}
	obs.Accepted = true
	vsEx := built.VS[0]
	if _, err := cnf.AddOrUpdateVirtualServer(vsEx); err != nil {
		obs.Error = "AddOrUpdateVirtualServer: " + err.Error()
		return
	}
	observeVS(w, vsEx, cnf, mgr.files["vs_"+vs.Namespace+"_"+vs.Name], obs, false)
}

// observeVS projects the template data a fresh generation from vsEx yields (per scope:
// PoliciesErrorReturn, additions; SSL) and takes [live] -- the bytes the nginx.Manager holds -- as
// the file S is evaluated on.  Static cases: live must equal the fresh generation (else the hook
// drifted).  History cases: a difference means the live configuration is stale.
func observeVS(w *World, vsEx *configs.VirtualServerEx, cnf *configs.Configurator, live []byte, obs *Obs, history bool) {
	vsCfg, content, _, err := cnf.VerifC08VS(vsEx)
	if err != nil {
		obs.Error = "VerifC08VS: " + err.Error()
		return
	}
	if !bytes.Equal(live, content) {
		if !history {
			obs.Error = "hook drift: the bytes written by AddOrUpdateVirtualServer differ from those of the hook's generation"
			return
		}
		obs.Stale = true
	}
	obs.File = string(live)
	obs.Server = vsEx.VirtualServer.Spec.Host
	s := &vsCfg.Server
	if s.SSL != nil {
		obs.SSL = &SSLObs{Present: true, Reject: s.SSL.RejectHandshake, Cert: s.SSL.Certificate}
	} else {
		obs.SSL = &SSLObs{}
	}
	obs.Spiffe = vsCfg.SpiffeCerts
	obs.Scopes = append(obs.Scopes, ScopeObs{ID: "spec", Err: s.PoliciesErrorReturn != nil, Flags: serverFlags(s)})
	idx := 0
	take := func(id, path, shape string) {
		n := nloc(shape)
		so := ScopeObs{ID: id, Entry: entryWords(path), NLoc: n}
		if idx+n > len(s.Locations) {
			obs.Error = fmt.Sprintf("location accounting: scope %s needs %d locations at %d, have %d", id, n, idx, len(s.Locations))
			return
		}
		for k := 0; k < n; k++ {
			l := &s.Locations[idx+k]
			e := l.PoliciesErrorReturn != nil
			if k == 0 {
				so.Err = e
				so.Flags = locFlags(l)
			} else if e != so.Err || strings.Join(locFlags(l), ",") != strings.Join(so.Flags, ",") {
				so.Mixed = true
			}
		}
		idx += n
		obs.Scopes = append(obs.Scopes, so)
	}
	for _, r := range w.VS.Routes {
		if r.VSR == "" {
			take("route:"+r.Path, r.Path, r.Shape)
		}
	}
	shapes := map[string]string{}
	for _, vr := range w.VS.VSRs {
		for _, sr := range vr.Subroutes {
			shapes[vr.NS+"/"+vr.Name+":"+sr.Path] = sr.Shape
		}
	}
	for _, vsr := range vsEx.VirtualServerRoutes {
		key := vsr.Namespace + "/" + vsr.Name
		obs.VSRs = append(obs.VSRs, key)
		for _, sr := range vsr.Spec.Subroutes {
			take("sub:"+key+":"+sr.Path, sr.Path, shapes[key+":"+sr.Path])
		}
	}
	if obs.Error == "" && idx != len(s.Locations) {
		obs.Error = fmt.Sprintf("location accounting: %d locations generated, %d attributed", len(s.Locations), idx)
	}
}

func runIng(w *World, v *k8s.VerifC08, cnf *configs.Configurator, mgr *recMgr, obs *Obs) {
	ings := buildIngresses(w.Ing)
	var last k8s.VerifC08Built
	for _, ing := range ings {
		b := v.AddIngress(ing)
		if len(b.Ingresses)+len(b.Mergeable) > 0 {
			last = b
		}
	}
	name := w.Ing.NS + "-" + w.Ing.Name
	switch {
	case len(last.Mergeable) == 1 && w.Ing.Master && len(last.Mergeable[0].Minions) == 1:
		if _, err := cnf.AddOrUpdateMergeableIngress(last.Mergeable[0]); err != nil {
			obs.Error = "AddOrUpdateMergeableIngress: " + err.Error()
			return
		}
		obs.Accepted = true
		observeIng(w, nil, last.Mergeable[0], cnf, mgr.files[name], obs, false)
	case len(last.Ingresses) == 1 && !w.Ing.Master:
		if _, err := cnf.AddOrUpdateIngress(last.Ingresses[0]); err != nil {
			obs.Error = "AddOrUpdateIngress: " + err.Error()
			return
		}
		obs.Accepted = true
		observeIng(w, last.Ingresses[0], nil, cnf, mgr.files[name], obs, false)
	default:
		obs.Accepted = false
	}
}

func observeIng(w *World, ingEx *configs.IngressEx, m *configs.MergeableIngresses, cnf *configs.Configurator, live []byte, obs *Obs, history bool) {
	var cfg version1.IngressNginxConfig
	var content []byte
	var err error
	if m != nil {
		cfg, content, err = cnf.VerifC08Mergeable(m)
	} else {
		cfg, content, err = cnf.VerifC08Ingress(ingEx)
	}
	if err != nil {
		obs.Error = "hook generation: " + err.Error()
		return
	}
	if !bytes.Equal(live, content) {
		if !history {
			obs.Error = "hook drift: the bytes written by the Configurator differ from those of the hook's generation"
			return
		}
		obs.Stale = true
	}
	obs.File = string(live)
	obs.Server = w.Ing.Host
	for i := range cfg.Servers {
		s := &cfg.Servers[i]
		if s.Name != w.Ing.Host {
			continue
		}
		obs.SSL = &SSLObs{Present: s.SSL, Reject: s.SSLRejectHandshake, Cert: s.SSLCertificate}
		obs.Spiffe = s.SpiffeCerts
		a := AuthObs{Where: "server"}
		if s.JWTAuth != nil {
			a.JWT, a.Key = true, s.JWTAuth.Key
		}
		if s.BasicAuth != nil {
			a.Basic, a.File = true, s.BasicAuth.Secret
		}
		obs.Auth = append(obs.Auth, a)
		for j := range s.Locations {
			l := &s.Locations[j]
			a := AuthObs{Where: "location:" + l.Path}
			if l.JWTAuth != nil {
				a.JWT, a.Key = true, l.JWTAuth.Key
			}
			if l.BasicAuth != nil {
				a.Basic, a.File = true, l.BasicAuth.Secret
			}
			obs.Auth = append(obs.Auth, a)
		}
	}
	sort.SliceStable(obs.Auth, func(i, j int) bool { return obs.Auth[i].Where < obs.Auth[j].Where })
}

// ---------------------------------------------------------------- the exhaustive product

const ns = "default"

var kinds = []string{"access", "rate", "jwt", "jwks", "basic", "imtls", "emtls", "oidc", "apikey", "waf", "wafb"}

// inherited-xns: as inherited, but the VirtualServerRoute lives in ANOTHER namespace than the VirtualServer, a
// usable policy of the same NAME exists in that namespace and is in the VirtualServer's policy map because a
// sibling subroute references it: the inherited references were written in the VirtualServer and must be
// resolved in the VirtualServer's namespace.
var scopes = []string{"server", "route", "subroute", "inherited", "inherited-xns"}

// samename-*: two references with the same NAME in different namespaces in one list:
//
//	samename-other-bad  [{name: p-bad} -> default/p-bad usable accessControl, {name: p-bad, namespace: other} -> the unusable one]
//	samename-own-bad    [{name: p-bad, namespace: other} -> other/p-bad usable accessControl, {name: p-bad} -> the unusable one]
//	samename-bad-first  [{name: p-bad} -> the unusable one, {name: p-bad, namespace: other} -> usable]
var positions = []string{"alone", "preceded", "followed", "shadowed", "samename-other-bad", "samename-own-bad", "samename-bad-first"}

const otherNS = "other"

// expected secret type of slot 1 / slot 2 of a kind
func slotType(kind string, slot int) string {
	switch kind {
	case "jwt":
		return "jwk"
	case "basic":
		return "htpasswd"
	case "imtls":
		return "ca"
	case "emtls":
		if slot == 1 {
			return "tls"
		}
		return "ca"
	case "oidc":
		return "oidc"
	case "apikey":
		return "apikey"
	}
	return ""
}

func nslots(kind string) int {
	switch kind {
	case "jwt", "basic", "imtls", "oidc", "apikey":
		return 1
	case "emtls":
		return 2
	}
	return 0
}

func modesOf(kind string) []string {
	m := []string{"ok", "pol-missing", "pol-invalid", "pol-class"}
	for s := 1; s <= nslots(kind); s++ {
		p := fmt.Sprintf("s%d-", s)
		m = append(m, p+"missing", p+"deleted", p+"deleted-invalid", p+"invalid", p+"unsupported", p+"wrong-invalid")
		for _, t := range supportedTypes {
			if t != slotType(kind, s) {
				m = append(m, p+"wrong-"+t)
			}
		}
	}
	switch kind {
	case "rate":
		m = append(m, "tier-conflict")
	case "imtls":
		m = append(m, "no-tls")
	case "oidc":
		m = append(m, "second-oidc")
	case "waf":
		m = append(m, "appol-missing", "appol-invalid", "logconf-missing", "logconf-invalid")
		m = append(m, multiLogModes("logconfs")...)
	case "wafb":
		m = append(m, "bundle-missing", "logbundle-missing")
		m = append(m, multiLogModes("logbundles")...)
	}
	return m
}

// multiLogModes: securityLogs lists of 2 and 3 entries, all usable ("ok") or with the unusable entry at
// every position ("bad<k>").
func multiLogModes(what string) []string {
	var m []string
	for n := 2; n <= 3; n++ {
		m = append(m, fmt.Sprintf("%s-%d-ok", what, n))
		for k := 0; k < n; k++ {
			m = append(m, fmt.Sprintf("%s-%d-bad%d", what, n, k))
		}
	}
	return m
}

func realKind(kind string) string {
	switch kind {
	case "jwks":
		return "jwt"
	case "wafb":
		return "waf"
	}
	return kind
}

// addPolicyOfKind appends a usable policy of the kind (with its own usable dependencies) to the
// world and returns its name.
func addPolicyOfKind(w *World, kind, name string) *PolIn { return addPolicyOfKindNS(w, kind, name, ns) }

// addPolicyOfKindNS does the same in a given namespace (its Secrets and App Protect resources
// live in that namespace too, as the code resolves them relative to the policy).
func addPolicyOfKindNS(w *World, kind, name, ns string) *PolIn {
	p := PolIn{NS: ns, Name: name, Kind: realKind(kind)}
	for s := 1; s <= nslots(kind); s++ {
		sn := fmt.Sprintf("%s-s%d", name, s)
		w.Secrets = append(w.Secrets, SecIn{NS: ns, Name: sn, Type: slotType(kind, s)})
		if s == 1 {
			p.Secret = sn
		} else {
			p.Secret2 = sn
		}
	}
	switch kind {
	case "jwks":
		p.Jwks = true
	case "waf":
		p.ApPol = name + "-ap"
		p.LogConfs = []string{name + "-lc"}
		w.AP = append(w.AP, APIn{NS: ns, Name: name + "-ap", Kind: "pol"}, APIn{NS: ns, Name: name + "-lc", Kind: "log"})
	case "wafb":
		p.Bundle = "ok.tgz"
		p.LogBundles = []string{"oklog.tgz"}
	}
	w.Policies = append(w.Policies, p)
	return &w.Policies[len(w.Policies)-1]
}

func findSecret(w *World, name string) *SecIn {
	for i := range w.Secrets {
		if w.Secrets[i].Name == name {
			return &w.Secrets[i]
		}
	}
	return nil
}

func dropSecret(w *World, name string) {
	var out []SecIn
	for _, s := range w.Secrets {
		if s.Name != name {
			out = append(out, s)
		}
	}
	w.Secrets = out
}

func dropAP(w *World, name string) {
	var out []APIn
	for _, a := range w.AP {
		if a.Name != name {
			out = append(out, a)
		}
	}
	w.AP = out
}

func productWorld(r *vh.Rng, g Gen, plus bool) World {
	w := World{Plus: plus, Class: "nginx", Bundles: []string{"ok.tgz", "oklog.tgz"}}
	w.Secrets = append(w.Secrets, SecIn{NS: ns, Name: "tls-ok", Type: "tls"})
	badNS, refNS := ns, ""
	if g.Pos == "samename-other-bad" {
		badNS, refNS = otherNS, otherNS
	}
	bad := addPolicyOfKindNS(&w, g.Kind, "p-bad", badNS)
	badRefs := []RefIn{{NS: refNS, Name: "p-bad"}}
	specRefs := []RefIn{}
	var ctlRefs []RefIn
	tls := true
	mode := g.Mode
	switch {
	case mode == "ok":
	case mode == "pol-missing":
		w.Policies = w.Policies[:len(w.Policies)-1]
	case mode == "pol-invalid":
		bad.Invalid = true
	case mode == "pol-class":
		bad.Class = "other-class"
	case mode == "no-tls":
		tls = false
	case mode == "tier-conflict":
		bad.RlGroup, bad.RlDefault = "sub", true
		w.Policies = append(w.Policies, PolIn{NS: badNS, Name: "p-bad2", Kind: "rate", RlGroup: "sub", RlDefault: true})
		badRefs = append(badRefs, RefIn{NS: refNS, Name: "p-bad2"})
	case mode == "second-oidc":
		addPolicyOfKind(&w, "oidc", "p-first")
		if g.Scope == "server" {
			badRefs = []RefIn{{Name: "p-first"}, {NS: refNS, Name: "p-bad"}}
		} else {
			specRefs = append(specRefs, RefIn{Name: "p-first"})
		}
	case mode == "appol-missing":
		dropAP(&w, "p-bad-ap")
	case mode == "appol-invalid":
		for i := range w.AP {
			if w.AP[i].Name == "p-bad-ap" {
				w.AP[i].Invalid = true
			}
		}
	case mode == "logconf-missing":
		dropAP(&w, "p-bad-lc")
	case mode == "logconf-invalid":
		for i := range w.AP {
			if w.AP[i].Name == "p-bad-lc" {
				w.AP[i].Invalid = true
			}
		}
	case mode == "bundle-missing":
		bad.Bundle = "nope.tgz"
	case mode == "logbundle-missing":
		bad.LogBundles = []string{"nopelog.tgz"}
	case strings.HasPrefix(mode, "logbundles-"):
		var n, k int
		k = -1
		parts := strings.Split(mode, "-")
		fmt.Sscanf(parts[1], "%d", &n)
		fmt.Sscanf(parts[2], "bad%d", &k)
		bad.LogBundles = nil
		for i := 0; i < n; i++ {
			if i == k {
				bad.LogBundles = append(bad.LogBundles, "nopelog.tgz")
			} else {
				bad.LogBundles = append(bad.LogBundles, "oklog.tgz")
			}
		}
	case strings.HasPrefix(mode, "logconfs-"):
		// n APLogConfs p-bad-lc0..; entry k does not exist.  addWAFPolicyRefs stops collecting at the first
		// unusable APLogConf of a policy, so the LAST one is also referenced by a second WAF policy (p-help,
		// on the control route): the VirtualServer-wide LogConfRefs then holds it, as in a cluster where two
		// policies log with the same APLogConf.
		var n, k int
		k = -1
		parts := strings.Split(mode, "-")
		fmt.Sscanf(parts[1], "%d", &n)
		fmt.Sscanf(parts[2], "bad%d", &k)
		dropAP(&w, "p-bad-lc")
		bad.LogConfs = nil
		for i := 0; i < n; i++ {
			name := fmt.Sprintf("p-bad-lc%d", i)
			bad.LogConfs = append(bad.LogConfs, name)
			if i != k {
				w.AP = append(w.AP, APIn{NS: badNS, Name: name, Kind: "log"})
			}
		}
		help := PolIn{NS: badNS, Name: "p-help", Kind: "waf", ApPol: "p-bad-ap"}
		if k != n-1 {
			help.LogConfs = []string{fmt.Sprintf("p-bad-lc%d", n-1)}
		}
		w.Policies = append(w.Policies, help)
		bad = &w.Policies[len(w.Policies)-2]
		ctlRefs = []RefIn{{NS: refNS, Name: "p-help"}}
	case strings.HasPrefix(mode, "s1-") || strings.HasPrefix(mode, "s2-"):
		sn := "p-bad-" + mode[:2]
		what := mode[3:]
		sec := findSecret(&w, sn)
		switch {
		case what == "missing":
			dropSecret(&w, sn)
		case what == "deleted":
			sec.History = "deleted"
		case what == "deleted-invalid":
			sec.History, sec.Invalid = "deleted", true
		case what == "invalid":
			sec.Invalid = true
		case what == "unsupported":
			sec.Type = "opaque"
		case what == "wrong-invalid":
			sec.Invalid = true
			if sec.Type == "tls" {
				sec.Type = "ca"
			} else {
				sec.Type = "tls"
			}
		case strings.HasPrefix(what, "wrong-"):
			sec.Type = what[6:]
		}
	}
	var scopeRefs []RefIn
	switch g.Pos {
	case "alone":
		scopeRefs = badRefs
	case "preceded":
		addPolicyOfKind(&w, "access", "p-acl")
		scopeRefs = append([]RefIn{{Name: "p-acl"}}, badRefs...)
	case "followed":
		addPolicyOfKind(&w, "access", "p-acl")
		scopeRefs = append(append([]RefIn{}, badRefs...), RefIn{Name: "p-acl"})
	case "shadowed":
		addPolicyOfKind(&w, g.Kind, "p-same")
		scopeRefs = append([]RefIn{{Name: "p-same"}}, badRefs...)
	case "samename-other-bad":
		addPolicyOfKindNS(&w, "access", "p-bad", ns)
		scopeRefs = append([]RefIn{{Name: "p-bad"}}, badRefs...)
	case "samename-own-bad":
		addPolicyOfKindNS(&w, "access", "p-bad", otherNS)
		scopeRefs = append([]RefIn{{NS: otherNS, Name: "p-bad"}}, badRefs...)
	case "samename-bad-first":
		addPolicyOfKindNS(&w, "access", "p-bad", otherNS)
		scopeRefs = append(append([]RefIn{}, badRefs...), RefIn{NS: otherNS, Name: "p-bad"})
	}
	shape := vh.Pick(r, []string{"pass", "pass", "splits", "matches", "return", "grpc", "errpage"})
	vs := &VSIn{NS: ns, Name: "vs", Host: "h.example.com", TLS: tls, TLSName: "tls-ok", Policies: specRefs}
	ctl := RouteIn{Path: "/ctl", Shape: "pass", Policies: ctlRefs}
	switch g.Scope {
	case "server":
		vs.Policies = append(vs.Policies, scopeRefs...)
		vs.Routes = []RouteIn{ctl}
	case "route":
		vs.Routes = []RouteIn{{Path: "/r0", Shape: shape, Policies: scopeRefs}, ctl}
	case "subroute":
		vs.Routes = []RouteIn{{Path: "/r1", VSR: ns + "/vsr1"}, ctl}
		vs.VSRs = []VSRIn{{NS: ns, Name: "vsr1", Subroutes: []RouteIn{{Path: "/r1/s0", Shape: shape, Policies: scopeRefs}, {Path: "/r1/ctl", Shape: "pass"}}}}
	case "inherited":
		vs.Routes = []RouteIn{{Path: "/r1", VSR: ns + "/vsr1", Policies: scopeRefs}, ctl}
		vs.VSRs = []VSRIn{{NS: ns, Name: "vsr1", Subroutes: []RouteIn{{Path: "/r1/s0", Shape: shape}}}}
	case "inherited-xns":
		addPolicyOfKindNS(&w, "access", "p-bad", otherNS)
		vs.Routes = []RouteIn{{Path: "/r1", VSR: otherNS + "/vsr1", Policies: scopeRefs}, ctl}
		vs.VSRs = []VSRIn{{NS: otherNS, Name: "vsr1", Subroutes: []RouteIn{{Path: "/r1/s0", Shape: shape},
			{Path: "/r1/own", Shape: "pass", Policies: []RefIn{{Name: "p-bad"}}}}}}
	}
	w.VS = vs
	return w
}

func productGens() []Gen {
	var out []Gen
	for _, k := range kinds {
		for _, sc := range scopes {
			for _, m := range modesOf(k) {
				for _, p := range positions {
					if sc == "inherited-xns" && strings.HasPrefix(p, "samename-") {
						continue // those positions use the name p-bad in the other namespace themselves
					}
					out = append(out, Gen{Kind: k, Scope: sc, Mode: m, Pos: p})
				}
			}
		}
	}
	return out
}

// ---------------------------------------------------------------- TLS and Ingress streams

var tlsModes = []string{"none", "ok", "missing", "deleted", "deleted-invalid", "invalid", "unsupported", "wrong-invalid", "wrong-ca", "wrong-jwk", "wrong-htpasswd", "wrong-oidc", "wrong-apikey", "empty", "empty-wildcard"}

// tlsSecret applies a TLS-secret mode: returns (tls configured, secret name, wildcard) and adds the secret.
func tlsSecret(w *World, mode string) (bool, string) {
	switch mode {
	case "none":
		return false, ""
	case "empty":
		return true, ""
	case "empty-wildcard":
		w.Wildcard = true
		return true, ""
	case "missing":
		return true, "tls-x"
	}
	s := SecIn{NS: ns, Name: "tls-x", Type: "tls"}
	switch {
	case mode == "deleted":
		s.History = "deleted"
	case mode == "deleted-invalid":
		s.History, s.Invalid = "deleted", true
	case mode == "invalid":
		s.Invalid = true
	case mode == "unsupported":
		s.Type = "opaque"
	case mode == "wrong-invalid":
		s.Type, s.Invalid = "ca", true
	case strings.HasPrefix(mode, "wrong-"):
		s.Type = mode[6:]
	}
	w.Secrets = append(w.Secrets, s)
	return true, "tls-x"
}

func vstlsWorld(mode string, plus, internal bool) World {
	w := World{Plus: plus, Class: "nginx", InternalRoutes: internal}
	tls, name := tlsSecret(&w, mode)
	w.VS = &VSIn{NS: ns, Name: "vs", Host: "h.example.com", TLS: tls, TLSName: name, InternalRoute: internal,
		Routes: []RouteIn{{Path: "/ctl", Shape: "pass"}}}
	return w
}

var authModes = []string{"ok", "missing", "deleted", "deleted-invalid", "invalid", "unsupported", "wrong-invalid", "wrong-tls", "wrong-ca", "wrong-jwk", "wrong-htpasswd", "wrong-oidc", "wrong-apikey"}

func authSecret(w *World, name, want, mode string) bool {
	if mode == "missing" {
		return true
	}
	s := SecIn{NS: ns, Name: name, Type: want}
	switch {
	case mode == "ok":
	case mode == "deleted":
		s.History = "deleted"
	case mode == "deleted-invalid":
		s.History, s.Invalid = "deleted", true
	case mode == "invalid":
		s.Invalid = true
	case mode == "unsupported":
		s.Type = "opaque"
	case mode == "wrong-invalid":
		s.Type, s.Invalid = "tls", true
	case strings.HasPrefix(mode, "wrong-"):
		if mode[6:] == want {
			return false
		}
		s.Type = mode[6:]
	}
	w.Secrets = append(w.Secrets, s)
	return true
}

type ingGen struct {
	Master, Plus, OnMinion  bool
	Internal                bool // controller with -enable-internal-routes and the Ingress annotated nsm.nginx.com/internal-route
	TLSMode, Auth, AuthMode string
}

func ingGens() []ingGen {
	var out []ingGen
	for _, plus := range []bool{false, true} {
		for _, master := range []bool{false, true} {
			for _, internal := range []bool{false, true} {
				for _, m := range tlsModes {
					out = append(out, ingGen{Master: master, Plus: plus, TLSMode: m, Internal: internal})
				}
			}
			for _, auth := range []string{"jwt", "basic", "both"} {
				if !plus && auth != "basic" {
					continue
				}
				for _, onMinion := range []bool{false, true} {
					if onMinion && !master {
						continue
					}
					for _, m := range authModes {
						out = append(out, ingGen{Master: master, Plus: plus, OnMinion: onMinion, TLSMode: "ok", Auth: auth, AuthMode: m})
					}
				}
			}
		}
	}
	return out
}

func ingWorld(g ingGen) (World, bool) {
	w := World{Plus: g.Plus, Class: "nginx", InternalRoutes: g.Internal}
	tls, name := tlsSecret(&w, g.TLSMode)
	in := &IngIn{NS: ns, Name: "ing", Host: "i.example.com", Master: g.Master, TLS: tls, TLSName: name, OnMinion: g.OnMinion, InternalRoute: g.Internal}
	ok := true
	if g.Auth == "jwt" || g.Auth == "both" {
		in.JWTKey = "jwk-x"
		ok = authSecret(&w, "jwk-x", "jwk", g.AuthMode) && ok
	}
	if g.Auth == "basic" || g.Auth == "both" {
		in.Basic = "htp-x"
		ok = authSecret(&w, "htp-x", "htpasswd", g.AuthMode) && ok
	}
	w.Ing = in
	return w, ok
}

// ---------------------------------------------------------------- random stream

func randomWorld(r *vh.Rng) World {
	w := World{Plus: r.Chance(3, 4), Class: "nginx", Bundles: []string{"ok.tgz", "oklog.tgz"}}
	w.Secrets = append(w.Secrets, SecIn{NS: ns, Name: "tls-ok", Type: "tls"})
	// a pool of policies, each in a random state
	pool := []string{}
	poolKinds := []string{"access", "access", "rate", "rate", "jwt", "jwt", "jwks", "basic", "basic", "imtls", "emtls", "emtls", "oidc", "oidc", "apikey", "apikey", "waf", "wafb"}
	// the same names exist in two namespaces, each object in its own random state
	for i, k := range poolKinds {
		name := fmt.Sprintf("p%d-%s", i, k)
		pool = append(pool, name)
		for _, nsp := range []string{ns, otherNS} {
			st := r.Intn(10)
			if st == 0 || (nsp == otherNS && r.Bool()) {
				continue // missing
			}
			p := addPolicyOfKindNS(&w, k, name, nsp)
			switch st {
			case 1:
				p.Invalid = true
			case 2:
				p.Class = "other-class"
			}
			if k == "rate" && w.Plus && r.Chance(1, 2) {
				p.RlGroup, p.RlDefault = "sub", r.Chance(2, 3)
			}
			for s := 1; s <= nslots(k); s++ {
				sn := fmt.Sprintf("%s-s%d", name, s)
				var sec *SecIn
				for j := range w.Secrets {
					if w.Secrets[j].Name == sn && w.Secrets[j].NS == nsp {
						sec = &w.Secrets[j]
					}
				}
				switch r.Intn(10) {
				case 0:
					sec.History = "deleted" // as good as missing
				case 1:
					sec.Invalid = true
				case 2:
					sec.Type = vh.Pick(r, append([]string{"opaque"}, supportedTypes...))
				case 3:
					sec.History, sec.Invalid = "deleted", r.Bool()
				}
			}
			if k == "waf" {
				mark := func(n string, drop bool) {
					var out []APIn
					for _, a := range w.AP {
						if a.Name == n && a.NS == nsp {
							if drop {
								continue
							}
							a.Invalid = true
						}
						out = append(out, a)
					}
					w.AP = out
				}
				switch r.Intn(6) {
				case 0:
					mark(name+"-ap", true)
				case 1:
					mark(name+"-lc", true)
				case 2:
					mark(name+"-lc", false)
				}
			}
			if k == "wafb" && r.Chance(1, 5) {
				p.Bundle = "nope.tgz"
			}
		}
	}
	pick := func(max int) []RefIn {
		n := r.Intn(max + 1)
		var out []RefIn
		seen := map[string]bool{}
		for i := 0; i < n; i++ {
			rf := RefIn{Name: vh.Pick(r, pool)}
			switch r.Intn(6) {
			case 0:
				rf.NS = ns
			case 1, 2:
				rf.NS = otherNS
			}
			key := rf.NS + "/" + rf.Name
			if rf.NS == "" {
				key = ns + "/" + rf.Name
			}
			if seen[key] { // the VirtualServer validator rejects a KEY referenced twice in one list
				continue
			}
			seen[key] = true
			out = append(out, rf)
			// now and then the same name again in the other namespace, right behind it
			if r.Chance(1, 5) {
				o := RefIn{NS: otherNS, Name: rf.Name}
				if rf.NS == otherNS {
					o.NS = ""
				}
				ok := o.NS + "/" + o.Name
				if o.NS == "" {
					ok = ns + "/" + o.Name
				}
				if !seen[ok] {
					seen[ok] = true
					out = append(out, o)
				}
			}
		}
		return out
	}
	shape := func() string {
		return vh.Pick(r, []string{"pass", "pass", "splits", "matches", "return", "redirect", "grpc", "errpage"})
	}
	vs := &VSIn{NS: ns, Name: "vs", Host: "h.example.com", TLS: r.Chance(4, 5), TLSName: "tls-ok", Policies: pick(4)}
	nr := 1 + r.Intn(2)
	for i := 0; i < nr; i++ {
		vs.Routes = append(vs.Routes, RouteIn{Path: fmt.Sprintf("/r%d", i), Shape: shape(), Policies: pick(6)})
	}
	if r.Chance(2, 3) {
		vs.Routes = append(vs.Routes, RouteIn{Path: "/v", VSR: ns + "/vsr1", Policies: pick(5)})
		vsr := VSRIn{NS: ns, Name: "vsr1"}
		ns := 1 + r.Intn(2)
		for i := 0; i < ns; i++ {
			sr := RouteIn{Path: fmt.Sprintf("/v/s%d", i), Shape: shape()}
			if r.Bool() {
				sr.Policies = pick(6)
			}
			vsr.Subroutes = append(vsr.Subroutes, sr)
		}
		vs.VSRs = []VSRIn{vsr}
	}
	w.VS = vs
	return w
}

// ---------------------------------------------------------------- main

// ---------------------------------------------------------------- histories

func copyWorld(w World) World {
	c := w
	c.Policies = append([]PolIn(nil), w.Policies...)
	c.Secrets = append([]SecIn(nil), w.Secrets...)
	c.AP = append([]APIn(nil), w.AP...)
	c.Bundles = append([]string(nil), w.Bundles...)
	return c
}

// applyEvent is the cluster state after the event.
func applyEvent(init World, e EventIn) World {
	w := copyWorld(init)
	switch e.Dep {
	case "policy":
		var out []PolIn
		for _, p := range w.Policies {
			if p.NS == e.NS && p.Name == e.Name {
				switch e.Op {
				case "delete":
					continue
				case "invalid":
					p.Invalid = true
				case "class":
					p.Class = "other-class"
				}
			}
			out = append(out, p)
		}
		w.Policies = out
	case "secret":
		var out []SecIn
		for _, s := range w.Secrets {
			if s.NS == e.NS && s.Name == e.Name {
				switch {
				case e.Op == "delete":
					continue
				case e.Op == "invalid":
					s.Invalid = true
				case e.Op == "empty":
					s.Empty = true
				case strings.HasPrefix(e.Op, "retype:"):
					s.Type = e.Op[7:]
				}
			}
			out = append(out, s)
		}
		w.Secrets = out
	case "appol", "aplog":
		var out []APIn
		for _, a := range w.AP {
			if a.NS == e.NS && a.Name == e.Name {
				if e.Op == "delete" {
					continue
				}
				a.Invalid = true
			}
			out = append(out, a)
		}
		w.AP = out
	}
	return w
}

func secretOps(want string) []string {
	other := "tls"
	if want == "tls" {
		other = "ca"
	}
	return []string{"delete", "invalid", "empty", "retype:" + other, "retype:opaque"}
}

func histCases(root *vh.Rng) []Case {
	var out []Case
	n := 0
	add := func(fam string, g Gen, init World, e EventIn) {
		n++
		i := copyWorld(init)
		out = append(out, Case{Fam: fam, Class: "history", Gen: &g, Init: &i, Event: &e})
	}
	ossKinds := map[string]bool{"access": true, "rate": true, "basic": true, "imtls": true, "emtls": true, "apikey": true}
	for _, plus := range []bool{false, true} {
		for ki, k := range kinds {
			if !plus && !ossKinds[k] {
				continue // the policy is invalid on OSS from the start
			}
			for si, sc := range scopes {
				if k == "imtls" && sc != "server" {
					continue // never usable outside spec
				}
				init := productWorld(root.Fork(uint64(500000+ki*10+si)), Gen{Kind: k, Scope: sc, Mode: "ok", Pos: "alone"}, plus)
				for _, op := range []string{"delete", "invalid", "class"} {
					add("vs", Gen{Kind: k, Scope: sc, Mode: "policy-" + op, Pos: "history"}, init, EventIn{Dep: "policy", NS: ns, Name: "p-bad", Op: op})
				}
				for s := 1; s <= nslots(k); s++ {
					for _, op := range secretOps(slotType(k, s)) {
						add("vs", Gen{Kind: k, Scope: sc, Mode: fmt.Sprintf("s%d-%s", s, op), Pos: "history"}, init,
							EventIn{Dep: "secret", NS: ns, Name: fmt.Sprintf("p-bad-s%d", s), Op: op})
					}
				}
				// the same Secret events inside a batch of secret tasks for Secrets nobody uses directly
				for s := 1; s <= nslots(k); s++ {
					for _, op := range []string{"delete", "invalid"} {
						for _, at := range []int{0, 2} {
							add("vs", Gen{Kind: k, Scope: sc, Mode: fmt.Sprintf("s%d-%s", s, op), Pos: fmt.Sprintf("history-batch-at%d", at)}, init,
								EventIn{Dep: "secret", NS: ns, Name: fmt.Sprintf("p-bad-s%d", s), Op: op, Batch: 2, At: at})
						}
					}
				}
				if k == "waf" {
					for _, op := range []string{"delete", "invalid"} {
						add("vs", Gen{Kind: k, Scope: sc, Mode: "appol-" + op, Pos: "history"}, init, EventIn{Dep: "appol", NS: ns, Name: "p-bad-ap", Op: op})
						add("vs", Gen{Kind: k, Scope: sc, Mode: "logconf-" + op, Pos: "history"}, init, EventIn{Dep: "aplog", NS: ns, Name: "p-bad-lc", Op: op})
					}
					// three securityLogs entries, a non-last APLogConf becomes unusable
					multi := productWorld(root.Fork(uint64(600000+si)), Gen{Kind: k, Scope: sc, Mode: "logconfs-3-ok", Pos: "alone"}, plus)
					for _, op := range []string{"delete", "invalid"} {
						for i := 0; i < 3; i++ {
							add("vs", Gen{Kind: k, Scope: sc, Mode: fmt.Sprintf("logconfs-3-lc%d-%s", i, op), Pos: "history"}, multi,
								EventIn{Dep: "aplog", NS: ns, Name: fmt.Sprintf("p-bad-lc%d", i), Op: op})
						}
					}
				}
			}
		}
		for _, internal := range []bool{false, true} {
			pos := "history"
			if internal {
				pos = "history-internal-route"
			}
			for _, op := range []string{"delete", "invalid"} {
				add("vs", Gen{Kind: "tls", Scope: "server", Mode: op, Pos: pos + "-batch"}, vstlsWorld("ok", plus, internal), EventIn{Dep: "secret", NS: ns, Name: "tls-x", Op: op, Batch: 2, At: 1})
				wd, _ := ingWorld(ingGen{Plus: plus, TLSMode: "ok", Internal: internal})
				add("ing", Gen{Kind: "tls", Scope: "regular", Mode: op, Pos: pos + "-batch"}, wd, EventIn{Dep: "secret", NS: ns, Name: "tls-x", Op: op, Batch: 2, At: 1})
			}
			for _, op := range secretOps("tls") {
				add("vs", Gen{Kind: "tls", Scope: "server", Mode: op, Pos: pos}, vstlsWorld("ok", plus, internal), EventIn{Dep: "secret", NS: ns, Name: "tls-x", Op: op})
				for _, master := range []bool{false, true} {
					sc := "regular"
					if master {
						sc = "master"
					}
					wd, _ := ingWorld(ingGen{Master: master, Plus: plus, TLSMode: "ok", Internal: internal})
					add("ing", Gen{Kind: "tls", Scope: sc, Mode: op, Pos: pos}, wd, EventIn{Dep: "secret", NS: ns, Name: "tls-x", Op: op})
				}
			}
		}
		// the TLS Secret the host names is also a special secret of the controller
		for _, special := range []string{"wildcard", "default-server"} {
			for _, op := range secretOps("tls") {
				vw := vstlsWorld("ok", plus, false)
				vw.Special, vw.Wildcard = special, special == "wildcard"
				add("vs", Gen{Kind: "tls", Scope: "server", Mode: op, Pos: "history-special-" + special}, vw, EventIn{Dep: "secret", NS: ns, Name: "tls-x", Op: op})
				for _, master := range []bool{false, true} {
					sc := "regular"
					if master {
						sc = "master"
					}
					wd, _ := ingWorld(ingGen{Master: master, Plus: plus, TLSMode: "ok"})
					wd.Special, wd.Wildcard = special, special == "wildcard"
					add("ing", Gen{Kind: "tls", Scope: sc, Mode: op, Pos: "history-special-" + special}, wd, EventIn{Dep: "secret", NS: ns, Name: "tls-x", Op: op})
				}
			}
		}
		for _, auth := range []string{"jwt", "basic"} {
			if !plus && auth == "jwt" {
				continue
			}
			sec, want := "jwk-x", "jwk"
			if auth == "basic" {
				sec, want = "htp-x", "htpasswd"
			}
			for _, g := range []ingGen{{Plus: plus}, {Plus: plus, Master: true}, {Plus: plus, Master: true, OnMinion: true}} {
				g.TLSMode, g.Auth, g.AuthMode = "ok", auth, "ok"
				wd, _ := ingWorld(g)
				sc := "regular"
				if g.Master {
					sc = "master"
				}
				for _, op := range secretOps(want) {
					add("ing", Gen{Kind: auth, Scope: sc, Mode: op, Pos: "history"}, wd, EventIn{Dep: "secret", NS: ns, Name: sec, Op: op})
				}
			}
		}
	}
	return out
}

// panicSite names the innermost frames of /repo code on the panicking stack (function names only).
func panicSite() string {
	var out []string
	for _, l := range strings.Split(string(debug.Stack()), "\n") {
		if strings.HasPrefix(l, "github.com/nginx/kubernetes-ingress/internal/") && !strings.Contains(l, "verifh") {
			f := strings.TrimPrefix(l, "github.com/nginx/kubernetes-ingress/internal/")
			if i := strings.LastIndex(f, "("); i > 0 {
				f = f[:i]
			}
			out = append(out, f)
			if len(out) == 4 {
				break
			}
		}
	}
	return strings.Join(out, " < ")
}

func runHist(c *Case) (obs Obs) {
	defer func() {
		if p := recover(); p != nil {
			obs.Panic = fmt.Sprint(p) + " @ " + panicSite()
		}
	}()
	init := copyWorld(*c.Init)
	cnf, mgr, err := newConfigurator(&init)
	if err != nil {
		obs.Error = "templates: " + err.Error()
		return
	}
	opts := k8s.VerifC08Opts{IsPlus: init.Plus, EnableOIDC: init.Plus, AppProtect: init.Plus, IngressClass: init.Class, Configurator: cnf}
	switch init.Special {
	case "wildcard":
		opts.WildcardTLSSecret = ns + "/tls-x"
	case "default-server":
		opts.DefaultServerSecret = ns + "/tls-x"
	}
	ctl := k8s.NewVerifC08Ctl(opts, init.InternalRoutes)
	apply := func(kind, key string, obj interface{}) int {
		n, err := ctl.Apply(kind, key, obj)
		if err != nil && obs.Error == "" {
			obs.Error = "apply " + kind + " " + key + ": " + err.Error()
		}
		return n
	}
	apKind := func(a APIn) string {
		if a.Kind == "pol" {
			return "appol"
		}
		return "aplog"
	}
	// 1. the cluster as it was when the resource arrived: everything usable
	for _, s := range init.Secrets {
		apply("secret", s.NS+"/"+s.Name, buildSecret(s))
	}
	for _, a := range init.AP {
		apply(apKind(a), a.NS+"/"+a.Name, buildAP(a))
	}
	for _, p := range init.Policies {
		apply("policy", p.NS+"/"+p.Name, buildPolicy(p))
	}
	var file, host string
	if init.VS != nil {
		vs, vsrs := buildVS(init.VS)
		for _, vsr := range vsrs {
			apply("vsr", vsr.Namespace+"/"+vsr.Name, vsr)
		}
		apply("vs", vs.Namespace+"/"+vs.Name, vs)
		file, host = "vs_"+vs.Namespace+"_"+vs.Name, vs.Spec.Host
	} else {
		for _, ing := range buildIngresses(init.Ing) {
			apply("ing", ing.Namespace+"/"+ing.Name, ing)
		}
		file, host = init.Ing.NS+"-"+init.Ing.Name, init.Ing.Host
	}
	pre := string(mgr.running[file])
	obs.PreOpen = pre != "" && !strings.Contains(pre, "return 500;") && !strings.Contains(pre, "ssl_reject_handshake")
	// 2. the event, through the real handler and the real sync function
	e := *c.Event
	final := applyEvent(init, e)
	key := e.NS + "/" + e.Name
	build := func() interface{} {
		switch e.Dep {
		case "policy":
			for _, p := range final.Policies {
				if p.NS == e.NS && p.Name == e.Name {
					return buildPolicy(p)
				}
			}
		case "secret":
			for _, s := range final.Secrets {
				if s.NS == e.NS && s.Name == e.Name {
					return buildSecret(s)
				}
			}
		default:
			for _, a := range final.AP {
				if a.NS == e.NS && a.Name == e.Name {
					return buildAP(a)
				}
			}
		}
		return nil
	}
	reloadsBefore := mgr.reloads
	switch {
	case e.Batch > 0:
		// a burst: every event is delivered to the real handlers first, then the worker drains the queue
		deliver := func(kind, k string, obj interface{}) {
			if err := ctl.Deliver(kind, k, obj); err != nil && obs.Error == "" {
				obs.Error = "deliver " + kind + " " + k + ": " + err.Error()
			}
		}
		for i := 0; i <= e.Batch; i++ {
			if i == e.At || (i == e.Batch && e.At > e.Batch) {
				if e.Op == "delete" {
					deliver(e.Dep, key, nil)
				} else {
					deliver(e.Dep, key, build())
				}
			}
			if i < e.Batch {
				n := SecIn{NS: ns, Name: fmt.Sprintf("noise-%d", i), Type: "tls"}
				final.Secrets = append(final.Secrets, n)
				deliver("secret", n.NS+"/"+n.Name, buildSecret(n))
			}
		}
		obs.Queued = append(obs.Queued, ctl.Drain())
	case e.Op == "delete":
		obs.Queued = append(obs.Queued, apply(e.Dep, key, nil))
	case strings.HasPrefix(e.Op, "retype:"):
		// the type of a Secret is immutable: delete, then create again with the other type
		obs.Queued = append(obs.Queued, apply(e.Dep, key, nil))
		obs.Queued = append(obs.Queued, apply(e.Dep, key, build()))
	default:
		obs.Queued = append(obs.Queued, apply(e.Dep, key, build()))
	}
	// 3. verdicts of the real code on the resulting cluster state
	for i := range final.Secrets {
		s := buildSecret(final.Secrets[i])
		final.Secrets[i].Valid = secrets.ValidateSecret(s) == nil
		final.Secrets[i].Stored = secrets.IsSupportedSecretType(s.Type)
	}
	for i := range final.Policies {
		final.Policies[i].Valid, final.Policies[i].ClassOK = ctl.PolicyVerdicts(buildPolicy(final.Policies[i]))
	}
	for i := range final.AP {
		final.AP[i].Usable = ctl.APUsable(apKind(final.AP[i]), final.AP[i].NS+"/"+final.AP[i].Name)
	}
	c.World = final
	if obs.Error != "" {
		return obs
	}
	// judged on what NGINX runs after the queue drained, not on what is on disk
	live := mgr.running[file]
	obs.Reloads = mgr.reloads - reloadsBefore
	obs.Unloaded = !bytes.Equal(mgr.running[file], mgr.files[file])
	if final.VS != nil {
		vsEx := ctl.CurrentVS(host)
		if vsEx == nil {
			return obs
		}
		obs.Accepted = true
		observeVS(&final, vsEx, cnf, live, &obs, true)
	} else {
		ingEx, m := ctl.CurrentIngress(host)
		if ingEx == nil && m == nil {
			return obs
		}
		obs.Accepted = true
		observeIng(&final, ingEx, m, cnf, live, &obs, true)
	}
	return obs
}

func runCase(c *Case) {
	if c.Init != nil && c.Event != nil {
		c.Obs = runHist(c)
		return
	}
	c.Obs = runWorld(&c.World)
}

func main() {
	a := vh.ParseArgs()
	w, err := vh.NewWriter(a.Out)
	if err != nil {
		fmt.Fprintln(os.Stderr, err)
		os.Exit(2)
	}
	defer w.Close()
	if a.Replay != "" {
		var cases []Case
		if err := vh.ReadReplay(a.Replay, &cases); err != nil {
			fmt.Fprintln(os.Stderr, "replay:", err)
			os.Exit(2)
		}
		for i := range cases {
			cases[i].Obs = Obs{}
			runCase(&cases[i])
			w.Emit(cases[i])
		}
		return
	}
	root := vh.NewRng(a.Seed)
	id := 0
	emit := func(c Case) {
		c.ID, c.Seed = id, a.Seed
		id++
		runCase(&c)
		w.Emit(c)
	}
	// 1. the exhaustive product (both editions)
	for _, plus := range []bool{false, true} {
		for i, g := range productGens() {
			g := g
			r := root.Fork(uint64(i))
			emit(Case{Fam: "vs", Class: "product", Gen: &g, World: productWorld(r, g, plus)})
		}
	}
	// 2. VirtualServer host x TLS secret state
	for _, plus := range []bool{false, true} {
		for _, internal := range []bool{false, true} {
			for _, m := range tlsModes {
				pos := "alone"
				if internal {
					pos = "internal-route"
				}
				emit(Case{Fam: "vs", Class: "vstls", Gen: &Gen{Kind: "tls", Scope: "server", Mode: m, Pos: pos}, World: vstlsWorld(m, plus, internal)})
			}
		}
	}
	// 3. Ingress regular / master x TLS secret state, JWT / basic-auth secret state
	for _, g := range ingGens() {
		wd, ok := ingWorld(g)
		if !ok {
			continue
		}
		pos := "self"
		if g.OnMinion {
			pos = "minion"
		}
		if g.Internal {
			pos = "internal-route"
		}
		kind := "tls"
		mode := g.TLSMode
		if g.Auth != "" {
			kind, mode = g.Auth, g.AuthMode
		}
		sc := "regular"
		if g.Master {
			sc = "master"
		}
		emit(Case{Fam: "ing", Class: "ing", Gen: &Gen{Kind: kind, Scope: sc, Mode: mode, Pos: pos}, World: wd})
	}
	// 4. histories: the resource is rendered with every dependency usable, then ONE dependency becomes
	//    unusable; the event goes through the real informer handler and the real sync function
	for _, h := range histCases(root) {
		emit(h)
	}
	// 5. random stream of longer policy lists
	for i := 0; i < a.N; i++ {
		r := root.Fork(uint64(1000000 + i))
		emit(Case{Fam: "vs", Class: "random", World: randomWorld(r)})
	}
}
