"""Writes MANIFEST.json from one table, so that it is always valid and in step with the checks."""
import json, os, sys
ROOT = os.path.dirname(os.path.dirname(os.path.abspath(__file__)))

# pid -> (technique, level text, level_note, design_ref)
CLAIMS = {
    "C13": ("Rocq theorems over all response schedules (functions nat -> resp) of a model of WaitForCorrectVersion / Reload / API guard; "
            "model tied to the code by a correspondence harness on scripted unix-socket endpoints",
            "Machine-checked proof (Rocq 8.16.1, no axioms) that in the model an acknowledgement comes only from an exact HTTP 200 answer "
            "carrying exactly the expected version requested before the deadline, that a wait without such an answer fails, that versions strictly "
            "increase over any reload sequence and that the Plus API is called only behind a confirmed version; the hand-written model is run against "
            "the real verify.go/manager.go on generated response scripts on every run and the decidable specification is evaluated on the "
            "implementation's own outcomes.",
            "Trusted: Rocq kernel + vm_compute; the correspondence harness; the stand-in for the nginx binary; NGINX's handling of config-version.conf "
            "(compared byte-for-byte with the model but never executed). Timing within 30 ms of the deadline is proved in the model but not exercised.",
            "DESIGN.md 7 C13"),
}

NOT_YET = {}


def build():
    props = [json.loads(l) for l in open(os.path.join(ROOT, "properties.jsonl"))]
    checks, na = [], []
    for p in props:
        pid = p["id"]
        if pid in CLAIMS:
            tech, text, note, ref = CLAIMS[pid]
            checks.append({
                "property_id": pid,
                "quick_cmd": "./check %s --tier quick" % pid,
                "thorough_cmd": "./check %s --tier thorough" % pid,
                "evidence_file": "/verif/evidence/%s.json" % pid,
                "replay_cmd_template": "./check %s --replay {path}" % pid,
                "engine": "rocq",
                "level_claimed": {"category": "proof", "text": text, "design_ref": ref},
                "level_note": note,
                "technique": tech,
            })
        else:
            na.append({"property_id": pid, "reason": NOT_YET.get(pid, "check not built yet in this session; see DESIGN.md section 7 for the planned model and theorems")})
    m = {
        "version": 1,
        "setup_cmd": "./check --setup",
        "hooks": {
            "guard": "verif",
            "enable": "go build -tags verif -overlay /verif/.work/overlay.json (every hook is a //go:build verif file kept under /verif/harness/overlay and laid over /repo at build time; nothing is committed to /repo)",
            "baseline_off_cmd": "cd /repo && GOFLAGS=-mod=mod GOPROXY=off go test -vet=off -count=1 ./...",
            "source_commits": [],
            "add_only": True,
        },
        "engines": [{"name": "rocq", "path": "/verif/coq", "serves_properties": sorted(CLAIMS),
                     "kind_free_text": "Rocq/Coq 8.16.1 development (coq_makefile, full .vo build); models tied to /repo by Go correspondence harnesses built with -overlay and by translators"}],
        "checks": checks,
        "not_applicable": na,
        "notes": "See DESIGN.md. Known findings: KNOWN_FINDINGS.jsonl.",
    }
    with open(os.path.join(ROOT, "MANIFEST.json"), "w") as f:
        json.dump(m, f, indent=1)
    return m


if __name__ == "__main__":
    m = build()
    try:
        import jsonschema
        jsonschema.validate(m, json.load(open("/root/.vp/MANIFEST.schema.json")))
        print("MANIFEST.json valid (%d checks, %d not_applicable)" % (len(m["checks"]), len(m["not_applicable"])))
    except ImportError:
        print("MANIFEST.json written (jsonschema not available to validate)")
