(* C05 verdict 3 never occurs: the flag invariant and the full theorem *)
From Coq Require Import List ZArith String Ascii Bool Lia.
From NIC Require Import Base.SMap Arb.Types Arb.Model Arb.Spec Arb.WinsProofs Arb.InvProofs Arb.OwnerProofs
     Arb.ListenerProofs Arb.ClassProofs Arb.ChangeProofs Arb.ReportProofs Arb.ComposeProofs Arb.Cases Arb.MinionProofs Arb.ShadowProofs Arb.ShadowAttrs.
From NIC Require Import Arb.Truth01 Arb.Truth02 Arb.Truth03 Arb.Truth04 Arb.Truth05 Arb.Truth06 Arb.Truth07 Arb.Truth08 Arb.Truth09 Arb.Truth10
     Arb.Truth11 Arb.Truth12 Arb.Truth13 Arb.Truth14 Arb.Truth15 Arb.Truth16 Arb.Truth17 Arb.Truth18 Arb.Truth19 Arb.Truth20 Arb.Truth21 Arb.Truth22 Arb.Truth23 Arb.Truth24.
From NIC Require Import Arb.MinionGen1 Arb.MinionGen2 Arb.Truth25 Arb.Truth26.
Import ListNotations.
Open Scope string_scope.
Open Scope Z_scope.

(* the success last reported about an applied minion that serves none of its paths carries the warning *)
Definition flag (c : cfg) (es : list event) : Prop :=
  forall i w, lookup (mkey (i_meta i)) (o_ings (objs_after es)) = Some i -> is_minion i = true ->
    Ap (run c es) (ing_rkey i) -> lookup (ing_rkey i) (last_reports c es) = Some (ROk w) ->
    minion_serves (objs_after es) i = false -> w = true.

Lemma flag_nil c : flag c [].
Proof. intros i w Li. discriminate Li. Qed.

Section Step.
  Variables (c : cfg) (es : list event) (e : event).
  Hypothesis Hy' : hyps c (es ++ [e])%list.
  Hypothesis HU' : uid_hist (es ++ [e])%list.
  Hypothesis IF : flag c es.
  Let Hy := hyps_prefix c es e Hy'.
  Let IH := inv_all c es Hy.
  Let S := run c es.
  Let S' := run c (es ++ [e])%list.
  Let L := last_reports c es.
  Let L' := last_reports c (es ++ [e])%list.
  Let rs := step_reports c es e.
  Let chg := chg_reports e (own_in_cluster (cluster (es ++ [e])%list)) (batch c es e).
  Let prb := prob_reports (probs c es e).

  Theorem flag_step : flag c (es ++ [e])%list.
  Proof.
    intros i w Li Hm HA Lw Hns. set (k := ing_rkey i) in *.
    destruct (minion_applied_clause c _ Hy' i Li Hm HA) as (M1 & ic1 & m1 & LM1 & Hm1 & Em1).
    assert (Hnp : last_report k prb None = None) by (apply last_report_none; intros r; apply (applied_no_problem c es e Hy'); exact HA).
    assert (Ers : last_report k rs None = last_report k chg None).
    { unfold rs. rewrite step_reports_eq. rewrite last_report_app. fold prb. rewrite Hnp. reflexivity. }
    unfold L' in Lw. rewrite (L'_lookup c es e k) in Lw. fold rs in Lw. rewrite Ers in Lw.
    destruct (last_report k chg None) as [r|] eqn:Elc.
    - (* reported in this step *)
      inversion Lw; subst r.
      assert (Hin : In (k, ROk w) chg) by (apply last_report_in in Elc; destruct Elc as [H|H]; [exact H|discriminate]).
      destruct (ok_report_origin _ _ _ _ _ Hin) as (ch & Hch & Hop & [Ek|[(ic & m & Hr & Hmm & Ek & Ew)|(vc & x & _ & _ & Ek)]]).
      + exfalso. pose proof (step_upd_current c es e (h_role _ _ Hy') ch Hch Hop) as Lr. rewrite <- Ek in Lr.
        pose proof (proj2 (st_minion c _ Hy' M1 ic1 m1 LM1 Hm1)) as Hnone. rewrite Em1 in Hnone. unfold k, ing_rkey, key_of_ing in *. congruence.
      + pose proof (step_upd_current c es e (h_role _ _ Hy') ch Hch Hop) as Lr. rewrite Hr in Lr.
        destruct (GR_in_hosts c _ _ _ (run_fn_inv c _) (st_ok c _) (st_roles c _ Hy') Lr) as (h & Hh).
        assert (Hst : In (mkey (i_meta i), i) (o_ings (objs_of_state (run c (es ++ [e])%list)))) by (rewrite (st_objs c _); apply lookup_In; exact Li).
        destruct (attached_is_minion c _ (h_cm _ _ Hy') (st_ok c _) (st_wf c _ Hy') _ i h ic m Hst Hh Hmm Ek) as [Emi _].
        rewrite Ew. rewrite Emi.
        rewrite <- Emi. apply (unserving_minion_warned c _ (h_cm _ _ Hy') (st_ok c _) (st_wf c _ Hy')
                                 (ltac:(rewrite (st_objs c _); apply uids_ok_after; exact HU')) h ic m Hh Hmm).
        rewrite Emi, (st_objs c _). exact Hns.
      + exfalso. unfold k in Ek. clash Ek.
    - (* nothing said in this step: the minion was attached before, to the same master with the same minions *)
      assert (Hnc : forall ch, In ch (batch c es e) -> ~ covers ch k).
      { intros ch Hch Hcov. destruct (covered_ok c es e Hy' k (ex_intro _ ch (conj Hch Hcov))) as (w0 & Hw0). fold chg in Hw0. congruence. }
      destruct (applied_not_covered c es e (h_cm _ _ Hy') (h_role _ _ Hy') (h_k3 _ _ Hy') k HA Hnc)
        as [(r & r' & L1 & _)|[(M & ic & ic' & m & L1 & L0 & Ha & Hmm & Ek)|(V & vc & vc' & x & _ & _ & _ & _ & Ek)]].
      + exfalso. pose proof (proj2 (st_minion c _ Hy' M1 ic1 m1 LM1 Hm1)) as Hnone. rewrite Em1 in Hnone. unfold k, ing_rkey, key_of_ing in *. congruence.
      + assert (Em : ic_minions ic = ic_minions ic' /\ ic_ing ic = ic_ing ic') by (cbn [attrs] in Ha; injection Ha as E1 _ E3 _; auto).
        destruct Em as [Emins Eing].
        assert (Hmm0 : In m (ic_minions ic)) by (rewrite Emins; exact Hmm).
        (* m is i *)
        destruct (GR_in_hosts c _ _ _ (run_fn_inv c _) (st_ok c _) (st_roles c _ Hy') L1) as (h' & Hh').
        assert (Hst : In (mkey (i_meta i), i) (o_ings (objs_of_state (run c (es ++ [e])%list)))) by (rewrite (st_objs c _); apply lookup_In; exact Li).
        destruct (attached_is_minion c _ (h_cm _ _ Hy') (st_ok c _) (st_wf c _ Hy') _ i h' ic' m Hst Hh' Hmm Ek) as [Emi _].
        (* i was stored before *)
        destruct (st_minion c es Hy M ic m L0 Hmm0) as (Hw0 & _).
        destruct (who_ing_inv _ _ _ (objs_after_ok es) Hw0 (key_of_ing (mc_ing m)) eq_refl) as (i0 & Li0 & _ & Ek0).
        assert (Ei0 : i0 = i).
        { destruct (GR_in_hosts c _ _ _ (run_fn_inv c es) (st_ok c es) (st_roles c es Hy) L0) as (h0 & Hh0).
          destruct (attached_minion_facts c _ (h_cm _ _ Hy) (st_ok c es) (st_wf c es Hy) h0 ic m Hh0 Hmm0) as ((k0 & Hst0) & _).
          destruct (st_ok c es) as (W1 & _ & _ & _ & K1 & _). pose proof (K1 _ _ Hst0) as Ek1. subst k0.
          apply In_lookup in Hst0; [|exact W1]. rewrite (st_objs c es) in Hst0. unfold key_of_ing in Li0. rewrite Hst0 in Li0. inversion Li0. congruence. }
        subst i0.
        assert (Lw0 : lookup k L = Some (ROk w)).
        { rewrite <- Lw. symmetry. apply (forget_keeps es e _ k (m_uid (i_meta (mc_ing m))) (inv_wf _ _ IH)).
          - rewrite Ek. exact Hw0.
          - rewrite Ek. exact (proj1 (st_minion c _ Hy' M ic' m L1 Hmm)). }
        apply (IF i w).
        * unfold key_of_ing in Li0. rewrite Emi in Li0. exact Li0.
        * exact Hm.
        * right; left. exists M, ic, m. split; [exact L0|]. split; [exact Hmm0|exact Ek].
        * exact Lw0.
        * rewrite <- Emi. rewrite (serves_by_master c es Hy M ic m L0 Hmm0).
          rewrite <- Emi in Hns. rewrite (serves_by_master c _ Hy' M ic' m L1 Hmm) in Hns. rewrite Emins. exact Hns.
      + exfalso. unfold k in Ek. clash Ek.
  Qed.
End Step.

Theorem flag_all c es : hyps c es -> uid_hist es -> flag c es.
Proof.
  induction es as [|e r IH] using rev_ind; intros Hy HU; [apply flag_nil|].
  apply flag_step; [exact Hy|exact HU|]. apply IH; [exact (hyps_prefix c r e Hy)|exact (uid_hist_prefix r e HU)].
Qed.

(* THE FULL STATEMENT: after every history the judge accepts the accumulated reports of every known object *)
Theorem accumulated_reports_truthful_full c es : hyps c es -> uid_hist es ->
  forall k e0, lookup k (cluster es) = Some e0 ->
  truthful c (objs_after es) (view_ob (run c es)) (last_reports c es) k e0 = 0.
Proof.
  intros Hy HU k e0 Lc. destruct (accumulated_reports_truthful c es Hy k e0 Lc) as [H|[Hme H]]; [exact H|].
  exfalso. destruct e0 as [i cls v| | | | | | | | |]; try contradiction. destruct cls; [|contradiction]. destruct v; [|contradiction].
  cbn [minion_event] in Hme. pose proof (cluster_ok es k _ Lc) as [Ek Li]. cbn [andb] in Li. subst k.
  unfold truthful in H. rewrite (h_cm _ _ Hy), Hme in H. cbn [andb negb] in H.
  destruct (attached_minion (view_ob (run c es)) (key_of_ing i)) as [b|] eqn:Ea.
  - assert (Hne : attached_minion (view_ob (run c es)) (key_of_ing i) <> None) by congruence.
    apply attached_minion_iff in Hne. destruct Hne as (M & ic & m & LM & Hmm & Ekm).
    assert (HA : Ap (run c es) (ing_rkey i)) by (right; left; exists M, ic, m; split; [exact LM|]; split; [exact Hmm|]; unfold ing_rkey, key_of_ing in *; congruence).
    destruct (inv_I3 _ _ (inv_all c es Hy) _ HA) as (w & Lw). rewrite Lw in H.
    destruct (minion_serves (objs_after es) i) eqn:Es; [discriminate H|].
    rewrite (flag_all c es Hy HU i w Li Hme HA Lw Es) in H. discriminate H.
  - destruct (lookup (ing_rkey i) (last_reports c es)) as [r|]; [destruct (is_ok r)|]; discriminate H.
Qed.
