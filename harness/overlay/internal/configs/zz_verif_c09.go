//go:build verif

package configs

import (
	"sort"

	"github.com/nginx/kubernetes-ingress/internal/configs/version1"
)

// Add-only exports for the C09 harness: the unexported functions that range over a map, called
// exactly as the generator calls them, with their results projected to string items in the
// order the real code produced them.

// VerifC09APIKeyClients is generateAPIKeyClients: items "clientID=hashedKey" in result order.
func VerifC09APIKeyClients(data map[string][]byte) []string {
	var out []string
	for _, c := range generateAPIKeyClients(data) {
		out = append(out, c.ClientID+"="+c.HashedKey)
	}
	return out
}

// VerifC09UpstreamMapToSlice is upstreamMapToSlice on upstreams named by their keys.
func VerifC09UpstreamMapToSlice(names []string) []string {
	m := make(map[string]version1.Upstream, len(names))
	for _, n := range names {
		m[n] = version1.Upstream{Name: "up-" + n}
	}
	var out []string
	for _, u := range upstreamMapToSlice(m) {
		out = append(out, u.Name)
	}
	return out
}

func sortedItems(m map[string]string) []string {
	out := make([]string, 0, len(m))
	for k, v := range m {
		out = append(out, k+"="+v)
	}
	sort.Strings(out)
	return out
}

// VerifC09FilterAnnotations is filterMasterAnnotations / filterMinionAnnotations on a fresh map:
// the removed keys in result order and the remaining map as sorted items.
func VerifC09FilterAnnotations(master bool, ann [][2]string) (removed []string, remaining []string) {
	m := make(map[string]string, len(ann))
	for _, kv := range ann {
		m[kv[0]] = kv[1]
	}
	if master {
		removed = filterMasterAnnotations(m)
	} else {
		removed = filterMinionAnnotations(m)
	}
	return removed, sortedItems(m)
}

// VerifC09MergeMasterIntoMinion is mergeMasterAnnotationsIntoMinion on fresh maps.
func VerifC09MergeMasterIntoMinion(minion, master [][2]string) []string {
	mi := make(map[string]string, len(minion))
	for _, kv := range minion {
		mi[kv[0]] = kv[1]
	}
	ma := make(map[string]string, len(master))
	for _, kv := range master {
		ma[kv[0]] = kv[1]
	}
	mergeMasterAnnotationsIntoMinion(mi, ma)
	return sortedItems(mi)
}

// VerifC09TLSPassthroughHosts is generateTLSPassthroughHostsConfig on (key, host, socket) triples.
func VerifC09TLSPassthroughHosts(pairs [][3]string) []string {
	m := make(map[string]tlsPassthroughPair, len(pairs))
	for _, p := range pairs {
		m[p[0]] = tlsPassthroughPair{Host: p[1], UnixSocket: p[2]}
	}
	cfg := generateTLSPassthroughHostsConfig(m)
	return sortedItems(map[string]string(*cfg))
}

// VerifC09VSMaps runs the real GenerateVirtualServerConfig and returns the `map` blocks of the
// result in order ("source variable" and, per block, its parameters in order).
func VerifC09VSMaps(vsEx *VirtualServerEx, cfgParams *ConfigParams, isPlus bool) (headers []string, params [][]string, nwarn int) {
	vsc := newVirtualServerConfigurator(cfgParams, isPlus, false, &StaticConfigParams{}, false, nil)
	cfg, warnings := vsc.GenerateVirtualServerConfig(vsEx, nil, nil)
	for _, m := range cfg.Maps {
		headers = append(headers, m.Source+" "+m.Variable)
		var ps []string
		for _, p := range m.Parameters {
			ps = append(ps, p.Value+" "+p.Result)
		}
		params = append(params, ps)
	}
	for _, w := range warnings {
		nwarn += len(w)
	}
	return headers, params, nwarn
}

// VerifC09MasterDenied / VerifC09MinionDenied / VerifC09Inheritable list the keys of the
// annotation tables (sorted), so that the harness generates inputs from the real tables.
func VerifC09AnnotationTables() (masterDeny, minionDeny, inherit []string) {
	for k := range masterDenylist {
		masterDeny = append(masterDeny, k)
	}
	for k := range minionDenylist {
		minionDeny = append(minionDeny, k)
	}
	for k := range minionInheritanceList {
		inherit = append(inherit, k)
	}
	sort.Strings(masterDeny)
	sort.Strings(minionDeny)
	sort.Strings(inherit)
	return
}
