//go:build verif

// Correspondence harness for C14: generated clusters (Services, EndpointSlices, Pods) are
// loaded into the stores of a real LoadBalancerController; for every generated backend the
// REAL getEndpointsForIngressBackend / getEndpointsForSubselector, createIngressEx /
// createVirtualServerEx / createTransportServerEx and the real configuration generators
// are run, and the inputs are written together with the projected observables (sorted
// endpoint sets, the Endpoints map entry, the server entries of the generated upstream).
package main

import (
	"fmt"
	"os"
	"sort"
	"strings"

	"github.com/nginx/kubernetes-ingress/internal/configs"
	"github.com/nginx/kubernetes-ingress/internal/configs/version1"
	"github.com/nginx/kubernetes-ingress/internal/k8s"
	"github.com/nginx/kubernetes-ingress/internal/verifh/vh"
	conf_v1 "github.com/nginx/kubernetes-ingress/pkg/apis/configuration/v1"
	api_v1 "k8s.io/api/core/v1"
	discovery_v1 "k8s.io/api/discovery/v1"
	networking "k8s.io/api/networking/v1"
	meta_v1 "k8s.io/apimachinery/pkg/apis/meta/v1"
	"k8s.io/apimachinery/pkg/util/intstr"
)

// ---------- case format ----------

type SvcPort struct {
	Name  string `json:"name"`
	Port  int    `json:"port"`
	Proto string `json:"proto"`
	TKind int    `json:"tkind"` // 0 unset, 1 number, 2 name
	TNum  int    `json:"tnum"`
	TName string `json:"tname"`
}

type Svc struct {
	Ns        string      `json:"ns"`
	Name      string      `json:"name"`
	Type      string      `json:"type"` // ClusterIP | ExternalName
	ClusterIP string      `json:"cluster_ip"`
	ExtName   string      `json:"ext_name"`
	Selector  [][2]string `json:"selector"`
	Ports     []SvcPort   `json:"ports"`
}

type SlicePort struct {
	Name   string `json:"name"`
	HasNum bool   `json:"has_num"`
	Num    int    `json:"num"`
	Proto  string `json:"proto"`
}

type Endp struct {
	Addrs []string `json:"addrs"`
	Ready int      `json:"ready"` // -1 unknown (nil), 0 false, 1 true
	Ref   string   `json:"ref"`   // TargetRef pod name; "" = no TargetRef
}

type Slice struct {
	Ns    string      `json:"ns"`
	Name  string      `json:"name"`
	Svc   string      `json:"svc"` // label kubernetes.io/service-name ("" = no label)
	Ports []SlicePort `json:"ports"`
	Eps   []Endp      `json:"eps"`
}

type CPort struct {
	Name  string `json:"name"`
	Num   int    `json:"num"`
	Proto string `json:"proto"`
}

type Pod struct {
	Ns     string      `json:"ns"`
	Name   string      `json:"name"`
	IP     string      `json:"ip"`
	Labels [][2]string `json:"labels"`
	Ports  []CPort     `json:"ports"`
}

type Backend struct {
	Kind      string      `json:"kind"` // ing | vs | vsr | ts
	Svc       string      `json:"svc"`
	PortName  string      `json:"port_name"`
	PortNum   int         `json:"port_num"`
	ClusterIP bool        `json:"cluster_ip"`
	Subsel    [][2]string `json:"subsel"`
	Default   bool        `json:"default"` // ing: use spec.defaultBackend instead of a rule path
}

type BObs struct {
	Err      int         `json:"err"` // 0 ok; 1 nosvc 2 noslices 3 noport 4 nopods 5 nonamedport 6 noendpoints 7 externaloss 99 unknown
	Eps      [][2]string `json:"eps"` // (address, pod name), sorted
	External bool        `json:"external"`
	Entry    []string    `json:"entry"` // Endpoints[key] of the extended resource, sorted
	HasEntry bool        `json:"has_entry"`
	ExtSvc   bool        `json:"ext_svc"` // recorded in ExternalNameSvcs
	Servers  []string    `json:"servers"` // server entries of the generated upstream, sorted
	Upstream bool        `json:"upstream"` // the upstream block exists
	Panic    string      `json:"panic,omitempty"`
}

type Case struct {
	ID       int       `json:"id"`
	Fam      string    `json:"fam,omitempty"` // "" static resolution | "dyn" events through the real handlers
	Dyn      *DynSpec  `json:"dyn,omitempty"`
	Res      *ResSpec  `json:"res,omitempty"`
	APIFail  []int     `json:"api_fail,omitempty"` // dyn: backends whose NGINX Plus API calls fail during the events
	Class    string    `json:"class"`
	Plus     bool      `json:"plus"`
	Resolver bool      `json:"resolver"`
	Svcs     []Svc     `json:"svcs"`
	Slices   []Slice   `json:"slices"`
	Pods     []Pod     `json:"pods"`
	Backends []Backend `json:"backends"`
	Obs      any       `json:"obs"`
}

const NS = "ns"

// ---------- building the Kubernetes objects ----------

func labelsOf(kv [][2]string) map[string]string {
	if len(kv) == 0 {
		return nil
	}
	m := map[string]string{}
	for _, p := range kv {
		m[p[0]] = p[1]
	}
	return m
}

func proto(p string) api_v1.Protocol { return api_v1.Protocol(p) }

func mkService(s Svc) *api_v1.Service {
	svc := &api_v1.Service{
		ObjectMeta: meta_v1.ObjectMeta{Namespace: s.Ns, Name: s.Name},
		Spec: api_v1.ServiceSpec{
			Type:         api_v1.ServiceType(s.Type),
			ClusterIP:    s.ClusterIP,
			ExternalName: s.ExtName,
			Selector:     labelsOf(s.Selector),
		},
	}
	for _, p := range s.Ports {
		sp := api_v1.ServicePort{Name: p.Name, Port: int32(p.Port), Protocol: proto(p.Proto)}
		switch p.TKind {
		case 1:
			sp.TargetPort = intstr.FromInt32(int32(p.TNum))
		case 2:
			sp.TargetPort = intstr.FromString(p.TName)
		}
		svc.Spec.Ports = append(svc.Spec.Ports, sp)
	}
	return svc
}

func mkSlice(s Slice) *discovery_v1.EndpointSlice {
	es := &discovery_v1.EndpointSlice{
		ObjectMeta:  meta_v1.ObjectMeta{Namespace: s.Ns, Name: s.Name},
		AddressType: discovery_v1.AddressTypeIPv4,
	}
	if s.Svc != "" {
		es.Labels = map[string]string{"kubernetes.io/service-name": s.Svc}
	}
	for _, p := range s.Ports {
		p := p
		ep := discovery_v1.EndpointPort{}
		name := p.Name
		ep.Name = &name
		if p.HasNum {
			n := int32(p.Num)
			ep.Port = &n
		}
		pr := proto(p.Proto)
		ep.Protocol = &pr
		es.Ports = append(es.Ports, ep)
	}
	for _, e := range s.Eps {
		x := discovery_v1.Endpoint{Addresses: append([]string(nil), e.Addrs...)}
		switch e.Ready {
		case 0:
			f := false
			x.Conditions.Ready = &f
		case 1:
			t := true
			x.Conditions.Ready = &t
		}
		if e.Ref != "" {
			x.TargetRef = &api_v1.ObjectReference{Kind: "Pod", Namespace: s.Ns, Name: e.Ref}
		}
		es.Endpoints = append(es.Endpoints, x)
	}
	return es
}

func mkPod(p Pod) *api_v1.Pod {
	pod := &api_v1.Pod{
		ObjectMeta: meta_v1.ObjectMeta{Namespace: p.Ns, Name: p.Name, Labels: labelsOf(p.Labels), UID: "uid"},
		Status:     api_v1.PodStatus{PodIP: p.IP},
	}
	// two containers (first half / second half of the ports), to exercise the loop over containers;
	// the order findPort walks is the order of p.Ports
	var c1, c2 api_v1.Container
	half := (len(p.Ports) + 1) / 2
	for i, cp := range p.Ports {
		x := api_v1.ContainerPort{Name: cp.Name, ContainerPort: int32(cp.Num), Protocol: proto(cp.Proto)}
		if i < half {
			c1.Ports = append(c1.Ports, x)
		} else {
			c2.Ports = append(c2.Ports, x)
		}
	}
	pod.Spec.Containers = []api_v1.Container{c1, c2}
	return pod
}

// ---------- running one case on the implementation ----------

func errCode(err error) int {
	if err == nil {
		return 0
	}
	m := err.Error()
	switch {
	case strings.Contains(m, "no pods of service"):
		return 4
	case strings.Contains(m, "error finding named port"):
		return 5
	case strings.Contains(m, "no endpointslices for target port"):
		return 6
	case strings.Contains(m, "could not find endpointslices"):
		return 2
	case strings.Contains(m, "only available in NGINX Plus"):
		return 7
	case strings.Contains(m, "doesn't exist"):
		return 1
	case strings.Contains(m, "no port"):
		return 3
	}
	return 99
}

func sortedEps(eps []k8s.VerifC14Endpoint) [][2]string {
	out := make([][2]string, 0, len(eps))
	for _, e := range eps {
		out = append(out, [2]string{e.Address, e.PodName})
	}
	sort.Slice(out, func(i, j int) bool {
		if out[i][0] != out[j][0] {
			return out[i][0] < out[j][0]
		}
		return out[i][1] < out[j][1]
	})
	return out
}

func sorted(xs []string) []string {
	out := append([]string{}, xs...)
	sort.Strings(out)
	return out
}

func runBackend(v *k8s.VerifC14, c *Case, b Backend) (o BObs) {
	defer func() {
		if r := recover(); r != nil {
			o.Panic = fmt.Sprint(r)
		}
	}()
	o.Eps, o.Entry, o.Servers = [][2]string{}, []string{}, []string{}
	sub := labelsOf(b.Subsel)
	if b.Kind != "vs" && b.Kind != "vsr" {
		sub = nil
	}
	// 1. the direct call
	if len(sub) > 0 {
		eps, err := v.EndpointsForSubselector(NS, conf_v1.Upstream{Name: "u", Service: b.Svc, Port: uint16(b.PortNum), Subselector: sub})
		o.Err, o.Eps = errCode(err), sortedEps(eps)
	} else {
		backend := &networking.IngressBackend{Service: &networking.IngressServiceBackend{
			Name: b.Svc, Port: networking.ServiceBackendPort{Name: b.PortName, Number: int32(b.PortNum)}}}
		eps, external, _, err := v.EndpointsForIngressBackend(backend, NS)
		o.Err, o.Eps, o.External = errCode(err), sortedEps(eps), external
	}
	// 2. the extended resource and the generated upstream
	var ups []configs.VerifC14Upstream
	switch b.Kind {
	case "ing":
		backend := networking.IngressBackend{Service: &networking.IngressServiceBackend{
			Name: b.Svc, Port: networking.ServiceBackendPort{Name: b.PortName, Number: int32(b.PortNum)}}}
		ing := &networking.Ingress{ObjectMeta: meta_v1.ObjectMeta{Namespace: NS, Name: "ing", Annotations: map[string]string{}}}
		if b.ClusterIP {
			ing.Annotations["nginx.org/use-cluster-ip"] = "true"
		}
		pt := networking.PathTypePrefix
		if b.Default {
			ing.Spec.DefaultBackend = &backend
			ing.Spec.Rules = []networking.IngressRule{{Host: "h.example.com"}}
		} else {
			ing.Spec.Rules = []networking.IngressRule{{Host: "h.example.com", IngressRuleValue: networking.IngressRuleValue{
				HTTP: &networking.HTTPIngressRuleValue{Paths: []networking.HTTPIngressPath{{Path: "/", PathType: &pt, Backend: backend}}}}}}
		}
		ex := v.CreateIngressEx(ing, map[string]bool{"h.example.com": true})
		// the key is computed from the backend as createUpstream reads it (createIngressEx may have filled Number in)
		key := b.Svc + configs.GetBackendPortAsString(networking.ServiceBackendPort{Name: b.PortName, Number: int32(b.PortNum)})
		var e []string
		e, o.HasEntry = ex.Endpoints[key]
		o.Entry = sorted(e)
		o.ExtSvc = ex.ExternalNameSvcs[b.Svc]
		ups = configs.VerifC14IngressUpstreams(ex, c.Plus, c.Resolver)
	case "vs", "vsr":
		u := conf_v1.Upstream{Name: "u", Service: b.Svc, Port: uint16(b.PortNum), UseClusterIP: b.ClusterIP, Subselector: sub}
		vs := &conf_v1.VirtualServer{ObjectMeta: meta_v1.ObjectMeta{Namespace: NS, Name: "vs"}, Spec: conf_v1.VirtualServerSpec{Host: "h.example.com"}}
		var vsrs []*conf_v1.VirtualServerRoute
		if b.Kind == "vs" {
			vs.Spec.Upstreams = []conf_v1.Upstream{u}
			vs.Spec.Routes = []conf_v1.Route{{Path: "/", Action: &conf_v1.Action{Pass: "u"}}}
		} else {
			vs.Spec.Routes = []conf_v1.Route{{Path: "/r", Route: NS + "/vsr"}}
			vsrs = []*conf_v1.VirtualServerRoute{{ObjectMeta: meta_v1.ObjectMeta{Namespace: NS, Name: "vsr"},
				Spec: conf_v1.VirtualServerRouteSpec{Host: "h.example.com", Upstreams: []conf_v1.Upstream{u},
					Subroutes: []conf_v1.Route{{Path: "/r", Action: &conf_v1.Action{Pass: "u"}}}}}}
		}
		ex := v.CreateVirtualServerEx(vs, vsrs)
		key := configs.GenerateEndpointsKey(NS, b.Svc, sub, uint16(b.PortNum))
		var e []string
		e, o.HasEntry = ex.Endpoints[key]
		o.Entry = sorted(e)
		o.ExtSvc = ex.ExternalNameSvcs[configs.GenerateExternalNameSvcKey(NS, b.Svc)]
		ups = configs.VerifC14VirtualServerUpstreams(ex, c.Plus, c.Resolver)
	case "ts":
		ts := &conf_v1.TransportServer{ObjectMeta: meta_v1.ObjectMeta{Namespace: NS, Name: "ts"}, Spec: conf_v1.TransportServerSpec{
			Listener:  conf_v1.TransportServerListener{Name: "tcp-1", Protocol: "TCP"},
			Upstreams: []conf_v1.TransportServerUpstream{{Name: "u", Service: b.Svc, Port: b.PortNum}},
			Action:    &conf_v1.TransportServerAction{Pass: "u"}}}
		ex := v.CreateTransportServerEx(ts, 5353)
		key := configs.GenerateEndpointsKey(NS, b.Svc, nil, uint16(b.PortNum))
		var e []string
		e, o.HasEntry = ex.Endpoints[key]
		o.Entry = sorted(e)
		o.ExtSvc = ex.ExternalNameSvcs[configs.GenerateExternalNameSvcKey(NS, b.Svc)]
		ups = configs.VerifC14TransportServerUpstreams(ex, c.Plus, c.Resolver)
	default:
		panic("unknown backend kind " + b.Kind)
	}
	if len(ups) == 1 {
		o.Upstream = true
		o.Servers = sorted(ups[0].Servers)
	} else if len(ups) > 1 {
		panic(fmt.Sprintf("%d upstreams generated for one backend", len(ups)))
	}
	return o
}

func runCase(c *Case) {
	if c.Fam == "dyn" {
		runDyn(c)
		return
	}
	if c.Fam == "res" {
		runRes(c)
		return
	}
	defer func() {
		if r := recover(); r != nil {
			c.Obs = map[string]string{"error": fmt.Sprint(r)}
		}
	}()
	v := k8s.NewVerifC14(c.Plus)
	for _, s := range c.Svcs {
		if err := v.AddService(mkService(s)); err != nil {
			panic(err)
		}
	}
	for _, s := range c.Slices {
		if err := v.AddSlice(mkSlice(s)); err != nil {
			panic(err)
		}
	}
	for _, p := range c.Pods {
		if err := v.AddPod(mkPod(p)); err != nil {
			panic(err)
		}
	}
	obs := make([]BObs, 0, len(c.Backends))
	for _, b := range c.Backends {
		obs = append(obs, runBackend(v, c, b))
	}
	c.Obs = obs
}

// ---------- generators ----------

var (
	v4pool     = []string{"10.0.0.1", "10.0.0.2", "10.0.0.3", "10.0.0.4", "10.0.0.5", "10.0.0.6", "10.0.1.7"}
	v6pool     = []string{"fd00::1", "fd00::2", "2001:db8::a:1", "::ffff:10.0.0.1", "fe80::1"}
	svcNames   = []string{"web", "api", "db", "web-2", "cache"}
	portNames  = []string{"http", "https", "metrics", "grpc", "dns"}
	cportNames = []string{"web", "admin", "h2", "http"}
	portNums   = []int{80, 443, 8080, 9090, 53, 8443}
	tgtNums    = []int{8080, 8081, 9090, 3000, 53, 80}
)

func pickIP(r *vh.Rng) string {
	if r.Chance(1, 3) {
		return vh.Pick(r, v6pool)
	}
	return vh.Pick(r, v4pool)
}

func proto0(r *vh.Rng) string {
	if r.Chance(1, 8) {
		return "UDP"
	}
	return "TCP"
}

func genReady(r *vh.Rng) int {
	switch x := r.Intn(10); {
	case x < 6:
		return 1
	case x < 8:
		return 0
	}
	return -1
}

// genCluster builds services, pods and (roughly the way the EndpointSlice controller does)
// slices, then perturbs them.
func genCluster(r *vh.Rng, c *Case) {
	nsvc := 1 + r.Intn(3)
	names := append([]string{}, svcNames...)
	for i := 0; i < nsvc; i++ {
		k := r.Intn(len(names))
		name := names[k]
		names = append(names[:k], names[k+1:]...)
		s := Svc{Ns: NS, Name: name, Type: "ClusterIP", Selector: [][2]string{{"app", name}}}
		switch x := r.Intn(10); {
		case x < 6:
			s.ClusterIP = fmt.Sprintf("10.96.0.%d", 1+r.Intn(50))
		case x < 9:
			s.ClusterIP = fmt.Sprintf("fd00:10:96::%x", 1+r.Intn(200))
		default:
			s.ClusterIP = "None"
		}
		external := r.Chance(1, 9)
		if external {
			s.Type, s.ClusterIP, s.ExtName, s.Selector = "ExternalName", "", vh.Pick(r, []string{"ext.example.com", "db.internal"}), nil
		}
		if r.Chance(1, 12) {
			s.Selector = nil // a service without selector
		}
		np := 1 + r.Intn(3)
		pn := append([]string{}, portNames...)
		nums := append([]int{}, portNums...)
		for j := 0; j < np; j++ {
			k := r.Intn(len(pn))
			p := SvcPort{Name: pn[k], Proto: proto0(r)}
			pn = append(pn[:k], pn[k+1:]...)
			k = r.Intn(len(nums))
			p.Port = nums[k]
			nums = append(nums[:k], nums[k+1:]...)
			if np == 1 && r.Chance(1, 2) {
				p.Name = "" // a single port may be unnamed
			}
			switch x := r.Intn(20); {
			case x < 5:
			case x < 13:
				p.TKind, p.TNum = 1, vh.Pick(r, tgtNums)
			default:
				p.TKind, p.TName = 2, vh.Pick(r, cportNames)
			}
			s.Ports = append(s.Ports, p)
		}
		c.Svcs = append(c.Svcs, s)
		if external && r.Chance(3, 4) {
			continue // ExternalName: usually no pods, no slices
		}
		// pods
		npods := r.Intn(5)
		hetero := r.Chance(1, 4)
		var pods []Pod
		for j := 0; j < npods; j++ {
			p := Pod{Ns: NS, Name: fmt.Sprintf("%s-%d", name, j), IP: pickIP(r),
				Labels: [][2]string{{"app", name}, {"version", vh.Pick(r, []string{"v1", "v2"})}}}
			if r.Chance(1, 10) {
				p.Labels = p.Labels[:1]
			}
			for _, sp := range s.Ports {
				if sp.TKind != 2 {
					continue
				}
				if r.Chance(1, 10) {
					continue // this pod does not declare the named port
				}
				num := tgtNums[(len(sp.TName)+len(sp.Name))%len(tgtNums)]
				if hetero {
					num = vh.Pick(r, tgtNums)
				}
				pr := sp.Proto
				if r.Chance(1, 15) {
					pr = "UDP" // same name, other protocol
				}
				p.Ports = append(p.Ports, CPort{Name: sp.TName, Num: num, Proto: pr})
			}
			for k := r.Intn(3); k > 0; k-- {
				p.Ports = append(p.Ports, CPort{Name: vh.Pick(r, cportNames), Num: vh.Pick(r, tgtNums), Proto: proto0(r)})
			}
			// shuffle the container ports
			for k := len(p.Ports) - 1; k > 0; k-- {
				m := r.Intn(k + 1)
				p.Ports[k], p.Ports[m] = p.Ports[m], p.Ports[k]
			}
			pods = append(pods, p)
		}
		c.Pods = append(c.Pods, pods...)
		// slices: pods grouped by their resolved port vector
		groups := map[string][]Pod{}
		var order []string
		resolve := func(p Pod, sp SvcPort) (int, bool) {
			switch sp.TKind {
			case 0:
				return sp.Port, true
			case 1:
				return sp.TNum, true
			}
			for _, cp := range p.Ports {
				if cp.Name == sp.TName && cp.Proto == sp.Proto {
					return cp.Num, true
				}
			}
			return 0, false
		}
		for _, p := range pods {
			key := ""
			for _, sp := range s.Ports {
				n, ok := resolve(p, sp)
				key += fmt.Sprintf("%d/%v,", n, ok)
			}
			if _, ok := groups[key]; !ok {
				order = append(order, key)
			}
			groups[key] = append(groups[key], p)
		}
		sliceNo := 0
		for _, key := range order {
			g := groups[key]
			for len(g) > 0 {
				take := 1 + r.Intn(len(g))
				part := g[:take]
				g = g[take:]
				sl := Slice{Ns: NS, Name: fmt.Sprintf("%s-s%d", name, sliceNo), Svc: name}
				sliceNo++
				for _, sp := range s.Ports {
					n, ok := resolve(part[0], sp)
					if !ok {
						continue
					}
					sl.Ports = append(sl.Ports, SlicePort{Name: sp.Name, HasNum: true, Num: n, Proto: sp.Proto})
				}
				for _, p := range part {
					e := Endp{Addrs: []string{p.IP}, Ready: genReady(r), Ref: p.Name}
					if r.Chance(1, 12) {
						e.Addrs = append(e.Addrs, pickIP(r)) // a second address
					}
					if r.Chance(1, 15) {
						e.Ref = ""
					}
					sl.Eps = append(sl.Eps, e)
				}
				c.Slices = append(c.Slices, sl)
			}
		}
		// manually managed endpoints of a selector-less or pod-less service
		if len(pods) == 0 && r.Chance(1, 2) {
			sl := Slice{Ns: NS, Name: name + "-manual", Svc: name}
			for _, sp := range s.Ports {
				n := sp.Port
				if sp.TKind == 1 {
					n = sp.TNum
				}
				sl.Ports = append(sl.Ports, SlicePort{Name: sp.Name, HasNum: true, Num: n, Proto: sp.Proto})
			}
			for k := 1 + r.Intn(3); k > 0; k-- {
				sl.Eps = append(sl.Eps, Endp{Addrs: []string{pickIP(r)}, Ready: genReady(r)})
			}
			c.Slices = append(c.Slices, sl)
		}
	}
	perturb(r, c)
}

// perturb adds what the property text names: duplicates, foreign slices, odd ports.
func perturb(r *vh.Rng, c *Case) {
	n := len(c.Slices)
	extra := 0
	add := func(s Slice) {
		s.Name = fmt.Sprintf("x%d-%s", extra, s.Name)
		extra++
		c.Slices = append(c.Slices, s)
	}
	for i := 0; i < n; i++ {
		s := c.Slices[i]
		if len(s.Eps) == 0 {
			continue
		}
		if r.Chance(1, 5) { // the same endpoint again in another slice of the service
			d := Slice{Ns: s.Ns, Name: s.Name, Svc: s.Svc, Ports: s.Ports}
			e := s.Eps[r.Intn(len(s.Eps))]
			e2 := Endp{Addrs: append([]string{}, e.Addrs...), Ready: e.Ready, Ref: e.Ref}
			switch r.Intn(6) {
			case 0:
				e2.Ref = e.Ref + "-old" // same address, another pod
			case 1:
				e2.Ready = genReady(r) // same address, another readiness
			case 2:
				e2.Ref = ""
			}
			d.Eps = []Endp{e2}
			add(d)
		}
		if r.Chance(1, 6) { // a slice of ANOTHER service with the same ports (and maybe the same name elsewhere)
			d := Slice{Ns: s.Ns, Name: s.Name, Svc: vh.Pick(r, []string{"other", s.Svc + "-2", "web", ""}), Ports: s.Ports}
			if r.Chance(1, 3) {
				d.Ns, d.Svc = "elsewhere", s.Svc
			}
			for k := 1 + r.Intn(2); k > 0; k-- {
				d.Eps = append(d.Eps, Endp{Addrs: []string{fmt.Sprintf("10.9.9.%d", 1+r.Intn(9))}, Ready: 1, Ref: "foreign"})
			}
			add(d)
		}
		if r.Chance(1, 6) { // a slice of this service exposing ANOTHER port number only
			d := Slice{Ns: s.Ns, Name: s.Name, Svc: s.Svc}
			for _, p := range s.Ports {
				d.Ports = append(d.Ports, SlicePort{Name: p.Name + "x", HasNum: true, Num: p.Num + 1, Proto: p.Proto})
			}
			d.Eps = []Endp{{Addrs: []string{fmt.Sprintf("10.8.8.%d", 1+r.Intn(9))}, Ready: 1, Ref: "otherport"}}
			add(d)
		}
		if r.Chance(1, 8) && len(s.Ports) > 0 { // the same number twice (TCP and UDP), and a port without number
			p := s.Ports[0]
			c.Slices[i].Ports = append(c.Slices[i].Ports, SlicePort{Name: p.Name + "-udp", HasNum: true, Num: p.Num, Proto: "UDP"},
				SlicePort{Name: "nonum", HasNum: false, Proto: "TCP"})
		}
		if r.Chance(1, 10) { // an endpoint listing the same address twice
			c.Slices[i].Eps[0].Addrs = append(c.Slices[i].Eps[0].Addrs, c.Slices[i].Eps[0].Addrs[0])
		}
	}
	// pods in another namespace with the same labels
	if len(c.Pods) > 0 && r.Chance(1, 4) {
		p := c.Pods[r.Intn(len(c.Pods))]
		q := Pod{Ns: "elsewhere", Name: p.Name, IP: p.IP, Labels: p.Labels}
		for _, cp := range p.Ports {
			q.Ports = append(q.Ports, CPort{Name: cp.Name, Num: cp.Num + 7, Proto: cp.Proto})
		}
		c.Pods = append(c.Pods, q)
	}
}

func genBackends(r *vh.Rng, c *Case) {
	nb := 1 + r.Intn(4)
	for i := 0; i < nb; i++ {
		s := c.Svcs[r.Intn(len(c.Svcs))]
		b := Backend{Kind: vh.Pick(r, []string{"ing", "ing", "vs", "vs", "vsr", "ts"}), Svc: s.Name}
		if r.Chance(1, 20) {
			b.Svc = "missing"
		}
		sp := s.Ports[r.Intn(len(s.Ports))]
		b.PortNum = sp.Port
		if b.Kind == "ing" && sp.Name != "" && r.Chance(1, 3) {
			b.PortName, b.PortNum = sp.Name, 0
			if r.Chance(1, 10) {
				b.PortName = "nosuch"
			}
		} else if r.Chance(1, 8) {
			b.PortNum = vh.Pick(r, []int{81, 8080, 9999}) // a number the service may not have
		}
		if b.Kind != "ts" && r.Chance(1, 6) {
			b.ClusterIP = true
		}
		if (b.Kind == "vs" || b.Kind == "vsr") && r.Chance(1, 3) {
			switch r.Intn(4) {
			case 0, 1:
				b.Subsel = [][2]string{{"version", vh.Pick(r, []string{"v1", "v2"})}}
			case 2:
				b.Subsel = [][2]string{{"app", vh.Pick(r, svcNames)}} // overrides the service selector
			default:
				b.Subsel = [][2]string{{"version", "v1"}, {"tier", "x"}}
			}
		}
		if b.Kind == "ing" {
			b.Default = r.Chance(1, 4)
		}
		c.Backends = append(c.Backends, b)
	}
}

// corpus: the witnesses of the theorems named *_refuted and of the corner cases of the
// property text; they run first on every invocation.
func corpus() []Case {
	tcp := "TCP"
	one := func(name string, port, tkind, tnum int, tname string) Svc {
		return Svc{Ns: NS, Name: "web", Type: "ClusterIP", ClusterIP: "10.96.0.1", Selector: [][2]string{{"app", "web"}},
			Ports: []SvcPort{{Name: name, Port: port, Proto: tcp, TKind: tkind, TNum: tnum, TName: tname}}}
	}
	pod := func(name, ip string, ports ...CPort) Pod {
		return Pod{Ns: NS, Name: name, IP: ip, Labels: [][2]string{{"app", "web"}, {"version", "v1"}}, Ports: ports}
	}
	sl := func(name string, pname string, num int, eps ...Endp) Slice {
		return Slice{Ns: NS, Name: name, Svc: "web", Ports: []SlicePort{{Name: pname, HasNum: true, Num: num, Proto: tcp}}, Eps: eps}
	}
	all := func(svc, pname string, pnum int, cip bool) []Backend {
		return []Backend{{Kind: "ing", Svc: svc, PortName: pname, PortNum: pnum, ClusterIP: cip},
			{Kind: "vs", Svc: svc, PortNum: pnum, ClusterIP: cip}, {Kind: "vsr", Svc: svc, PortNum: pnum, ClusterIP: cip},
			{Kind: "ts", Svc: svc, PortNum: pnum}}
	}
	var cs []Case
	// plain: IPv4 + IPv6, ready / not ready / unknown, numeric target port
	cs = append(cs, Case{Class: "corpus-plain", Svcs: []Svc{one("http", 80, 1, 8080, "")},
		Pods: []Pod{pod("web-0", "10.0.0.1"), pod("web-1", "fd00::1")},
		Slices: []Slice{sl("s0", "http", 8080, Endp{Addrs: []string{"10.0.0.1"}, Ready: 1, Ref: "web-0"}, Endp{Addrs: []string{"fd00::1"}, Ready: 1, Ref: "web-1"},
			Endp{Addrs: []string{"10.0.0.3"}, Ready: 0, Ref: "web-2"}, Endp{Addrs: []string{"10.0.0.4"}, Ready: -1, Ref: "web-3"})},
		Backends: append(all("web", "", 80, false), Backend{Kind: "vs", Svc: "web", PortNum: 80, Subsel: [][2]string{{"version", "v1"}}})})
	// F17: IPv6 cluster IP in cluster-IP mode (the VirtualServerRoute branch)
	s6 := one("http", 80, 1, 8080, "")
	s6.ClusterIP = "fd00:10:96::1"
	cs = append(cs, Case{Class: "corpus-clusterip-v6", Svcs: []Svc{s6},
		Slices:   []Slice{sl("s0", "http", 8080, Endp{Addrs: []string{"10.0.0.1"}, Ready: 1, Ref: "web-0"})},
		Backends: all("web", "", 80, true)})
	// F18: named target port, heterogeneous pods: two slices as the EndpointSlice controller makes them
	cs = append(cs, Case{Class: "corpus-named-hetero", Svcs: []Svc{one("http", 80, 2, 0, "web")},
		Pods: []Pod{pod("web-0", "10.0.0.1", CPort{Name: "web", Num: 8080, Proto: tcp}), pod("web-1", "10.0.0.2", CPort{Name: "web", Num: 9090, Proto: tcp})},
		Slices: []Slice{sl("s0", "http", 8080, Endp{Addrs: []string{"10.0.0.1"}, Ready: 1, Ref: "web-0"}),
			sl("s1", "http", 9090, Endp{Addrs: []string{"10.0.0.2"}, Ready: 1, Ref: "web-1"})},
		Backends: all("web", "", 80, false)})
	// unnamed single service port, backend asks for a number the service does not have
	cs = append(cs, Case{Class: "corpus-unnamed-port", Svcs: []Svc{one("", 80, 1, 8080, "")},
		Slices:   []Slice{sl("s0", "", 8080, Endp{Addrs: []string{"10.0.0.1"}, Ready: 1, Ref: "web-0"})},
		Backends: append(all("web", "", 9999, false), Backend{Kind: "vs", Svc: "web", PortNum: 9999, Subsel: [][2]string{{"version", "v1"}}})})
	// the same address under two pod names
	cs = append(cs, Case{Class: "corpus-dup-address", Svcs: []Svc{one("http", 80, 0, 0, "")},
		Slices: []Slice{sl("s0", "http", 80, Endp{Addrs: []string{"10.0.0.1"}, Ready: 1, Ref: "web-0"}),
			sl("s1", "http", 80, Endp{Addrs: []string{"10.0.0.1"}, Ready: 1, Ref: "web-0-old"}, Endp{Addrs: []string{"10.0.0.1"}, Ready: 1, Ref: "web-0"})},
		Backends: all("web", "", 80, false)})
	// ExternalName, numeric and named backend port (NGINX Plus)
	ext := Svc{Ns: NS, Name: "web", Type: "ExternalName", ExtName: "ext.example.com", Ports: []SvcPort{{Name: "http", Port: 80, Proto: tcp}}}
	cs = append(cs, Case{Class: "corpus-externalname", Plus: true, Resolver: true, Svcs: []Svc{ext},
		Backends: append(all("web", "", 80, false), Backend{Kind: "ing", Svc: "web", PortName: "http"})})
	cs = append(cs, Case{Class: "corpus-externalname-oss", Svcs: []Svc{ext}, Backends: all("web", "", 80, false)})
	// nothing usable: all endpoints not ready -> placeholder
	cs = append(cs, Case{Class: "corpus-none-ready", Svcs: []Svc{one("http", 80, 0, 0, "")},
		Slices:   []Slice{sl("s0", "http", 80, Endp{Addrs: []string{"10.0.0.1"}, Ready: 0, Ref: "web-0"}, Endp{Addrs: []string{"10.0.0.2"}, Ready: -1, Ref: "web-1"})},
		Backends: all("web", "", 80, false)})
	plus := cs[len(cs)-1]
	plus.Class, plus.Plus, plus.Resolver = "corpus-none-ready-plus", true, true
	cs = append(cs, plus)
	return cs
}

func main() {
	a := vh.ParseArgs()
	w, err := vh.NewWriter(a.Out)
	if err != nil {
		fmt.Fprintln(os.Stderr, err)
		os.Exit(2)
	}
	defer w.Close()
	_ = version1.NewUpstreamWithDefaultServer
	if a.Replay != "" {
		var cases []Case
		if err := vh.ReadReplay(a.Replay, &cases); err != nil {
			fmt.Fprintln(os.Stderr, err)
			os.Exit(2)
		}
		for i := range cases {
			cases[i].Obs = nil
			runCase(&cases[i])
			w.Emit(cases[i])
		}
		return
	}
	id := 0
	for _, c := range corpus() {
		c := c
		c.ID = id
		id++
		runCase(&c)
		w.Emit(c)
	}
	root := vh.NewRng(a.Seed)
	for i := 0; i < a.N; i++ {
		r := root.Fork(uint64(i))
		c := Case{ID: id, Class: "gen", Plus: r.Chance(1, 3)}
		id++
		c.Resolver = c.Plus && r.Chance(3, 4)
		genCluster(r, &c)
		genBackends(r, &c)
		runCase(&c)
		w.Emit(c)
	}
	// the dynamic family: a quarter as many cases
	for _, c := range dynCorpus() {
		c := c
		c.ID = id
		id++
		runCase(&c)
		w.Emit(c)
	}
	// the resource family (several backends per resource, endpoints-only updates): a third as many cases
	for _, c := range resCorpus() {
		c := c
		c.ID = id
		id++
		runCase(&c)
		w.Emit(c)
	}
	rroot := vh.NewRng(a.Seed ^ 0x7e50c14)
	for i := 0; i < a.N/3; i++ {
		c := genRes(rroot.Fork(uint64(i)), id)
		id++
		runCase(&c)
		w.Emit(c)
	}
	droot := vh.NewRng(a.Seed ^ 0x5eed14d)
	for i := 0; i < a.N/4; i++ {
		c := genDyn(droot.Fork(uint64(i)), id)
		id++
		runCase(&c)
		w.Emit(c)
	}
}
