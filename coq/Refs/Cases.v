(* C15 -- Refs/Cases.v : evaluation of the model (X) and of the decidable specification (S) on the
   cases the harness observed on the implementation.  No proofs here. *)
From Coq Require Import List ZArith String Ascii Bool.
From NIC Require Import Refs.Model.
Import ListNotations.
Open Scope string_scope.
Open Scope list_scope.

Definition b2z (b : bool) : Z := if b then 1%Z else 0%Z.

Definition mem_dep (d : dep) (l : list dep) : bool := existsb (dep_eqb d) l.

Fixpoint dedup (l : list dep) : list dep :=
  match l with
  | [] => []
  | d :: r => if mem_dep d r then dedup r else d :: dedup r
  end.

Definition subset (a b : list string) : bool := forallb (fun x => mem x b) a.
Definition same_set (a b : list string) : bool := subset a b && subset b a.

(* one object of the universe with what the REAL reverse path said about it *)
Record rev := {
  rv_kind : kind; rv_ns : string; rv_name : string;
  rv_direct : bool;          (* the resource is in Configuration.FindResourcesFor<kind>(ns, name)
                                (FindResourcesForService for endpoints, as syncEndpointSlices does) *)
  rv_via : list string;      (* keys of the policies getPoliciesForSecret / getWAFPoliciesFor... returned *)
  rv_req : bool }.           (* endpoints: the *RequiresEndpointsUpdate filter lets the resource through *)

(* (ns, name, valid-by-FindResourcesForPolicy) for every stored policy *)
Definition polfound := (string * string * bool)%type.

(* ---------------------------------------------------------------- S: the specification on the
   implementation's own outputs -- no model function below this line up to [spec_ok] *)

Definition pol_found (pf : list polfound) (k : string) : bool :=
  existsb (fun e => match e with (ns, name, f) => f && String.eqb (key ns name) k end) pf.

(* for an APDosPolicy / APDosLogConf [rv_via] holds the keys of the DosProtectedResources that
   GetDosProtectedThatReferencedDosPolicy / ...DosLogConf returned; such a resource is found when
   FindResourcesForAppProtectDosProtected returned the served resource for it ([rv_direct] of its own entry) *)
Definition dos_found (revs : list rev) (k : string) : bool :=
  existsb (fun r => kind_eqb (rv_kind r) KDos && String.eqb (key (rv_ns r) (rv_name r)) k && rv_direct r) revs.

Definition rev_reaches (revs : list rev) (pf : list polfound) (r : rev) : bool :=
  match rv_kind r with
  | KEndpoints => rv_direct r && rv_req r
  | KDosPolicy | KDosLogConf => existsb (dos_found revs) (rv_via r)
  | _ => rv_direct r || existsb (pol_found pf) (rv_via r)
  end.

(* a dependency observed on the implementation is reachable when some object of the universe with that
   kind and key is mapped back to the resource by the implementation's reverse path *)
Definition dep_reachable (revs : list rev) (pf : list polfound) (d : dep) : bool :=
  existsb (fun r => kind_eqb (rv_kind r) (fst d) && String.eqb (key (rv_ns r) (rv_name r)) (snd d) &&
                    rev_reaches revs pf r) revs.

Definition spec_ok (deps : list dep) (revs : list rev) (pf : list polfound) : bool :=
  forallb (dep_reachable revs pf) deps.

Definition first_unreachable (deps : list dep) (revs : list rev) (pf : list polfound) : Z :=
  (fix go (l : list dep) (i : Z) : Z :=
     match l with
     | [] => (-1)%Z
     | d :: r => if dep_reachable revs pf d then go r (i + 1)%Z else i
     end) deps 0%Z.

(* ---------------------------------------------------------------- X: model against implementation *)

Definition model_deps (e : env) (cl : cluster) (r : resource) : list dep := dedup (map snd (consulted e cl r)).

Definition in_universe (revs : list rev) (d : dep) : bool :=
  existsb (fun r => kind_eqb (rv_kind r) (fst d) && String.eqb (key (rv_ns r) (rv_name r)) (snd d)) revs.

(* (1) every dependency the implementation shows is one the model lists *)
Definition x_deps_in_model (e : env) (cl : cluster) (r : resource) (deps : list dep) : bool :=
  forallb (fun d => mem_dep d (model_deps e cl r)) deps.

(* (2) the model lists nothing the implementation did not look up (DoS look-ups cannot be recorded --
   appprotectdos.Configuration is a concrete type -- so there the observed dependencies are used) *)
Definition x_model_in_lookups (e : env) (cl : cluster) (r : resource) (deps lookups : list dep) (revs : list rev) : bool :=
  let md := model_deps e cl r in
  (* a DosProtectedResource with an unusable APDosPolicy / APDosLogConf yields no DosEx whatever else changes, so
     single-object mutations cannot show the other links of its chain: compare the DoS chain only when every
     referenced DosProtectedResource has all its references usable *)
  let clean := forallb (fun d => match fst d with
                                 | KDos => match lookup_dos cl (snd d) with
                                           | Some p => forallb (ap_ok cl) (dos_hop_items p)
                                           | None => true end
                                 | _ => true end) md in
  forallb (fun d => match fst d with
                    | KDos | KDosPolicy | KDosLogConf => negb clean || negb (in_universe revs d) || mem_dep d deps
                    (* an observed dependency is as good as a recorded look-up: with a NAMED targetPort and no pods yet,
                       getTargetPort fails before the EndpointSlices are listed, yet the first slice + pod of the Service
                       changes the result *)
                    | _ => mem_dep d lookups || mem_dep d deps
                    end) md.

Definition model_direct (e : env) (k : kind) (ns name : string) (r : resource) : bool :=
  match k with
  | KSecret => finds (secret_checker e) ns name r
  | KService | KEndpoints => finds (service_checker e false) ns name r
  | KPolicy => finds policy_checker ns name r
  | KApPolicy => finds (ap_checker i_ap_policy) ns name r
  | KApLogConf => finds (ap_checker i_ap_logconf) ns name r
  | KDos => finds dos_checker ns name r
  | KDosPolicy | KDosLogConf => false
  end.

Definition model_via (cl : cluster) (k : kind) (ns name : string) : list string :=
  match k with
  | KSecret => map policy_key (policies_for_secret cl ns name)
  | KApPolicy | KApLogConf => map policy_key (waf_policies_for cl k (key ns name))
  | KDosPolicy | KDosLogConf => map dos_key (dos_referencing cl k (key ns name))
  | _ => []
  end.

(* (3) the reference checkers, the second hop and the endpoints filter agree object by object *)
Definition x_rev (e : env) (cl : cluster) (r : resource) (revs : list rev) : bool :=
  forallb (fun v =>
    Bool.eqb (model_direct e (rv_kind v) (rv_ns v) (rv_name v) r) (rv_direct v) &&
    same_set (model_via cl (rv_kind v) (rv_ns v) (rv_name v)) (rv_via v) &&
    match rv_kind v with
    | KEndpoints => Bool.eqb (requires_endpoints_update e (rv_name v) r) (rv_req v)
    | _ => true
    end) revs.

(* (4) FindResourcesForPolicy for every stored policy *)
Definition x_pols (r : resource) (pf : list polfound) : bool :=
  forallb (fun e => match e with (ns, name, f) => Bool.eqb (finds policy_checker ns name r) f end) pf.

(* (5) composition: the model's [reaches] equals the composition S uses, object by object *)
Definition x_reaches (e : env) (cl : cluster) (r : resource) (revs : list rev) (pf : list polfound) : bool :=
  forallb (fun v => Bool.eqb (reaches e cl (rv_kind v) (rv_ns v) (rv_name v) r) (rev_reaches revs pf v)) revs.

(* (6) the hypotheses of the theorems hold of what was observed *)
Definition valid_nameb' (s : string) : bool := negb (contains slash s) && negb (contains comma s).
Definition x_wf (cl : cluster) (r : resource) (revs : list rev) : bool :=
  resource_wfb r &&
  forallb (fun p => valid_nameb' (p_ns p) && valid_nameb' (p_name p)) (cl_policies cl) &&
  forallb (fun d => valid_nameb' (d_ns d) && valid_nameb' (d_name d)) (cl_dos cl) &&
  forallb (fun v => valid_nameb' (rv_ns v) && valid_nameb' (rv_name v)) revs.

(* one notification delivered through the real handler and the real lbc.sync *)
Record ev := { ev_kind : kind; ev_ns : string; ev_name : string; ev_op : op; ev_relevant : bool;
               ev_regen : bool; ev_stale : bool;
               ev_dep : bool (* the extended resource was observed to depend on the object (create*Ex level) *);
               ev_material : bool (* the new version differs in what generation reads (the harness knows what it changed);
                                     false for metadata-only updates *) }.

(* S at event level, on the implementation's outputs only: after the event, regenerating the resource
   from the stores does not change its configuration file *)
Definition ev_ok (x : ev) : bool :=
  negb (ev_stale x) &&
  (* ... and a notification about an object the resource depends on makes the controller write the resource's
     configuration again -- unless it is an update that changes nothing generation reads; an update handler that drops
     a material update (same generation, new UID, new content) is not excused.  [ev_stale] also covers: a controller
     started afresh on the same cluster writes a different file. *)
  (negb (ev_dep x) || ev_regen x || match ev_op x with Update => negb (ev_material x) | _ => false end).

Definition ev_spec_ok (evs : list ev) : bool := forallb ev_ok evs.

Definition first_stale (evs : list ev) : Z :=
  (fix go (l : list ev) (i : Z) : Z :=
     match l with
     | [] => (-1)%Z
     | x :: r => if ev_ok x then go r (i + 1)%Z else i
     end) evs 0%Z.

(* X at event level: the resource is regenerated exactly when the model says the event reaches it *)
Definition x_events (e : env) (cl : cluster) (r : resource) (evs : list ev) : bool :=
  forallb (fun x => Bool.eqb (event_reaches e cl (ev_kind x) (ev_op x) (ev_relevant x) (ev_ns x) (ev_name x) r) (ev_regen x)) evs.

(* how many model dependencies sit in a position the code gets wrong *)
Definition refuted_count (e : env) (cl : cluster) (r : resource) : Z :=
  Z.of_nat (List.length (filter (fun c => refuted_pos e (fst c) (fst (snd c))) (consulted e cl r))).

(* row: [id; model agrees; spec holds; nontrivial; #model deps; x1; x2; x3; x4; x5; first unreachable dep; #refuted;
         x6; x7 (events); event spec; first stale event] *)
Definition res_case (id : Z) (e : env) (cl : cluster) (r : resource)
           (deps lookups : list dep) (revs : list rev) (pf : list polfound) (evs : list ev) : list Z :=
  let x1 := x_deps_in_model e cl r deps in
  let x2 := x_model_in_lookups e cl r deps lookups revs in
  let x3 := x_rev e cl r revs in
  let x4 := x_pols r pf in
  let x5 := x_reaches e cl r revs pf in
  let x6 := x_wf cl r revs in
  let x7 := x_events e cl r evs in
  [id; b2z (x1 && x2 && x3 && x4 && x5 && x6 && x7); b2z (spec_ok deps revs pf && ev_spec_ok evs);
   b2z (negb (Nat.eqb (List.length deps) 0)); Z.of_nat (List.length (model_deps e cl r));
   b2z x1; b2z x2; b2z x3; b2z x4; b2z x5; first_unreachable deps revs pf; refuted_count e cl r;
   b2z x6; b2z x7; b2z (ev_spec_ok evs); first_stale evs].

(* the field inventory the model was written against equals what reflection finds now *)
Definition inv_case (id : Z) (fields : list string) : list Z :=
  let mine := map fst inventory in
  [id; b2z (same_set mine fields && Nat.eqb (List.length mine) (List.length fields)); 1%Z; 1%Z;
   Z.of_nat (List.length fields)].
