//go:build verif

package main

// Fixtures that go the whole way through the controller (createVirtualServerEx computes the keys
// of the endpoint sets, the generator computes them again), subselector upstreams, and the
// ConfigMap / custom-template histories.

import (
	"context"
	"fmt"
	"os"
	"path/filepath"
	"sort"

	api_v1 "k8s.io/api/core/v1"
	discovery_v1 "k8s.io/api/discovery/v1"
	networking "k8s.io/api/networking/v1"
	meta_v1 "k8s.io/apimachinery/pkg/apis/meta/v1"
	"k8s.io/apimachinery/pkg/util/intstr"
	"k8s.io/client-go/tools/record"

	"github.com/nginx/kubernetes-ingress/internal/configs"
	"github.com/nginx/kubernetes-ingress/internal/k8s"
	nl "github.com/nginx/kubernetes-ingress/internal/logger"
	"github.com/nginx/kubernetes-ingress/internal/verifh/vh"
	conf_v1 "github.com/nginx/kubernetes-ingress/pkg/apis/configuration/v1"
)

var labelNames = []string{"version", "track", "tier", "zone", "release", "shard"}

// subselector: n labels (2..4 make the label map an unordered collection)
func subselector(r *vh.Rng, n int) map[string]string {
	m := make(map[string]string, n)
	off := r.Intn(len(labelNames))
	for i := 0; i < n; i++ {
		m[labelNames[(off+i)%len(labelNames)]] = fmt.Sprintf("v%d", r.Intn(3))
	}
	return m
}

type ctl struct {
	changes []string // what the Configuration reported when unchanged objects were delivered again
	cmVS    *conf_v1.VirtualServer
	cmIngs  []*networking.Ingress
	want    map[string][]string // per service: the addresses of all pods / "svc|sub": of the labelled pods, each once, sorted
	v       *k8s.VerifC09
	vs      *conf_v1.VirtualServer
	vsrs    []*conf_v1.VirtualServerRoute
}

var ctlCache = map[int]*ctl{}

// vsObjects: the VirtualServer and its routes of a "vsctl" case, rebuilt from the seed
func vsObjects(c *Case) (*conf_v1.VirtualServer, []*conf_v1.VirtualServerRoute) {
	p := map[string]int{}
	for k, v := range c.P {
		p[k] = v
	}
	p["akp"], p["claims"] = 0, 0 // no policies: the policy lister of the fixture controller is empty
	if p["sub"] < 2 {
		p["sub"] = 2
	}
	ex := buildVS(vh.NewRng(c.Seed), p)
	return ex.VirtualServer, ex.VirtualServerRoutes
}

// getCtl builds (once per case) a controller whose stores hold a Service, an EndpointSlice and pods
// for every upstream of the case; half of the pods carry the subselector labels.
func getCtl(c *Case) *ctl {
	if k, ok := ctlCache[c.ID]; ok {
		return k
	}
	k := &ctl{v: k8s.NewVerifC09(c.Plus), want: map[string][]string{}}
	vs, vsrs := vsObjects(c)
	ups := append([]conf_v1.Upstream{}, vs.Spec.Upstreams...)
	for _, r := range vsrs {
		ups = append(ups, r.Spec.Upstreams...)
	}
	for i, u := range ups {
		k.populate(vs.Namespace, u.Service, int32(u.Port), i, u.Subselector, 2*(c.P["eps"]+1)+1)
	}
	ctlCache[c.ID] = k
	return k
}

// populate: a Service with npods pods behind it.  Every second pod carries the subselector labels.  The
// endpoint SET is spread over three EndpointSlices the way real clusters do it: the main slice (one
// endpoint per pod, with targetRef), a mirrored slice that repeats every third address WITHOUT targetRef,
// and a slice written by another controller that repeats the first address under another pod name.  Two
// podEndpoints can therefore share an address and differ in the pod they name.
func (k *ctl) populate(ns, svcName string, port int32, i int, sub map[string]string, npods int) {
	if _, done := k.want[svcName]; done {
		return
	}
	ready := true
	tp := int32(8080)
	_ = k.v.AddService(&api_v1.Service{
		ObjectMeta: meta_v1.ObjectMeta{Name: svcName, Namespace: ns},
		Spec: api_v1.ServiceSpec{Selector: map[string]string{"app": svcName},
			Ports: []api_v1.ServicePort{{Port: port, TargetPort: intstr.FromInt(8080), Protocol: api_v1.ProtocolTCP}}},
	})
	mk := func(suffix string) *discovery_v1.EndpointSlice {
		return &discovery_v1.EndpointSlice{
			ObjectMeta: meta_v1.ObjectMeta{Name: svcName + suffix, Namespace: ns, Labels: map[string]string{"kubernetes.io/service-name": svcName}},
			Ports:      []discovery_v1.EndpointPort{{Port: &tp}},
		}
	}
	main, mirror, other := mk("-slice"), mk("-mirror"), mk("-zcustom")
	var all, labelled []string
	for j := 0; j < npods; j++ {
		ip := fmt.Sprintf("10.%d.%d.%d", 20+i, j/200, 1+j%200)
		pn := fmt.Sprintf("%s-pod-%d", svcName, j)
		lbl := map[string]string{"app": svcName}
		if j%2 == 0 {
			for _, lk := range sortedKeys(sub) {
				lbl[lk] = sub[lk]
			}
			labelled = append(labelled, fmt.Sprintf("%s:8080", ip))
		}
		all = append(all, fmt.Sprintf("%s:8080", ip))
		_ = k.v.AddPod(&api_v1.Pod{ObjectMeta: meta_v1.ObjectMeta{Name: pn, Namespace: ns, Labels: lbl}, Status: api_v1.PodStatus{PodIP: ip}})
		main.Endpoints = append(main.Endpoints, discovery_v1.Endpoint{Addresses: []string{ip}, Conditions: discovery_v1.EndpointConditions{Ready: &ready},
			TargetRef: &api_v1.ObjectReference{Kind: "Pod", Name: pn, Namespace: ns}})
		if j%3 == 0 {
			mirror.Endpoints = append(mirror.Endpoints, discovery_v1.Endpoint{Addresses: []string{ip}, Conditions: discovery_v1.EndpointConditions{Ready: &ready}})
		}
		if j == 0 || j == 2 {
			other.Endpoints = append(other.Endpoints, discovery_v1.Endpoint{Addresses: []string{ip}, Conditions: discovery_v1.EndpointConditions{Ready: &ready},
				TargetRef: &api_v1.ObjectReference{Kind: "Pod", Name: pn + "-replaced", Namespace: ns}})
		}
	}
	_ = k.v.AddSlice(main)
	_ = k.v.AddSlice(mirror)
	_ = k.v.AddSlice(other)
	sort.Strings(all)
	sort.Strings(labelled)
	k.want[svcName], k.want[svcName+"|sub"] = all, labelled
}

// ingress / transport server through the controller
func ingObjects(c *Case) *configs.IngressEx {
	return buildIngress(vh.NewRng(c.Seed), c.P, "cafe-ingress", "cafe.example.com", c.P["ann"], "")
}

func tsObjects(c *Case) *configs.TransportServerEx { return buildTS(vh.NewRng(c.Seed), c.P, 0, false) }

func getCtlFor(c *Case) *ctl {
	if k, ok := ctlCache[c.ID]; ok {
		return k
	}
	if c.Kind == "vsctl" || c.Kind == "controller.Endpoints" {
		return getCtl(c)
	}
	k := &ctl{v: k8s.NewVerifC09(c.Plus), want: map[string][]string{}}
	switch c.Kind {
	case "ingctl":
		ex := ingObjects(c)
		for i, p := range ex.Ingress.Spec.Rules[0].HTTP.Paths {
			k.populate(ex.Ingress.Namespace, p.Backend.Service.Name, p.Backend.Service.Port.Number, i, nil, 2*(c.P["eps"]+1)+1)
		}
	case "tsctl":
		ex := tsObjects(c)
		for i, u := range ex.TransportServer.Spec.Upstreams {
			k.populate(ex.TransportServer.Namespace, u.Service, int32(u.Port), i, nil, 2*(c.P["eps"]+1)+1)
		}
	}
	ctlCache[c.ID] = k
	return k
}

func buildIngCtl(c *Case) *configs.IngressEx {
	k := getCtlFor(c)
	ex := ingObjects(c)
	out := k.v.CreateIngressEx(ex.Ingress, ex.ValidHosts)
	return out
}

func buildTSCtl(c *Case) *configs.TransportServerEx {
	k := getCtlFor(c)
	ex := tsObjects(c)
	return k.v.CreateTransportServerEx(ex.TransportServer, ex.ListenerPort)
}

// ---- cert-manager: one VirtualServer and 2-3 solver Ingresses for its host, through the real
// Configuration (cert-manager enabled); every round an unchanged object is delivered again (a resync)

func solverIngress(ns, host string, i int) *networking.Ingress {
	pt := networking.PathTypeImplementationSpecific
	cls := "nginx"
	return &networking.Ingress{
		ObjectMeta: meta_v1.ObjectMeta{Name: fmt.Sprintf("cm-acme-http-solver-%c%d", 'z'-rune(i), i), Namespace: ns, Generation: 1,
			Labels: map[string]string{"acme.cert-manager.io/http01-solver": "true"}},
		Spec: networking.IngressSpec{IngressClassName: &cls, Rules: []networking.IngressRule{{Host: host, IngressRuleValue: networking.IngressRuleValue{
			HTTP: &networking.HTTPIngressRuleValue{Paths: []networking.HTTPIngressPath{{Path: fmt.Sprintf("/.well-known/acme-challenge/token-%d", i), PathType: &pt,
				Backend: networking.IngressBackend{Service: &networking.IngressServiceBackend{Name: fmt.Sprintf("cm-acme-http-solver-svc-%d", i),
					Port: networking.ServiceBackendPort{Number: 8089}}}}}}}}}},
	}
}

func getCtlCM(c *Case) *ctl {
	if k, ok := ctlCache[c.ID]; ok {
		return k
	}
	k := &ctl{v: k8s.NewVerifC09CertManager(c.Plus), want: map[string][]string{}}
	p := map[string]int{"ups": c.P["ups"], "eps": c.P["eps"], "mix": c.P["mix"]}
	ex := buildVS(vh.NewRng(c.Seed), p)
	vs := ex.VirtualServer
	vs.Generation = 1
	vs.Spec.IngressClass = "nginx"
	for i, u := range vs.Spec.Upstreams {
		k.populate(vs.Namespace, u.Service, int32(u.Port), i, nil, c.P["eps"]+2)
	}
	k.cmVS = vs
	first := k.v.DeliverVirtualServer(vs)
	n := c.P["solvers"]
	if n < 2 {
		n = 2
	}
	for i := 0; i < n; i++ {
		ing := solverIngress(vs.Namespace, vs.Spec.Host, i)
		k.populate(vs.Namespace, ing.Spec.Rules[0].HTTP.Paths[0].Backend.Service.Name, 8089, 10+i, nil, 2)
		k.cmIngs = append(k.cmIngs, ing)
		first = append(first, k.v.DeliverIngress(ing)...)
	}
	_ = first // the initial deliveries legitimately report changes
	ctlCache[c.ID] = k
	return k
}

// buildCMResync: deliver one of the UNCHANGED objects again, then what the controller hands to the Configurator
func buildCMResync(c *Case, round int) []*configs.VirtualServerEx {
	k := getCtlCM(c)
	if round > 0 {
		var rep []string
		if j := round % (len(k.cmIngs) + 1); j < len(k.cmIngs) {
			rep = k.v.DeliverIngress(k.cmIngs[j])
		} else {
			rep = k.v.DeliverVirtualServer(k.cmVS)
		}
		for _, x := range rep {
			if len(k.changes) < 6 {
				k.changes = append(k.changes, fmt.Sprintf("round %d: %s", round, x))
			}
		}
	}
	return k.v.VirtualServerExes()
}

// buildVSCtl: one sync of the controller for the VirtualServer of the case
func buildVSCtl(c *Case) *configs.VirtualServerEx {
	k := getCtl(c)
	if c.P["reuse"] > 0 { // the stored objects themselves, sync after sync
		if k.vs == nil {
			k.vs, k.vsrs = vsObjects(c)
		}
		return k.v.CreateVirtualServerEx(k.vs, k.vsrs)
	}
	vs, vsrs := vsObjects(c)
	return k.v.CreateVirtualServerEx(vs, vsrs)
}

// ---------------------------------------------------------------- settings histories (ConfigMap)

var templateKeys = []struct{ key, dir, oss, plus string }{
	{"main-template", "version1", "nginx.tmpl", "nginx-plus.tmpl"},
	{"ingress-template", "version1", "nginx.ingress.tmpl", "nginx-plus.ingress.tmpl"},
	{"virtualserver-template", "version2", "nginx.virtualserver.tmpl", "nginx-plus.virtualserver.tmpl"},
	{"transportserver-template", "version2", "nginx.transportserver.tmpl", "nginx-plus.transportserver.tmpl"},
}

var configSequences = []struct {
	name  string
	steps []string // per step: "T" custom text T, "U" custom text U, "-" key absent
}{
	{"set-remove-set-same", []string{"T", "-", "T"}},
	{"set-remove-set-other", []string{"T", "-", "U"}},
	{"set-other-set-back", []string{"T", "U", "T"}},
	{"unset-set-unset", []string{"-", "T", "-"}},
	{"set-set-same", []string{"T", "T"}},
	{"set-remove-remove-set-same", []string{"T", "-", "-", "T"}},
	{"other-remove-set", []string{"U", "-", "T"}},
}

// plain settings that ride along in every step (so the ConfigMap parsing path is exercised)
var plainSettings = [][2]string{
	{"proxy-connect-timeout", "11s"}, {"proxy-read-timeout", "22s"}, {"server-tokens", "off"},
	{"worker-processes", "3"}, {"keepalive", "17"}, {"http2", "true"},
}

func customTemplate(plus bool, key int, variant string) (string, error) {
	t := templateKeys[key]
	f := t.oss
	if plus {
		f = t.plus
	}
	b, err := os.ReadFile(filepath.Join(repoRoot, "internal/configs", t.dir, f))
	if err != nil {
		return "", err
	}
	return fmt.Sprintf("# custom %s of the platform team, variant %s\n", t.key, variant) + string(b), nil
}

func configMapFor(c *Case, step string, nplain int) (*api_v1.ConfigMap, error) {
	data := map[string]string{}
	for i := 0; i < nplain && i < len(plainSettings); i++ {
		data[plainSettings[i][0]] = plainSettings[i][1]
	}
	key := c.P["key"] % len(templateKeys)
	if step != "-" {
		t, err := customTemplate(c.Plus, key, step)
		if err != nil {
			return nil, err
		}
		data[templateKeys[key].key] = t
	}
	return &api_v1.ConfigMap{ObjectMeta: meta_v1.ObjectMeta{Name: "nginx-config", Namespace: "nginx-ingress"}, Data: data}, nil
}

// allResources: one resource of every kind, so that every template is used
func allResources(c *Case) configs.ExtendedResources {
	var res configs.ExtendedResources
	p := map[string]int{"ups": 2, "eps": 1, "svcs": 2, "ann": 3, "minions": 2, "n": 1, "hdr": 1}
	r := vh.NewRng(c.Seed)
	res.VirtualServerExes = []*configs.VirtualServerEx{buildVS(r.Fork(1), p)}
	res.IngressExes = []*configs.IngressEx{buildIngress(r.Fork(2), p, "cafe-ingress", "shop.example.com", 3, "")}
	res.MergeableIngresses = []*configs.MergeableIngresses{buildMergeable(r.Fork(3), p)}
	res.TransportServerExes = []*configs.TransportServerEx{buildTS(r.Fork(4), p, 0, false)}
	return res
}

// runConfigHistory: a long-lived Configurator goes through a sequence of ConfigMaps (real
// ParseConfigMap -> CfgParams -> UpdateConfig, as updateAllConfigs does); a fresh Configurator is
// given only the last one.  Same settings, same objects => same files.
func runConfigHistory(c *Case) (obs HistoryObs) {
	defer func() {
		if e := recover(); e != nil {
			obs.Panic = fmt.Sprint(e)
		}
	}()
	seq := configSequences[c.P["seq"]%len(configSequences)]
	obs.Scenario = "config:" + templateKeys[c.P["key"]%len(templateKeys)].key + ":" + seq.name
	ctx := nl.ContextWithLogger(context.Background(), quiet)
	apply := func(cnf *configs.Configurator, mgr *recMgr, step string) (map[string][]byte, error) {
		cm, err := configMapFor(c, step, c.P["plain"])
		if err != nil {
			return nil, err
		}
		cfgParams, _ := configs.ParseConfigMap(ctx, cm, c.Plus, false, false, true, &record.FakeRecorder{})
		cnf.CfgParams = cfgParams
		mgr.changed = false
		store := allResources(c)
		snaps := snapshot(store)
		if _, err := cnf.UpdateConfig(store); err != nil {
			return nil, err
		}
		obs.Mutated = addMutations(obs.Mutated, snaps)
		return mgr.disk(), nil
	}
	dir1 := filepath.Join(workDir, fmt.Sprintf("c09tmp-%d-%d-c1", os.Getpid(), c.ID))
	dir2 := filepath.Join(workDir, fmt.Sprintf("c09tmp-%d-%d-c2", os.Getpid(), c.ID))
	defer os.RemoveAll(dir1)
	defer os.RemoveAll(dir2)
	cnf1, mgr1, err := newConfigurator(dir1, c.Plus)
	if err != nil {
		obs.Error = err.Error()
		return
	}
	var fa, fb, fb2 map[string][]byte
	for i, st := range seq.steps {
		f, err := apply(cnf1, mgr1, st)
		if err != nil {
			obs.Error = fmt.Sprintf("step %d (%s): %v", i, st, err)
			return
		}
		if i == 0 {
			fa = f
		}
		fb = f
	}
	last := seq.steps[len(seq.steps)-1]
	if fb2, err = apply(cnf1, mgr1, last); err != nil {
		obs.Error = err.Error()
		return
	}
	cnf2, mgr2, err := newConfigurator(dir2, c.Plus)
	if err != nil {
		obs.Error = err.Error()
		return
	}
	ff, err := apply(cnf2, mgr2, last)
	if err != nil {
		obs.Error = err.Error()
		return
	}
	obs.A, obs.BAfterA, obs.BAgain, obs.BFresh = digests(fa), digests(fb), digests(fb2), digests(ff)
	// non-trivial when the history passed through settings that render differently from the last ones
	obs.AEqualsB = true
	prev := seq.steps[0]
	for _, st := range seq.steps[1:] {
		if st != prev {
			obs.AEqualsB = false
		}
		prev = st
	}
	obs.BFirst = map[string]string{}
	for n, b := range ff {
		obs.BFirst[n] = string(b)
	}
	names := sortedKeys(ff)
	sort.Strings(names)
	for _, other := range []map[string][]byte{fb, fb2} {
		if obs.Diff != nil {
			break
		}
		for _, n := range names {
			if string(ff[n]) != string(other[n]) {
				obs.Diff = firstDiff(len(seq.steps), n, ff[n], other[n])
				break
			}
		}
	}
	return
}

// ---------------------------------------------------------------- batch versus single
//
// The same resource must be rendered to the same bytes whether it is generated alone or as one of a
// batch, through whichever entry point of the Configurator.

var batchEntries = []string{"AddOrUpdateResources", "AddOrUpdateResources-reversed", "UpdateConfig", "AddOrUpdateVirtualServers",
	"UpdateVirtualServers", "UpdateEndpointsForVirtualServers", "AddOrUpdateAppProtectResource"}

func batchResources(c *Case) configs.ExtendedResources {
	var res configs.ExtendedResources
	r := vh.NewRng(c.Seed)
	n := c.P["nvs"]
	if n < 2 {
		n = 2
	}
	for i := 0; i < n; i++ {
		p := map[string]int{}
		for k, v := range c.P {
			p[k] = v
		}
		p["idx"] = i + 1
		switch i % 3 {
		case 0:
			p["oidc"] = b2i(c.Plus) // the first VirtualServer carries the OIDC policy
			p["akp"], p["keys"] = 1, 2
		case 1:
			p["claims"], p["tiers"], p["mix"] = 2, 2, 1
		case 2:
			p["akp"], p["keys"], p["vsr"] = 2, 3, 1
		}
		res.VirtualServerExes = append(res.VirtualServerExes, buildVS(r.Fork(uint64(i)), p))
	}
	res.IngressExes = []*configs.IngressEx{buildIngress(r.Fork(100), c.P, "shop-ingress", "shop.example.com", c.P["ann"], "")}
	res.TransportServerExes = []*configs.TransportServerEx{buildTS(r.Fork(200), c.P, 0, false)}
	return res
}

func runBatch(c *Case) (obs HistoryObs) {
	defer func() {
		if e := recover(); e != nil {
			obs.Panic = fmt.Sprint(e)
		}
	}()
	entry := batchEntries[c.P["entry"]%len(batchEntries)]
	obs.Scenario = "batch:" + entry
	seq := 0
	fresh := func() (*configs.Configurator, *recMgr, func(), error) {
		seq++
		dir := filepath.Join(workDir, fmt.Sprintf("c09tmp-%d-%d-b%d", os.Getpid(), c.ID, seq))
		cnf, mgr, err := newConfigurator(dir, c.Plus)
		return cnf, mgr, func() { os.RemoveAll(dir) }, err
	}
	// every resource alone, each in its own fresh Configurator
	single := map[string][]byte{}
	all := batchResources(c)
	var ones []configs.ExtendedResources
	for _, ex := range all.VirtualServerExes {
		ones = append(ones, configs.ExtendedResources{VirtualServerExes: []*configs.VirtualServerEx{ex}})
	}
	for _, ex := range all.IngressExes {
		ones = append(ones, configs.ExtendedResources{IngressExes: []*configs.IngressEx{ex}})
	}
	for _, ex := range all.TransportServerExes {
		ones = append(ones, configs.ExtendedResources{TransportServerExes: []*configs.TransportServerEx{ex}})
	}
	for _, one := range ones {
		cnf, mgr, done, err := fresh()
		if err != nil {
			obs.Error = err.Error()
			return
		}
		snaps := snapshot(one)
		_, err = cnf.AddOrUpdateResources(one, false)
		obs.Mutated = addMutations(obs.Mutated, snaps)
		for n, b := range mgr.disk() {
			single[n] = b
		}
		done()
		if err != nil {
			obs.Error = err.Error()
			return
		}
	}
	// the batch, twice through the same Configurator
	cnf, mgr, done, err := fresh()
	if err != nil {
		obs.Error = err.Error()
		return
	}
	defer done()
	batch := func() (map[string][]byte, error) {
		res := batchResources(c)
		snaps := snapshot(res)
		var err error
		switch entry {
		case "AddOrUpdateResources":
			_, err = cnf.AddOrUpdateResources(res, false)
		case "AddOrUpdateResources-reversed":
			v := res.VirtualServerExes
			for i, j := 0, len(v)-1; i < j; i, j = i+1, j-1 {
				v[i], v[j] = v[j], v[i]
			}
			// the OIDC VirtualServer is now generated last, the others before it
			_, err = cnf.AddOrUpdateResources(res, false)
		case "UpdateConfig":
			_, err = cnf.UpdateConfig(res)
		case "AddOrUpdateVirtualServers":
			_, err = cnf.AddOrUpdateVirtualServers(res.VirtualServerExes)
		case "UpdateVirtualServers":
			if errs := cnf.UpdateVirtualServers(res.VirtualServerExes, nil); len(errs) > 0 {
				err = errs[0]
			}
		case "UpdateEndpointsForVirtualServers":
			err = cnf.UpdateEndpointsForVirtualServers(res.VirtualServerExes)
		case "AddOrUpdateAppProtectResource":
			_, err = cnf.AddOrUpdateAppProtectResource(apPolicy("default", "unrelated", 1), res.IngressExes, nil, res.VirtualServerExes)
		}
		obs.Mutated = addMutations(obs.Mutated, snaps)
		if err != nil {
			return nil, err
		}
		// compare per file: what the batch wrote, and the single rendering for what it did not touch
		out := map[string][]byte{}
		for n, b := range single {
			out[n] = b
		}
		for n, b := range mgr.disk() {
			if n != "nginx.conf" {
				out[n] = b
			}
		}
		return out, nil
	}
	fb, err := batch()
	if err != nil {
		obs.Error = err.Error()
		return
	}
	fb2, err := batch()
	if err != nil {
		obs.Error = err.Error()
		return
	}
	obs.BAfterA, obs.BAgain, obs.BFresh = digests(fb), digests(fb2), digests(single)
	obs.A = obs.BFresh
	obs.AEqualsB = false
	obs.BFirst = map[string]string{}
	for n, b := range single {
		obs.BFirst[n] = string(b)
	}
	for _, other := range []map[string][]byte{fb, fb2} {
		if obs.Diff != nil {
			break
		}
		for _, n := range sortedKeys(other) {
			if string(single[n]) != string(other[n]) {
				obs.Diff = firstDiff(0, n, single[n], other[n])
				break
			}
		}
	}
	return
}
